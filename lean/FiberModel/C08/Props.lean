import FiberModel.C08.Lemmas
/-
C08 — property theorems (model of the repaired code ⊑ spec), for every configuration, every mount
table, every iteration order of the map, every path and every chain result / server error. No size
bound anywhere.

The map `appList` is a list of entries with pairwise different keys; "any iteration order" is "any
permutation of that list". Keys are told apart as the ROUTER tells mounts apart (`normKey`: leading
slash added, letter case folded unless CaseSensitive): two apps mounted at "/api" and "/API" of a
case-insensitive app, or at "api" and "/api", are one mount point to the router (the first one
registered serves every request), and such tables are outside (hypothesis `Nodup`).

`_partial` theorems carry the hypothesis `Known.K1 … = false` (known finding K1: parameterised mount
prefixes); the theorems without it hold for every table (or, where stated, for every table without
a parameterised prefix).
-/
namespace C08
open B C04 C08.Known

/-- Two mount prefixes of equal length that both contain the path on a segment boundary are the
same prefix: what makes a deterministic choice by length possible. -/
theorem boundary_match_unique {a b p : Bytes} (ha : containsRaw a p = true) (hb : containsRaw b p = true)
    (hl : a.length = b.length) : a = b :=
  prefix_eq_of_length_eq (containsRaw_prefix ha) (containsRaw_prefix hb) hl

example : containsRaw (b "/api") (b "/api/x") = true ∧ containsRaw (b "/api") (b "/api-v2/x") = false ∧
    containsRaw (b "/api-v2") (b "/api-v2/x") = true ∧ containsRaw (b "/") (b "/api") = true ∧
    containsRaw (b "/api/") (b "/api/x") = true ∧ containsRaw (b "/api") (b "/api") = true := by decide

/-- The same for keys as registered, under any configuration: equally long (as mounted) prefixes
that both contain the path are the same mount point for the router. -/
theorem boundary_match_unique_folded {cfg : Cfg} {a b p : Bytes} (ha : contains cfg a p = true)
    (hb : contains cfg b p = true) (hl : (mountedAt a).length = (mountedAt b).length) :
    fold cfg (mountedAt a) = fold cfg (mountedAt b) :=
  prefix_eq_of_length_eq (containsRaw_prefix ha) (containsRaw_prefix hb) (by simpa using hl)

example : contains ⟨false, false⟩ (b "/API") (b "/api/x") = true ∧ contains ⟨true, false⟩ (b "/API") (b "/api/x") = false ∧
    contains ⟨false, false⟩ (b "api") (b "/Api/x") = true ∧ contains ⟨false, false⟩ (b "/:t") (b "/acme/x") = false ∧
    coversPat ⟨false, false⟩ (b "/:t") (b "/acme/x") = some 5 ∧ coversPat ⟨false, false⟩ (b "/:t/api") (b "/acme/apix") = none ∧
    coversPat ⟨false, false⟩ (b "/:t/api") (b "/acme/API/x") = some 9 ∧ coversPat ⟨true, false⟩ (b "/:t") (b "//x") = none := by
  decide

/-- The code's test (app.go hasMountPrefix, on the key with the leading slash the loop adds) is the
spec's literal `contains`, for every configuration. -/
theorem hasMountPrefix_eq_contains (cfg : Cfg) (path k : Bytes) :
    hasMountPrefix cfg path (ensureSlash k) = contains cfg k path :=
  hasMountPrefix_eq_contains' cfg path k

/-- What the loop of `App.ErrorHandler` computes, for EVERY table (parameterised prefixes included):
the handler of the innermost mounted app that configured one and contains the path literally. -/
theorem select_eq_literal (cfg : Cfg) (l : List Mounted) (path : Bytes)
    (hnd : (l.map (fun m => normKey cfg m.pre)).Nodup) :
    select cfg l path = selectLiteral cfg l path := by
  unfold selectLiteral
  rcases select_char cfg l path with ⟨hno, hs⟩ | ⟨x, hbest, hs⟩
  · have : literalCandidates cfg l path = [] := by
      apply List.eq_nil_iff_forall_not_mem.mpr
      intro m hm
      exact hno m (mem_literalCandidates.mp hm).1 (mem_literalCandidates.mp hm).2
    rw [hs, this]; rfl
  · cases hi : innermost cfg path (literalCandidates cfg l path) with
    | none =>
      have := innermost_none.mp hi
      have hx : x ∈ literalCandidates cfg l path := mem_literalCandidates.mpr ⟨hbest.1, hbest.2.1⟩
      rw [this] at hx; cases hx
    | some z =>
      obtain ⟨hz, hzmax⟩ := innermost_some hi
      have hzc := (mem_literalCandidates.mp hz)
      have hzb : Best cfg l path z := by
        refine ⟨hzc.1, hzc.2, ?_⟩
        intro y hy hcy
        have := hzmax y (mem_literalCandidates.mpr ⟨hy, hcy⟩)
        rw [reach_literal (cand_iff_literal.mp hcy).2.2, reach_literal (cand_iff_literal.mp hzc.2).2.2] at this
        omega
      have := best_unique hnd hbest hzb
      subst this
      rw [hs]; rfl

example : select ⟨false, false⟩ [⟨[], none⟩, ⟨b "/api", some ⟨1, false⟩⟩, ⟨b "/API-v2", some ⟨2, false⟩⟩,
      ⟨b "/:t", some ⟨3, false⟩⟩] (b "/Api-V2/x") = some ⟨2, false⟩ := by decide

/-- Outside the region of known finding K1 the loop of `App.ErrorHandler` computes the spec's
choice: the handler of the innermost mounted app that configured one and whose prefix — read as
the router reads it — contains the path on a segment boundary.
Full statement (false on the unchanged tree, see `select_eq_spec_witness_K1`):
  ∀ cfg l path, Nodup keys → select cfg l path = selectSpec cfg l path. -/
theorem select_eq_spec_partial (cfg : Cfg) (l : List Mounted) (path : Bytes)
    (hnd : (l.map (fun m => normKey cfg m.pre)).Nodup) (hK : K1 cfg l path = false) :
    select cfg l path = selectSpec cfg l path := by
  unfold selectSpec
  cases hi : innermost cfg path (candidates cfg l path) with
  | none =>
    have hnil := innermost_none.mp hi
    rcases select_char cfg l path with ⟨_, hs⟩ | ⟨x, hbest, _⟩
    · rw [hs]; rfl
    · have hc := cand_iff_literal.mp hbest.2.1
      have : x ∈ candidates cfg l path := mem_candidates.mpr ⟨hbest.1, hc.1, hc.2.1, Or.inl hc.2.2⟩
      rw [hnil] at this; cases this
  | some z =>
    obtain ⟨hz, hzmax⟩ := innermost_some hi
    have hzl : contains cfg z.pre path = true := by
      unfold K1 at hK
      rw [hi] at hK
      simpa using hK
    have hzm := mem_candidates.mp hz
    have hzc : Cand cfg path z := cand_iff_literal.mpr ⟨hzm.2.1, hzm.2.2.1, hzl⟩
    have hzb : Best cfg l path z := by
      refine ⟨hzm.1, hzc, ?_⟩
      intro y hy hcy
      have hyl := cand_iff_literal.mp hcy
      have := hzmax y (mem_candidates.mpr ⟨hy, hyl.1, hyl.2.1, Or.inl hyl.2.2⟩)
      rw [reach_literal hyl.2.2, reach_literal hzl] at this
      omega
    rcases select_char cfg l path with ⟨hno, _⟩ | ⟨x, hbest, hs⟩
    · exact absurd hzc (hno z hzm.1)
    · have := best_unique hnd hbest hzb
      subst this
      rw [hs]; rfl

example : K1 ⟨false, false⟩ [⟨[], none⟩, ⟨b "/:t", some ⟨1, false⟩⟩, ⟨b "/acme/sub", some ⟨2, false⟩⟩]
      (b "/acme/sub/e") = false ∧
    (([⟨[], none⟩, ⟨b "/:t", some ⟨1, false⟩⟩, ⟨b "/acme/sub", some ⟨2, false⟩⟩] : List Mounted).map
      (fun m => normKey ⟨false, false⟩ m.pre)).Nodup := by decide

/-- K1 on the real code's model: an app mounted at `/:tenant` with its own handler, request
`/acme/e` — the sentence designates handler 1, the loop selects none (the root's runs). -/
theorem select_eq_spec_witness_K1 :
    ¬ (select ⟨false, false⟩ [⟨[], some ⟨0, false⟩⟩, ⟨b "/:tenant", some ⟨1, false⟩⟩] (b "/acme/e") =
       selectSpec ⟨false, false⟩ [⟨[], some ⟨0, false⟩⟩, ⟨b "/:tenant", some ⟨1, false⟩⟩] (b "/acme/e")) := by
  decide

example : K1 ⟨false, false⟩ [⟨[], some ⟨0, false⟩⟩, ⟨b "/:tenant", some ⟨1, false⟩⟩] (b "/acme/e") = true := by
  decide

/-- The region K1 is no wider than the defect: when every mounted app has its own handler value
(no two entries share one), EVERY table/path inside K1 is a genuine failure — the loop does not
return the handler the sentence designates. -/
theorem K1_is_failure (cfg : Cfg) (l : List Mounted) (path : Bytes)
    (hown : ∀ x ∈ l, ∀ y ∈ l, x.own ≠ none → x.own = y.own → x = y)
    (hK : K1 cfg l path = true) : select cfg l path ≠ selectSpec cfg l path := by
  unfold K1 at hK
  unfold selectSpec
  cases hi : innermost cfg path (candidates cfg l path) with
  | none => rw [hi] at hK; cases hK
  | some z =>
    rw [hi] at hK
    have hzl : contains cfg z.pre path = false := by simpa using hK
    obtain ⟨hz, _⟩ := innermost_some hi
    have hzm := mem_candidates.mp hz
    show select cfg l path ≠ z.own
    rcases select_char cfg l path with ⟨_, hs⟩ | ⟨x, hbest, hs⟩
    · rw [hs]; exact fun h => hzm.2.2.1 h.symm
    · rw [hs]
      intro hxz
      have hxl := (cand_iff_literal.mp hbest.2.1)
      have := hown x hbest.1 z hzm.1 hxl.2.1 hxz
      subst this
      rw [hxl.2.2] at hzl; cases hzl

example : ∀ x ∈ ([⟨[], some ⟨0, false⟩⟩, ⟨b "/:tenant", some ⟨1, false⟩⟩] : List Mounted),
    ∀ y ∈ ([⟨[], some ⟨0, false⟩⟩, ⟨b "/:tenant", some ⟨1, false⟩⟩] : List Mounted),
    x.own ≠ none → x.own = y.own → x = y := by decide

/-- no key of the table has a parameter segment -/
def LiteralTable (l : List Mounted) : Prop := l.all (fun m => paramFree m.pre) = true

instance (l : List Mounted) : Decidable (LiteralTable l) := by unfold LiteralTable; exact inferInstance

theorem K1_false_of_literal {cfg : Cfg} {l : List Mounted} {path : Bytes} (hlit : LiteralTable l) :
    K1 cfg l path = false := by
  unfold K1
  cases hi : innermost cfg path (candidates cfg l path) with
  | none => rfl
  | some z =>
    obtain ⟨hz, _⟩ := innermost_some hi
    have hzm := mem_candidates.mp hz
    have : contains cfg z.pre path = true := by
      rcases hzm.2.2.2 with h | h
      · exact h
      · exact coversPat_paramFree (List.all_eq_true.mp hlit z hzm.1) h
    simp [this]

/-- For every table without parameterised prefixes — under every configuration (CaseSensitive or
not), keys with or without leading slash — the loop returns the spec's choice (full strength). -/
theorem select_eq_spec (cfg : Cfg) (l : List Mounted) (path : Bytes)
    (hnd : (l.map (fun m => normKey cfg m.pre)).Nodup) (hlit : LiteralTable l) :
    select cfg l path = selectSpec cfg l path :=
  select_eq_spec_partial cfg l path hnd (K1_false_of_literal hlit)

example : LiteralTable [⟨[], none⟩, ⟨b "/api", some ⟨1, false⟩⟩, ⟨b "api-v2", some ⟨2, false⟩⟩, ⟨b "/API/v2", none⟩] := by
  decide

/-- The selected handler does not depend on the order in which the map is iterated — for every
table (parameterised prefixes included) and every configuration. -/
theorem select_perm_invariant {cfg : Cfg} {l₁ l₂ : List Mounted} (path : Bytes) (h : l₁.Perm l₂)
    (hnd : (l₁.map (fun m => normKey cfg m.pre)).Nodup) : select cfg l₁ path = select cfg l₂ path := by
  have hnd₂ : (l₂.map (fun m => normKey cfg m.pre)).Nodup := (h.map _).nodup_iff.mp hnd
  have hbest : ∀ x, Best cfg l₁ path x → Best cfg l₂ path x := by
    intro x hx
    exact ⟨h.mem_iff.mp hx.1, hx.2.1, fun y hy hc => hx.2.2 y (h.mem_iff.mpr hy) hc⟩
  rcases select_char cfg l₁ path with ⟨hno₁, hs₁⟩ | ⟨x, hb₁, hs₁⟩
  · rcases select_char cfg l₂ path with ⟨_, hs₂⟩ | ⟨y, hb₂, _⟩
    · rw [hs₁, hs₂]
    · exact absurd hb₂.2.1 (hno₁ y (h.mem_iff.mpr hb₂.1))
  · rcases select_char cfg l₂ path with ⟨hno₂, _⟩ | ⟨y, hb₂, hs₂⟩
    · exact absurd hb₁.2.1 (hno₂ x (h.mem_iff.mp hb₁.1))
    · have := best_unique hnd₂ (hbest x hb₁) hb₂
      subst this
      rw [hs₁, hs₂]

example : [⟨b "/api", some ⟨1, false⟩⟩, ⟨b "/api-v2", some ⟨2, false⟩⟩].Perm
    [⟨b "/api-v2", some ⟨2, false⟩⟩, (⟨b "/api", some ⟨1, false⟩⟩ : Mounted)] :=
  List.Perm.swap _ _ _

/-- the code before the first fix: the same table, two iteration orders, two different handlers -/
theorem old_order_dependent :
    selectOld [⟨b "/api", some ⟨1, false⟩⟩, ⟨b "/api-v2", some ⟨2, false⟩⟩] (b "/api-v2/x") ≠
    selectOld [⟨b "/api-v2", some ⟨2, false⟩⟩, ⟨b "/api", some ⟨1, false⟩⟩] (b "/api-v2/x") := by decide

theorem funnel_of_select {cfg : Cfg} {l l' : List Mounted} (rootOwn : Option Own) (path : Bytes)
    (chain : Option Err) (hsel : select cfg l' path = selectSpec cfg l path) :
    funnel cfg l' rootOwn path chain = expected cfg l rootOwn path chain := by
  cases chain with
  | none => rfl
  | some e =>
    unfold funnel expected errorHandler designated
    rw [hsel]
    cases hs : selectSpec cfg l path with
    | some o =>
      simp only [invoke]
      by_cases hf : o.fails <;> simp [hf]
    | none =>
      cases rootOwn with
      | none => cases e <;> simp [invoke, defaultHandler, Err.msg]
      | some o =>
        simp only [invoke]
        by_cases hf : o.fails <;> simp [hf]

/-- Outside K1 the funnel meets the spec for EVERY iteration order of the map: the outcome (who ran
and how often, status, body) is the one the property designates.
Full statement (false on the unchanged tree, see `funnel_meets_spec_witness_K1`): the same without `hK`. -/
theorem funnel_meets_spec_partial {cfg : Cfg} {l l' : List Mounted} (rootOwn : Option Own) (path : Bytes)
    (chain : Option Err) (hperm : l.Perm l') (hnd : (l.map (fun m => normKey cfg m.pre)).Nodup)
    (hK : K1 cfg l path = false) :
    funnel cfg l' rootOwn path chain = expected cfg l rootOwn path chain :=
  funnel_of_select rootOwn path chain
    (by rw [← select_perm_invariant path hperm hnd, select_eq_spec_partial cfg l path hnd hK])

theorem funnel_meets_spec_witness_K1 :
    ¬ (funnel ⟨false, false⟩ [⟨[], some ⟨0, false⟩⟩, ⟨b "/:tenant", some ⟨1, false⟩⟩] (some ⟨0, false⟩)
        (b "/acme/e") (some (.plain (b "boom"))) =
       expected ⟨false, false⟩ [⟨[], some ⟨0, false⟩⟩, ⟨b "/:tenant", some ⟨1, false⟩⟩] (some ⟨0, false⟩)
        (b "/acme/e") (some (.plain (b "boom")))) := by
  decide

/-- For every table without parameterised prefixes the funnel meets the spec for every
configuration, iteration order, path and chain result (full strength). -/
theorem funnel_meets_spec {cfg : Cfg} {l l' : List Mounted} (rootOwn : Option Own) (path : Bytes)
    (chain : Option Err) (hperm : l.Perm l') (hnd : (l.map (fun m => normKey cfg m.pre)).Nodup)
    (hlit : LiteralTable l) :
    funnel cfg l' rootOwn path chain = expected cfg l rootOwn path chain :=
  funnel_meets_spec_partial rootOwn path chain hperm hnd (K1_false_of_literal hlit)

/-- An error returned by the chain is delivered to exactly one handler exactly once; no error, no
call. Every table, every configuration. -/
theorem exactly_once (cfg : Cfg) (l : List Mounted) (rootOwn : Option Own) (path : Bytes) :
    funnel cfg l rootOwn path none = none ∧
    ∀ e, ∃ o, funnel cfg l rootOwn path (some e) = some o ∧ o.ran.length = 1 := by
  refine ⟨rfl, ?_⟩
  intro e
  simp only [funnel]
  generalize errorHandler cfg l rootOwn path e = x
  rcases x with ⟨r, _ | ⟨st, body⟩⟩
  · exact ⟨⟨[r], 500, b "Internal Server Error"⟩, rfl, rfl⟩
  · exact ⟨⟨[r], st, body⟩, rfl, rfl⟩

/-- Under the default handler the status of a framework error value becomes the response status;
any other error gives 500; the body is the error's message. -/
theorem status_of_error (cfg : Cfg) (l : List Mounted) (path : Bytes) (e : Err)
    (hsel : select cfg l path = none) :
    funnel cfg l none path (some e) =
      some ⟨[.default], (match e with | .fiber c _ => c | .plain _ => 500), e.msg⟩ := by
  unfold funnel errorHandler
  rw [hsel]
  cases e <;> simp [invoke, defaultHandler, Err.msg]

example : funnel ⟨false, false⟩ (appList none []) none (b "/x") (some (.fiber 404 (b "Cannot GET /x")))
    = some ⟨[.default], 404, b "Cannot GET /x"⟩ := by decide

/-- A failing error handler — mounted or root — yields a 500. -/
theorem failing_handler_500 (cfg : Cfg) (l : List Mounted) (rootOwn : Option Own) (path : Bytes) (e : Err) (o : Own)
    (hsel : select cfg l path = some o ∨ (select cfg l path = none ∧ rootOwn = some o)) (hf : o.fails = true) :
    funnel cfg l rootOwn path (some e) = some ⟨[.custom o.id], 500, b "Internal Server Error"⟩ := by
  unfold funnel errorHandler
  rcases hsel with hs | ⟨hs, hr⟩
  · rw [hs]; simp [invoke, hf]
  · rw [hs, hr]; simp [invoke, hf]

example : funnel ⟨false, false⟩ (appList none [.mk [] (b "/api") (some ⟨1, true⟩) []]) none (b "/API/e")
    (some (.plain (b "boom"))) = some ⟨[.custom 1], 500, b "Internal Server Error"⟩ := by decide

/-! ### errors before routing -/

/-- `serverErrorHandler`'s switch is the spec's table, for every error fasthttp can hand over
(every combination of what the switch tests, every text). -/
theorem mapServerErr_eq_spec (e : SrvErr) : mapServerErr e = specServerErr e := by
  obtain ⟨a, c, d, f, g, m⟩ := e
  cases a <;> cases c <;> cases d <;> cases f <;> cases g <;> simp [mapServerErr, specServerErr]

/-- a server error always enters the funnel as a framework error with one of six statuses -/
theorem server_error_status (e : SrvErr) :
    ∃ c m, mapServerErr e = .fiber c m ∧ c ∈ [431, 408, 502, 413, 405, 400] := by
  unfold mapServerErr
  by_cases h1 : e.smallBuffer = true
  · exact ⟨431, b "Request Header Fields Too Large", by simp [h1], by simp⟩
  by_cases h2 : e.opTimeout = true
  · exact ⟨408, b "Request Timeout", by simp [h1, h2], by simp⟩
  by_cases h3 : e.netError = true
  · exact ⟨502, b "Bad Gateway", by simp [h1, h2, h3], by simp⟩
  by_cases h4 : e.bodyTooLarge = true
  · exact ⟨413, b "Request Entity Too Large", by simp [h1, h2, h3, h4], by simp⟩
  by_cases h5 : e.getOnly = true
  · exact ⟨405, b "Method Not Allowed", by simp [h1, h2, h3, h4, h5], by simp⟩
  by_cases h6 : (indexOf e.msg (b "timeout")).isSome = true
  · exact ⟨408, b "Request Timeout", by simp [h1, h2, h3, h4, h5, h6], by simp⟩
  · exact ⟨400, e.msg, by simp [h1, h2, h3, h4, h5, h6], by simp⟩

/-- A server error (header too large, body too large, bad request, …) is delivered exactly once to
exactly one handler, for every table, order and configuration. -/
theorem server_exactly_once (cfg : Cfg) (l : List Mounted) (rootOwn : Option Own) (path : Bytes) (e : SrvErr) :
    ∃ o, serverFunnel cfg l rootOwn path e = some o ∧ o.ran.length = 1 :=
  (exactly_once cfg l rootOwn path).2 (mapServerErr e)

/-- Outside K1, for every iteration order: the server-error funnel calls the handler designated for
the path the broken request's context carries, with the status/body of the spec's table. -/
theorem server_funnel_meets_spec_partial {cfg : Cfg} {l l' : List Mounted} (rootOwn : Option Own)
    (path : Bytes) (e : SrvErr) (hperm : l.Perm l') (hnd : (l.map (fun m => normKey cfg m.pre)).Nodup)
    (hK : K1 cfg l path = false) :
    serverFunnel cfg l' rootOwn path e = expectedServer cfg l rootOwn path e := by
  unfold serverFunnel expectedServer
  rw [mapServerErr_eq_spec]
  exact funnel_meets_spec_partial rootOwn path _ hperm hnd hK

/-- … and at full strength for tables without parameterised prefixes. -/
theorem server_funnel_meets_spec {cfg : Cfg} {l l' : List Mounted} (rootOwn : Option Own)
    (path : Bytes) (e : SrvErr) (hperm : l.Perm l') (hnd : (l.map (fun m => normKey cfg m.pre)).Nodup)
    (hlit : LiteralTable l) :
    serverFunnel cfg l' rootOwn path e = expectedServer cfg l rootOwn path e :=
  server_funnel_meets_spec_partial rootOwn path e hperm hnd (K1_false_of_literal hlit)

example : serverFunnel ⟨false, false⟩ (appList none [.mk [] (b "/api") (some ⟨1, false⟩) []]) none (b "/")
      ⟨true, false, false, false, false, b "small read buffer"⟩
    = some ⟨[.default], 431, b "Request Header Fields Too Large"⟩ ∧
  serverFunnel ⟨false, false⟩ (appList none [.mk [] (b "/api") (some ⟨1, false⟩) []]) none (b "/api/p")
      ⟨false, false, false, true, false, b "body size exceeds the given limit"⟩
    = some ⟨[.custom 1], 418, b "eh1:Request Entity Too Large"⟩ := by decide

/-! ### appList keys -/

/-- appList keys of a nested mount do not depend on whether the inner app was mounted before or
after the outer one: mount.go `mount` computes `getGroupPath(k1, getGroupPath(k2, k3))` (what
`nodeKeys` transcribes), `appendSubAppLists` computes `getGroupPath(getGroupPath(k1, k2), k3)` for an
app mounted late — the same key. -/
theorem appList_key_assoc (k1 k2 k3 : Bytes) :
    getGroupPath k1 (getGroupPath k2 k3) = getGroupPath (getGroupPath k1 k2) k3 :=
  (getGroupPath_assoc k1 k2 k3).symm

/-- a concrete non-trivial table (mount from a group under a group, look-alike siblings, three deep) -/
example : (appList (some ⟨0, false⟩)
      [.mk [] (b "/api") (some ⟨1, false⟩) [.mk [b "/g", b "h/"] (b "v2/") none [.mk [] (b "in") (some ⟨3, false⟩) []]],
       .mk [] (b "/api-v2") (some ⟨2, false⟩) []]).map (·.pre)
    = [[], b "/api", b "/api/g/h/v2", b "/api/g/h/v2/in", b "/api-v2"] := by decide

end C08
