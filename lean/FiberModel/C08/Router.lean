import FiberModel.C08.Lemmas
import FiberModel.C02.Written
/-
C08 — the code's reading of a pattern key is the router's reading (`coversRouter`): what
`mountPrefixLen` computes with the parser made at startup is the shortest leading part of the path,
ending on a segment boundary, that fiber's `RoutePatternMatch` accepts for the prefix.
-/
namespace C08
open B C04

/-- the context's detection path is the router's reading of the path, letters folded as the router
folds them -/
theorem detOf_eq_fold (cfg : Cfg) (path : Bytes) : detOf cfg path = fold cfg (routerPath cfg path) := by
  unfold detOf routerPath
  by_cases hcs : cfg.caseSensitive = true
  · simp only [hcs, if_true, fold_cs hcs]
  · have hcs' : cfg.caseSensitive = false := by simpa using hcs
    simp only [hcs', Bool.false_eq_true, if_false, fold_ci hcs']
    have hl : (toLower path).length = path.length := toLower_length path
    have hg : ((toLower path).getLast? == some 47) = (path.getLast? == some 47) := by
      have := fold_getLast_slash cfg path
      rwa [fold_ci hcs'] at this
    rw [hl, hg]
    by_cases hc : (!cfg.strict && decide (path.length > 1) && path.getLast? == some 47) = true
    · simp only [hc, if_true]
      rw [trimRight_eq_trimR, trimRight_eq_trimR, trimR_toLower]
    · simp only [hc]
      simp

theorem fold_take (cfg : Cfg) (s : Bytes) (n : Nat) : fold cfg (s.take n) = (fold cfg s).take n := by
  simp [fold, List.map_take]

/-- the pattern the parser is made from at startup -/
def kp (cfg : Cfg) (k : Bytes) : Bytes :=
  if cfg.caseSensitive then ensureSlash k else toLower (ensureSlash k)

theorem parseKey_def (cfg : Cfg) (k : Bytes) :
    parseKey cfg k = (C02.parseRouteW (kp cfg k) (ensureSlash k)).map (·.segs) := rfl

theorem kp_length (cfg : Cfg) (k : Bytes) : (kp cfg k).length = (ensureSlash k).length := by
  unfold kp; by_cases hcs : cfg.caseSensitive = true <;> simp [hcs, toLower_length]

/-- the pattern and the written text `RoutePatternMatch` parses for the prefix are the ones parsed
at startup -/
theorem rpm_parse (cfg : Cfg) (k : Bytes) :
    C02.prettyPattern ⟨cfg.caseSensitive, true, false⟩ (mountedAt k) = kp cfg k ∧
    (C02.rawPattern (mountedAt k)).take (kp cfg k).length = ensureSlash k := by
  have hne : ensureSlash k ≠ [] := ensureSlash_ne_nil k
  have hh := ensureSlash_head k
  unfold C02.prettyPattern C02.rawPattern mountedAt kp
  cases he : ensureSlash k with
  | nil => exact absurd he hne
  | cons a t =>
    rw [he] at hh; simp at hh; subst hh
    by_cases hcs : cfg.caseSensitive = true <;> simp [hcs, C02.SLASH, toLower_length]

theorem getMatch_star (chk : C02.Constraint → Bytes → Bool) (det path : Bytes) (h : det.head? = some 47) :
    (C02.getMatch chk [{ const := [47], length := 1, hasOptionalSlash := true },
               { paramName := [42, 49], isParam := true, isGreedy := true, isOptional := true, isLast := true }]
      det path false).isSome = true := by
  cases det with
  | nil => simp at h
  | cons a t =>
    simp only [List.head?_cons, Option.some.injEq] at h
    subst h
    cases t with
    | nil => simp [C02.getMatch, C02.paramLen, C02.fullConst, C02.findParamLen, C02.findParamLenForLastSegment]
    | cons c u => simp [C02.getMatch, C02.paramLen, C02.fullConst, C02.findParamLen, C02.findParamLenForLastSegment]

/-- a key whose pattern declares at least one parameter (`/:tenant`, `/*`, `/v:n?`, …); the keys
outside are the ones that only escape characters (`/a\:b`) -/
def keyHasParams (cfg : Cfg) (k : Bytes) : Bool :=
  let pattern := ensureSlash k
  let pretty := if cfg.caseSensitive then pattern else toLower pattern
  match C02.parseRouteW pretty pattern with
  | none => true
  | some pp => pp.params.length > 0

theorem keyHasParams_def (cfg : Cfg) (k : Bytes) :
    keyHasParams cfg k = match C02.parseRouteW (kp cfg k) (ensureSlash k) with
      | none => true
      | some pp => decide (pp.params.length > 0) := rfl

theorem fold_head_slash {cfg : Cfg} {p : Bytes} (hp : p.head? = some 47) : (fold cfg p).head? = some 47 := by
  cases p with
  | nil => simp at hp
  | cons a t =>
    simp only [List.head?_cons, Option.some.injEq] at hp
    subst hp
    simp [fold, fb, lowerByte, isUpper]

/-- what `RoutePatternMatch` answers for a leading part of the path is what `getMatch` answers with
the parser made at startup -/
theorem rpm_eq_getMatch (chk : C02.Constraint → Bytes → Bool) (cfg : Cfg) (k p : Bytes)
    (hparams : keyHasParams cfg k = true) (hp : p.head? = some 47) :
    (C02.routePatternMatch chk ⟨cfg.caseSensitive, true, false⟩ p (mountedAt k) == some true) =
      match parseKey cfg k with
      | none => false
      | some segs => (C02.getMatch chk segs (fold cfg p) p false).isSome := by
  have hpne : p.isEmpty = false := by cases p <;> simp at hp ⊢
  obtain ⟨hpretty, hraw⟩ := rpm_parse cfg k
  have hdet : (if (!cfg.caseSensitive) = true then toLower p else p) = fold cfg p := by
    by_cases hcs : cfg.caseSensitive = true
    · simp [hcs, fold_cs hcs]
    · have hcs' : cfg.caseSensitive = false := by simpa using hcs
      simp [hcs', fold_ci hcs']
  unfold C02.routePatternMatch
  simp only [hpne, Bool.false_eq_true, if_false, Bool.not_true, Bool.false_and, hdet, hpretty, hraw]
  rw [parseKey_def]
  rw [keyHasParams_def] at hparams
  cases hpp : C02.parseRouteW (kp cfg k) (ensureSlash k) with
  | none => simp
  | some pp =>
    simp only [hpp] at hparams
    have hkp : pp.params.length > 0 := by simpa using hparams
    simp only [Option.map_some]
    have hnotroot : (kp cfg k == [C02.SLASH]) = false := by
      cases hb : (kp cfg k == [C02.SLASH]) with
      | false => rfl
      | true =>
        exfalso
        have hb' := beq_iff_eq.mp hb
        rw [hb', C02.parseRouteW_noLT _ (by decide)] at hpp
        have hd : C02.parseRoute [C02.SLASH] = some { segs := [{ const := [47], length := 1, isLast := true, hasOptionalSlash := true }], params := [] } := by decide
        rw [hd] at hpp
        simp only [Option.some.injEq] at hpp
        rw [← hpp] at hkp
        simp at hkp
    simp only [hnotroot, Bool.false_and, Bool.false_eq_true, if_false]
    by_cases hstar : (kp cfg k == [C02.SLASH, C02.STAR]) = true
    · simp only [hstar, if_true]
      have hb' := beq_iff_eq.mp hstar
      rw [hb', C02.parseRouteW_noLT _ (by decide)] at hpp
      have hd : C02.parseRoute [C02.SLASH, C02.STAR] = some
          { segs := [{ const := [47], length := 1, hasOptionalSlash := true },
               { paramName := [42, 49], isParam := true, isGreedy := true, isOptional := true, isLast := true }],
            params := [[42, 49]] } := by decide
      rw [hd] at hpp
      simp only [Option.some.injEq] at hpp
      rw [← hpp]
      simp only [beq_self_eq_true]
      exact (getMatch_star chk (fold cfg p) p (fold_head_slash hp)).symm
    · simp only [hstar, Bool.false_eq_true, if_false]
      simp only [hkp, if_true]
      cases (C02.getMatch chk pp.segs (fold cfg p) p false).isSome <;> rfl

theorem trimRight_prefix (s : Bytes) (c : Nat) : trimRight s c <+: s := by
  unfold trimRight
  have h := List.dropWhile_suffix (l := s.reverse) (fun x => x == c)
  have := List.reverse_prefix.mpr h
  simpa using this

theorem routerPath_prefix (cfg : Cfg) (path : Bytes) : routerPath cfg path <+: path := by
  unfold routerPath
  split
  · exact trimRight_prefix _ _
  · exact List.prefix_refl _

theorem routerPath_head {cfg : Cfg} {path : Bytes} (h : routerPath cfg path ≠ []) :
    (routerPath cfg path).head? = path.head? := by
  obtain ⟨t, ht⟩ := routerPath_prefix cfg path
  cases hr : routerPath cfg path with
  | nil => exact absurd hr h
  | cons a u => rw [hr] at ht; rw [← ht]; rfl

theorem find?_congr' {α} {l : List α} {p q : α → Bool} (h : ∀ a ∈ l, p a = q a) : l.find? p = l.find? q := by
  induction l with
  | nil => rfl
  | cons x t ih =>
    simp only [List.find?_cons]
    rw [h x (by simp), ih (fun a ha => h a (List.mem_cons_of_mem _ ha))]

/-- **The code's reading of a pattern key is the router's reading**: for every key whose pattern
declares a parameter and every path that starts with a slash, what `mountPrefixLen` finds with the
parser made at startup is the shortest leading part of the path (read as the router reads it),
ending on a segment boundary, that `RoutePatternMatch` accepts for the prefix. -/
theorem modelCover_eq_coversRouter (chk : C02.Constraint → Bytes → Bool) (cfg : Cfg) (k path : Bytes)
    (hparams : keyHasParams cfg k = true) (hpath : path.head? = some 47) :
    modelCover chk cfg k path = coversRouter chk cfg k path := by
  unfold modelCover coversRouter
  rw [detOf_eq_fold]
  simp only [fold_length]
  by_cases hrp : routerPath cfg path = []
  · rw [hrp]
    cases parseKey cfg k <;> simp [mountPrefixLen, fold]
  · have hhead : (routerPath cfg path).head? = some 47 := by rw [routerPath_head hrp]; exact hpath
    have hpred : ∀ n ∈ List.range' 1 (routerPath cfg path).length,
        (onBoundary (routerPath cfg path) n &&
          C02.routePatternMatch chk ⟨cfg.caseSensitive, true, false⟩ ((routerPath cfg path).take n) (mountedAt k) == some true) =
        match parseKey cfg k with
        | none => false
        | some segs => cutMatches chk segs (fold cfg (routerPath cfg path)) path n := by
      intro n hn
      have hn' := mem_range'_one hn
      have hth : ((routerPath cfg path).take n).head? = some 47 := by
        cases hr : routerPath cfg path with
        | nil => exact absurd hr hrp
        | cons a u =>
          rw [hr] at hhead
          cases n with
          | zero => omega
          | succ j => simpa using hhead
      rw [rpm_eq_getMatch chk cfg k _ hparams hth]
      cases parseKey cfg k with
      | none => simp
      | some segs =>
        unfold cutMatches onBoundary
        simp only [fold_length, fold_getElem_slash, fold_take]
        have hpt : path.take n = (routerPath cfg path).take n := by
          obtain ⟨t, ht⟩ := routerPath_prefix cfg path
          generalize routerPath cfg path = rp at ht hn'
          rw [← ht, List.take_append_of_le_length hn'.2]
        rw [hpt]
    rw [find?_congr' hpred]
    cases parseKey cfg k with
    | none =>
      simp only [Option.bind_none]
      induction List.range' 1 (routerPath cfg path).length with
      | nil => rfl
      | cons x t ih => simp [List.find?_cons, ih]
    | some segs =>
      simp only [Option.bind_some]
      unfold mountPrefixLen
      simp only [fold_length]

end C08
