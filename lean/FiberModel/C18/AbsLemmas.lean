import FiberModel.C18.JarLemmas
/-
C18 (b) — facts about the abstract store `AbsJar` (host key ↦ cookies): path tests, uniqueness per
(name, path), provenance of stored cookies, independence of host keys.
-/
namespace C18
open B

/-! ### lookups: where the two path tests agree -/

theorem filter_congr_mem {α : Type} (p q : α → Bool) (l : List α) (h : ∀ x, x ∈ l → p x = q x) :
    l.filter p = l.filter q := by
  induction l with
  | nil => rfl
  | cons x xs ih =>
    simp only [List.filter_cons]
    rw [h x (List.mem_cons_self ..), ih (fun y hy => h y (List.mem_cons_of_mem _ hy))]

theorem implGet_eq_specGet (j : AbsJar) (host path : Bytes) (now : Nat)
    (h : ((absGetHost j (hostKey host)).any fun c =>
            !expiredAt now c && (implPathOK path c.path != specPathOK path c.path)) = false) :
    implGet j host path now = specGet j host path now := by
  unfold implGet specGet
  apply filter_congr_mem
  intro c hc
  have := (List.any_eq_false.mp h) c hc
  cases he : expiredAt now c <;> simp [he] at this ⊢
  exact this

theorem implObs_eq_specObs (now : Nat) (j : AbsJar) (op : JarOp) (h : Known.k1At now j op = false) :
    implObsOf now j op = specObs now j op := by
  cases op <;> simp only [implObsOf, specObs] <;> simp only [Known.k1At, lookupOf] at h <;>
    rw [implGet_eq_specGet _ _ _ _ h]

theorem implRunT_eq_specRunT : ∀ (hist : List (Nat × JarOp)) (j : AbsJar), Known.K1 j hist = false →
    implRunT j hist = specRunT j hist := by
  intro hist
  induction hist with
  | nil => intro j _; rfl
  | cons e hist ih =>
    intro j h
    obtain ⟨now, op⟩ := e
    simp only [Known.K1, Bool.or_eq_false_iff] at h
    simp only [implRunT, specRunT]
    rw [implObs_eq_specObs now j op h.1, ih _ h.2]

/-! ### `sameCookie` is an equivalence: a cookie is identified by (name, path), a missing path being "/" -/

theorem samePath_symm (a c : Bytes) : samePath a c = samePath c a := by
  unfold samePath
  have e : (a == c) = (c == a) := by
    by_cases h : a = c
    · subst h; rfl
    · have h' : ¬ c = a := fun e => h e.symm
      rw [beq_eq_false_iff_ne.mpr h, beq_eq_false_iff_ne.mpr h']
  rw [e, Bool.and_comm]

theorem samePath_trans (a c d : Bytes) (h1 : samePath a c = true) (h2 : samePath c d = true) : samePath a d = true := by
  unfold samePath at *
  simp only [Bool.or_eq_true, Bool.and_eq_true, decide_eq_true_eq, beq_iff_eq] at *
  rcases h1 with h1 | h1 <;> rcases h2 with h2 | h2
  · exact Or.inl ⟨h1.1, h2.2⟩
  · subst h2; exact Or.inl h1
  · subst h1; exact Or.inl h2
  · exact Or.inr (h1.trans h2)

theorem sameCookie_symm (c d : Cookie) : sameCookie c d = sameCookie d c := by
  unfold sameCookie
  rw [samePath_symm]
  have e : (c.name == d.name) = (d.name == c.name) := by
    by_cases h : c.name = d.name
    · rw [h]
    · have h' : ¬ d.name = c.name := fun e => h e.symm
      rw [beq_eq_false_iff_ne.mpr h, beq_eq_false_iff_ne.mpr h']
  rw [e]

theorem sameCookie_trans (c d e : Cookie) (h1 : sameCookie c d = true) (h2 : sameCookie d e = true) :
    sameCookie c e = true := by
  unfold sameCookie at *
  simp only [Bool.and_eq_true, beq_iff_eq] at *
  exact ⟨h1.1.trans h2.1, samePath_trans _ _ _ h1.2 h2.2⟩

theorem sameCookie_refl (c : Cookie) : sameCookie c c = true := by
  simp [sameCookie, samePath]

/-- no two stored cookies of a host share (name, path) -/
def UniqList (l : List Cookie) : Prop := l.Pairwise fun c d => sameCookie c d = false

theorem mem_absUpsert (l : List Cookie) (c d : Cookie) (h : d ∈ absUpsert l c) : d = c ∨ d ∈ l := by
  induction l with
  | nil => simp [absUpsert] at h; exact Or.inl h
  | cons x xs ih =>
    simp only [absUpsert] at h
    split at h
    · simp only [List.mem_cons] at h ⊢
      rcases h with h | h
      · exact Or.inl h
      · exact Or.inr (Or.inr h)
    · simp only [List.mem_cons] at h ⊢
      rcases h with h | h
      · exact Or.inr (Or.inl h)
      · rcases ih h with h | h
        · exact Or.inl h
        · exact Or.inr (Or.inr h)

theorem self_mem_absUpsert (l : List Cookie) (c : Cookie) : c ∈ absUpsert l c := by
  induction l with
  | nil => simp [absUpsert]
  | cons x xs ih =>
    simp only [absUpsert]
    split
    · exact List.mem_cons_self ..
    · exact List.mem_cons_of_mem _ ih

theorem mem_absRemove (l : List Cookie) (c d : Cookie) (h : d ∈ absRemove l c) : d ∈ l := by
  induction l with
  | nil => simp [absRemove] at h
  | cons x xs ih =>
    simp only [absRemove] at h
    split at h
    · exact List.mem_cons_of_mem _ h
    · simp only [List.mem_cons] at h ⊢
      rcases h with h | h
      · exact Or.inl h
      · exact Or.inr (ih h)

theorem uniq_absUpsert (l : List Cookie) (c : Cookie) (h : UniqList l) : UniqList (absUpsert l c) := by
  induction l with
  | nil => simp [absUpsert, UniqList]
  | cons x xs ih =>
    unfold UniqList at h ih ⊢
    rw [List.pairwise_cons] at h
    simp only [absUpsert]
    split
    · rename_i hx
      rw [List.pairwise_cons]
      refine ⟨?_, h.2⟩
      intro d hd
      cases hcd : sameCookie c d with
      | false => rfl
      | true =>
        have := sameCookie_trans x c d hx hcd
        rw [h.1 d hd] at this; cases this
    · rename_i hx
      rw [List.pairwise_cons]
      refine ⟨?_, ih h.2⟩
      intro d hd
      rcases mem_absUpsert xs c d hd with e | e
      · subst e; simpa using hx
      · exact h.1 d e

theorem uniq_absRemove (l : List Cookie) (c : Cookie) (h : UniqList l) : UniqList (absRemove l c) := by
  induction l with
  | nil => simp [absRemove, UniqList]
  | cons x xs ih =>
    unfold UniqList at h ih ⊢
    rw [List.pairwise_cons] at h
    simp only [absRemove]
    split
    · exact h.2
    · rw [List.pairwise_cons]
      exact ⟨fun d hd => h.1 d (mem_absRemove xs c d hd), ih h.2⟩

/-- after removal nothing with that (name, path) is left -/
theorem absRemove_none_left (l : List Cookie) (c d : Cookie) (h : UniqList l) (hd : d ∈ absRemove l c) :
    sameCookie d c = false := by
  induction l with
  | nil => simp [absRemove] at hd
  | cons x xs ih =>
    unfold UniqList at h ih
    rw [List.pairwise_cons] at h
    simp only [absRemove] at hd
    split at hd
    · rename_i hx
      cases hdc : sameCookie d c with
      | false => rfl
      | true =>
        have h1 : sameCookie x d = true := sameCookie_trans x c d hx (by rw [sameCookie_symm]; exact hdc)
        rw [h.1 d hd] at h1; cases h1
    · rename_i hx
      simp only [List.mem_cons] at hd
      rcases hd with e | e
      · subst e; simpa using hx
      · exact ih h.2 e

/-- in a list without duplicates two entries with the same (name, path) are one entry -/
theorem uniq_same_eq (l : List Cookie) (h : UniqList l) (c d : Cookie) (hc : c ∈ l) (hd : d ∈ l)
    (hs : sameCookie c d = true) : c = d := by
  induction l with
  | nil => cases hc
  | cons x xs ih =>
    unfold UniqList at h ih
    rw [List.pairwise_cons] at h
    simp only [List.mem_cons] at hc hd
    rcases hc with e1 | e1 <;> rcases hd with e2 | e2
    · rw [e1, e2]
    · subst e1; rw [h.1 d e2] at hs; cases hs
    · subst e2; rw [sameCookie_symm, h.1 c e1] at hs; cases hs
    · exact ih h.2 e1 e2

theorem uniq_respFold (now : Nat) (scs : List Cookie) : ∀ (l : List Cookie), UniqList l → UniqList (absRespFold now l scs) := by
  induction scs with
  | nil => intro l h; exact h
  | cons sc scs ih =>
    intro l h
    simp only [absRespFold, List.foldl_cons] at ih ⊢
    apply ih
    split
    · exact uniq_absRemove l sc h
    · exact uniq_absUpsert l sc h

/-- every host's list is free of duplicates -/
def Uniq (j : AbsJar) : Prop := ∀ k, UniqList (absGetHost j k)

theorem uniq_nil : Uniq [] := by intro k; simp [absGetHost, UniqList]

theorem uniq_step (now : Nat) (j : AbsJar) (op : JarOp) (h : Uniq j) : Uniq (absStep now j op) := by
  have hp : ∀ host, Uniq (absPurge j host now) := by
    intro host k
    unfold absPurge
    rw [absGetHost_absPurgeK]
    split
    · exact List.Pairwise.filter _ (h _)
    · exact h k
  cases op with
  | set host c =>
    intro k; simp only [absStep]; rw [absGetHost_absSet]; split
    · exact uniq_absUpsert _ _ (h _)
    · exact h k
  | setKV host name value =>
    intro k; simp only [absStep]; rw [absGetHost_absSet]; split
    · exact uniq_absUpsert _ _ (h _)
    · exact h k
  | resp host p scs =>
    intro k; simp only [absStep]; rw [absGetHost_absResp]; split
    · exact uniq_respFold now scs _ (hp host _)
    · exact hp host k
  | get host p => exact hp host
  | getRelease host p => exact hp host
  | releaseJar => exact uniq_nil

/-! ### provenance: whatever is stored under a host key was offered by an operation on that key -/

theorem mem_absRespFold (now : Nat) (scs : List Cookie) : ∀ (l : List Cookie) (d : Cookie),
    d ∈ absRespFold now l scs → d ∈ l ∨ d ∈ scs := by
  induction scs with
  | nil => intro l d h; exact Or.inl h
  | cons sc scs ih =>
    intro l d h
    simp only [absRespFold, List.foldl_cons] at ih h
    rcases ih _ d h with h1 | h1
    · split at h1
      · exact Or.inl (mem_absRemove l sc d h1)
      · rcases mem_absUpsert l sc d h1 with e | e
        · exact Or.inr (e ▸ List.mem_cons_self ..)
        · exact Or.inl e
    · exact Or.inr (List.mem_cons_of_mem _ h1)

def Src (pre : List (Nat × JarOp)) (j : AbsJar) : Prop :=
  ∀ k c, c ∈ absGetHost j k → ∃ e, e ∈ pre ∧ opKey e.2 = some k ∧ c ∈ offered e.2

theorem src_nil : Src [] [] := by intro k c h; simp [absGetHost] at h

theorem src_step (pre : List (Nat × JarOp)) (now : Nat) (j : AbsJar) (op : JarOp) (h : Src pre j) :
    Src (pre ++ [(now, op)]) (absStep now j op) := by
  have old : ∀ k c, c ∈ absGetHost j k → ∃ e, e ∈ pre ++ [(now, op)] ∧ opKey e.2 = some k ∧ c ∈ offered e.2 := by
    intro k c hc
    obtain ⟨e, he, h1, h2⟩ := h k c hc
    exact ⟨e, List.mem_append_left _ he, h1, h2⟩
  have new : ∀ k c, opKey op = some k → c ∈ offered op →
      ∃ e, e ∈ pre ++ [(now, op)] ∧ opKey e.2 = some k ∧ c ∈ offered e.2 :=
    fun k c h1 h2 => ⟨(now, op), by simp, h1, h2⟩
  have purge : ∀ host k c, c ∈ absGetHost (absPurge j host now) k → c ∈ absGetHost j k := by
    intro host k c hc
    unfold absPurge at hc
    rw [absGetHost_absPurgeK] at hc
    split at hc
    · rename_i hk; subst hk; exact (List.mem_filter.mp hc).1
    · exact hc
  intro k c hc
  cases op with
  | set host c' =>
    simp only [absStep] at hc; rw [absGetHost_absSet] at hc
    split at hc
    · rename_i hk
      rcases mem_absUpsert _ _ _ hc with e | e
      · exact new k c (by simp [opKey, hk]) (by simp [offered, e])
      · exact old k c (hk ▸ e)
    · exact old k c hc
  | setKV host name value =>
    simp only [absStep] at hc; rw [absGetHost_absSet] at hc
    split at hc
    · rename_i hk
      rcases mem_absUpsert _ _ _ hc with e | e
      · exact new k c (by simp [opKey, hk]) (by simp [offered, e])
      · exact old k c (hk ▸ e)
    · exact old k c hc
  | resp host p scs =>
    simp only [absStep] at hc; rw [absGetHost_absResp] at hc
    split at hc
    · rename_i hk
      rcases mem_absRespFold _ _ _ _ hc with e | e
      · exact old k c (hk ▸ purge host _ c e)
      · exact new k c (by simp [opKey, hk]) (by simp [offered, e])
    · exact old k c (purge host k c hc)
  | get host p => exact old k c (purge host k c hc)
  | getRelease host p => exact old k c (purge host k c hc)
  | releaseJar => simp [absStep, absGetHost] at hc

/-! ### host keys are independent -/

theorem absStep_other (now : Nat) (j : AbsJar) (op : JarOp) (k : Bytes) (h : concerns k op = false) :
    absGetHost (absStep now j op) k = absGetHost j k := by
  have hp : ∀ host, hostKey host ≠ k → absGetHost (absPurge j host now) k = absGetHost j k := by
    intro host hk
    have : ¬ k = hostKey host := fun e => hk e.symm
    unfold absPurge; rw [absGetHost_absPurgeK, if_neg this]
  cases op <;> simp only [concerns, opKey, beq_eq_false_iff_ne, ne_eq] at h <;> simp only [absStep]
  · rw [absGetHost_absSet, if_neg (fun e => h e.symm)]
  · rw [absGetHost_absSet, if_neg (fun e => h e.symm)]
  · rw [absGetHost_absResp, if_neg (fun e => h e.symm)]; exact hp _ h
  · exact hp _ h
  · exact hp _ h
  · cases h

theorem absStep_same (now : Nat) (j j' : AbsJar) (op : JarOp) (k : Bytes) (hc : concerns k op = true)
    (h : absGetHost j k = absGetHost j' k) :
    absGetHost (absStep now j op) k = absGetHost (absStep now j' op) k ∧ implObsOf now j op = implObsOf now j' op := by
  have hp : ∀ host, hostKey host = k → absGetHost (absPurge j host now) k = absGetHost (absPurge j' host now) k := by
    intro host hk
    unfold absPurge; rw [absGetHost_absPurgeK, absGetHost_absPurgeK]
    simp [hk, h]
  cases op <;> simp only [concerns, opKey, beq_iff_eq] at hc <;> simp only [absStep, implObsOf, implGet]
  · rw [absGetHost_absSet, absGetHost_absSet]; simp [hc, h]
  · rw [absGetHost_absSet, absGetHost_absSet]; simp [hc, h]
  · rw [absGetHost_absResp, absGetHost_absResp]; simp [hc, h, hp _ hc]
  · simp [hc, h, hp _ hc]
  · simp [hc, h, hp _ hc]
  · simp

theorem proj_abs (k : Bytes) : ∀ (hist : List (Nat × JarOp)) (j j' : AbsJar), absGetHost j k = absGetHost j' k →
    projObs k hist (implRunT j hist) = implRunT j' (projHist k hist) := by
  intro hist
  induction hist with
  | nil => intro j j' _; rfl
  | cons e hist ih =>
    intro j j' h
    obtain ⟨now, op⟩ := e
    simp only [implRunT, projObs, projHist, List.filter_cons]
    cases hc : concerns k op
    · simp only [Bool.false_eq_true, if_false]
      exact ih _ _ (by rw [absStep_other now j op k hc, h])
    · simp only [if_true, implRunT]
      obtain ⟨s1, s2⟩ := absStep_same now j j' op k hc h
      rw [s2]; congr 1
      exact ih _ _ s1

/-! ### whole histories -/

/-- the jar after a history -/
def finalJarT (pol : Policy) : List (Nat × JarOp) → JarState → JarState
  | [], st => st
  | (now, op) :: h, st => finalJarT pol h (stepJar pol now st op).2

/-- the abstract store after a history -/
def absFinalT : List (Nat × JarOp) → AbsJar → AbsJar
  | [], j => j
  | (now, op) :: h, j => absFinalT h (absStep now j op)

theorem run_refines (pol : Policy) : ∀ (hist : List (Nat × JarOp)) (st : JarState) (a : AbsJar), Good st → Refines st a →
    runJarT pol hist st = implRunT a hist ∧ Good (finalJarT pol hist st) ∧
    Refines (finalJarT pol hist st) (absFinalT hist a) := by
  intro hist
  induction hist with
  | nil => intro st a hG hR; exact ⟨rfl, hG, hR⟩
  | cons e hist ih =>
    intro st a hG hR
    obtain ⟨now, op⟩ := e
    obtain ⟨s1, s2, s3⟩ := step_refines pol now st op hG hR
    obtain ⟨i1, i2, i3⟩ := ih _ _ s2 s3
    simp only [runJarT, implRunT, finalJarT, absFinalT]
    exact ⟨by rw [s1, i1], i2, i3⟩

theorem implRunT_append : ∀ (h1 h2 : List (Nat × JarOp)) (j : AbsJar),
    implRunT j (h1 ++ h2) = implRunT j h1 ++ implRunT (absFinalT h1 j) h2 := by
  intro h1
  induction h1 with
  | nil => intro h2 j; rfl
  | cons e h1 ih => intro h2 j; obtain ⟨now, op⟩ := e; simp only [List.cons_append, implRunT, absFinalT, ih]

theorem src_final : ∀ (hist pre : List (Nat × JarOp)) (j : AbsJar), Src pre j → Src (pre ++ hist) (absFinalT hist j) := by
  intro hist
  induction hist with
  | nil => intro pre j h; simpa [absFinalT] using h
  | cons e hist ih =>
    intro pre j h
    obtain ⟨now, op⟩ := e
    have := ih (pre ++ [(now, op)]) _ (src_step pre now j op h)
    simpa [absFinalT] using this

theorem uniq_final : ∀ (hist : List (Nat × JarOp)) (j : AbsJar), Uniq j → Uniq (absFinalT hist j) := by
  intro hist
  induction hist with
  | nil => intro j h; exact h
  | cons e hist ih => intro j h; obtain ⟨now, op⟩ := e; exact ih _ (uniq_step now j op h)

/-- constant-time histories (what the driver runs) are timed histories -/
theorem runJar_eq_runJarT (pol : Policy) (now : Nat) : ∀ (ops : List JarOp) (st : JarState),
    runJar pol now ops st = runJarT pol (ops.map fun op => (now, op)) st := by
  intro ops
  induction ops with
  | nil => intro st; rfl
  | cons op ops ih => intro st; simp only [runJar, List.map_cons, runJarT, ih]

theorem specJar_eq_specJarT (now : Nat) (ops : List JarOp) (j : AbsJar) (os : List JarObs) :
    specJar now j ops os = specJarT j (ops.map fun op => (now, op)) os := rfl

theorem specJarT_specRunT : ∀ (hist : List (Nat × JarOp)) (j : AbsJar), specJarT j hist (specRunT j hist) = none := by
  intro hist
  induction hist with
  | nil => intro j; rfl
  | cons e hist ih => intro j; obtain ⟨now, op⟩ := e; simp [specJarT, specRunT, ih]

/-- any failure of the oracle on the abstract run with the code's path test is attributable to K1 -/
theorem specJarT_implRunT : ∀ (hist : List (Nat × JarOp)) (j : AbsJar) (cl : String) (k : Bool),
    specJarT j hist (implRunT j hist) = some (cl, k) → k = true ∧ Known.K1 j hist = true := by
  intro hist
  induction hist with
  | nil => intro j cl k h; simp [specJarT, implRunT] at h
  | cons e hist ih =>
    intro j cl k h
    obtain ⟨now, op⟩ := e
    simp only [specJarT, implRunT] at h
    split at h
    · obtain ⟨h1, h2⟩ := ih _ cl k h
      exact ⟨h1, by simp [Known.K1, h2]⟩
    · rename_i hne
      simp only [Option.some.injEq, Prod.mk.injEq] at h
      refine ⟨by rw [← h.2]; simp, ?_⟩
      cases hk : Known.k1At now j op with
      | true => simp [Known.K1, hk]
      | false => exact absurd (implObs_eq_specObs now j op hk) hne

end C18
