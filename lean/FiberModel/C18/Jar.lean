import FiberModel.Basic
/-
C18 (b) — the cookie jar: client/cookiejar.go `getCookiesByHost`, `getByHostAndPath`, `Get`,
`SetByHost`, `SetKeyValue`, `parseCookiesFromResp`, `dumpCookiesToReq`, `Release`, over pooled
cookie objects (`fasthttp.AcquireCookie` / `ReleaseCookie`) modelled as references into a heap.

The code modelled is the repaired one (/repo commits "cookie jar stores the purged list …",
"… stores each response cookie once and drops cookies the server expired", "… replaces a cookie
only when name and path are the same", "CookieJar.Get returns copies …", "… files cookies under the
host name without the port"). The path test of `getByHostAndPath` is still the reversed one
(known finding K1: a test of the suite encodes it).

`sync.Pool` may hand back any pooled object or a new one: `acquire` asks a *policy* (an arbitrary
function of a step counter and the pool) which one; every theorem quantifies over all policies.
-/
namespace C18
open B

structure Cookie where
  name : Bytes
  value : Bytes
  path : Bytes
  expiry : Option Nat          -- `none` = CookieExpireUnlimited (session cookie)
  deriving Repr, DecidableEq

def blankCookie : Cookie := { name := [], value := [], path := [], expiry := none }

abbrev Ref := Nat

/-- which pooled object `sync.Pool.Get` returns: `some i` = the i-th pooled one, `none` = a new one -/
abbrev Policy := Nat → List Ref → Option Nat

structure JarState where
  heap : Ref → Cookie
  jar : List (Bytes × List Ref)       -- hostCookies (assoc list, unique keys)
  pool : List Ref                     -- objects handed to `ReleaseCookie`
  next : Ref                          -- allocator for `&Cookie{}`
  tick : Nat                          -- counts pool accesses (argument of the policy)

def JarState.init : JarState := { heap := fun _ => blankCookie, jar := [], pool := [], next := 0, tick := 0 }

def setHeap (h : Ref → Cookie) (r : Ref) (c : Cookie) : Ref → Cookie := fun x => if x = r then c else h x

/-- `fasthttp.AcquireCookie()` -/
def acquire (pol : Policy) (st : JarState) : Ref × JarState :=
  match pol st.tick st.pool with
  | some i =>
    if h : i < st.pool.length then
      (st.pool[i], { st with pool := st.pool.eraseIdx i, tick := st.tick + 1 })
    else (st.next, { st with next := st.next + 1, tick := st.tick + 1 })
  | none => (st.next, { st with next := st.next + 1, tick := st.tick + 1 })

/-- `fasthttp.ReleaseCookie(c)`: `Reset` + `Put` -/
def release (st : JarState) (r : Ref) : JarState :=
  { st with heap := setHeap st.heap r blankCookie, pool := r :: st.pool }

def releaseAll (st : JarState) (rs : List Ref) : JarState := rs.foldl release st

/-! ### assoc-list map -/

def jarGet (j : List (Bytes × List Ref)) (k : Bytes) : Option (List Ref) := (j.find? (·.1 = k)).map (·.2)

def jarPut : List (Bytes × List Ref) → Bytes → List Ref → List (Bytes × List Ref)
  | [], k, v => [(k, v)]
  | (k', v') :: rest, k, v => if k' = k then (k', v) :: rest else (k', v') :: jarPut rest k v

/-! ### helpers of cookiejar.go -/

/-- `hostWithoutPort` (`net.SplitHostPort` for `host:port`; hosts without ':' are returned as they
    are; bracketed IPv6 literals are outside the modelled domain) -/
def hostKey (host : Bytes) : Bytes :=
  match indexByte host 58 with
  | some i => host.take i
  | none => host

/-- `sameCookiePath` -/
def samePath (a b' : Bytes) : Bool := (decide (a.length ≤ 1) && decide (b'.length ≤ 1)) || a == b'

def sameCookie (c d : Cookie) : Bool := c.name == d.name && samePath c.path d.path

/-- `!c.Expire().Equal(CookieExpireUnlimited) && c.Expire().Before(now)` (the purge test) -/
def expiredAt (now : Nat) (c : Cookie) : Bool :=
  match c.expiry with
  | some e => decide (e < now)
  | none => false

/-- the test of `parseCookiesFromResp`: has an expiry that is not after `now` -/
def deadOnArrival (now : Nat) (c : Cookie) : Bool :=
  match c.expiry with
  | some e => decide (e ≤ now)
  | none => false

/-- the path filter of `getByHostAndPath` as written (reversed prefix test, K1) -/
def implPathOK (reqPath cookiePath : Bytes) : Bool :=
  !(decide (reqPath.length > 1) && decide (cookiePath.length > 1) && !hasPrefix cookiePath reqPath)

/-! ### operations -/

/-- `getCookiesByHost`: drop expired cookies, release them, store the purged list -/
def getCookiesByHost (st : JarState) (key : Bytes) (now : Nat) : List Ref × JarState :=
  match jarGet st.jar key with
  | none => ([], st)
  | some refs =>
    let kept := refs.filter fun r => !expiredAt now (st.heap r)
    let dead := refs.filter fun r => expiredAt now (st.heap r)
    let st := releaseAll st dead
    (kept, { st with jar := jarPut st.jar key kept })

/-- `getByHostAndPath` -/
def getByHostAndPath (st : JarState) (host path : Bytes) (now : Nat) : List Ref × JarState :=
  let r := getCookiesByHost st (hostKey host) now
  (r.1.filter fun x => implPathOK path (r.2.heap x).path, r.2)

/-- copies made by `Get`: one acquired object per stored cookie -/
def copyOut (pol : Policy) : List Ref → JarState → List Ref × JarState
  | [], st => ([], st)
  | r :: rs, st =>
    let a := acquire pol st
    let st := { a.2 with heap := setHeap a.2.heap a.1 (a.2.heap r) }
    let rest := copyOut pol rs st
    (a.1 :: rest.1, rest.2)

/-- `CookieJar.Get`: the copies (as references) and the new state -/
def jarGetCopies (pol : Policy) (st : JarState) (host path : Bytes) (now : Nat) : List Ref × JarState :=
  let r := getByHostAndPath st host path now
  copyOut pol r.1 r.2

/-- `SetByHost` for one cookie value (`CopyTo` copies every field) -/
def setByHost (pol : Policy) (st : JarState) (host : Bytes) (c : Cookie) : JarState :=
  let key := hostKey host
  let refs := (jarGet st.jar key).getD []
  match refs.find? (fun r => sameCookie (st.heap r) c) with
  | some r => { st with heap := setHeap st.heap r c, jar := jarPut st.jar key refs }
  | none =>
    let a := acquire pol st
    { a.2 with heap := setHeap a.2.heap a.1 c, jar := jarPut a.2.jar key (refs ++ [a.1]) }

/-- replace the element at index `i` -/
def setAt : List Ref → Nat → Ref → List Ref
  | [], _, _ => []
  | _ :: xs, 0, r => r :: xs
  | x :: xs, i + 1, r => x :: setAt xs i r

/-- one `Set-Cookie` of `parseCookiesFromResp`: working list of the host and state -/
def respOne (pol : Policy) (now : Nat) (acc : List Ref × JarState) (sc : Cookie) : List Ref × JarState :=
  let refs := acc.1
  let a := acquire pol acc.2
  let c := a.1
  let st := { a.2 with heap := setHeap a.2.heap c sc }
  match refs.findIdx? (fun r => sameCookie (st.heap r) sc), deadOnArrival now sc with
  | some i, true => (refs.eraseIdx i, release (release st (refs.getD i 0)) c)
  | none, true => (refs, release st c)
  | some i, false => (setAt refs i c, release st (refs.getD i 0))
  | none, false => (refs ++ [c], st)

/-- `parseCookiesFromResp` -/
def parseCookiesFromResp (pol : Policy) (st : JarState) (host : Bytes) (scs : List Cookie) (now : Nat) : JarState :=
  let key := hostKey host
  let refs := (jarGet st.jar key).getD []
  let r := scs.foldl (respOne pol now) (refs, st)
  { r.2 with jar := jarPut r.2.jar key r.1 }

/-- `RequestHeader.SetCookie` for each jar cookie: later names overwrite, first position kept -/
def cookieHeaderOf (cs : List Cookie) : List (Bytes × Bytes) :=
  cs.foldl (fun m c =>
    if m.any (·.1 = c.name) then m.map (fun kv => if kv.1 = c.name then (kv.1, c.value) else kv)
    else m ++ [(c.name, c.value)]) []

def renderCookieHeader (m : List (Bytes × Bytes)) : Bytes :=
  join (m.map fun kv => kv.1 ++ [61] ++ kv.2) [59, 32]

/-- `CookieJar.Release` -/
def jarRelease (st : JarState) : JarState := { st with jar := [] }

/-! ### operation language of the harness -/

inductive JarOp where
  | set (host : Bytes) (c : Cookie)                        -- acquire a cookie, SetByHost, release it
  | setKV (host name value : Bytes)                        -- SetKeyValue
  | resp (host reqPath : Bytes) (scs : List Cookie)        -- real request: dump jar → request, parse response
  | get (host path : Bytes)                                -- Get (copies kept by the caller)
  | getRelease (host path : Bytes)                         -- Get, then ReleaseCookie on every copy
  | releaseJar
  deriving Repr, DecidableEq

inductive JarObs where
  | done
  | cookies (cs : List Cookie)           -- contents of what `Get` returned
  | header (h : Bytes)                   -- Cookie header the server saw
  deriving Repr, DecidableEq

/-- one harness operation at time `now` -/
def stepJar (pol : Policy) (now : Nat) (st : JarState) : JarOp → JarObs × JarState
  | .set host c =>
    let a := acquire pol st
    let st := { a.2 with heap := setHeap a.2.heap a.1 c }
    let st := setByHost pol st host c
    (.done, release st a.1)
  | .setKV host name value =>
    let c : Cookie := { name := name, value := value, path := [], expiry := none }
    let a := acquire pol st
    let st := { a.2 with heap := setHeap a.2.heap a.1 c }
    (.done, setByHost pol st host c)
  | .resp host reqPath scs =>
    -- parserRequestHeader: dumpCookiesToReq
    let g := getByHostAndPath st host reqPath now
    let hdr := renderCookieHeader (cookieHeaderOf (g.1.map g.2.heap))
    -- parserResponseCookie: one acquired cookie per Set-Cookie in the Response, then the jar
    let held := scs.foldl (fun (acc : List Ref × JarState) sc =>
      let a := acquire pol acc.2
      (acc.1 ++ [a.1], { a.2 with heap := setHeap a.2.heap a.1 sc })) ([], g.2)
    let st := parseCookiesFromResp pol held.2 host scs now
    -- resp.Close(): the Response's cookies go back to the pool
    (.header hdr, releaseAll st held.1)
  | .get host path =>
    let r := jarGetCopies pol st host path now
    (.cookies (r.1.map r.2.heap), r.2)
  | .getRelease host path =>
    let r := jarGetCopies pol st host path now
    (.cookies (r.1.map r.2.heap), releaseAll r.2 r.1)
  | .releaseJar => (.done, jarRelease st)

def runJar (pol : Policy) (now : Nat) : List JarOp → JarState → List JarObs
  | [], _ => []
  | op :: ops, st =>
    let r := stepJar pol now st op
    r.1 :: runJar pol now ops r.2

/-- a history in which every operation happens at its own time (expiry happens *between* the
    operations): `runJar pol now ops = runJarT pol (ops.map (now, ·))` -/
def runJarT (pol : Policy) : List (Nat × JarOp) → JarState → List JarObs
  | [], _ => []
  | (now, op) :: ops, st =>
    let r := stepJar pol now st op
    r.1 :: runJarT pol ops r.2

/-- the pool policy the driver executes with (most recently released object first) -/
def lifo : Policy := fun _ pool => if pool.isEmpty then none else some 0

end C18
