import FiberModel.C18.Spec
/-
C18 (b') — responses whose `Set-Cookie` headers include one that fasthttp `Cookie.ParseBytes` FAILS on
(`k=v; Max-Age=abc`, `k=v; Max-Age=-1`, `k=v; Expires=notadate`).

What the real code does (established on the unchanged tree, see docs/C18.md "Malformed Set-Cookie"):

* fasthttp `Cookie.ParseBytes` (cookie.go): `Reset`, then name and value, then the attributes from left to right; at
  the first attribute it cannot parse it RETURNS the error and leaves the cookie as it is at that moment: name, value
  and every attribute that stood BEFORE the bad one are set, everything behind it is not. `SetItem.parsed`.
* client/cookiejar.go `parseCookiesFromResp`: `_ = c.ParseBytes(value)` — the error is ignored, the object is handled
  like any other cookie (replace / append / delete by name and path, dead on arrival by its `Expire()`).
* client/hooks.go `parserResponseCookie` runs BEFORE the jar step over the same headers and keeps the error of the
  LAST header only (`err = cookie.ParseBytes(value)` overwrites): when the last `Set-Cookie` of the response is
  malformed the hook returns that error, the jar step is skipped (nothing of the response is stored, not even the
  well-formed cookies before it), `core.execute` closes the response and the caller gets the error. When a malformed
  header is followed by a well-formed one the error is lost and the jar step stores ALL of them, the malformed one
  with what `ParseBytes` left in it. `hookFails`, `respOf`.

The cookie objects the hook acquires for unparsable headers are never released (`return` before the append): in the
model they simply do not exist — an object nobody refers to and a never-allocated one are the same to every observer.
-/
namespace C18
open B

/-- where the attribute that cannot be parsed stands in the header line -/
inductive Mal where
  | none                -- well-formed
  | early               -- directly behind `name=value`, before `path` / `expires` (`k=v; Max-Age=abc; expires=…; path=/a`)
  | late                -- at the end of the line (`k=v; expires=…; path=/a; Max-Age=abc`)
  deriving Repr, DecidableEq

/-- one `Set-Cookie` header line as the server writes it -/
structure SetItem where
  cookie : Cookie
  mal : Mal
  deriving Repr, DecidableEq

def SetItem.malformed (it : SetItem) : Bool := it.mal != .none

/-- what `Cookie.ParseBytes` leaves in the cookie object (error or not) -/
def SetItem.parsed (it : SetItem) : Cookie :=
  match it.mal with
  | .early => { name := it.cookie.name, value := it.cookie.value, path := [], expiry := none }
  | _ => it.cookie

/-- `parserResponseCookie` returns an error: the LAST `Set-Cookie` of the response does not parse -/
def hookFails (items : List SetItem) : Bool :=
  match items.getLast? with
  | some it => it.malformed
  | none => false

/-- the cookies the jar step is run with: none when the hook failed, else every header's parsed cookie -/
def jarItems (items : List SetItem) : List Cookie := if hookFails items then [] else items.map (·.parsed)

/-- a real request to `host` + `reqPath` answered with these `Set-Cookie` lines, as an operation on the jar -/
def respOf (host reqPath : Bytes) (items : List SetItem) : JarOp := .resp host reqPath (jarItems items)

def wf (c : Cookie) : SetItem := { cookie := c, mal := .none }

end C18
