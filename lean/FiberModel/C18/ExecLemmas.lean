import FiberModel.C18.Exec
/-
C18 (c) — the invariant of the repaired `execFunc` hand-off and its preservation by every step.
-/
namespace C18

/-- main still owns the Response object (between `AcquireResponse` and `ReleaseResponse`/`Close`) -/
@[reducible] def MPc.holdsResp (m : MPc) : Prop :=
  m = .select ∨ m = .swap ∨ m = .drain ∨ m = .rel ∨ m = .relE ∨ m = .holding

/-- main still owns the error channel (between `acquireErrChan` and the deferred `releaseErrChan`) -/
@[reducible] def MPc.holdsChan (m : MPc) : Prop :=
  m = .select ∨ m = .swap ∨ m = .drain ∨ m = .rel ∨ m = .relE

/-- main has not left the `select` / the drain yet -/
@[reducible] def MPc.waiting (m : MPc) : Prop := m = .select ∨ m = .swap ∨ m = .drain

/-- the request goroutine will still write to the Response and/or the channel -/
@[reducible] def WPc.writing (w : WPc) : Prop := w = .copy ∨ w = .send

/-- what the caller may see for request `i` -/
def ResOK (q : Req) (i : Nat) (o : Outcome) : Prop :=
  (o = .timeout → q.fired = true) ∧ (o = .failed → q.err = true) ∧ (∀ r, o = .response r → r = some i)

structure Inv (g : G) : Prop where
  nbad : g.bad = false
  ownR : ∀ i, (g.reqs i).m.holdsResp → g.rOwner (g.reqs i).resp = some i
  ownC : ∀ i, (g.reqs i).m.holdsChan → g.cOwner (g.reqs i).chan = some i
  wr : ∀ i, (g.reqs i).w.writing →
        (g.reqs i).done = true ∧ (g.reqs i).m.waiting ∧ g.cBuf (g.reqs i).chan = none
  wcopy : ∀ i, (g.reqs i).w = .copy → (g.reqs i).err = false
  wsend : ∀ i, (g.reqs i).w = .send → (g.reqs i).err = false → g.rData (g.reqs i).resp = some i
  pre : ∀ i, ((g.reqs i).w = .doing ∨ (g.reqs i).w = .cas) → (g.reqs i).done = false →
        ((g.reqs i).m = .select ∨ (g.reqs i).m = .swap)
  buf : ∀ c s e, g.cBuf c = some (s, e) →
        (g.reqs s).chan = c ∧ (g.reqs s).w = .exit ∧ (g.reqs s).m.waiting ∧ (g.reqs s).err = e ∧
        (g.reqs s).done = true ∧ (e = false → g.rData (g.reqs s).resp = some s)
  hold : ∀ i, (g.reqs i).m = .holding → g.rData (g.reqs i).resp = some i
  res : ∀ i o, (g.reqs i).result = some o → (g.reqs i).m = .finished ∧ ResOK (g.reqs i) i o
  fire : ∀ i, ((g.reqs i).m = .swap ∨ (g.reqs i).m = .drain ∨ (g.reqs i).m = .rel) → (g.reqs i).fired = true
  errE : ∀ i, (g.reqs i).m = .relE → (g.reqs i).err = true
  prog : ∀ i, (g.reqs i).m.waiting → (g.reqs i).done = true →
        (g.reqs i).w.writing ∨ ((g.reqs i).w = .exit ∧ g.cBuf (g.reqs i).chan ≠ none)
  drn : ∀ i, (g.reqs i).m = .drain → (g.reqs i).done = true
  idle : ∀ i, (g.reqs i).m = .idle → (g.reqs i).done = false ∧ (g.reqs i).w = .none

theorem inv_init : Inv G.init := by
  constructor <;> simp [G.init, MPc.holdsResp, MPc.holdsChan, MPc.waiting, WPc.writing]

/-- all fields of `Inv` for the successor state; `h` is the invariant before, `i` the acting request -/
macro "exec_inv" h:ident i:ident : tactic => `(tactic| (
  constructor
  · have := ($h).nbad; have := ($h).ownR $i; have := ($h).ownC $i; have := ($h).wr $i; have := ($h).hold $i; grind
  · intro j; have := ($h).ownR j; have := ($h).ownR $i; by_cases hj : j = $i <;> grind [upd]
  · intro j; have := ($h).ownC j; have := ($h).ownC $i; by_cases hj : j = $i <;> grind [upd]
  · intro j; have := ($h).wr j; have := ($h).wr $i; have := ($h).ownC j; have := ($h).ownC $i; have := ($h).idle $i
    have := ($h).pre $i; by_cases hj : j = $i <;> grind [upd]
  · intro j; have := ($h).wcopy j; by_cases hj : j = $i <;> grind [upd]
  · intro j; have := ($h).wsend j; have := ($h).wr j; have := ($h).wr $i; have := ($h).ownR j; have := ($h).ownR $i
    have := ($h).wcopy $i; by_cases hj : j = $i <;> grind [upd]
  · intro j; have := ($h).pre j; have := ($h).wr j; by_cases hj : j = $i <;> grind [upd]
  · intro c' s' e; have := ($h).buf c' s' e; have := ($h).ownR s'; have := ($h).ownR $i; have := ($h).ownC s'
    have := ($h).ownC $i; have := ($h).wr $i; have := ($h).wsend $i; by_cases hj : s' = $i <;> grind [upd]
  · intro j; have := ($h).hold j; have := ($h).ownR j; have := ($h).ownR $i; have := ($h).wr $i; by_cases hj : j = $i <;> grind [upd]
  · intro j o; have := ($h).res j o; have := ($h).fire j; have := ($h).errE j; by_cases hj : j = $i <;> grind [upd, ResOK]
  · intro j; have := ($h).fire j; by_cases hj : j = $i <;> grind [upd]
  · intro j; have := ($h).errE j; by_cases hj : j = $i <;> grind [upd]
  · intro j; have := ($h).prog j; have := ($h).idle j; have := ($h).ownC j; have := ($h).ownC $i; have := ($h).wr $i
    have := ($h).wr j; have := ($h).drn j; by_cases hj : j = $i <;> grind [upd]
  · intro j; have := ($h).drn j; by_cases hj : j = $i <;> grind [upd]
  · intro j; have := ($h).idle j; by_cases hj : j = $i <;> grind [upd]))

theorem step_start (g g' : G) (i r c : Nat) (h : Inv g) (hs : step true g (.start i r c) = some g') : Inv g' := by
  simp only [step] at hs
  split at hs
  · cases hs
    rename_i hm
    obtain ⟨hm, hr, hc⟩ := hm
    exec_inv h i
  · cases hs

theorem step_recv (g g' : G) (i : Nat) (h : Inv g) (hs : step true g (.recv i) = some g') : Inv g' := by
  simp only [step] at hs
  split at hs
  · rename_i hm
    split at hs
    · rename_i s hb
      cases hs
      have hB := h.buf _ _ _ hb
      have hsi : s = i := by have := h.ownC s; have := h.ownC i; grind
      subst hsi
      exec_inv h s
    · rename_i s hb
      cases hs
      have hB := h.buf _ _ _ hb
      have hsi : s = i := by have := h.ownC s; have := h.ownC i; grind
      subst hsi
      exec_inv h s
    · cases hs
  · cases hs

theorem step_timeout (g g' : G) (i : Nat) (h : Inv g) (hs : step true g (.timeout i) = some g') : Inv g' := by
  simp only [step] at hs
  split at hs
  · cases hs
    rename_i hm
    exec_inv h i
  · cases hs

theorem step_main (g g' : G) (i : Nat) (h : Inv g) (hs : step true g (.main i) = some g') : Inv g' := by
  simp only [step] at hs
  split at hs
  · cases hs
    rename_i hm
    have hp := h.prog i
    exec_inv h i
  · rename_i hm
    split at hs
    · rename_i s e hb
      cases hs
      have hB := h.buf _ _ _ hb
      have hsi : s = i := by have := h.ownC s; have := h.ownC i; grind
      subst hsi
      exec_inv h s
    · cases hs
  · cases hs
    rename_i hm
    have hb : g.cBuf (g.reqs i).chan = none := by
      cases hb : g.cBuf (g.reqs i).chan with
      | none => rfl
      | some v =>
        obtain ⟨s, e⟩ := v
        have := h.buf _ _ _ hb; have := h.ownC s; have := h.ownC i; grind
    exec_inv h i
  · cases hs
    rename_i hm
    have hb : g.cBuf (g.reqs i).chan = none := by
      cases hb : g.cBuf (g.reqs i).chan with
      | none => rfl
      | some v =>
        obtain ⟨s, e⟩ := v
        have := h.buf _ _ _ hb; have := h.ownC s; have := h.ownC i; grind
    exec_inv h i
  · cases hs

theorem chan_empty_of_not_sent {g : G} (h : Inv g) {i : Nat} (hc : (g.reqs i).m.holdsChan)
    (hw : (g.reqs i).w ≠ .exit) : g.cBuf (g.reqs i).chan = none := by
  cases hb : g.cBuf (g.reqs i).chan with
  | none => rfl
  | some v =>
    obtain ⟨s, e⟩ := v
    have := h.buf _ _ _ hb; have := h.ownC s; have := h.ownC i; grind

theorem step_worker (g g' : G) (i : Nat) (h : Inv g) (hs : step true g (.worker i) = some g') : Inv g' := by
  simp only [step] at hs
  split at hs
  · cases hs
    rename_i hw
    exec_inv h i
  · rename_i hw
    split at hs
    · cases hs
      exec_inv h i
    · cases hs
      rename_i hd
      have hpre := h.pre i (Or.inr hw) (by simpa using hd)
      have hb : g.cBuf (g.reqs i).chan = none :=
        chan_empty_of_not_sent h (by rcases hpre with h1 | h1 <;> simp [MPc.holdsChan, h1]) (by simp [hw])
      exec_inv h i
  · cases hs
    rename_i hw
    have hwr := h.wr i (Or.inl hw)
    exec_inv h i
  · rename_i hw
    split at hs
    · cases hs
    · cases hs
      rename_i hb
      have hwr := h.wr i (Or.inr hw)
      exec_inv h i
  · cases hs

theorem step_fail (g g' : G) (i : Nat) (h : Inv g) (hs : step true g (.fail i) = some g') : Inv g' := by
  simp only [step] at hs
  split at hs
  · cases hs
    rename_i hw
    exec_inv h i
  · cases hs

theorem step_close (g g' : G) (i : Nat) (h : Inv g) (hs : step true g (.close i) = some g') : Inv g' := by
  simp only [step] at hs
  split at hs
  · cases hs
    rename_i hm
    have hh := h.hold i hm
    exec_inv h i
  · cases hs

theorem step_inv (g g' : G) (a : Action) (h : Inv g) (hs : step true g a = some g') : Inv g' := by
  cases a with
  | start i r c => exact step_start g g' i r c h hs
  | recv i => exact step_recv g g' i h hs
  | timeout i => exact step_timeout g g' i h hs
  | main i => exact step_main g g' i h hs
  | worker i => exact step_worker g g' i h hs
  | fail i => exact step_fail g g' i h hs
  | close i => exact step_close g g' i h hs

theorem run_inv (sched : List Action) : ∀ g, Inv g → Inv (run true g sched) := by
  induction sched with
  | nil => intro g h; exact h
  | cons a as ih =>
    intro g h
    simp only [run]
    split
    · rename_i g' hs; exact ih g' (step_inv g g' a h hs)
    · exact ih g h

theorem Inv.resp_ne {g : G} (h : Inv g) {i j : Nat} (hij : i ≠ j) (hi : (g.reqs i).m.holdsResp)
    (hj : (g.reqs j).m.holdsResp) : (g.reqs i).resp ≠ (g.reqs j).resp := by
  intro e; have a := h.ownR i hi; have b := h.ownR j hj; rw [e] at a; rw [a] at b; exact hij (Option.some.inj b)

theorem waiting_holdsChan {m : MPc} (h : m.waiting) : m.holdsChan := by
  rcases h with h | h | h <;> simp [MPc.holdsChan, h]

theorem waiting_holdsResp {m : MPc} (h : m.waiting) : m.holdsResp := by
  rcases h with h | h | h <;> simp [MPc.holdsResp, h]

end C18
