import FiberModel.C18.AbsLemmas
import FiberModel.C18.ExecLemmas
import FiberModel.C18.SubstLemmas
import FiberModel.C18.Pool
/-
C18 — property theorems (only).

  (a) cookie jar   : for every pool policy (which object `sync.Pool` hands out), every history of
                     set / SetKeyValue / response / Get / Get+release / Release operations over any
                     hosts, paths and times — the jar over pooled objects answers exactly like the
                     abstract store host ↦ cookies keyed by (name, path).
  (c) execFunc     : for every interleaving of completion, transport error, timeout/cancel and
                     release of any number of requests on one client.
  (b) assembly     : see the second half of the file.
-/
namespace C18
open B C11

/-! ## (a) the cookie jar -/

/-- **Refinement.** Whatever objects the pool hands out and however they were used before, every
    observation of every history is the one of the abstract store with the code's path test:
    no stale, duplicated, foreign or released cookie is ever observable. -/
theorem jar_refines_abstract (pol : Policy) (hist : List (Nat × JarOp)) :
    runJarT pol hist JarState.init = implRunT [] hist :=
  (run_refines pol hist JarState.init [] good_init refines_init).1

example : runJarT lifo [(10, .set (b "a.com") ⟨b "k", b "v", b "/", some 5⟩), (10, .get (b "a.com") (b "/")),
      (10, .set (b "b.com") ⟨b "s", b "secret", b "/", none⟩), (10, .get (b "a.com") (b "/"))] JarState.init =
    [.done, .cookies [], .done, .cookies []] := by decide

/-- **The jar returns exactly the matching cookies** — `jar_get_exact`, partial: outside the
    recorded region K1 (a lookup meets a stored unexpired cookie of the host on which the reversed
    path test and the property's prefix test disagree). Full statement:
      `∀ pol hist, runJarT pol hist JarState.init = specRunT [] hist`
    (every lookup returns exactly the unexpired cookies stored for that host whose path is a prefix
    of the request path, each once, in store order; every request carries exactly those). -/
theorem jar_get_exact_partial (pol : Policy) (hist : List (Nat × JarOp)) (h : Known.K1 [] hist = false) :
    runJarT pol hist JarState.init = specRunT [] hist := by
  rw [jar_refines_abstract, implRunT_eq_specRunT hist [] h]

/-- the same through the oracle the driver evaluates -/
theorem jar_meets_spec_partial (pol : Policy) (hist : List (Nat × JarOp)) (h : Known.K1 [] hist = false) :
    specJarT [] hist (runJarT pol hist JarState.init) = none := by
  rw [jar_get_exact_partial pol hist h]; exact specJarT_specRunT hist []

/-- whenever the oracle rejects the model's answers, the rejection is the one K1 describes (the
    observation is what the reversed test yields on the abstract store) and the history is in the region -/
theorem jar_failures_are_K1 (pol : Policy) (hist : List (Nat × JarOp)) (cl : String) (k : Bool)
    (h : specJarT [] hist (runJarT pol hist JarState.init) = some (cl, k)) :
    k = true ∧ Known.K1 [] hist = true := by
  rw [jar_refines_abstract] at h; exact specJarT_implRunT hist [] cl k h

/-- **Step by step.** Whatever happened before — including lookups inside the K1 region — an
    operation that is itself outside K1 (no stored unexpired cookie of its host on which the two path
    tests disagree) observes exactly what the property demands. -/
theorem jar_get_exact_stepwise (pol : Policy) (pre : List (Nat × JarOp)) (now : Nat) (op : JarOp)
    (h : Known.k1At now (absFinalT pre []) op = false) :
    ((runJarT pol (pre ++ [(now, op)]) JarState.init).getLast?).getD .done = specObs now (absFinalT pre []) op := by
  rw [jar_refines_abstract, implRunT_append]
  simp only [implRunT, List.getLast?_append, List.getLast?_singleton, Option.some_or, Option.getD_some]
  exact implObs_eq_specObs now _ op h

/-- constant-time form (what the driver runs) -/
theorem jar_meets_spec_const_partial (pol : Policy) (now : Nat) (ops : List JarOp)
    (h : Known.K1 [] (ops.map fun op => (now, op)) = false) :
    specJar now [] ops (runJar pol now ops JarState.init) = none := by
  rw [specJar_eq_specJarT, runJar_eq_runJarT]; exact jar_meets_spec_partial pol _ h

/-- a history outside K1 with cookies on several hosts and paths, an expiry in between and a deletion -/
def sampleHist : List (Nat × JarOp) :=
  [(10, .set (b "a.com") ⟨b "k", b "1", b "/a", some 50⟩), (10, .set (b "b.com") ⟨b "k", b "2", [], none⟩),
   (20, .get (b "a.com") (b "/a")), (60, .get (b "a.com") (b "/a")),
   (60, .resp (b "b.com") (b "/") [⟨b "k", [], [], some 1⟩]), (61, .get (b "b.com") (b "/"))]

example : Known.K1 [] sampleHist = false ∧
    runJarT lifo sampleHist JarState.init =
      [.done, .done, .cookies [⟨b "k", b "1", b "/a", some 50⟩], .cookies [], .header (b "k=2"), .cookies []] := by
  decide

/-- K1 witness: cookie path `/a`, request path `/a/b` — the property demands the cookie, the code
    (and the model) return nothing; and cookie path `/a/b`, request `/a` — returned though it must not be -/
def witnessK1 : List (Nat × JarOp) :=
  [(10, .set (b "a.com") ⟨b "sid", b "5", b "/a", none⟩), (10, .get (b "a.com") (b "/a/b")),
   (10, .set (b "a.com") ⟨b "t", b "6", b "/a/b", none⟩), (10, .get (b "a.com") (b "/a"))]

theorem jar_get_exact_witness_K1 :
    ¬ (runJarT lifo witnessK1 JarState.init = specRunT [] witnessK1) ∧ Known.K1 [] witnessK1 = true := by
  decide

/-- **No cookie crosses hosts.** What the operations on one host key observe is a function of the
    operations on that key (and of `Release`) alone: deleting every operation on other hosts from the
    history — and even changing the pool policy — leaves those observations unchanged. -/
theorem jar_no_cross_host (pol pol' : Policy) (hist : List (Nat × JarOp)) (k : Bytes) :
    projObs k hist (runJarT pol hist JarState.init) = runJarT pol' (projHist k hist) JarState.init := by
  rw [jar_refines_abstract, jar_refines_abstract]
  exact proj_abs k hist [] [] rfl

example : projHist (b "a.com") [(1, .set (b "b.com") ⟨b "s", b "x", [], none⟩), (2, .get (b "a.com:80") (b "/"))] =
    [(2, .get (b "a.com:80") (b "/"))] := by decide

/-- **Only what was stored for the host comes back**: a cookie returned by the last operation of a
    history was offered (set, SetKeyValue, Set-Cookie) by an earlier operation on the same host key. -/
theorem jar_returns_only_stored_for_host (pol : Policy) (pre : List (Nat × JarOp)) (now : Nat) (op : JarOp) (c : Cookie)
    (hc : c ∈ returned (((runJarT pol (pre ++ [(now, op)]) JarState.init).getLast?).getD .done)) :
    ∃ e, e ∈ pre ∧ opKey e.2 = opKey op ∧ c ∈ offered e.2 := by
  rw [jar_refines_abstract, implRunT_append] at hc
  simp only [implRunT, List.getLast?_append, List.getLast?_singleton, Option.some_or, Option.getD_some] at hc
  have hsrc := src_final pre [] [] src_nil
  simp only [List.nil_append] at hsrc
  cases op <;> simp only [implObsOf, returned, List.not_mem_nil] at hc
  · obtain ⟨e, h1, h2, h3⟩ := hsrc _ c (List.mem_filter.mp hc).1
    exact ⟨e, h1, by rw [h2]; rfl, h3⟩
  · obtain ⟨e, h1, h2, h3⟩ := hsrc _ c (List.mem_filter.mp hc).1
    exact ⟨e, h1, by rw [h2]; rfl, h3⟩

/-- **Each once.** No lookup ever returns two cookies with the same (name, path). -/
theorem jar_each_cookie_once (pol : Policy) (pre : List (Nat × JarOp)) (now : Nat) (op : JarOp) :
    (returned (((runJarT pol (pre ++ [(now, op)]) JarState.init).getLast?).getD .done)).Pairwise
      fun c d => sameCookie c d = false := by
  rw [jar_refines_abstract, implRunT_append]
  simp only [implRunT, List.getLast?_append, List.getLast?_singleton, Option.some_or, Option.getD_some]
  have hu := uniq_final pre [] uniq_nil
  cases op <;> simp only [implObsOf, returned, List.Pairwise.nil]
  · exact List.Pairwise.filter _ (hu _)
  · exact List.Pairwise.filter _ (hu _)

/-- **Latest value per (host, name, path).** After storing `c` the host's entry for (name, path) is
    `c` itself — and the only one. -/
theorem jar_latest_value_wins (now : Nat) (j : AbsJar) (hu : Uniq j) (host : Bytes) (c d : Cookie)
    (hd : d ∈ absGetHost (absStep now j (.set host c)) (hostKey host)) (hs : sameCookie d c = true) : d = c :=
  uniq_same_eq _ (uniq_step now j (.set host c) hu (hostKey host)) d c hd
    (by simp only [absStep]; rw [absGetHost_absSet, if_pos rfl]; exact self_mem_absUpsert _ _) hs

theorem jar_stored_is_returned (now : Nat) (j : AbsJar) (host path : Bytes) (c : Cookie)
    (he : expiredAt now c = false) (hp : specPathOK path c.path = true) :
    c ∈ specGet (absStep now j (.set host c)) host path now := by
  simp only [specGet, absStep]
  rw [absGetHost_absSet, if_pos rfl]
  exact List.mem_filter.mpr ⟨self_mem_absUpsert _ _, by simp [he, hp]⟩

/-- **A cookie the server expired is gone**: after a response whose Set-Cookie for (name, path) is
    already expired, no cookie with that (name, path) is stored for the host. -/
theorem jar_server_expired_is_gone (now : Nat) (j : AbsJar) (hu : Uniq j) (host reqPath : Bytes) (sc d : Cookie)
    (hx : deadOnArrival now sc = true)
    (hd : d ∈ absGetHost (absStep now j (.resp host reqPath [sc])) (hostKey host)) : sameCookie d sc = false := by
  simp only [absStep] at hd
  rw [absGetHost_absResp, if_pos rfl] at hd
  simp only [absRespFold, List.foldl_cons, List.foldl_nil, hx, if_true] at hd
  have hu' : UniqList (absGetHost (absPurge j host now) (hostKey host)) := by
    unfold absPurge; rw [absGetHost_absPurgeK, if_pos rfl]; exact List.Pairwise.filter _ (hu _)
  exact absRemove_none_left _ sc d hu' hd

/-- **`Get` hands out copies**: the objects a lookup returns are pairwise distinct, none of them is
    held by the jar for any host and none is in the pool — modifying or releasing them cannot reach the jar. -/
theorem jar_get_returns_copies (pol : Policy) (hist : List (Nat × JarOp)) (host path : Bytes) (now : Nat) :
    let r := jarGetCopies pol (finalJarT pol hist JarState.init) host path now
    r.1.Nodup ∧ ∀ x, x ∈ r.1 → x ∉ r.2.pool ∧ ∀ k, x ∉ refsOf r.2 k := by
  obtain ⟨_, ⟨held, hI⟩, hR⟩ := run_refines pol hist JarState.init [] good_init refines_init
  obtain ⟨g1, g2, g3, g4⟩ := getByHostAndPath_spec _ host path now hI hR
  intro r
  obtain ⟨c1, c2, c3, c4⟩ := copyOut_spec pol _ _ g1 (fun r hr => ⟨_, g3 r hr⟩)
  refine ⟨(List.nodup_append.mp c1.hnd).1, ?_⟩
  intro x hx
  refine ⟨c1.hp x (List.mem_append_left _ hx), ?_⟩
  intro k hm
  have : refsOf r.2 k = refsOf (getByHostAndPath (finalJarT pol hist JarState.init) host path now).2 k :=
    refsOf_congr_jar c2 k
  rw [this] at hm
  exact (c1.jp k x hm).2 (List.mem_append_left _ hx)

/-! ## (c) execFunc: completion, timeout/cancel, release — every interleaving -/

/-- **Every response handed back belongs to the request it is returned for.** For every schedule
    (any number of requests on one client, any pool behaviour, any timing of the server's answer, of
    a transport error and of the context firing): a caller that gets a response gets the answer to
    ITS request; an error only if its own transfer failed; a timeout only if its own context fired. -/
theorem response_belongs_to_request (sched : List Action) (i : Nat) (o : Outcome)
    (h : ((run true G.init sched).reqs i).result = some o) :
    match o with
    | .response r => r = some i
    | .failed => ((run true G.init sched).reqs i).err = true
    | .timeout => ((run true G.init sched).reqs i).fired = true := by
  have hr := ((run_inv sched G.init inv_init).res i o h).2
  cases o with
  | timeout => exact hr.1 rfl
  | failed => exact hr.2.1 rfl
  | response r => exact hr.2.2 r rfl

/-- no write ever hits an object that another request owns or that lies in a pool, and no caller
    ever reads a foreign answer (the model's ghost flag never rises) -/
theorem no_foreign_write (sched : List Action) : (run true G.init sched).bad = false :=
  (run_inv sched G.init inv_init).nbad

/-- **Recycled only when no longer writable.** While the request goroutine can still write (it won
    the completion flag and has not finished `CopyTo` + send), its Response and its error channel are
    still owned by its request: neither is in a pool, neither has been handed to another request,
    the channel is empty. -/
theorem recycled_only_when_unwritable (sched : List Action) (i : Nat)
    (hw : ((run true G.init sched).reqs i).w = .copy ∨ ((run true G.init sched).reqs i).w = .send) :
    (run true G.init sched).rOwner ((run true G.init sched).reqs i).resp = some i ∧
    (run true G.init sched).cOwner ((run true G.init sched).reqs i).chan = some i ∧
    (run true G.init sched).cBuf ((run true G.init sched).reqs i).chan = none := by
  have hI := run_inv sched G.init inv_init
  obtain ⟨_, hm, hb⟩ := hI.wr i hw
  exact ⟨hI.ownR i (waiting_holdsResp hm), hI.ownC i (waiting_holdsChan hm), hb⟩

/-- a channel in the pool is empty: the next request never finds a stale completion in it -/
theorem pooled_channel_is_empty (sched : List Action) (c : Nat) (h : (run true G.init sched).cOwner c = none) :
    (run true G.init sched).cBuf c = none := by
  have hI := run_inv sched G.init inv_init
  cases hb : (run true G.init sched).cBuf c with
  | none => rfl
  | some v =>
    obtain ⟨s, e⟩ := v
    obtain ⟨h1, _, h3, _⟩ := hI.buf c s e hb
    have := hI.ownC s (waiting_holdsChan h3)
    rw [h1, h] at this; cases this

/-- two requests in flight never share a Response object -/
theorem responses_not_shared (sched : List Action) (i j : Nat) (hij : i ≠ j)
    (hi : ((run true G.init sched).reqs i).m.holdsResp) (hj : ((run true G.init sched).reqs j).m.holdsResp) :
    ((run true G.init sched).reqs i).resp ≠ ((run true G.init sched).reqs j).resp :=
  (run_inv sched G.init inv_init).resp_ne hij hi hj

/-- the wait the repair added cannot hang: a caller waiting in the drain finds the goroutine still
    on its way to the send, or the value already in the channel -/
theorem drain_never_blocks (sched : List Action) (i : Nat) (h : ((run true G.init sched).reqs i).m = .drain) :
    (((run true G.init sched).reqs i).w = .copy ∨ ((run true G.init sched).reqs i).w = .send) ∨
    (((run true G.init sched).reqs i).w = .exit ∧
      (run true G.init sched).cBuf ((run true G.init sched).reqs i).chan ≠ none) := by
  have hI := run_inv sched G.init inv_init
  exact hI.prog i (Or.inr (Or.inr h)) (hI.drn i h)

/-- the interleaving the repair closed: request 0 wins the completion flag, its context fires before
    the goroutine copies and sends; request 1 then acquires the same Response and channel -/
def racePrefix : List Action :=
  [.start 0 0 0, .worker 0, .worker 0, .timeout 0, .main 0, .main 0, .start 1 0 0,
   .worker 0, .worker 0, .main 0, .main 0, .start 1 0 0, .recv 1, .close 1]

def raceSchedule : List Action :=
  racePrefix ++ [.worker 1, .worker 1, .worker 1, .worker 1, .recv 1, .close 1]

/-- on the code before the repair that schedule hands request 1 the answer to request 0 -/
theorem old_execFunc_hands_over_foreign_response :
    ((run false G.init racePrefix).reqs 1).result = some (.response (some 0)) ∧
    (run false G.init racePrefix).bad = true := by decide

/-- non-vacuity: on the repaired code the same schedule runs to the end, request 0 times out,
    request 1 reuses Response 0 and channel 0 and gets its own answer -/
example : ((run true G.init raceSchedule).reqs 1).result = some (.response (some 1)) ∧
    ((run true G.init raceSchedule).reqs 0).result = some .timeout ∧
    ((run true G.init raceSchedule).reqs 1).resp = 0 ∧ ((run true G.init raceSchedule).reqs 1).chan = 0 := by decide

/-- non-vacuity: a transport error reaches its own caller, and a goroutine mid-write exists -/
example : ((run true G.init [.start 0 0 0, .fail 0, .worker 0, .worker 0, .recv 0, .main 0]).reqs 0).result =
      some .failed ∧
    ((run true G.init [.start 3 1 2, .worker 3, .worker 3]).reqs 3).w = .copy := by decide

/-! ## (b) request assembly -/

/-- two configurations that differ only in the order in which the Go maps (path parameters and
    cookies of both levels, the jar's cookies) yield their entries -/
structure SameUpToMapOrder (c c' : Config) : Prop where
  baseURL : c'.baseURL = c.baseURL
  url : c'.url = c.url
  method : c'.method = c.method
  body : c'.body = c.body
  cHeaders : c'.client.headers = c.client.headers
  rHeaders : c'.request.headers = c.request.headers
  cParams : c'.client.params = c.client.params
  rParams : c'.request.params = c.request.params
  cUA : c'.client.userAgent = c.client.userAgent
  rUA : c'.request.userAgent = c.request.userAgent
  cRef : c'.client.referer = c.client.referer
  rRef : c'.request.referer = c.request.referer
  cTO : c'.client.timeout = c.client.timeout
  rTO : c'.request.timeout = c.request.timeout
  cPath : c.client.pathParams.Perm c'.client.pathParams
  rPath : c.request.pathParams.Perm c'.request.pathParams
  cCookies : c.client.cookies.Perm c'.client.cookies
  rCookies : c.request.cookies.Perm c'.request.cookies
  jar : c.jar.Perm c'.jar

/-- **The assembled request is a deterministic function of the configuration**: whatever order the
    maps are iterated in, URL (path parameters substituted longest key first), query, headers, user
    agent, referer, content type, body and timeout are identical and the cookie sets agree. -/
theorem assembly_deterministic (c c' : Config) (hm : MapsOK c) (h : SameUpToMapOrder c c') :
    match assemble c, assemble c' with
    | none, none => True
    | some a, some a' =>
      a'.method = a.method ∧ a'.host = a.host ∧ a'.path = a.path ∧ a'.rawQuery = a.rawQuery ∧
      a'.headers = a.headers ∧ a'.userAgent = a.userAgent ∧ a'.referer = a.referer ∧
      a'.contentType = a.contentType ∧ a'.body = a.body ∧ a'.timeout = a.timeout ∧
      (∀ k, mapGet a'.cookies k = mapGet a.cookies k) ∧ (a'.cookies.map (·.1)).Nodup ∧ (a.cookies.map (·.1)).Nodup
    | _, _ => False := by
  have hsub : ∀ u, substParams u c'.request.pathParams c'.client.pathParams =
      substParams u c.request.pathParams c.client.pathParams :=
    fun u => substParams_perm u _ _ _ _ hm.rPath hm.cPath h.rPath h.cPath
  have hm' : MapsOK c' :=
    ⟨(h.cPath.map _).nodup_iff.mp hm.cPath, (h.rPath.map _).nodup_iff.mp hm.rPath,
     (h.cCookies.map _).nodup_iff.mp hm.cCookies, (h.rCookies.map _).nodup_iff.mp hm.rCookies,
     (h.jar.map _).nodup_iff.mp hm.jar⟩
  unfold assemble
  simp only [h.baseURL, h.url, h.method, h.body, h.cHeaders, h.rHeaders, h.cParams, h.rParams, h.cUA, h.rUA,
    h.cRef, h.rRef, h.cTO, h.rTO, hsub]
  cases hp : !hasProtocol (if hasProtocol (split2 c.url 63).1 = true then (split2 c.url 63).1
                            else c.baseURL ++ (split2 c.url 63).1)
  · simp only [Bool.false_eq_true, if_false]
    refine ⟨trivial, trivial, trivial, trivial, trivial, trivial, trivial, trivial, trivial, trivial, ?_,
      mergeCookies_nodup _ _ _, mergeCookies_nodup _ _ _⟩
    intro k
    rw [mapGet_mergeCookies _ _ _ hm'.jar hm'.cCookies hm'.rCookies, mapGet_mergeCookies _ _ _ hm.jar hm.cCookies hm.rCookies,
      ← mapGet_perm _ _ hm.rCookies h.rCookies k, ← mapGet_perm _ _ hm.cCookies h.cCookies k, ← mapGet_perm _ _ hm.jar h.jar k]
  · simp only [if_true]

/-- the order-dependence the repair removed (keys `id` / `idx`, Go map order) -/
theorem old_substitution_depends_on_map_order :
    substUnordered (b "/x/:idx") [(b "id", b "1"), (b "idx", b "2")] [] ≠
    substUnordered (b "/x/:idx") [(b "idx", b "2"), (b "id", b "1")] [] := substUnordered_order_dependent

def sampleCfg : Config :=
  { baseURL := b "http://example.com", url := b "/x/:idx/:id?q=1", method := b "GET",
    client := { headers := [(b "X-A", b "1")], params := [(b "a", b "c")], cookies := [(b "sid", b "c"), (b "t", b "c")],
                pathParams := [(b "id", b "1"), (b "idx", b "9")], userAgent := b "cua", referer := b "cref", timeout := 500 },
    request := { headers := [(b "X-A", b "2")], params := [(b "a", b "r")], cookies := [(b "sid", b "r")],
                 pathParams := [(b "idx", b "2")], userAgent := [], referer := b "rref", timeout := 0 },
    jar := [(b "j", b "jar"), (b "t", b "jar")], body := .none }

example : (assemble sampleCfg).map (fun a => (a.path, a.rawQuery, a.userAgent, a.referer, a.timeout)) =
    some (b "/x/2/1", b "q=1&a=c&a=r", b "cua", b "rref", 500) := by decide

/-- **Precedence and merging.** Request-level user agent, referer, cookies and timeout win over
    client-level ones (cookies: request over client over jar, per name); request-level headers and
    query parameters are sent in addition to the client-level ones (client first), after the
    arguments written in the URL itself. -/
theorem assembly_precedence (c : Config) (a : Assembled) (hm : MapsOK c) (h : assemble c = some a) :
    a.method = c.method ∧
    a.userAgent = (if c.request.userAgent ≠ [] then c.request.userAgent
                   else if c.client.userAgent ≠ [] then c.client.userAgent else defaultUserAgent) ∧
    a.referer = (if c.request.referer ≠ [] then c.request.referer else c.client.referer) ∧
    a.timeout = effectiveTimeout c ∧
    (∀ k, mapGet a.cookies k = ((mapGet c.request.cookies k).or (mapGet c.client.cookies k)).or (mapGet c.jar k)) ∧
    (a.cookies.map (·.1)).Nodup ∧
    a.headers = c.client.headers ++ c.request.headers ∧
    (∀ k, valuesOf a.headers k = valuesOf c.client.headers k ++ valuesOf c.request.headers k) ∧
    a.rawQuery = renderArgsNV (parseArgsNV (split2 (split2 c.url 63).2 35).1 ++ c.client.params.map argOf ++
                               c.request.params.map argOf) ∧
    a.body = effectiveBody c.body := by
  unfold assemble at h
  simp only at h
  cases hp : !hasProtocol (if hasProtocol (split2 c.url 63).1 = true then (split2 c.url 63).1
                            else c.baseURL ++ (split2 c.url 63).1)
  · simp only [hp, Bool.false_eq_true, if_false, Option.some.injEq] at h
    subst h
    exact ⟨rfl, rfl, rfl, rfl, fun k => mapGet_mergeCookies _ _ _ hm.jar hm.cCookies hm.rCookies k,
      mergeCookies_nodup _ _ _, rfl, fun k => valuesOf_append _ _ k, rfl, rfl⟩
  · simp [hp] at h

example : MapsOK sampleCfg ∧ (assemble sampleCfg).isSome = true := by
  refine ⟨⟨by decide, by decide, by decide, by decide, by decide⟩, by decide⟩

/-- path parameters: request level over client level — a client-level value whose key the request
    also sets has no influence on the URL -/
theorem path_param_request_over_client (uri : Bytes) (reqP clientP : List KV) :
    substParams uri reqP clientP =
      substParams uri reqP (clientP.filter fun kv => (mapGet reqP kv.1).isNone) :=
  substParams_client_shadowed uri reqP clientP

example : substParams (b "/u/:id") [(b "id", b "r")] [(b "id", b "c")] = b "/u/r" := by decide

/-- **Path parameters arrive** — partial: outside the recorded region K2 (`unsafePathValue`: a
    substituted value is a dot segment or contains a byte that is not unreserved; the EMPTY value is inside the theorem). For every
    template whose placeholder reading is unambiguous for the configured keys (`templateOK`) the
    sequential, longest-key-first `strings.ReplaceAll` of `replacePathParams` produces exactly the
    template with every `:name` replaced by the request-level value, else the client-level value,
    else left alone. Full statement: the same without the hypothesis `hv` (false: K2 witnesses below). -/
theorem path_params_substitution_partial (uri : Bytes) (reqP clientP : List KV)
    (hr : (reqP.map (·.1)).Nodup) (hc : (clientP.map (·.1)).Nodup)
    (hT : templateOK uri (reqP.map (·.1) ++ clientP.map (·.1)) = true)
    (hv : unsafePathValue uri reqP clientP = false) :
    substParams uri reqP clientP = expectedURI uri reqP clientP :=
  substParams_eq_expected uri reqP clientP hr hc hT hv

/-- non-vacuity, and the case the longest-key-first order exists for: keys `id` and `idx` -/
example : templateOK (b "http://h/x/:idx/:id.json") [b "id", b "idx"] = true ∧
    unsafePathValue (b "http://h/x/:idx/:id.json") [(b "id", b "1")] [(b "idx", b "2"), (b "id", b "9")] = false ∧
    substParams (b "http://h/x/:idx/:id.json") [(b "id", b "1")] [(b "idx", b "2"), (b "id", b "9")] =
      b "http://h/x/2/1.json" := by decide

/-- the empty string is a value like any other: a request that sets `ext` to "" hides the client's ".json"
    (outside K2, inside `templateOK`) -/
example : templateOK (b "http://h/api/v1/items:ext") [b "ext", b "ext"] = true ∧
    unsafePathValue (b "http://h/api/v1/items:ext") [(b "ext", [])] [(b "ext", b ".json")] = false ∧
    substParams (b "http://h/api/v1/items:ext") [(b "ext", [])] [(b "ext", b ".json")] = b "http://h/api/v1/items" ∧
    expectedURI (b "http://h/api/v1/items:ext") [(b "ext", [])] [(b "ext", b ".json")] = b "http://h/api/v1/items" := by
  decide

/-- inside K2 the substitution itself goes wrong as well: a value that contains `:name` is substituted again -/
theorem path_param_witness_K2_resubstituted :
    unsafePathValue (b "/u/:id") [(b "id", b ":a"), (b "a", b "X")] [] = true ∧
    substParams (b "/u/:id") [(b "id", b ":a"), (b "a", b "X")] [] ≠
      expectedURI (b "/u/:id") [(b "id", b ":a"), (b "a", b "X")] [] := by decide

/-- **Everything configured arrives** — the assembled request meets every assembly clause of the
    property (method, headers of both levels, URL arguments + client + request query parameters,
    user agent / referer / cookies by precedence, body: raw bytes, form fields, multipart fields and
    files, host, path with the path parameters) for every configuration in `AsmDomain`: Go maps with
    unique keys, a template without fragment that is unambiguous for the keys, byte-valued and not
    entirely empty query/form pairs — partial: outside K2 (`AsmDomain.safe`). -/
theorem assembly_meets_spec_partial (c : Config) (a : Assembled) (h : assemble c = some a) (hd : AsmDomain c) :
    specAsm c (uri0Of c) (urlArgsOf c) (arrived a) = none :=
  assemble_meets_spec_partial c a h hd

example : AsmDomain sampleCfg ∧ (assemble sampleCfg).isSome = true := by
  refine ⟨⟨⟨by decide, by decide, by decide, by decide, by decide⟩, by decide, by decide, by decide, ?_, ?_, ?_, ?_⟩, by decide⟩
  · unfold BytesOK; decide
  · unfold KVOK BytesOK; decide
  · unfold KVOK BytesOK; decide
  · intro fs h; simp [sampleCfg, effectiveBody] at h

/-- K2 witness (known finding: path-parameter values are substituted unescaped): the value `a?b`
    does not arrive — the server's path ends at the `?` -/
def cfgK2 : Config :=
  { baseURL := b "http://example.com", url := b "/users/:id", method := b "GET",
    client := { headers := [], params := [], cookies := [], pathParams := [], userAgent := [], referer := [], timeout := 0 },
    request := { headers := [], params := [], cookies := [], pathParams := [(b "id", b "a?b")], userAgent := [],
                 referer := [], timeout := 0 },
    jar := [], body := .none }

theorem path_param_witness_K2 :
    unsafePathValue (b "http://example.com/users/:id") cfgK2.request.pathParams cfgK2.client.pathParams = true ∧
    (assemble cfgK2).map (fun a => a.path) = some (b "/users/a") ∧
    (assemble cfgK2).map (fun a => specAsm cfgK2 (b "http://example.com/users/:id") [] (arrived a)) =
      some (some "path-parameter-arrives(request-over-client)") := by decide

/-! ### pooled `Request` / `Response` objects -/

/-- **Nothing leaks through a pooled `Request`**: whatever an earlier user configured on the object
    (and whatever that send left in `RawRequest`), after `ReleaseRequest`/`Response.Close` the object
    is the one a brand-new released object is, so the next request built on it is the request built
    on a new object — configuration, body, bound client and all. -/
theorem pooled_request_forgets_everything (prev : ReqObj) : resetReq prev = resetReq newReq := rfl

theorem pooled_request_no_leak (earlier ss : List Setter) (o : ReqObj) :
    configure ss (resetReq (configure earlier o)) = configure ss (resetReq newReq) := rfl

theorem pooled_request_same_assembly (earlier ss : List Setter) (o : ReqObj) (cl : Level) (base : Bytes) (jar : List KV) :
    let r := configure ss (resetReq (configure earlier o))
    let r' := configure ss (resetReq newReq)
    assemble { baseURL := base, url := r.url, method := r.method, client := cl, request := levelOf r, jar := jar,
               body := bodyOf r } =
    assemble { baseURL := base, url := r'.url, method := r'.method, client := cl, request := levelOf r', jar := jar,
               body := bodyOf r' } ∧
    ∀ d, sendsThrough r d = sendsThrough r' d := ⟨rfl, fun _ => rfl⟩

/-- the `Reset` before the repair kept the client: a request that names no client went out through the
    previous request's client instead of the default one -/
theorem old_reset_leaks_client :
    sendsThrough (configure [.setURL (b "http://b/")] (resetReqOld (configure [.setClient 7] newReq))) 0 = 7 ∧
    sendsThrough (configure [.setURL (b "http://b/")] (resetReq (configure [.setClient 7] newReq))) 0 = 0 := by decide

theorem pooled_response_forgets_everything (prev : RespObj) : resetResp prev = newResp := rfl

example : levelOf (configure [.addHeader (b "X-A") (b "1"), .setHeader (b "X-A") (b "2"), .setCookie (b "c") (b "v")]
    (resetReq (configure [.addHeader (b "X-Leak") (b "x"), .setUserAgent (b "old"), .setClient 3] newReq))) =
    { headers := [(b "X-A", b "2")], params := [], cookies := [(b "c", b "v")], pathParams := [], userAgent := [],
      referer := [], timeout := 0 } := by decide

end C18
