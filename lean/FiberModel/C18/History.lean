import FiberModel.C18.Asm
/-
C18 (a'') — HISTORIES of requests through one `client.Client`: client/core.go `execute` runs the request hooks
(hooks.go `parserRequestURL` / `parserRequestHeader` / `parserRequestBody`) under `client.mu` for every request; they
READ the client-level configuration (`c.path`, `c.header`, `c.params`, `c.cookies`, user agent, referer, timeout, base
URL) and write only into the request's `RawRequest`. So a request is assembled from the client's configuration and its
own, and the client's configuration after the request is the one before it.

`sendOne` is that step: it returns the assembled request AND the client-level configuration the hooks leave behind
(unchanged). The harness ties the second component: it reads the client's configuration before the first and after
the last request of every case's history (`ccfg=`), and the requests of a history are judged one by one by the
per-request model/spec.

`sendOneAliased` is the step of a `replacePathParams` that merges both levels into the CLIENT's own map
(`params := clientParams; maps.Copy(params, reqParams)`) — kept for the witness.
-/
namespace C18
open B

/-- one request of a history: URL, method, request-level configuration, body -/
structure HReq where
  url : Bytes
  method : Bytes
  level : Level
  body : Body
  deriving Repr, DecidableEq

def HReq.config (baseURL : Bytes) (jar : List KV) (cl : Level) (r : HReq) : Config :=
  { baseURL := baseURL, url := r.url, method := r.method, client := cl, request := r.level, jar := jar, body := r.body }

/-- one request through the client: what is sent, and the client-level configuration afterwards -/
def sendOne (baseURL : Bytes) (jar : List KV) (cl : Level) (r : HReq) : Option Assembled × Level :=
  (assemble (r.config baseURL jar cl), cl)

/-- a history of requests through one client (the jar is held fixed: the responses of a history set no cookie) -/
def runHistoryWith (send : Level → HReq → Option Assembled × Level) : Level → List HReq → List (Option Assembled) × Level
  | cl, [] => ([], cl)
  | cl, r :: rs =>
    let s := send cl r
    let rest := runHistoryWith send s.2 rs
    (s.1 :: rest.1, rest.2)

def runHistoryH (baseURL : Bytes) (jar : List KV) : Level → List HReq → List (Option Assembled) × Level :=
  runHistoryWith (sendOne baseURL jar)

/-- the form the driver uses: the same URL and method, request levels and bodies as given -/
def runHistory (cl : Level) (reqs : List (Level × Body)) (baseURL url method : Bytes) (jar : List KV) :
    List (Option Assembled) × Level :=
  runHistoryH baseURL jar cl (reqs.map fun r => { url := url, method := method, level := r.1, body := r.2 })

/-- the aliasing merge: every request-level path parameter is written into the client-level map and stays there -/
def sendOneAliased (baseURL : Bytes) (jar : List KV) (cl : Level) (r : HReq) : Option Assembled × Level :=
  (assemble (r.config baseURL jar cl),
   { cl with pathParams := r.level.pathParams.foldl (fun m kv => storeSet m kv.1 kv.2) cl.pathParams })

end C18
