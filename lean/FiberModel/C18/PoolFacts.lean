import FiberModel.Generated.C18Facts
import FiberModel.C18.Pool
/-
C18 (a') — regenerated facts about the pooled types (translator/c18 reads /repo/client/request.go and
response.go on every run): which fields the structs have and which of them `Reset` touches (any occurrence of `r.x` in `Reset` or in a
method of the type that `Reset` calls on the receiver; `*r = …` counts as all — generous on purpose, so that a
refactoring of `Reset` does not break the fact). The
theorems tie the transcription `resetReq` / `resetResp` of Pool.lean to the code: the model object has
exactly the fields of the Go struct, and the Go `Reset` leaves no field out.
-/
namespace C18
open B

/-- the Go names of the fields of `ReqObj`, in the order of the structure (`hasCtx` = `ctx`, `raw` = `RawRequest`) -/
def modelRequestFields : List String :=
  ["ctx", "body", "header", "params", "cookies", "path", "client", "formData", "RawRequest", "url", "method",
   "userAgent", "boundary", "referer", "files", "timeout", "maxRedirects", "bodyType"]

/-- the Go names of the fields of `RespObj` (`raw` = `RawResponse`) -/
def modelResponseFields : List String := ["client", "request", "cookie", "RawResponse"]

/-- `(*Request).Reset` in /repo touches every field of `client.Request` -/
theorem request_reset_touches_every_field :
    Facts.requestFields.all (fun f => Facts.requestResetFields.contains f) = true := by decide

/-- the model object has exactly the fields of `client.Request`, in the same order -/
theorem model_request_has_the_fields : Facts.requestFields = modelRequestFields := by decide

/-- `(*Response).Reset` in /repo touches every field of `client.Response` -/
theorem response_reset_touches_every_field :
    Facts.responseFields.all (fun f => Facts.responseResetFields.contains f) = true := by decide

/-- the model object has exactly the fields of `client.Response` -/
theorem model_response_has_the_fields :
    Facts.responseFields.all (fun f => modelResponseFields.contains f) = true ∧
    modelResponseFields.all (fun f => Facts.responseFields.contains f) = true := by decide

/-! ### what `Reset` DOES to each field (regenerated effect list) -/

/-- fields a plain zero value clears (`""`, `nil`, `0`, `false`; `noBody` is the zero `bodyType`): what the model
    object holds afterwards. A zeroed `method` / `boundary` is NOT what `Reset` must leave (GET, the default boundary),
    so those two give a different object than `resetReq`. -/
def zeroReqField : String → Option (ReqObj → ReqObj)
  | "url" => some fun o => { o with url := [] }
  | "method" => some fun o => { o with method := [] }
  | "userAgent" => some fun o => { o with userAgent := [] }
  | "referer" => some fun o => { o with referer := [] }
  | "ctx" => some fun o => { o with hasCtx := false }
  | "client" => some fun o => { o with client := none }
  | "body" => some fun o => { o with body := none }
  | "timeout" => some fun o => { o with timeout := 0 }
  | "maxRedirects" => some fun o => { o with maxRedirects := 0 }
  | "bodyType" => some fun o => { o with bodyType := .noBody }
  | "boundary" => some fun o => { o with boundary := [] }
  | "files" => some fun o => { o with files := [] }
  | _ => none

/-- fields that are containers with a `Reset` of their own (pointers: a `nil` would not be a reset) -/
def helperReqField : String → Option (ReqObj → ReqObj)
  | "formData" => some fun o => { o with formData := [] }
  | "path" => some fun o => { o with path := [] }
  | "cookies" => some fun o => { o with cookies := [] }
  | "header" => some fun o => { o with header := [] }
  | "params" => some fun o => { o with params := [] }
  | "RawRequest" => some fun o => { o with raw := ([], []) }
  | _ => none

/-- the constants `Reset` assigns instead of a zero value -/
def defaultReqField : String → String → Option (ReqObj → ReqObj)
  | "method", "fiber.MethodGet" => some fun o => { o with method := b "GET" }
  | "bodyType", "noBody" => some fun o => { o with bodyType := .noBody }
  | "boundary", "boundary" => some fun o => { o with boundary := defaultBoundary }
  | _, _ => none

/-- one effect of the regenerated list on the model object; `none` = the translator (or this table) cannot say what
    the field holds afterwards. `touched` and `released` change nothing: a field that is only touched stays polluted. -/
def reqEffect (e : String × String × String) : Option (ReqObj → ReqObj) :=
  if e.2.1 = "zero" then zeroReqField e.1
  else if e.2.1 = "default" then defaultReqField e.1 e.2.2
  else if e.2.1 = "helper" then (if e.2.2 = "Reset" then helperReqField e.1 else none)
  else if e.2.1 = "pool" ∨ e.2.1 = "truncate" then (if e.1 = "files" then zeroReqField e.1 else none)
  else if e.2.1 = "touched" ∨ e.2.1 = "released" then some id
  else none

def applyReqEffects : List (String × String × String) → ReqObj → Option ReqObj
  | [], o => some o
  | e :: es, o => match reqEffect e with
    | some f => applyReqEffects es (f o)
    | none => none

def zeroRespField : String → Option (RespObj → RespObj)
  | "client" => some fun o => { o with client := none }
  | "request" => some fun o => { o with request := none }
  | "cookie" => some fun o => { o with cookie := [] }
  | _ => none

def respEffect (e : String × String × String) : Option (RespObj → RespObj) :=
  if e.2.1 = "zero" then zeroRespField e.1
  else if e.2.1 = "helper" then (if e.1 = "RawResponse" ∧ e.2.2 = "Reset" then some fun o => { o with raw := ([], []) } else none)
  else if e.2.1 = "pool" ∨ e.2.1 = "truncate" then (if e.1 = "cookie" then zeroRespField e.1 else none)
  else if e.2.1 = "touched" ∨ e.2.1 = "released" then some id
  else none

def applyRespEffects : List (String × String × String) → RespObj → Option RespObj
  | [], o => some o
  | e :: es, o => match respEffect e with
    | some f => applyRespEffects es (f o)
    | none => none

/-- REGENERATED FACT, per field: executing the effects `(*Request).Reset` has in /repo — zero value assigned, default
    assigned, the field's own `Reset` called, elements drained into their pool — on ANY object gives exactly the object
    the transcription `resetReq` gives. A field that is merely touched, assigned something the translator cannot read,
    reset only under a condition, or set to another constant breaks this theorem. -/
theorem request_reset_clears_every_field (o : ReqObj) :
    applyReqEffects Facts.requestResetEffects o = some (resetReq o) := by
  cases o; rfl

/-- the same for `(*Response).Reset` -/
theorem response_reset_clears_every_field (o : RespObj) :
    applyRespEffects Facts.responseResetEffects o = some (resetResp o) := by
  cases o; rfl

/-- the pooled elements (`files`: `ReleaseFile`, response cookies: `fasthttp.ReleaseCookie`) go back to their pools -/
theorem pooled_elements_are_released :
    Facts.requestResetEffects.any (fun e => e.1 == "files" && (e.2.1 == "pool" || e.2.1 == "released") && e.2.2 == "ReleaseFile") = true ∧
    Facts.responseResetEffects.any (fun e => e.1 == "cookie" && (e.2.1 == "pool" || e.2.1 == "released") &&
      e.2.2 == "fasthttp.ReleaseCookie") = true := by decide

/-- a used object: every field differs from a new one -/
def pollutedReq : ReqObj :=
  { hasCtx := true, body := some (b "x"), header := [(b "X-A", b "1")], params := [(b "p", b "1")],
    cookies := [(b "c", b "1")], path := [(b "id", b "1")], client := some 7, formData := [(b "f", b "1")],
    raw := ([(b "X-A", b "1")], b "x"), url := b "http://a/", method := b "POST", userAgent := b "ua",
    boundary := b "bb", referer := b "r", files := [(b "f", b "n", b "c")], timeout := 5, maxRedirects := 2,
    bodyType := .rawBody }

/-- non-vacuity: the code's effects turn the polluted object into a released new one -/
example : applyReqEffects Facts.requestResetEffects pollutedReq = some (resetReq newReq) := by decide
example : applyRespEffects Facts.responseResetEffects
    { client := some 1, request := some 2, cookie := [3, 4], raw := ([(b "Set-Cookie", b "k=v")], b "x") } = some newResp := by decide

/-- sensitivity: `path` only touched (`_ = r.path`), `method` zeroed, `client` left out — each gives another object -/
example : applyReqEffects (Facts.requestResetEffects.map fun e => if e.1 = "path" then ("path", "touched", "") else e)
    pollutedReq ≠ some (resetReq pollutedReq) := by decide
example : applyReqEffects (Facts.requestResetEffects.map fun e => if e.1 = "method" then ("method", "zero", "") else e)
    pollutedReq ≠ some (resetReq pollutedReq) := by decide
example : applyReqEffects (Facts.requestResetEffects.filter fun e => e.1 != "client") pollutedReq ≠
    some (resetReq pollutedReq) := by decide
example : applyRespEffects (Facts.responseResetEffects.filter fun e => e.1 != "request")
    { client := some 1, request := some 2, cookie := [3], raw := ([], []) } ≠ some newResp := by decide

/-- hence the leak theorem of Props.lean holds for the Reset the CODE performs: a request configured on an object
    that went through the code's effects is the request configured on a released new object -/
theorem pooled_request_no_leak_by_code (ss pollution : List Setter) :
    (applyReqEffects Facts.requestResetEffects (configure pollution newReq)).map (configure ss) =
    some (configure ss (resetReq newReq)) := by
  rw [request_reset_clears_every_field]
  cases h : configure pollution newReq; rfl

end C18
