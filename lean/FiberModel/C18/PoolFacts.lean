import FiberModel.Generated.C18Facts
import FiberModel.C18.Pool
/-
C18 (a') — regenerated facts about the pooled types (translator/c18 reads /repo/client/request.go and
response.go on every run): which fields the structs have and which of them `Reset` touches (any occurrence of `r.x` in `Reset` or in a
method of the type that `Reset` calls on the receiver; `*r = …` counts as all — generous on purpose, so that a
refactoring of `Reset` does not break the fact). The
theorems tie the transcription `resetReq` / `resetResp` of Pool.lean to the code: the model object has
exactly the fields of the Go struct, and the Go `Reset` leaves no field out.
-/
namespace C18

/-- the Go names of the fields of `ReqObj`, in the order of the structure (`hasCtx` = `ctx`, `raw` = `RawRequest`) -/
def modelRequestFields : List String :=
  ["ctx", "body", "header", "params", "cookies", "path", "client", "formData", "RawRequest", "url", "method",
   "userAgent", "boundary", "referer", "files", "timeout", "maxRedirects", "bodyType"]

/-- the Go names of the fields of `RespObj` (`raw` = `RawResponse`) -/
def modelResponseFields : List String := ["client", "request", "cookie", "RawResponse"]

/-- `(*Request).Reset` in /repo touches every field of `client.Request` -/
theorem request_reset_touches_every_field :
    Facts.requestFields.all (fun f => Facts.requestResetFields.contains f) = true := by decide

/-- the model object has exactly the fields of `client.Request`, in the same order -/
theorem model_request_has_the_fields : Facts.requestFields = modelRequestFields := by decide

/-- `(*Response).Reset` in /repo touches every field of `client.Response` -/
theorem response_reset_touches_every_field :
    Facts.responseFields.all (fun f => Facts.responseResetFields.contains f) = true := by decide

/-- the model object has exactly the fields of `client.Response` -/
theorem model_response_has_the_fields :
    Facts.responseFields.all (fun f => modelResponseFields.contains f) = true ∧
    modelResponseFields.all (fun f => Facts.responseFields.contains f) = true := by decide

end C18
