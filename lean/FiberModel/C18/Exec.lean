import FiberModel.Basic
/-
C18 (c) — client/core.go `execFunc`: the hand-off between the caller ("main", the `select`) and the
request goroutine ("worker") over a pooled `Response`, a pooled error channel (capacity 1) and the
`done` flag, for any number of requests using one client concurrently.

Objects carry a ghost `owner` (the request between `Acquire…` and `Release…`; `none` = in the pool
or not yet allocated). `ReleaseResponse` resets the response, `releaseErrChan` does *not* drain the
channel. A step of the system is an `Action`; a schedule is a list of actions (disabled ones are
skipped), so `run` covers every interleaving, every timing of `ctx.Done()` and of the server's
answer (or of a transport error), and every pool behaviour (`start` names which pooled/new objects
the request gets).

`fixed = true` is the repaired `case <-c.ctx.Done()` branch (wait for the channel when the swap
finds the flag already set); `fixed = false` is the code before /repo commit "client waits for a
completed request before recycling its response on timeout".
-/
namespace C18

inductive MPc where
  | idle        -- not started
  | select      -- blocked in `select { case <-errCh … case <-ctx.Done() … }`
  | swap        -- took the ctx.Done branch, about to `atomic.SwapInt32(&done, 1)`
  | drain       -- (repaired) swap returned 1: waiting for `<-errCh`
  | rel         -- about to `ReleaseResponse(resp)`, return ErrTimeoutOrCancel (deferred releaseErrChan)
  | relE        -- received an error: about to `ReleaseResponse(resp)`, return it (deferred releaseErrChan)
  | holding     -- returned `resp, nil`; the caller holds the response until `Close`
  | finished    -- returned an error, or closed the response
  deriving Repr, DecidableEq

inductive WPc where
  | none        -- not spawned
  | doing       -- inside `fasthttp.Do`
  | cas         -- about to `CompareAndSwapInt32(&done, 0, 1)`
  | copy        -- won the CAS, no error: about to `respv.CopyTo(resp.RawResponse)`
  | send        -- about to `errCh <- err` / `errCh <- nil`
  | exit
  deriving Repr, DecidableEq

/-- what the caller of `execFunc` (and then of `Close`) finally saw -/
inductive Outcome where
  | timeout                  -- ErrTimeoutOrCancel
  | failed                   -- the error `fasthttp.Do` returned
  | response (of : Option Nat)   -- a response carrying the answer to request `of` (`none`: a blank one)
  deriving Repr, DecidableEq

structure Req where
  m : MPc := .idle
  w : WPc := .none
  done : Bool := false
  err : Bool := false            -- `fasthttp.Do` returned an error
  fired : Bool := false          -- ghost: this request's context fired
  resp : Nat := 0
  chan : Nat := 0
  result : Option Outcome := none
  deriving Repr, DecidableEq

structure G where
  reqs : Nat → Req
  rOwner : Nat → Option Nat          -- Response object ↦ owning request
  cOwner : Nat → Option Nat          -- channel ↦ owning request
  rData : Nat → Option Nat           -- whose answer the Response object carries
  cBuf : Nat → Option (Nat × Bool)   -- buffered value: (sending request, is an error)
  bad : Bool                         -- a write hit an object of another request / a caller got a foreign answer

def G.init : G :=
  { reqs := fun _ => {}, rOwner := fun _ => none, cOwner := fun _ => none,
    rData := fun _ => none, cBuf := fun _ => none, bad := false }

def upd {α : Type} (f : Nat → α) (i : Nat) (v : α) : Nat → α := fun x => if x = i then v else f x

inductive Action where
  | start (i r c : Nat)     -- request i enters execFunc and acquires Response r and channel c
  | recv (i : Nat)          -- main: the `case err := <-errCh` branch
  | timeout (i : Nat)       -- main: the `case <-c.ctx.Done()` branch is taken (context fired)
  | main (i : Nat)          -- main: next internal step (swap / drain / release)
  | worker (i : Nat)        -- worker: next step (`fasthttp.Do` returns without error)
  | fail (i : Nat)          -- worker: `fasthttp.Do` returns an error
  | close (i : Nat)         -- the caller reads and closes the response it was given
  deriving Repr, DecidableEq

/-- one step; `none` = the action is not enabled in this state -/
def step (fixed : Bool) (g : G) : Action → Option G
  | .start i r c =>
    let q := g.reqs i
    if q.m = .idle ∧ g.rOwner r = none ∧ g.cOwner c = none then
      some { g with reqs := upd g.reqs i { q with m := .select, w := .doing, resp := r, chan := c },
                    rOwner := upd g.rOwner r (some i), cOwner := upd g.cOwner c (some i),
                    rData := upd g.rData r none }
    else none
  | .recv i =>
    let q := g.reqs i
    if q.m = .select then
      match g.cBuf q.chan with
      | some (s, false) =>
        some { g with reqs := upd g.reqs i { q with m := .holding },
                      cBuf := upd g.cBuf q.chan none, cOwner := upd g.cOwner q.chan none,
                      bad := g.bad || decide (s ≠ i) }
      | some (s, true) =>
        some { g with reqs := upd g.reqs i { q with m := .relE },
                      cBuf := upd g.cBuf q.chan none,
                      bad := g.bad || decide (s ≠ i) }
      | none => none
    else none
  | .timeout i =>
    let q := g.reqs i
    if q.m = .select then some { g with reqs := upd g.reqs i { q with m := .swap, fired := true } } else none
  | .main i =>
    let q := g.reqs i
    match q.m with
    | .swap =>
      some { g with reqs := upd g.reqs i { q with done := true, m := if fixed && q.done then .drain else .rel } }
    | .drain =>
      match g.cBuf q.chan with
      | some (s, _) => some { g with reqs := upd g.reqs i { q with m := .rel }, cBuf := upd g.cBuf q.chan none,
                                     bad := g.bad || decide (s ≠ i) }
      | none => none
    | .rel =>
      some { g with reqs := upd g.reqs i { q with m := .finished, result := some .timeout },
                    rOwner := upd g.rOwner q.resp none, rData := upd g.rData q.resp none,
                    cOwner := upd g.cOwner q.chan none }
    | .relE =>
      some { g with reqs := upd g.reqs i { q with m := .finished, result := some .failed },
                    rOwner := upd g.rOwner q.resp none, rData := upd g.rData q.resp none,
                    cOwner := upd g.cOwner q.chan none }
    | _ => none
  | .worker i =>
    let q := g.reqs i
    match q.w with
    | .doing => some { g with reqs := upd g.reqs i { q with w := .cas } }
    | .cas =>
      if q.done then some { g with reqs := upd g.reqs i { q with w := .exit } }
      else some { g with reqs := upd g.reqs i { q with w := if q.err then .send else .copy, done := true } }
    | .copy =>
      some { g with reqs := upd g.reqs i { q with w := .send }, rData := upd g.rData q.resp (some i),
                    bad := g.bad || decide (g.rOwner q.resp ≠ some i) }
    | .send =>
      match g.cBuf q.chan with
      | some _ => none          -- a full channel would block the sender
      | none => some { g with reqs := upd g.reqs i { q with w := .exit }, cBuf := upd g.cBuf q.chan (some (i, q.err)),
                              bad := g.bad || decide (g.cOwner q.chan ≠ some i) }
    | _ => none
  | .fail i =>
    let q := g.reqs i
    match q.w with
    | .doing => some { g with reqs := upd g.reqs i { q with w := .cas, err := true } }
    | _ => none
  | .close i =>
    let q := g.reqs i
    if q.m = .holding then
      some { g with reqs := upd g.reqs i { q with m := .finished,
                                                  result := some (.response (g.rData q.resp)) },
                    rOwner := upd g.rOwner q.resp none, rData := upd g.rData q.resp none,
                    bad := g.bad || decide (g.rData q.resp ≠ some i) }
    else none

/-- run a schedule, skipping disabled actions -/
def run (fixed : Bool) : G → List Action → G
  | g, [] => g
  | g, a :: as => match step fixed g a with
    | some g' => run fixed g' as
    | none => run fixed g as

end C18
