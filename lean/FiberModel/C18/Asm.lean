import FiberModel.C11.Codec
/-
C18 (a) — request assembly: client/hooks.go `parserRequestURL`, `parserRequestHeader`,
`parserRequestBody` as a pure function of the client- and request-level configuration.

Stores follow fasthttp: `Args` / `RequestHeader.h` are ordered lists with `Add` = append and `Set` =
overwrite the first entry with that key, else append; `Request.SetHeader` is `Del` then `Set`.
`Cookie` and `PathParam` are Go maps (assignment; iteration order arbitrary — the model takes the
map as a list in *some* order and the theorems quantify over its permutations).
The path-parameter substitution is the repaired one (`replacePathParams`, /repo commit "client
substitutes path parameters in a fixed order"): request keys, then client keys not set on the
request, longest key first, ties lexical. `substUnordered` is the pre-repair loop, kept for the
order-dependence witness.
-/
namespace C18
open B C11

/-! ### ordered stores -/

abbrev KV := Bytes × Bytes

/-- fasthttp `setArg` / `setArgBytes`: overwrite the first entry with that key, else append -/
def storeSet : List KV → Bytes → Bytes → List KV
  | [], k, v => [(k, v)]
  | (k', v') :: rest, k, v => if k' = k then (k', v) :: rest else (k', v') :: storeSet rest k v

def storeAdd (s : List KV) (k v : Bytes) : List KV := s ++ [(k, v)]

def storeDel (s : List KV) (k : Bytes) : List KV := s.filter (·.1 ≠ k)

inductive Op where
  | add (k v : Bytes)
  | set (k v : Bytes)
  deriving Repr, DecidableEq

/-- client-level `AddHeader/SetHeader`, both levels' `AddParam/SetParam`, `AddFormData/SetFormData` -/
def applyOps (ops : List Op) : List KV :=
  ops.foldl (fun s o => match o with
    | .add k v => storeAdd s k v
    | .set k v => storeSet s k v) []

/-- request-level `AddHeader` / `SetHeader` (`Del` + `Set`) -/
def applyReqHeaderOps (ops : List Op) : List KV :=
  ops.foldl (fun s o => match o with
    | .add k v => storeAdd s k v
    | .set k v => storeSet (storeDel s k) k v) []

/-- a Go map built by successive assignments, as an association list with unique keys
    (first-assignment order; the order is not observable) -/
def mapOf (kvs : List KV) : List KV := kvs.foldl (fun m kv => storeSet m kv.1 kv.2) []

def mapGet (m : List KV) (k : Bytes) : Option Bytes := (m.find? (·.1 = k)).map (·.2)

/-! ### query args with the `noValue` flag (`?flag`) -/

structure Arg where
  key : Bytes
  value : Bytes
  noValue : Bool
  deriving Repr, DecidableEq

/-- one `argsScanner.next` result -/
def parseArgSeg (seg : Bytes) : Arg :=
  if seg.contains 61 then
    let r := cutEq seg
    { key := urldecode r.1, value := urldecode r.2, noValue := false }
  else { key := urldecode seg, value := [], noValue := true }

/-- `Args.Parse` -/
def parseArgsNV (s : Bytes) : List Arg :=
  ((splitOn s 38).map parseArgSeg).filter fun a => !(a.key.isEmpty && a.value.isEmpty)

/-- `Args.AppendBytes` -/
def renderArgNV (a : Arg) : Bytes :=
  if a.noValue then urlencode a.key else urlencode a.key ++ [61] ++ urlencode a.value

def renderArgsNV (as : List Arg) : Bytes := join (as.map renderArgNV) [38]

def argOf (kv : KV) : Arg := { key := kv.1, value := kv.2, noValue := false }

/-! ### URL -/

/-- `protocolCheck = ^https?://.*$` (no newline in the subject) -/
def hasProtocol (u : Bytes) : Bool := hasPrefix u (b "http://") || hasPrefix u (b "https://")

/-- first element of `strings.Split(s, sep)` and the second one ("" when there is none) -/
def split2 (s : Bytes) (c : Nat) : Bytes × Bytes :=
  match splitOn s c with
  | a :: b' :: _ => (a, b')
  | a :: [] => (a, [])
  | [] => ([], [])

/-- `strings.ReplaceAll(s, pat, rep)` for a non-empty `pat` (leftmost, non-overlapping). -/
def replaceAll (s pat rep : Bytes) : Bytes :=
  go s.length s
where
  go : Nat → Bytes → Bytes
    | 0, s => s
    | _, [] => []
    | fuel + 1, c :: cs =>
      if pat.isEmpty then c :: cs
      else if pat.isPrefixOf (c :: cs) then rep ++ go fuel ((c :: cs).drop pat.length)
      else c :: go fuel cs

def bytesLt : Bytes → Bytes → Bool
  | [], [] => false
  | [], _ :: _ => true
  | _ :: _, [] => false
  | x :: xs, y :: ys => if x < y then true else if y < x then false else bytesLt xs ys

/-- the order of `replacePathParams`: longer keys first, ties in lexical order -/
def keyBefore (a b' : Bytes) : Bool :=
  if a.length ≠ b'.length then decide (a.length > b'.length) else bytesLt a b' || a == b'

def insertKey (k : Bytes) : List Bytes → List Bytes
  | [] => [k]
  | x :: xs => if keyBefore k x then k :: x :: xs else x :: insertKey k xs

def sortKeys (ks : List Bytes) : List Bytes := ks.foldr insertKey []

/-- `replacePathParams(uri, reqParams, clientParams)` (repaired code) -/
def substParams (uri : Bytes) (reqP clientP : List KV) : Bytes :=
  let keys := reqP.map (·.1) ++ (clientP.map (·.1)).filter (fun k => (mapGet reqP k).isNone)
  (sortKeys keys).foldl (fun u k =>
    let v := match mapGet reqP k with
      | some v => v
      | none => (mapGet clientP k).getD []
    replaceAll u (58 :: k) v) uri

/-- the pre-repair loops: request map in its iteration order, then the client map in its -/
def substUnordered (uri : Bytes) (reqP clientP : List KV) : Bytes :=
  (reqP ++ clientP).foldl (fun u kv => replaceAll u (58 :: kv.1) kv.2) uri

/-! ### configuration and assembled request -/

structure Level where
  headers : List KV        -- store contents after the ops
  params : List KV
  cookies : List KV        -- map (unique keys)
  pathParams : List KV     -- map (unique keys)
  userAgent : Bytes
  referer : Bytes
  timeout : Nat            -- ms, 0 = unset
  deriving Repr, DecidableEq

inductive Body where
  | none
  | raw (bytes : Bytes)
  | form (fields : List KV)
  | files (fields : List KV) (files : List (Bytes × Bytes × Bytes))   -- fieldName fileName content
  deriving Repr, DecidableEq

structure Config where
  baseURL : Bytes
  url : Bytes
  method : Bytes
  client : Level
  request : Level
  jar : List KV            -- cookies the jar returns for this URL (unique names)
  body : Body
  deriving Repr, DecidableEq

structure Assembled where
  method : Bytes
  host : Bytes
  path : Bytes
  rawQuery : Bytes
  headers : List KV        -- merged headers in wire order
  userAgent : Bytes
  referer : Bytes
  cookies : List KV        -- map (unique names); wire order not modelled
  contentType : Bytes      -- what `parserRequestHeader` sets ("" = left alone)
  body : Body
  timeout : Nat
  deriving Repr, DecidableEq

def defaultUserAgent : Bytes := b "fiber"

/-- `host` and `path` of an absolute `http(s)://host[/path][?query][#frag]` as `SetRequestURI` /
    `URI.Parse` split it (the URL's own '?' was split off before; one that a substituted value
    brings along ends the path here) -/
def hostPath (u : Bytes) : Bytes × Bytes :=
  let rest := if hasPrefix u (b "https://") then u.drop 8 else u.drop 7
  let rest := (split2 rest 35).1
  let rest := (split2 rest 63).1
  match indexByte rest 47 with
  | some i => (rest.take i, rest.drop i)
  | none => (rest, [47])

/-- fasthttp `normalizePath`, the part that concerns a path without dot segments: runs of '/' collapse
    (client side, before the request line is written) -/
def collapseSlashes : Bytes → Bytes
  | 47 :: 47 :: rest => collapseSlashes (47 :: rest)
  | c :: rest => c :: collapseSlashes rest
  | [] => []

/-- cookies: jar, then client map, then request map (`SetCookie` overwrites by name) -/
def mergeCookies (jar clientC reqC : List KV) : List KV :=
  (jar ++ clientC ++ reqC).foldl (fun m kv => storeSet m kv.1 kv.2) []

def effectiveBody : Body → Body
  | .form [] => .none
  | .files fs [] => if fs.isEmpty then .none else .form fs
  | bd => bd

def contentTypeOf : Body → Bytes
  | .form _ => b "application/x-www-form-urlencoded"
  | .files _ _ => b "multipart/form-data"
  | _ => []

/-- `parserRequestURL` + `parserRequestHeader` + `parserRequestBody` + `core.timeout`.
    `none` = `ErrURLFormat`. -/
def assemble (c : Config) : Option Assembled :=
  let sp := split2 c.url 63
  let uri0 := if hasProtocol sp.1 then sp.1 else c.baseURL ++ sp.1
  if !hasProtocol uri0 then none
  else
    let uri := substParams uri0 c.request.pathParams c.client.pathParams
    let hp := hostPath uri
    let q0 := (split2 sp.2 35).1
    let args := parseArgsNV q0 ++ c.client.params.map argOf ++ c.request.params.map argOf
    let bd := effectiveBody c.body
    some {
      method := c.method, host := hp.1, path := hp.2,
      rawQuery := renderArgsNV args,
      headers := c.client.headers ++ c.request.headers,
      userAgent := if c.request.userAgent ≠ [] then c.request.userAgent
                   else if c.client.userAgent ≠ [] then c.client.userAgent else defaultUserAgent,
      referer := if c.request.referer ≠ [] then c.request.referer else c.client.referer,
      cookies := mergeCookies c.jar c.client.cookies c.request.cookies,
      contentType := contentTypeOf bd,
      body := bd,
      timeout := if c.request.timeout > 0 then c.request.timeout else c.client.timeout }

end C18
