import FiberModel.C18.Asm
/-
C18 (a') — pooled `client.Request` / `client.Response` objects: client/request.go `requestPool.New`,
`Request.Reset` (called by `ReleaseRequest` and through `Response.Close`), the setters, and
client/response.go `Response.Reset`. A request is built by setters on an object that `AcquireRequest`
took from the pool — i.e. on whatever an earlier user left in it, passed through `Reset`.

`resetReq` transcribes `Reset` field by field (the repaired one: /repo commit "a released request
forgets its client"); `resetReqOld` is the one before the repair, kept for the witness.
-/
namespace C18
open B

inductive BodyType where
  | noBody | jsonBody | xmlBody | cborBody | formBody | filesBody | rawBody
  deriving Repr, DecidableEq

/-- the fields of `client.Request` (request.go `type Request struct`); `raw` stands for what the last
    send left in `RawRequest` (header lines, body) -/
structure ReqObj where
  hasCtx : Bool
  body : Option Bytes
  header : List KV
  params : List KV
  cookies : List KV
  path : List KV
  client : Option Nat            -- which client the request is bound to (`nil` = none: the default client)
  formData : List KV
  raw : List KV × Bytes
  url : Bytes
  method : Bytes
  userAgent : Bytes
  boundary : Bytes
  referer : Bytes
  files : List (Bytes × Bytes × Bytes)
  timeout : Nat
  maxRedirects : Nat
  bodyType : BodyType
  deriving Repr, DecidableEq

def defaultBoundary : Bytes := b "--FiberFormBoundary"

/-- `requestPool.New` -/
def newReq : ReqObj :=
  { hasCtx := false, body := none, header := [], params := [], cookies := [], path := [], client := none,
    formData := [], raw := ([], []), url := [], method := [], userAgent := [], boundary := defaultBoundary,
    referer := [], files := [], timeout := 0, maxRedirects := 0, bodyType := .noBody }

/-- `(*Request).Reset` as repaired -/
def resetReq (o : ReqObj) : ReqObj :=
  { o with url := [], method := b "GET", userAgent := [], referer := [], hasCtx := false, client := none,
           body := none, timeout := 0, maxRedirects := 0, bodyType := .noBody, boundary := defaultBoundary,
           files := [], formData := [], path := [], cookies := [], header := [], params := [], raw := ([], []) }

/-- `(*Request).Reset` before the repair: `client` survives -/
def resetReqOld (o : ReqObj) : ReqObj := { resetReq o with client := o.client }

/-- `resetBody(t)` -/
def resetBody (o : ReqObj) (t : BodyType) : ReqObj :=
  if o.bodyType = .filesBody ∧ t = .formBody then { o with body := none } else { o with body := none, bodyType := t }

inductive Setter where
  | setURL (u : Bytes) | setMethod (m : Bytes) | setClient (c : Nat) | setContext
  | addHeader (k v : Bytes) | setHeader (k v : Bytes) | addParam (k v : Bytes) | setParam (k v : Bytes)
  | setCookie (k v : Bytes) | setPathParam (k v : Bytes)
  | setUserAgent (v : Bytes) | setReferer (v : Bytes) | setBoundary (v : Bytes)
  | setTimeout (ms : Nat) | setMaxRedirects (n : Nat)
  | setRawBody (bs : Bytes) | addFormData (k v : Bytes) | setFormData (k v : Bytes)
  | addFile (field name content : Bytes)
  deriving Repr, DecidableEq

/-- the setters of request.go -/
def applySetter (o : ReqObj) : Setter → ReqObj
  | .setURL u => { o with url := u }
  | .setMethod m => { o with method := m }
  | .setClient c => { o with client := some c }
  | .setContext => { o with hasCtx := true }
  | .addHeader k v => { o with header := storeAdd o.header k v }
  | .setHeader k v => { o with header := storeSet (storeDel o.header k) k v }
  | .addParam k v => { o with params := storeAdd o.params k v }
  | .setParam k v => { o with params := storeSet o.params k v }
  | .setCookie k v => { o with cookies := storeSet o.cookies k v }
  | .setPathParam k v => { o with path := storeSet o.path k v }
  | .setUserAgent v => { o with userAgent := v }
  | .setReferer v => { o with referer := v }
  | .setBoundary v => { o with boundary := v }
  | .setTimeout ms => { o with timeout := ms }
  | .setMaxRedirects n => { o with maxRedirects := n }
  | .setRawBody bs => { o with body := some bs, bodyType := .rawBody }
  | .addFormData k v => resetBody { o with formData := storeAdd o.formData k v } .formBody
  | .setFormData k v => resetBody { o with formData := storeSet o.formData k v } .formBody
  | .addFile f n c => resetBody { o with files := o.files ++ [(f, n, c)] } .filesBody

def configure (ss : List Setter) (o : ReqObj) : ReqObj := ss.foldl applySetter o

/-- the request-level configuration `parserRequest…` reads from the object -/
def levelOf (o : ReqObj) : Level :=
  { headers := o.header, params := o.params, cookies := o.cookies, pathParams := o.path,
    userAgent := o.userAgent, referer := o.referer, timeout := o.timeout }

def bodyOf (o : ReqObj) : Body :=
  match o.bodyType with
  | .rawBody => .raw (o.body.getD [])
  | .formBody => .form o.formData
  | .filesBody => .files o.formData o.files
  | _ => .none

/-- the client a send goes through (`checkClient`): the bound one, else the default client -/
def sendsThrough (o : ReqObj) (defaultClient : Nat) : Nat := o.client.getD defaultClient

/-- the fields of `client.Response`; `raw` = status/headers/body left in `RawResponse` -/
structure RespObj where
  client : Option Nat
  request : Option Nat
  cookie : List Nat              -- acquired fasthttp cookies (references)
  raw : List KV × Bytes
  deriving Repr, DecidableEq

/-- `responsePool.New` -/
def newResp : RespObj := { client := none, request := none, cookie := [], raw := ([], []) }

/-- `(*Response).Reset`: forgets client and request, releases its cookies, resets `RawResponse` -/
def resetResp (o : RespObj) : RespObj := { o with client := none, request := none, cookie := [], raw := ([], []) }

end C18
