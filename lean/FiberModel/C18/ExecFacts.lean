import FiberModel.Generated.C18Facts
import FiberModel.C18.Exec
/-
C18 (c') — regenerated fact about client/core.go `(*core).execFunc` (translator/c18 reads it on every run):
the hand-off statements in source order with their nesting (`Facts.execOrder`). The theorems pin that order and
tie the hand-written transition system of Exec.lean to it: along every branch of the code (completion flag won /
lost, transfer error or not, `errCh` case / `ctx.Done()` case, flag found set by the swap or not) the sequence of
program counters the model's request goroutine / caller goes through is the sequence of statements the code has
on that branch. A reordering (send before `CopyTo`, release before the drain, no drain, `CopyTo` outside the
flag, …) changes `Facts.execOrder` and breaks these theorems.
-/
namespace C18

/-- `execFunc` as repaired (F6): what the model was written against -/
def pinnedExecOrder : List String :=
  ["acquire-response", "acquire-chan", "defer-release-chan", "copy-request",
   "go{", "do", "if-cas-won{", "if-err{", "send-err", "return", "}", "copyto", "send-nil", "}", "}",
   "select{",
     "case-recv{", "if-err{", "release-response", "return-err", "}", "return-resp", "}",
     "case-ctx{", "if-swap-was-set{", "recv", "}", "release-response", "return-timeout", "}",
   "}"]

def blockOpeners : List String :=
  ["go{", "if-cas-won{", "if-err{", "if-swap-was-set{", "if-swap-other{", "select{", "case-recv{", "case-ctx{",
   "case-other{", "case-default{", "if{", "else{", "loop{", "defer{"]

def returnTokens : List String := ["return", "return-resp", "return-err", "return-timeout", "return-other"]

/-- the rest of the token list behind the `}` that closes the block we are in (`d` = nested blocks open) -/
def skipBlock : Nat → List String → List String
  | _, [] => []
  | d, t :: ts =>
    if blockOpeners.contains t then skipBlock (d + 1) ts
    else if t == "}" then (match d with | 0 => ts | d + 1 => skipBlock d ts)
    else skipBlock d ts

/-- the tokens of the block we are in, up to its closing `}` -/
def takeBlock : Nat → List String → List String
  | _, [] => []
  | d, t :: ts =>
    if blockOpeners.contains t then t :: takeBlock (d + 1) ts
    else if t == "}" then (match d with | 0 => [] | d + 1 => t :: takeBlock d ts)
    else t :: takeBlock d ts

/-- conditionals whose condition is itself a hand-off statement (the CAS, the swap): executed whether or not the
    block is entered -/
def effectfulConditions : List String := ["if-cas-won{", "if-swap-was-set{", "if-swap-other{"]

/-- the statements executed on one path: `take t` says whether the block opened by `t` is entered;
    a `return…` ends the path -/
def pathOf (take : String → Bool) : Nat → List String → List String
  | 0, _ => []
  | _, [] => []
  | n + 1, t :: ts =>
    if returnTokens.contains t then [t]
    else if blockOpeners.contains t then
      (if take t then t :: pathOf take n ts
       else (if effectfulConditions.contains t then [t] else []) ++ pathOf take n (skipBlock 0 ts))
    else if t == "}" then pathOf take n ts
    else t :: pathOf take n ts

/-- the body of the request goroutine -/
def goBody (toks : List String) : List String := takeBlock 0 ((toks.dropWhile (· != "go{")).drop 1)

/-- the caller's statements: everything outside the goroutine -/
def callerPath (take : String → Bool) (toks : List String) : List String :=
  pathOf (fun t => t != "go{" && take t) toks.length toks

def workerPath (casWon err : Bool) (toks : List String) : List String :=
  pathOf (fun t => (t == "if-cas-won{" && casWon) || (t == "if-err{" && err)) toks.length (goBody toks)

/-- statement ↦ the program counter of the model's request goroutine that stands for it -/
def workerPc : String → Option WPc
  | "do" => some .doing
  | "if-cas-won{" => some .cas
  | "copyto" => some .copy
  | "send-err" => some .send
  | "send-nil" => some .send
  | _ => none

/-- statement ↦ program counter of the model's caller (`release-response` is `rel` in the `ctx.Done()` case and
    `relE` in the error case; a `return` maps to the state it leaves the caller in) -/
def callerPc (inCtx : Bool) : String → Option MPc
  | "select{" => some .select
  | "if-swap-was-set{" => some .swap
  | "swap" => some .swap
  | "recv" => some .drain
  | "release-response" => some (if inCtx then .rel else .relE)
  | "return-resp" => some .holding
  | "return-err" => some .finished
  | "return-timeout" => some .finished
  | _ => none

/-- the caller's program counters on a path: the conditional around the swap is entered exactly when the swap found
    the flag set -/
def callerPcs (ctxCase errCase flagWasSet : Bool) (toks : List String) : List MPc :=
  let path := callerPath (fun t => t == "select{" || (t == "case-recv{" && !ctxCase) || (t == "case-ctx{" && ctxCase) ||
                                    (t == "if-err{" && errCase) || (t == "if-swap-was-set{" && flagWasSet)) toks
  path.filterMap (callerPc ctxCase)

def workerPcs (casWon err : Bool) (toks : List String) : List WPc := (workerPath casWon err toks).filterMap workerPc

/-- the program counters request 0's goroutine goes through under a schedule (recorded before each of its steps) -/
def wTrace (fixed : Bool) : G → List Action → List WPc
  | _, [] => []
  | g, a :: as =>
    match step fixed g a with
    | some g' =>
      (if a = .worker 0 ∨ a = .fail 0 then [(g.reqs 0).w] else []) ++ wTrace fixed g' as
    | none => wTrace fixed g as

/-- the program counters request 0's caller goes through (recorded before each of its steps), then where it ends -/
def mTrace (fixed : Bool) : G → List Action → List MPc
  | g, [] => [(g.reqs 0).m]
  | g, a :: as =>
    match step fixed g a with
    | some g' =>
      (if a = .recv 0 ∨ a = .timeout 0 ∨ a = .main 0 then [(g.reqs 0).m] else []) ++ mTrace fixed g' as
    | none => mTrace fixed g as

/-! schedules that drive request 0 through each branch -/
def schedOk : List Action := [.start 0 0 0, .worker 0, .worker 0, .worker 0, .worker 0, .recv 0]
def schedErr : List Action := [.start 0 0 0, .fail 0, .worker 0, .worker 0, .recv 0, .main 0]
def schedLost : List Action := [.start 0 0 0, .worker 0, .timeout 0, .main 0, .worker 0, .main 0]
def schedDrain : List Action :=
  [.start 0 0 0, .worker 0, .worker 0, .timeout 0, .main 0, .worker 0, .worker 0, .main 0, .main 0]

/-- REGENERATED FACT: the hand-off statements of `execFunc` in /repo stand in the order (and nesting) the model was
    written against: the completion CAS guards both `CopyTo` and the sends, `CopyTo` precedes `errCh <- nil`, the
    `ctx.Done()` branch swaps, drains when the flag was set, and only then releases the Response -/
theorem execFunc_statement_order : Facts.execOrder = pinnedExecOrder := by decide

/-- the model's request goroutine takes the code's statements in the code's order, on every branch: answer, transfer
    error, completion flag lost to the caller -/
theorem exec_model_worker_follows_code :
    wTrace true G.init schedOk = workerPcs true false Facts.execOrder ∧
    wTrace true G.init schedErr = workerPcs true true Facts.execOrder ∧
    wTrace true G.init schedLost = workerPcs false false Facts.execOrder := by decide

/-- the model's caller takes the code's statements in the code's order, on every branch: answer, error, context fired
    before completion, context fired after completion (swap, drain, release) -/
theorem exec_model_caller_follows_code :
    mTrace true G.init schedOk = callerPcs false false false Facts.execOrder ∧
    mTrace true G.init schedErr = callerPcs false true false Facts.execOrder ∧
    mTrace true G.init schedLost = callerPcs true false false Facts.execOrder ∧
    mTrace true G.init schedDrain = callerPcs true false true Facts.execOrder := by decide

/-- non-vacuity: the four schedules really run through the branches (nothing is skipped as disabled) -/
example : wTrace true G.init schedOk = [.doing, .cas, .copy, .send] ∧
          wTrace true G.init schedErr = [.doing, .cas, .send] ∧
          wTrace true G.init schedLost = [.doing, .cas] ∧
          mTrace true G.init schedOk = [.select, .holding] ∧
          mTrace true G.init schedErr = [.select, .relE, .finished] ∧
          mTrace true G.init schedLost = [.select, .swap, .rel, .finished] ∧
          mTrace true G.init schedDrain = [.select, .swap, .drain, .rel, .finished] := by decide

/-- sensitivity: the code before F6 (no drain) is NOT what the repaired model follows, and a send before `CopyTo`
    is not either -/
example : mTrace true G.init schedDrain ≠ callerPcs true false true (pinnedExecOrder.filter (· != "recv")) := by decide
example : wTrace true G.init schedOk ≠
    workerPcs true false ["go{", "do", "if-cas-won{", "if-err{", "send-err", "return", "}", "send-nil", "copyto", "}", "}"] := by
  decide
/-- … and the code before F6 is what the unrepaired model follows -/
example : mTrace false G.init schedDrain = callerPcs true false true (pinnedExecOrder.filter (· != "recv")) := by decide

end C18
