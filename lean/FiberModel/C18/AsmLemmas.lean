import FiberModel.C18.Spec
/-
C18 (a) — request assembly: the order of `replacePathParams`, Go maps as association lists up to
permutation, the stores of headers / query arguments / cookies.
-/
namespace C18
open B C11
set_option linter.unusedSimpArgs false

/-! ### `bytesLt` is a strict total order, `keyBefore` a total order -/

theorem bytesLt_irrefl : ∀ a : Bytes, bytesLt a a = false
  | [] => rfl
  | x :: xs => by simp [bytesLt, bytesLt_irrefl xs]

theorem bytesLt_asymm : ∀ a c : Bytes, bytesLt a c = true → bytesLt c a = false
  | [], [], h => by simp [bytesLt] at h
  | [], _ :: _, _ => by simp [bytesLt]
  | _ :: _, [], h => by simp [bytesLt] at h
  | x :: xs, y :: ys, h => by
    simp only [bytesLt] at h ⊢
    by_cases h1 : x < y
    · have : ¬ y < x := by omega
      simp [this, h1]
    · by_cases h2 : y < x
      · simp [h1, h2] at h
      · simp only [h1, h2, if_false] at h ⊢
        exact bytesLt_asymm xs ys h

theorem bytesLt_total : ∀ a c : Bytes, a ≠ c → bytesLt a c = true ∨ bytesLt c a = true
  | [], [], h => absurd rfl h
  | [], _ :: _, _ => Or.inl (by simp [bytesLt])
  | _ :: _, [], _ => Or.inr (by simp [bytesLt])
  | x :: xs, y :: ys, h => by
    simp only [bytesLt]
    by_cases h1 : x < y
    · simp [h1]
    · by_cases h2 : y < x
      · simp [h2]
      · have : x = y := by omega
        subst this
        simp only [Nat.lt_irrefl, if_false]
        exact bytesLt_total xs ys (fun e => h (by rw [e]))

theorem bytesLt_trans : ∀ a c d : Bytes, bytesLt a c = true → bytesLt c d = true → bytesLt a d = true
  | [], [], _, h, _ => by simp [bytesLt] at h
  | [], _ :: _, [], _, h => by simp [bytesLt] at h
  | [], _ :: _, _ :: _, _, _ => by simp [bytesLt]
  | _ :: _, [], _, h, _ => by simp [bytesLt] at h
  | _ :: _, _ :: _, [], _, h => by simp [bytesLt] at h
  | x :: xs, y :: ys, z :: zs, h1, h2 => by
    simp only [bytesLt] at h1 h2 ⊢
    by_cases a1 : x < y
    · by_cases a2 : y < z
      · have : x < z := by omega
        simp [this]
      · by_cases a3 : z < y
        · simp [a2, a3] at h2
        · have : y = z := by omega
          subst this; simp [a1]
    · by_cases a1' : y < x
      · simp [a1, a1'] at h1
      · have : x = y := by omega
        subst this
        simp only [Nat.lt_irrefl, if_false] at h1
        by_cases a2 : x < z
        · simp [a2]
        · by_cases a3 : z < x
          · simp [a2, a3] at h2
          · simp only [a2, a3, if_false] at h2 ⊢
            exact bytesLt_trans xs ys zs h1 h2

theorem keyBefore_total (a c : Bytes) : keyBefore a c = true ∨ keyBefore c a = true := by
  unfold keyBefore
  by_cases hl : a.length = c.length
  · simp only [hl, ne_eq, not_true_eq_false, if_false]
    by_cases e : a = c
    · subst e; simp
    · rcases bytesLt_total a c e with h | h <;> simp [h]
  · have hl' : ¬ c.length = a.length := fun e => hl e.symm
    simp only [ne_eq, hl, hl', not_false_eq_true, if_true, decide_eq_true_eq]
    omega

theorem keyBefore_antisymm (a c : Bytes) (h1 : keyBefore a c = true) (h2 : keyBefore c a = true) : a = c := by
  unfold keyBefore at h1 h2
  by_cases hl : a.length = c.length
  · simp only [hl, ne_eq, not_true_eq_false, if_false, Bool.or_eq_true, beq_iff_eq] at h1 h2
    rcases h1 with h1 | h1
    · rcases h2 with h2 | h2
      · rw [bytesLt_asymm a c h1] at h2; cases h2
      · exact h2.symm
    · exact h1
  · have hl' : ¬ c.length = a.length := fun e => hl e.symm
    simp only [ne_eq, hl, hl', not_false_eq_true, if_true, decide_eq_true_eq] at h1 h2
    omega

theorem keyBefore_trans (a c d : Bytes) (h1 : keyBefore a c = true) (h2 : keyBefore c d = true) : keyBefore a d = true := by
  unfold keyBefore at *
  by_cases l1 : a.length = c.length <;> by_cases l2 : c.length = d.length
  · have l3 : a.length = d.length := l1.trans l2
    simp only [l1, l2, l3, ne_eq, not_true_eq_false, if_false, Bool.or_eq_true, beq_iff_eq] at h1 h2 ⊢
    rcases h1 with h1 | h1
    · rcases h2 with h2 | h2
      · exact Or.inl (bytesLt_trans a c d h1 h2)
      · subst h2; exact Or.inl h1
    · subst h1; exact h2
  · have l3 : ¬ a.length = d.length := fun e => l2 (l1 ▸ e)
    simp only [l1, l2, l3, ne_eq, not_true_eq_false, not_false_eq_true, if_true, if_false, decide_eq_true_eq] at h1 h2 ⊢
    omega
  · have l3 : ¬ a.length = d.length := fun e => l1 (e.trans l2.symm)
    simp only [l1, l2, l3, ne_eq, not_true_eq_false, not_false_eq_true, if_true, if_false, decide_eq_true_eq] at h1 h2 ⊢
    omega
  · simp only [l1, l2, ne_eq, not_false_eq_true, if_true, decide_eq_true_eq] at h1 h2
    have l3 : ¬ a.length = d.length := by omega
    simp only [l3, ne_eq, not_false_eq_true, if_true, decide_eq_true_eq]
    omega

/-! ### `sortKeys` (insertion sort): a sorted permutation, hence a function of the key *set* -/

theorem insertKey_perm (k : Bytes) : ∀ l : List Bytes, (insertKey k l).Perm (k :: l)
  | [] => List.Perm.refl _
  | x :: xs => by
    simp only [insertKey]
    split
    · exact List.Perm.refl _
    · exact ((insertKey_perm k xs).cons x).trans (List.Perm.swap k x xs)

theorem sortKeys_perm : ∀ l : List Bytes, (sortKeys l).Perm l
  | [] => List.Perm.refl _
  | x :: xs => by
    simp only [sortKeys, List.foldr_cons]
    exact (insertKey_perm x _).trans ((sortKeys_perm xs).cons x)

theorem insertKey_sorted (k : Bytes) : ∀ l : List Bytes, l.Pairwise (fun a c => keyBefore a c = true) →
    (insertKey k l).Pairwise (fun a c => keyBefore a c = true)
  | [], _ => by simp [insertKey]
  | x :: xs, h => by
    rw [List.pairwise_cons] at h
    simp only [insertKey]
    split
    · rename_i hk
      rw [List.pairwise_cons]
      refine ⟨?_, List.pairwise_cons.mpr h⟩
      intro y hy
      simp only [List.mem_cons] at hy
      rcases hy with e | e
      · subst e; exact hk
      · exact keyBefore_trans k x y hk (h.1 y e)
    · rename_i hk
      have hxk : keyBefore x k = true := by
        rcases keyBefore_total k x with h' | h'
        · exact absurd h' hk
        · exact h'
      rw [List.pairwise_cons]
      refine ⟨?_, insertKey_sorted k xs h.2⟩
      intro y hy
      have := (insertKey_perm k xs).mem_iff.mp hy
      simp only [List.mem_cons] at this
      rcases this with e | e
      · subst e; exact hxk
      · exact h.1 y e

theorem sortKeys_sorted : ∀ l : List Bytes, (sortKeys l).Pairwise (fun a c => keyBefore a c = true)
  | [] => List.Pairwise.nil
  | x :: xs => by
    simp only [sortKeys, List.foldr_cons]
    exact insertKey_sorted x _ (sortKeys_sorted xs)

/-- the substitution order depends on the key set only, not on the order the map yields it -/
theorem sortKeys_of_perm (l l' : List Bytes) (h : l.Perm l') : sortKeys l = sortKeys l' :=
  List.Perm.eq_of_pairwise (le := fun a c => keyBefore a c = true)
    (fun a c _ _ h1 h2 => keyBefore_antisymm a c h1 h2)
    (sortKeys_sorted l) (sortKeys_sorted l') ((sortKeys_perm l).trans (h.trans (sortKeys_perm l').symm))

/-! ### Go maps as association lists with unique keys -/

theorem mapGet_eq_some_iff (m : List KV) (hn : (m.map (·.1)).Nodup) (k v : Bytes) :
    mapGet m k = some v ↔ (k, v) ∈ m := by
  induction m with
  | nil => simp [mapGet]
  | cons x xs ih =>
    obtain ⟨k0, v0⟩ := x
    simp only [List.map_cons, List.nodup_cons] at hn
    simp only [mapGet, List.find?_cons] at ih ⊢
    by_cases hk : k0 = k
    · subst hk
      simp only [decide_true, Option.map_some, Option.some.injEq, List.mem_cons, Prod.mk.injEq, true_and]
      constructor
      · intro h; exact Or.inl h.symm
      · intro h
        rcases h with h | h
        · exact h.symm
        · exact absurd (List.mem_map.mpr ⟨(k0, v), h, rfl⟩) hn.1
    · simp only [hk, decide_false, List.mem_cons, Prod.mk.injEq]
      rw [ih hn.2]
      constructor
      · intro h; exact Or.inr h
      · intro h
        rcases h with h | h
        · exact absurd h.1.symm hk
        · exact h

theorem mapGet_eq_none_iff (m : List KV) (k : Bytes) : mapGet m k = none ↔ k ∉ m.map (·.1) := by
  induction m with
  | nil => simp [mapGet]
  | cons x xs ih =>
    obtain ⟨k0, v0⟩ := x
    simp only [mapGet, List.find?_cons] at ih ⊢
    by_cases hk : k0 = k
    · subst hk; simp
    · have : ¬ k = k0 := fun e => hk e.symm
      simp only [hk, decide_false, List.map_cons, List.mem_cons, this, false_or]
      exact ih

theorem mapGet_perm (m m' : List KV) (hn : (m.map (·.1)).Nodup) (hp : m.Perm m') (k : Bytes) :
    mapGet m k = mapGet m' k := by
  have hn' : (m'.map (·.1)).Nodup := (hp.map _).nodup_iff.mp hn
  cases h : mapGet m k with
  | none =>
    have := (mapGet_eq_none_iff m k).mp h
    have h' : k ∉ m'.map (·.1) := fun hm => this ((hp.map _).mem_iff.mpr hm)
    exact ((mapGet_eq_none_iff m' k).mpr h').symm
  | some v =>
    have := (mapGet_eq_some_iff m hn k v).mp h
    exact ((mapGet_eq_some_iff m' hn' k v).mpr (hp.mem_iff.mp this)).symm

/-! ### `replacePathParams` does not depend on map iteration order -/

theorem foldl_congr_mem {α β : Type} (f g : β → α → β) (l : List α) (h : ∀ b x, x ∈ l → f b x = g b x) :
    ∀ b, l.foldl f b = l.foldl g b := by
  induction l with
  | nil => intro b; rfl
  | cons x xs ih =>
    intro b
    simp only [List.foldl_cons]
    rw [h b x (List.mem_cons_self ..)]
    exact ih (fun b y hy => h b y (List.mem_cons_of_mem _ hy)) _

theorem substParams_perm (uri : Bytes) (reqP reqP' clientP clientP' : List KV)
    (hr : (reqP.map (·.1)).Nodup) (hc : (clientP.map (·.1)).Nodup)
    (pr : reqP.Perm reqP') (pc : clientP.Perm clientP') :
    substParams uri reqP' clientP' = substParams uri reqP clientP := by
  unfold substParams
  have hg : ∀ k, mapGet reqP' k = mapGet reqP k := fun k => (mapGet_perm reqP reqP' hr pr k).symm
  have hgc : ∀ k, mapGet clientP' k = mapGet clientP k := fun k => (mapGet_perm clientP clientP' hc pc k).symm
  have hkeys : (reqP'.map (·.1) ++ (clientP'.map (·.1)).filter (fun k => (mapGet reqP' k).isNone)).Perm
      (reqP.map (·.1) ++ (clientP.map (·.1)).filter (fun k => (mapGet reqP k).isNone)) := by
    have : (fun k => (mapGet reqP' k).isNone) = (fun k => (mapGet reqP k).isNone) := by funext k; rw [hg k]
    rw [this]
    exact List.Perm.append (pr.symm.map _) ((pc.symm.map _).filter _)
  simp only
  rw [sortKeys_of_perm _ _ hkeys]
  apply foldl_congr_mem
  intro u k _
  rw [hg k, hgc k]

/-- the loop before the repair did depend on it: keys `id` / `idx` -/
theorem substUnordered_order_dependent :
    substUnordered (b "/x/:idx") [(b "id", b "1"), (b "idx", b "2")] [] ≠
    substUnordered (b "/x/:idx") [(b "idx", b "2"), (b "id", b "1")] [] := by decide

/-! ### stores -/

theorem mapGet_storeSet (m : List KV) (k v k' : Bytes) :
    mapGet (storeSet m k v) k' = if k' = k then some v else mapGet m k' := by
  induction m with
  | nil =>
    simp only [storeSet, mapGet, List.find?_cons, List.find?_nil]
    by_cases h : k' = k
    · subst h; simp
    · have : ¬ k = k' := fun e => h e.symm
      simp [h, this]
  | cons x xs ih =>
    obtain ⟨k0, v0⟩ := x
    simp only [storeSet]
    by_cases h0 : k0 = k
    · subst h0
      simp only [if_true, mapGet, List.find?_cons]
      by_cases h : k' = k0
      · subst h; simp
      · have : ¬ k0 = k' := fun e => h e.symm
        simp [h, this]
    · simp only [h0, if_false]
      simp only [mapGet, List.find?_cons] at ih ⊢
      by_cases h1 : k0 = k'
      · subst h1; simp [h0]
      · simp only [h1, decide_false]; exact ih

theorem keys_storeSet_nodup (m : List KV) (k v : Bytes) (h : (m.map (·.1)).Nodup) : ((storeSet m k v).map (·.1)).Nodup := by
  induction m with
  | nil => simp [storeSet]
  | cons x xs ih =>
    obtain ⟨k0, v0⟩ := x
    simp only [List.map_cons, List.nodup_cons] at h
    simp only [storeSet]
    split
    · simp only [List.map_cons, List.nodup_cons]; exact h
    · rename_i hk
      simp only [List.map_cons, List.nodup_cons]
      refine ⟨?_, ih h.2⟩
      intro hm
      obtain ⟨kv, h1, h2⟩ := List.mem_map.mp hm
      have hg : mapGet (storeSet xs k v) k0 ≠ none := by
        rw [Ne, mapGet_eq_none_iff]; exact fun hn => hn hm
      rw [mapGet_storeSet, if_neg hk] at hg
      rw [Ne, mapGet_eq_none_iff] at hg
      exact hg h.1

/-- assigning a list of pairs one after the other: a later pair overwrites an earlier one -/
theorem mapGet_foldl_storeSet (l : List KV) : ∀ (m : List KV) (k : Bytes),
    mapGet (l.foldl (fun m kv => storeSet m kv.1 kv.2) m) k = (mapGet l.reverse k).or (mapGet m k) := by
  induction l with
  | nil => intro m k; simp [mapGet]
  | cons x xs ih =>
    intro m k
    simp only [List.foldl_cons, List.reverse_cons]
    rw [ih, mapGet_storeSet]
    have happ : mapGet (xs.reverse ++ [x]) k = (mapGet xs.reverse k).or (mapGet [x] k) := by
      simp only [mapGet, List.find?_append]
      cases List.find? (fun x => decide (x.fst = k)) xs.reverse <;> simp
    rw [happ]
    by_cases hk : k = x.1
    · subst hk; cases mapGet xs.reverse x.1 <;> simp [mapGet]
    · have : ¬ x.1 = k := fun e => hk e.symm
      cases mapGet xs.reverse k <;> simp [mapGet, hk, this]

theorem keys_foldl_storeSet_nodup (l : List KV) : ∀ (m : List KV), (m.map (·.1)).Nodup →
    ((l.foldl (fun m kv => storeSet m kv.1 kv.2) m).map (·.1)).Nodup := by
  induction l with
  | nil => intro m h; exact h
  | cons x xs ih => intro m h; exact ih _ (keys_storeSet_nodup m x.1 x.2 h)

theorem mapOf_nodup (kvs : List KV) : ((mapOf kvs).map (·.1)).Nodup :=
  keys_foldl_storeSet_nodup kvs [] (by simp)

theorem mapGet_append (l1 l2 : List KV) (k : Bytes) : mapGet (l1 ++ l2) k = (mapGet l1 k).or (mapGet l2 k) := by
  simp only [mapGet, List.find?_append]
  cases List.find? (fun x => decide (x.fst = k)) l1 <;> simp

/-- cookies: the request's value wins over the client's, the client's over the jar's -/
theorem mapGet_mergeCookies (jar clientC reqC : List KV) (hj : (jar.map (·.1)).Nodup)
    (hc : (clientC.map (·.1)).Nodup) (hr : (reqC.map (·.1)).Nodup) (k : Bytes) :
    mapGet (mergeCookies jar clientC reqC) k = ((mapGet reqC k).or (mapGet clientC k)).or (mapGet jar k) := by
  unfold mergeCookies
  rw [mapGet_foldl_storeSet]
  simp only [List.reverse_append, mapGet_append]
  rw [← mapGet_perm reqC reqC.reverse hr (List.reverse_perm reqC).symm k,
      ← mapGet_perm clientC clientC.reverse hc (List.reverse_perm clientC).symm k,
      ← mapGet_perm jar jar.reverse hj (List.reverse_perm jar).symm k]
  cases mapGet reqC k <;> cases mapGet clientC k <;> cases mapGet jar k <;> simp [mapGet]

theorem mergeCookies_nodup (jar clientC reqC : List KV) : ((mergeCookies jar clientC reqC).map (·.1)).Nodup :=
  keys_foldl_storeSet_nodup _ [] (by simp)

theorem valuesOf_append (l1 l2 : List KV) (k : Bytes) : valuesOf (l1 ++ l2) k = valuesOf l1 k ++ valuesOf l2 k := by
  simp [valuesOf]

theorem mapGet_filter_shadow (reqP : List KV) (k : Bytes) (hk : mapGet reqP k = none) : ∀ clientP : List KV,
    mapGet (clientP.filter fun kv => (mapGet reqP kv.1).isNone) k = mapGet clientP k := by
  intro clientP
  induction clientP with
  | nil => rfl
  | cons x xs ih =>
    simp only [List.filter_cons]
    by_cases hx : x.1 = k
    · have : (mapGet reqP x.1).isNone = true := by rw [hx, hk]; rfl
      simp only [this, if_true]
      simp [mapGet, hx]
    · cases hn : (mapGet reqP x.1).isNone
      · simp only [Bool.false_eq_true, if_false]
        rw [ih]; simp [mapGet, hx]
      · simp only [if_true]
        simp only [mapGet, List.find?_cons, hx, decide_false] at ih ⊢
        exact ih

/-- a client-level path parameter whose key the request also sets plays no role -/
theorem substParams_client_shadowed (uri : Bytes) (reqP clientP : List KV) :
    substParams uri reqP clientP =
      substParams uri reqP (clientP.filter fun kv => (mapGet reqP kv.1).isNone) := by
  unfold substParams
  have hkeys : ((clientP.filter fun kv => (mapGet reqP kv.1).isNone).map (·.1)).filter (fun k => (mapGet reqP k).isNone) =
      (clientP.map (·.1)).filter (fun k => (mapGet reqP k).isNone) := by
    induction clientP with
    | nil => rfl
    | cons x xs ih =>
      simp only [List.filter_cons, List.map_cons]
      cases hx : (mapGet reqP x.1).isNone <;> simp [hx, ih]
  simp only [hkeys]
  apply foldl_congr_mem
  intro u k _
  cases hk : mapGet reqP k with
  | some v => rfl
  | none => simp only [mapGet_filter_shadow reqP k hk clientP]

/-- the maps of a configuration have unique keys (they are Go maps) -/
structure MapsOK (c : Config) : Prop where
  cPath : (c.client.pathParams.map (·.1)).Nodup
  rPath : (c.request.pathParams.map (·.1)).Nodup
  cCookies : (c.client.cookies.map (·.1)).Nodup
  rCookies : (c.request.cookies.map (·.1)).Nodup
  jar : (c.jar.map (·.1)).Nodup

end C18
