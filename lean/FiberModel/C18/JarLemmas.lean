import FiberModel.C18.Spec
/-
C18 (b) — the cookie jar over pooled objects refines the abstract store: invariants and the
simulation lemmas. `PInv` is phrased over a *view* `Bytes → List Ref` (which references the jar
holds per host key) so that it also covers `parseCookiesFromResp`, whose working list lives in a
local variable until the final map assignment.
-/
namespace C18
open B

/-- the references the jar holds for a host key -/
def refsOf (st : JarState) (k : Bytes) : List Ref := (jarGet st.jar k).getD []

/-- ownership discipline of pooled cookie objects: `held` = objects some caller holds (acquired, not
    yet released), `view k` = objects the jar holds for host key `k`, `pool` = released objects -/
structure PInv (held : List Ref) (view : Bytes → List Ref) (pool : List Ref) (next : Nat) : Prop where
  nd : ∀ k, (view k).Nodup
  disj : ∀ k k', k ≠ k' → ∀ r, r ∈ view k → r ∉ view k'
  pnd : pool.Nodup
  hnd : held.Nodup
  jp : ∀ k r, r ∈ view k → r ∉ pool ∧ r ∉ held
  hp : ∀ r, r ∈ held → r ∉ pool
  ltj : ∀ k r, r ∈ view k → r < next
  ltp : ∀ r, r ∈ pool → r < next
  lth : ∀ r, r ∈ held → r < next

theorem PInv.perm {held held' : List Ref} {view pool next} (hp : held.Perm held') (h : PInv held view pool next) :
    PInv held' view pool next := by
  refine ⟨h.nd, h.disj, h.pnd, hp.nodup_iff.mp h.hnd, ?_, ?_, h.ltj, h.ltp, ?_⟩
  · intro k r hr; exact ⟨(h.jp k r hr).1, fun hm => (h.jp k r hr).2 (hp.mem_iff.mpr hm)⟩
  · intro r hr; exact h.hp r (hp.mem_iff.mpr hr)
  · intro r hr; exact h.lth r (hp.mem_iff.mpr hr)

/-! ### acquire / release -/

theorem acquire_jar (pol : Policy) (st : JarState) : (acquire pol st).2.jar = st.jar := by
  unfold acquire; split
  · split <;> rfl
  · rfl

theorem acquire_heap (pol : Policy) (st : JarState) : (acquire pol st).2.heap = st.heap := by
  unfold acquire; split
  · split <;> rfl
  · rfl

theorem getElem_not_mem_eraseIdx {l : List Ref} (hn : l.Nodup) (i : Nat) (h : i < l.length) : l[i] ∉ l.eraseIdx i := by
  induction l generalizing i with
  | nil => simp at h
  | cons x xs ih =>
    cases i with
    | zero => simp at hn ⊢; exact hn.1
    | succ i =>
      simp at hn h ⊢
      refine ⟨?_, ih hn.2 i h⟩
      intro e; exact hn.1 (e ▸ List.getElem_mem h)

theorem acquire_inv (pol : Policy) (st : JarState) {held view} (h : PInv held view st.pool st.next) :
    PInv ((acquire pol st).1 :: held) view (acquire pol st).2.pool (acquire pol st).2.next := by
  have fresh : PInv (st.next :: held) view st.pool (st.next + 1) := by
    refine ⟨h.nd, h.disj, h.pnd, ?_, ?_, ?_, ?_, ?_, ?_⟩
    · simp only [List.nodup_cons]; exact ⟨fun hm => Nat.lt_irrefl _ (h.lth _ hm), h.hnd⟩
    · intro k r hr; refine ⟨(h.jp k r hr).1, ?_⟩
      simp only [List.mem_cons, not_or]; exact ⟨fun e => Nat.lt_irrefl _ (e ▸ h.ltj k r hr), (h.jp k r hr).2⟩
    · intro r hr; simp only [List.mem_cons] at hr
      rcases hr with e | hr
      · subst e; exact fun hm => Nat.lt_irrefl _ (h.ltp _ hm)
      · exact h.hp r hr
    · intro k r hr; exact Nat.lt_succ_of_lt (h.ltj k r hr)
    · intro r hr; exact Nat.lt_succ_of_lt (h.ltp r hr)
    · intro r hr; simp only [List.mem_cons] at hr
      rcases hr with e | hr
      · subst e; exact Nat.lt_succ_self _
      · exact Nat.lt_succ_of_lt (h.lth r hr)
  unfold acquire
  split
  · rename_i i _
    split
    · rename_i hi
      have hmem : st.pool[i] ∈ st.pool := List.getElem_mem hi
      refine ⟨h.nd, h.disj, h.pnd.eraseIdx i, ?_, ?_, ?_, h.ltj, ?_, ?_⟩
      · simp only [List.nodup_cons]; exact ⟨fun hm => h.hp _ hm hmem, h.hnd⟩
      · intro k r hr; refine ⟨fun hm => (h.jp k r hr).1 (List.mem_of_mem_eraseIdx hm), ?_⟩
        simp only [List.mem_cons, not_or]
        exact ⟨fun e => (h.jp k r hr).1 (e ▸ hmem), (h.jp k r hr).2⟩
      · intro r hr; simp only [List.mem_cons] at hr
        rcases hr with e | hr
        · subst e; exact getElem_not_mem_eraseIdx h.pnd i hi
        · exact fun hm => h.hp r hr (List.mem_of_mem_eraseIdx hm)
      · intro r hr; exact h.ltp r (List.mem_of_mem_eraseIdx hr)
      · intro r hr; simp only [List.mem_cons] at hr
        rcases hr with e | hr
        · subst e; exact h.ltp _ hmem
        · exact h.lth r hr
    · exact fresh
  · exact fresh

theorem release_inv (st : JarState) (r : Ref) {held view} (h : PInv (r :: held) view st.pool st.next) :
    PInv held view (release st r).pool (release st r).next := by
  have hnd := h.hnd
  simp only [List.nodup_cons] at hnd
  refine ⟨h.nd, h.disj, ?_, hnd.2, ?_, ?_, h.ltj, ?_, ?_⟩
  · simp only [release, List.nodup_cons]; exact ⟨h.hp r (List.mem_cons_self ..), h.pnd⟩
  · intro k x hx
    have := h.jp k x hx
    simp only [List.mem_cons, not_or] at this
    simp only [release, List.mem_cons, not_or]
    exact ⟨⟨this.2.1, this.1⟩, this.2.2⟩
  · intro x hx
    simp only [release, List.mem_cons, not_or]
    exact ⟨fun e => hnd.1 (e ▸ hx), h.hp x (List.mem_cons_of_mem _ hx)⟩
  · intro x hx; simp only [release, List.mem_cons] at hx
    rcases hx with e | hx
    · subst e; exact h.lth _ (List.mem_cons_self ..)
    · exact h.ltp x hx
  · intro x hx; exact h.lth x (List.mem_cons_of_mem _ hx)

theorem release_jar (st : JarState) (r : Ref) : (release st r).jar = st.jar := rfl

theorem release_heap_ne (st : JarState) (r x : Ref) (h : x ≠ r) : (release st r).heap x = st.heap x := by
  simp [release, setHeap, h]

theorem releaseAll_jar (rs : List Ref) : ∀ st : JarState, (releaseAll st rs).jar = st.jar := by
  induction rs with
  | nil => intro st; rfl
  | cons r rs ih => intro st; simp only [releaseAll, List.foldl_cons] at ih ⊢; rw [ih]; rfl

theorem releaseAll_heap (rs : List Ref) : ∀ (st : JarState) (x : Ref), x ∉ rs → (releaseAll st rs).heap x = st.heap x := by
  induction rs with
  | nil => intro st x _; rfl
  | cons r rs ih =>
    intro st x hx
    simp only [List.mem_cons, not_or] at hx
    simp only [releaseAll, List.foldl_cons] at ih ⊢
    rw [ih _ x hx.2]; exact release_heap_ne st r x hx.1

theorem releaseAll_inv (rs : List Ref) : ∀ (st : JarState) {held view}, PInv (rs ++ held) view st.pool st.next →
    PInv held view (releaseAll st rs).pool (releaseAll st rs).next := by
  induction rs with
  | nil => intro st held view h; exact h
  | cons r rs ih =>
    intro st held view h
    simp only [releaseAll, List.foldl_cons] at ih ⊢
    exact ih (release st r) (release_inv st r h)

/-- replacing the stored map commutes with releasing -/
theorem releaseAll_withJar (rs : List Ref) : ∀ (st : JarState) (j : List (Bytes × List Ref)),
    { releaseAll st rs with jar := j } = releaseAll { st with jar := j } rs := by
  induction rs with
  | nil => intro st j; rfl
  | cons r rs ih =>
    intro st j
    simp only [releaseAll, List.foldl_cons] at ih ⊢
    rw [ih]; rfl

/-! ### the association lists -/

theorem jarGet_jarPut (j : List (Bytes × List Ref)) (k : Bytes) (v : List Ref) (k' : Bytes) :
    jarGet (jarPut j k v) k' = if k' = k then some v else jarGet j k' := by
  induction j with
  | nil =>
    simp only [jarPut, jarGet, List.find?_cons, List.find?_nil]
    by_cases h : k' = k
    · subst h; simp
    · have : ¬ k = k' := fun e => h e.symm
      simp [h, this]
  | cons x xs ih =>
    obtain ⟨k0, v0⟩ := x
    simp only [jarPut]
    by_cases h0 : k0 = k
    · subst h0
      simp only [if_true, jarGet, List.find?_cons]
      by_cases h : k' = k0
      · subst h; simp
      · have : ¬ k0 = k' := fun e => h e.symm
        simp [h, this]
    · simp only [h0, if_false]
      simp only [jarGet, List.find?_cons] at ih ⊢
      by_cases h1 : k0 = k'
      · subst h1; simp [h0]
      · simp only [h1, decide_false]; exact ih

theorem refsOf_put (st : JarState) (k : Bytes) (v : List Ref) (k' : Bytes) (heap pool next tick) :
    refsOf { heap := heap, jar := jarPut st.jar k v, pool := pool, next := next, tick := tick } k' =
      if k' = k then v else refsOf st k' := by
  simp only [refsOf, jarGet_jarPut]; split <;> rfl

theorem absGetHost_absPut (a : AbsJar) (k : Bytes) (v : List Cookie) (k' : Bytes) :
    absGetHost (absPut a k v) k' = if k' = k then v else absGetHost a k' := by
  induction a with
  | nil =>
    simp only [absPut, absGetHost, List.find?_cons, List.find?_nil]
    by_cases h : k' = k
    · subst h; simp
    · have : ¬ k = k' := fun e => h e.symm
      simp [h, this]
  | cons x xs ih =>
    obtain ⟨k0, v0⟩ := x
    simp only [absPut]
    by_cases h0 : k0 = k
    · subst h0
      simp only [if_true, absGetHost, List.find?_cons]
      by_cases h : k' = k0
      · subst h; simp
      · have : ¬ k0 = k' := fun e => h e.symm
        simp [h, this]
    · simp only [h0, if_false]
      simp only [absGetHost, List.find?_cons] at ih ⊢
      by_cases h1 : k0 = k'
      · subst h1; simp [h0]
      · simp only [h1, decide_false]; exact ih

theorem absGetHost_none (a : AbsJar) (k : Bytes) (h : a.find? (·.1 = k) = none) : absGetHost a k = [] := by
  simp [absGetHost, h]

theorem absGetHost_absPurgeK (a : AbsJar) (key : Bytes) (now : Nat) (k' : Bytes) :
    absGetHost (absPurgeK a key now) k' =
      if k' = key then (absGetHost a key).filter (fun c => !expiredAt now c) else absGetHost a k' := by
  unfold absPurgeK
  split
  · rename_i hn
    by_cases h : k' = key
    · subst h; simp [absGetHost_none a k' hn]
    · simp [h]
  · rw [absGetHost_absPut]

/-- the jar state stands for the abstract store -/
def Refines (st : JarState) (a : AbsJar) : Prop := ∀ k, absGetHost a k = (refsOf st k).map st.heap

theorem map_congr_mem {α β : Type} (f g : α → β) (l : List α) (h : ∀ x, x ∈ l → f x = g x) : l.map f = l.map g :=
  List.map_congr_left h

/-! ### changing what the jar holds for one key -/

theorem PInv.reshape {held view pool next} (h : PInv held view pool next) (key : Bytes) (held' l : List Ref)
    (hl : l.Nodup) (hh : held'.Nodup) (hd : ∀ x, x ∈ l → x ∉ held')
    (hsub : ∀ x, (x ∈ l ∨ x ∈ held') → (x ∈ view key ∨ x ∈ held)) :
    PInv held' (fun k => if k = key then l else view k) pool next := by
  have inP : ∀ x, (x ∈ l ∨ x ∈ held') → x ∉ pool ∧ x < next := by
    intro x hx
    rcases hsub x hx with h1 | h1
    · exact ⟨(h.jp key x h1).1, h.ltj key x h1⟩
    · exact ⟨h.hp x h1, h.lth x h1⟩
  have notOther : ∀ x k, k ≠ key → (x ∈ l ∨ x ∈ held') → x ∉ view k := by
    intro x k hk hx hm
    rcases hsub x hx with h1 | h1
    · exact h.disj k key hk x hm h1
    · exact (h.jp k x hm).2 h1
  refine ⟨?_, ?_, h.pnd, hh, ?_, ?_, ?_, h.ltp, ?_⟩
  · intro k; by_cases hk : k = key <;> simp only [hk, if_true, if_false]
    · exact hl
    · exact h.nd k
  · intro k k' hkk r hr
    by_cases hk : k = key <;> by_cases hk' : k' = key <;> simp only [hk, hk', if_true, if_false] at hr ⊢
    · exact absurd (hk.trans hk'.symm) hkk
    · exact notOther r k' hk' (Or.inl hr)
    · exact fun hm => notOther r k hk (Or.inl hm) hr
    · exact h.disj k k' hkk r hr
  · intro k r hr
    by_cases hk : k = key <;> simp only [hk, if_true, if_false] at hr
    · exact ⟨(inP r (Or.inl hr)).1, hd r hr⟩
    · exact ⟨(h.jp k r hr).1, fun hm => notOther r k hk (Or.inr hm) hr⟩
  · intro r hr; exact (inP r (Or.inr hr)).1
  · intro k r hr
    by_cases hk : k = key <;> simp only [hk, if_true, if_false] at hr
    · exact (inP r (Or.inl hr)).2
    · exact h.ltj k r hr
  · intro r hr; exact (inP r (Or.inr hr)).2

theorem PInv.congr {held view view' pool next} (h : PInv held view pool next) (e : ∀ k, view k = view' k) :
    PInv held view' pool next := by
  have : view = view' := funext e
  subst this; exact h

/-! ### getCookiesByHost -/

theorem getCookiesByHost_some (st : JarState) (key : Bytes) (now : Nat) (refs : List Ref)
    (hg : jarGet st.jar key = some refs) :
    getCookiesByHost st key now =
      (refs.filter (fun r => !expiredAt now (st.heap r)),
       releaseAll { st with jar := jarPut st.jar key (refs.filter (fun r => !expiredAt now (st.heap r))) }
         (refs.filter (fun r => expiredAt now (st.heap r)))) := by
  unfold getCookiesByHost
  simp only [hg]
  rw [releaseAll_jar, releaseAll_withJar]

theorem getCookiesByHost_none (st : JarState) (key : Bytes) (now : Nat) (hg : jarGet st.jar key = none) :
    getCookiesByHost st key now = ([], st) := by
  unfold getCookiesByHost
  simp only [hg]

theorem getCookiesByHost_spec (st : JarState) (key : Bytes) (now : Nat) {held : List Ref} {a : AbsJar}
    (hI : PInv held (refsOf st) st.pool st.next) (hR : Refines st a) :
    PInv held (refsOf (getCookiesByHost st key now).2) (getCookiesByHost st key now).2.pool
      (getCookiesByHost st key now).2.next ∧
    Refines (getCookiesByHost st key now).2 (absPurgeK a key now) ∧
    (getCookiesByHost st key now).1 = refsOf (getCookiesByHost st key now).2 key ∧
    (getCookiesByHost st key now).1.map (getCookiesByHost st key now).2.heap =
      (absGetHost a key).filter (fun c => !expiredAt now c) := by
  cases hg : jarGet st.jar key with
  | none =>
    have hr : refsOf st key = [] := by simp [refsOf, hg]
    rw [getCookiesByHost_none st key now hg]
    refine ⟨hI, ?_, hr.symm, ?_⟩
    · intro k; rw [absGetHost_absPurgeK]
      by_cases hk : k = key
      · subst hk; simp [hR k, hr]
      · simp [hk, hR k]
    · simp [hR key, hr]
  | some refs =>
    have hr : refsOf st key = refs := by simp [refsOf, hg]
    rw [getCookiesByHost_some st key now refs hg]
    generalize hkept : refs.filter (fun r => !expiredAt now (st.heap r)) = kept
    generalize hdead : refs.filter (fun r => expiredAt now (st.heap r)) = dead
    have memK : ∀ x, x ∈ kept ↔ x ∈ refs ∧ expiredAt now (st.heap x) = false := by
      intro x; rw [← hkept]; simp
    have memD : ∀ x, x ∈ dead ↔ x ∈ refs ∧ expiredAt now (st.heap x) = true := by
      intro x; rw [← hdead]; simp
    have hndR : refs.Nodup := hr ▸ hI.nd key
    have hI1 : PInv (dead ++ held) (fun k => if k = key then kept else refsOf st k) st.pool st.next := by
      apply hI.reshape key (dead ++ held) kept
      · rw [← hkept]; exact hndR.filter _
      · rw [List.nodup_append]
        refine ⟨by rw [← hdead]; exact hndR.filter _, hI.hnd, ?_⟩
        intro x hx y hy e; subst e
        exact (hI.jp key x (hr ▸ ((memD x).mp hx).1)).2 hy
      · intro x hx hm
        rcases List.mem_append.mp hm with h1 | h1
        · have := ((memK x).mp hx).2; have := ((memD x).mp h1).2; simp_all
        · exact (hI.jp key x (hr ▸ ((memK x).mp hx).1)).2 h1
      · intro x hx
        rcases hx with h1 | h1
        · exact Or.inl (hr ▸ ((memK x).mp h1).1)
        · rcases List.mem_append.mp h1 with h2 | h2
          · exact Or.inl (hr ▸ ((memD x).mp h2).1)
          · exact Or.inr h2
    generalize hst' : ({ heap := st.heap, jar := jarPut st.jar key kept, pool := st.pool, next := st.next,
                         tick := st.tick } : JarState) = st'
    have hview : ∀ k, refsOf st' k = if k = key then kept else refsOf st k := by
      intro k; rw [← hst']; exact refsOf_put st key kept k _ _ _ _
    have hI2 : PInv (dead ++ held) (refsOf st') st'.pool st'.next := by
      have := hI1.congr (view' := refsOf st') (fun k => (hview k).symm)
      rw [← hst']; rw [← hst'] at this; exact this
    have hI3 := (releaseAll_inv dead st' hI2).congr (view' := refsOf (releaseAll st' dead))
      (fun k => by simp [refsOf, releaseAll_jar])
    have hview3 : ∀ k, refsOf (releaseAll st' dead) k = if k = key then kept else refsOf st k := by
      intro k; rw [← hview k]; simp [refsOf, releaseAll_jar]
    have hheap : ∀ x, x ∉ dead → (releaseAll st' dead).heap x = st.heap x := by
      intro x hx; rw [releaseAll_heap dead st' x hx, ← hst']
    have hkd : ∀ x, x ∈ kept → x ∉ dead := by
      intro x hx hd; have := ((memK x).mp hx).2; have := ((memD x).mp hd).2; simp_all
    refine ⟨hI3, ?_, ?_, ?_⟩
    · intro k; rw [absGetHost_absPurgeK, hview3]
      by_cases hk : k = key
      · subst hk
        simp only [if_true]
        rw [map_congr_mem _ st.heap kept (fun x hx => hheap x (hkd x hx)), hR k, hr, ← hkept, List.filter_map]
        rfl
      · simp only [hk, if_false]
        rw [hR k]
        apply (map_congr_mem _ _ _ _).symm
        intro x hx
        apply hheap
        intro hd
        exact hI.disj k key hk x hx (hr ▸ ((memD x).mp hd).1)
    · rw [hview3]; simp
    · rw [map_congr_mem _ st.heap kept (fun x hx => hheap x (hkd x hx)), hR key, hr, ← hkept, List.filter_map]
      rfl

/-! ### Get: copies -/

theorem copyOut_spec (pol : Policy) : ∀ (rs : List Ref) (st : JarState) {held : List Ref} {view : Bytes → List Ref},
    PInv held view st.pool st.next → (∀ r, r ∈ rs → ∃ k, r ∈ view k) →
    PInv ((copyOut pol rs st).1 ++ held) view (copyOut pol rs st).2.pool (copyOut pol rs st).2.next ∧
    (copyOut pol rs st).2.jar = st.jar ∧
    (copyOut pol rs st).1.map (copyOut pol rs st).2.heap = rs.map st.heap ∧
    (∀ x, (x ∈ held ∨ ∃ k, x ∈ view k) → (copyOut pol rs st).2.heap x = st.heap x) := by
  intro rs
  induction rs with
  | nil => intro st held view h _; exact ⟨h, rfl, rfl, fun _ _ => rfl⟩
  | cons r rs ih =>
    intro st held view h hrs
    have hA := acquire_inv pol st h
    generalize hst1 : ({ (acquire pol st).2 with
      heap := setHeap (acquire pol st).2.heap (acquire pol st).1 ((acquire pol st).2.heap r) } : JarState) = st1
    have hA1 : PInv ((acquire pol st).1 :: held) view st1.pool st1.next := by rw [← hst1]; exact hA
    have hrs' : ∀ x, x ∈ rs → ∃ k, x ∈ view k := fun x hx => hrs x (List.mem_cons_of_mem _ hx)
    obtain ⟨i1, i2, i3, i4⟩ := ih st1 hA1 hrs'
    have hco : copyOut pol (r :: rs) st = ((acquire pol st).1 :: (copyOut pol rs st1).1, (copyOut pol rs st1).2) := by
      rw [← hst1]; rfl
    rw [hco]
    have hne : ∀ x, (x ∈ held ∨ ∃ k, x ∈ view k) → x ≠ (acquire pol st).1 := by
      intro x hx e
      rcases hx with h1 | ⟨k, h1⟩
      · have := hA.hnd; simp only [List.nodup_cons] at this; exact this.1 (e ▸ h1)
      · exact (hA.jp k x h1).2 (e ▸ List.mem_cons_self ..)
    have hheap1 : ∀ x, (x ∈ held ∨ ∃ k, x ∈ view k) → st1.heap x = st.heap x := by
      intro x hx
      rw [← hst1]; simp only [setHeap, hne x hx, if_false, acquire_heap]
    refine ⟨?_, ?_, ?_, ?_⟩
    · exact i1.perm List.perm_middle
    · rw [i2, ← hst1]; exact acquire_jar pol st
    · simp only [List.map_cons]
      rw [i3, i4 _ (Or.inl (List.mem_cons_self ..))]
      congr 1
      · rw [← hst1]; simp [setHeap, acquire_heap]
      · exact map_congr_mem _ _ _ (fun x hx => hheap1 x (Or.inr (hrs' x hx)))
    · intro x hx
      rw [i4 x (by rcases hx with h1 | h1; exact Or.inl (List.mem_cons_of_mem _ h1); exact Or.inr h1), hheap1 x hx]

/-! ### lists of references against lists of cookies -/

theorem find_upsert_map (h : Ref → Cookie) (c : Cookie) : ∀ refs : List Ref, refs.Nodup →
    match refs.find? (fun r => sameCookie (h r) c) with
    | some r => refs.map (setHeap h r c) = absUpsert (refs.map h) c ∧ r ∈ refs
    | none => refs.map h ++ [c] = absUpsert (refs.map h) c := by
  intro refs
  induction refs with
  | nil => intro _; simp [absUpsert]
  | cons x xs ih =>
    intro hn
    simp only [List.nodup_cons] at hn
    simp only [List.find?_cons]
    by_cases hx : sameCookie (h x) c = true
    · simp only [hx, List.map_cons, absUpsert, if_true, setHeap]
      refine ⟨?_, List.mem_cons_self ..⟩
      congr 1
      apply map_congr_mem
      intro y hy
      have : y ≠ x := fun e => hn.1 (e ▸ hy)
      simp [setHeap, this]
    · have hx' : sameCookie (h x) c = false := by simpa using hx
      simp only [hx', List.map_cons, absUpsert]
      have := ih hn.2
      split
      · rename_i r hf
        rw [hf] at this
        simp only at this
        refine ⟨?_, List.mem_cons_of_mem _ this.2⟩
        have hne : x ≠ r := fun e => hn.1 (e ▸ this.2)
        simp only [Bool.false_eq_true, if_false, setHeap, hne]
        rw [← this.1]
      · rename_i hf
        rw [hf] at this
        simp only at this
        simp only [Bool.false_eq_true, if_false, List.cons_append]
        rw [this]

theorem getD_mem (l : List Ref) (i : Nat) (d : Ref) (h : i < l.length) : l.getD i d ∈ l := by
  induction l generalizing i with
  | nil => simp at h
  | cons x xs ih =>
    cases i with
    | zero => simp
    | succ i => simp at h ⊢; exact Or.inr (ih i h)

theorem getD_not_mem_eraseIdx (l : List Ref) (hn : l.Nodup) (i : Nat) (d : Ref) (h : i < l.length) :
    l.getD i d ∉ l.eraseIdx i := by
  induction l generalizing i with
  | nil => simp at h
  | cons x xs ih =>
    simp only [List.nodup_cons] at hn
    cases i with
    | zero => simp; exact hn.1
    | succ i =>
      simp at h ⊢
      refine ⟨?_, ih hn.2 i h⟩
      intro e; exact hn.1 (e ▸ getD_mem xs i d h)

theorem mem_setAt (l : List Ref) (i : Nat) (c x : Ref) (h : x ∈ setAt l i c) : x = c ∨ x ∈ l := by
  induction l generalizing i with
  | nil => simp [setAt] at h
  | cons y ys ih =>
    cases i with
    | zero => simp only [setAt, List.mem_cons] at h ⊢; rcases h with h | h <;> simp [h]
    | succ i =>
      simp only [setAt, List.mem_cons] at h ⊢
      rcases h with h | h
      · exact Or.inr (Or.inl h)
      · rcases ih i h with h | h <;> simp [h]

theorem setAt_nodup (l : List Ref) (i : Nat) (c : Ref) (hn : l.Nodup) (hc : c ∉ l) : (setAt l i c).Nodup := by
  induction l generalizing i with
  | nil => simp [setAt]
  | cons y ys ih =>
    simp only [List.nodup_cons] at hn
    simp only [List.mem_cons, not_or] at hc
    cases i with
    | zero => simp only [setAt, List.nodup_cons]; exact ⟨hc.2, hn.2⟩
    | succ i =>
      simp only [setAt, List.nodup_cons]
      refine ⟨?_, ih i hn.2 hc.2⟩
      intro hm
      rcases mem_setAt ys i c y hm with e | e
      · exact hc.1 e.symm
      · exact hn.1 e

theorem getD_not_mem_setAt (l : List Ref) (i : Nat) (c d : Ref) (hn : l.Nodup) (hc : c ∉ l) (h : i < l.length) :
    l.getD i d ∉ setAt l i c := by
  induction l generalizing i with
  | nil => simp at h
  | cons y ys ih =>
    simp only [List.nodup_cons] at hn
    simp only [List.mem_cons, not_or] at hc
    cases i with
    | zero =>
      simp only [setAt, List.getD_cons_zero, List.mem_cons, not_or]
      exact ⟨fun e => hc.1 e.symm, hn.1⟩
    | succ i =>
      simp only [List.length_cons, Nat.add_lt_add_iff_right] at h
      simp only [setAt, List.getD_cons_succ, List.mem_cons, not_or]
      refine ⟨?_, ih i hn.2 hc.2 h⟩
      intro e; exact hn.1 (e ▸ getD_mem ys i d h)

theorem findIdx_remove_map (h : Ref → Cookie) (sc : Cookie) : ∀ refs : List Ref,
    match refs.findIdx? (fun r => sameCookie (h r) sc) with
    | some i => absRemove (refs.map h) sc = (refs.eraseIdx i).map h ∧ i < refs.length
    | none => absRemove (refs.map h) sc = refs.map h := by
  intro refs
  induction refs with
  | nil => simp [absRemove]
  | cons x xs ih =>
    simp only [List.findIdx?_cons]
    by_cases hx : sameCookie (h x) sc = true
    · simp [hx, absRemove]
    · have hx' : sameCookie (h x) sc = false := by simpa using hx
      simp only [hx', Bool.false_eq_true, if_false, List.map_cons, absRemove]
      cases hf : xs.findIdx? (fun r => sameCookie (h r) sc) with
      | none => rw [hf] at ih; simp only at ih; simp [ih]
      | some i => rw [hf] at ih; simp only at ih; simp [ih.1, ih.2]

theorem findIdx_upsert_map (h : Ref → Cookie) (sc : Cookie) (c : Ref) : ∀ refs : List Ref, c ∉ refs →
    match refs.findIdx? (fun r => sameCookie (h r) sc) with
    | some i => absUpsert (refs.map h) sc = (setAt refs i c).map (setHeap h c sc) ∧ i < refs.length
    | none => absUpsert (refs.map h) sc = refs.map h ++ [sc] := by
  intro refs
  induction refs with
  | nil => intro _; simp [absUpsert]
  | cons x xs ih =>
    intro hc
    simp only [List.mem_cons, not_or] at hc
    simp only [List.findIdx?_cons]
    by_cases hx : sameCookie (h x) sc = true
    · simp only [hx, if_true, List.map_cons, absUpsert, setAt, setHeap]
      refine ⟨?_, by simp⟩
      congr 1
      apply map_congr_mem
      intro y hy
      have : y ≠ c := fun e => hc.2 (e ▸ hy)
      simp [setHeap, this]
    · have hx' : sameCookie (h x) sc = false := by simpa using hx
      simp only [hx', Bool.false_eq_true, if_false, List.map_cons, absUpsert]
      have ih := ih hc.2
      cases hf : xs.findIdx? (fun r => sameCookie (h r) sc) with
      | none => rw [hf] at ih; simp only at ih; simp [ih]
      | some i =>
        rw [hf] at ih; simp only at ih
        have : x ≠ c := fun e => hc.1 e.symm
        simp [ih.1, ih.2, setAt, setHeap, this]

/-! ### SetByHost -/

theorem absGetHost_absSet (a : AbsJar) (host : Bytes) (c : Cookie) (k : Bytes) :
    absGetHost (absSet a host c) k =
      if k = hostKey host then absUpsert (absGetHost a (hostKey host)) c else absGetHost a k := by
  unfold absSet; rw [absGetHost_absPut]

theorem setByHost_spec (pol : Policy) (st : JarState) (host : Bytes) (c : Cookie) {held : List Ref} {a : AbsJar}
    (hI : PInv held (refsOf st) st.pool st.next) (hR : Refines st a) :
    PInv held (refsOf (setByHost pol st host c)) (setByHost pol st host c).pool (setByHost pol st host c).next ∧
    Refines (setByHost pol st host c) (absSet a host c) := by
  unfold setByHost
  simp only
  have hrefs : (jarGet st.jar (hostKey host)).getD [] = refsOf st (hostKey host) := rfl
  rw [hrefs]
  generalize hkey : hostKey host = key
  generalize hrs : refsOf st key = refs
  have hfu := find_upsert_map st.heap c refs (hrs ▸ hI.nd key)
  split
  · rename_i r hf
    rw [hf] at hfu
    simp only at hfu
    have hview : ∀ k, refsOf { st with heap := setHeap st.heap r c, jar := jarPut st.jar key refs } k = refsOf st k := by
      intro k; rw [refsOf_put]; by_cases hk : k = key
      · subst hk; simp [hrs]
      · simp [hk]
    refine ⟨hI.congr (fun k => (hview k).symm), ?_⟩
    intro k
    rw [absGetHost_absSet, hkey, hview]
    by_cases hk : k = key
    · subst hk; simp only [if_true]
      rw [hR k, hrs, hfu.1]
    · simp only [hk, if_false]
      rw [hR k]
      apply map_congr_mem
      intro x hx
      have : x ≠ r := fun e => hI.disj k key hk x hx (hrs ▸ e ▸ hfu.2)
      simp [setHeap, this]
  · rename_i hf
    rw [hf] at hfu
    simp only at hfu
    have hA := acquire_inv pol st hI
    generalize hr : (acquire pol st).1 = r at hA ⊢
    have hrn : ∀ k x, x ∈ refsOf st k → x ≠ r := by
      intro k x hx e; exact (hA.jp k x hx).2 (e ▸ List.mem_cons_self ..)
    rw [acquire_jar]
    have hview : ∀ k hp pl nx tk,
        refsOf { heap := hp, jar := jarPut st.jar key (refs ++ [r]), pool := pl, next := nx, tick := tk } k =
          if k = key then refs ++ [r] else refsOf st k := by
      intro k hp pl nx tk; exact refsOf_put st key _ k _ _ _ _
    have hI2 : PInv held (fun k => if k = key then refs ++ [r] else refsOf st k) (acquire pol st).2.pool
        (acquire pol st).2.next := by
      have hnd := hA.hnd
      simp only [List.nodup_cons] at hnd
      apply hA.reshape key held (refs ++ [r])
      · rw [List.nodup_append]
        refine ⟨hrs ▸ hI.nd key, by simp, ?_⟩
        intro x hx y hy e
        simp only [List.mem_singleton] at hy
        subst hy; subst e
        exact hrn key x (hrs ▸ hx) rfl
      · exact hnd.2
      · intro x hx hm
        rcases List.mem_append.mp hx with h1 | h1
        · exact (hI.jp key x (hrs ▸ h1)).2 hm
        · simp only [List.mem_singleton] at h1; subst h1; exact hnd.1 hm
      · intro x hx
        rcases hx with h1 | h1
        · rcases List.mem_append.mp h1 with h2 | h2
          · exact Or.inl (hrs ▸ h2)
          · simp only [List.mem_singleton] at h2; subst h2; exact Or.inr (List.mem_cons_self ..)
        · exact Or.inr (List.mem_cons_of_mem _ h1)
    refine ⟨hI2.congr (fun k => (hview k _ _ _ _).symm), ?_⟩
    intro k
    rw [absGetHost_absSet, hkey, hview]
    simp only [acquire_heap]
    by_cases hk : k = key
    · subst hk; simp only [if_true]
      rw [hR k, hrs, ← hfu, List.map_append]
      congr 1
      · apply map_congr_mem
        intro x hx
        simp [setHeap, hrn k x (hrs ▸ hx)]
      · simp [setHeap]
    · simp only [hk, if_false]
      rw [hR k]
      apply map_congr_mem
      intro x hx
      simp [setHeap, hrn k x hx]

/-! ### parseCookiesFromResp -/

set_option linter.unusedSimpArgs false in
theorem respOne_spec (pol : Policy) (now : Nat) (key : Bytes) (refs : List Ref) (st : JarState) (sc : Cookie)
    {held : List Ref} {view : Bytes → List Ref}
    (hI : PInv held view st.pool st.next) (hv : view key = refs) :
    PInv held (fun k => if k = key then (respOne pol now (refs, st) sc).1 else view k)
      (respOne pol now (refs, st) sc).2.pool (respOne pol now (refs, st) sc).2.next ∧
    (respOne pol now (refs, st) sc).1.map (respOne pol now (refs, st) sc).2.heap =
      (if deadOnArrival now sc then absRemove (refs.map st.heap) sc else absUpsert (refs.map st.heap) sc) ∧
    (∀ k x, k ≠ key → x ∈ view k → (respOne pol now (refs, st) sc).2.heap x = st.heap x) ∧
    (respOne pol now (refs, st) sc).2.jar = st.jar := by
  have hA := acquire_inv pol st hI
  unfold respOne
  simp only
  generalize hc : (acquire pol st).1 = c at hA ⊢
  simp only [acquire_heap, acquire_jar]
  have hnd := hA.hnd
  simp only [List.nodup_cons] at hnd
  have hcv : ∀ k x, x ∈ view k → x ≠ c := by
    intro k x hx e; exact (hA.jp k x hx).2 (e ▸ List.mem_cons_self ..)
  have hcn : c ∉ refs := fun hm => hcv key c (hv ▸ hm) rfl
  have hndR : refs.Nodup := hv ▸ hI.nd key
  have h1c : setHeap st.heap c sc c = sc := by simp [setHeap]
  have h1x : ∀ x, x ≠ c → setHeap st.heap c sc x = st.heap x := by intro x hx; simp [setHeap, hx]
  have hmapeq : refs.map (setHeap st.heap c sc) = refs.map st.heap :=
    map_congr_mem _ _ _ (fun x hx => h1x x (fun e => hcn (e ▸ hx)))
  have R := findIdx_remove_map (setHeap st.heap c sc) sc refs
  have U := findIdx_upsert_map (setHeap st.heap c sc) sc c refs hcn
  generalize hst1 : ({ heap := setHeap st.heap c sc, jar := st.jar, pool := (acquire pol st).2.pool,
                       next := (acquire pol st).2.next, tick := (acquire pol st).2.tick } : JarState) = st1
  have hA1 : PInv (c :: held) view st1.pool st1.next := by rw [← hst1]; exact hA
  have hh1 : st1.heap = setHeap st.heap c sc := by rw [← hst1]
  have hj1 : st1.jar = st.jar := by rw [← hst1]
  rw [hmapeq] at R U
  cases hf : List.findIdx? (fun r => sameCookie (setHeap st.heap c sc r) sc) refs <;>
    cases hd : deadOnArrival now sc <;> simp only [hf] at R U <;> simp only [hf, hd]
  · -- none, false: append
    refine ⟨?_, ?_, ?_, hj1⟩
    · apply hA1.reshape key held (refs ++ [c])
      · rw [List.nodup_append]
        refine ⟨hndR, by simp, ?_⟩
        intro x hx y hy e
        simp only [List.mem_singleton] at hy
        subst hy; subst e; exact hcn hx
      · exact hnd.2
      · intro x hx hm
        rcases List.mem_append.mp hx with h2 | h2
        · exact (hI.jp key x (hv ▸ h2)).2 hm
        · simp only [List.mem_singleton] at h2; subst h2; exact hnd.1 hm
      · intro x hx
        rcases hx with h2 | h2
        · rcases List.mem_append.mp h2 with h3 | h3
          · exact Or.inl (hv ▸ h3)
          · simp only [List.mem_singleton] at h3; subst h3; exact Or.inr (List.mem_cons_self ..)
        · exact Or.inr (List.mem_cons_of_mem _ h2)
    · rw [hh1, List.map_append, hmapeq, U]; simp [h1c]
    · intro k x _ hx; rw [hh1]; exact h1x x (hcv k x hx)
  · -- none, true: nothing stored
    have hrel := release_inv st1 c hA1
    refine ⟨hrel.congr (fun k => by by_cases hk : k = key <;> simp [hk, hv]), ?_, ?_, hj1⟩
    · rw [R]
      apply map_congr_mem
      intro x hx
      rw [release_heap_ne st1 c x (fun e => hcn (e ▸ hx)), hh1]; exact h1x x (fun e => hcn (e ▸ hx))
    · intro k x _ hx
      rw [release_heap_ne st1 c x (hcv k x hx), hh1]; exact h1x x (hcv k x hx)
  · -- some i, false: replace in place
    rename_i i
    obtain ⟨U1, hi⟩ := U
    have hdm : refs.getD i 0 ∈ refs := getD_mem refs i 0 hi
    have hdc : refs.getD i 0 ≠ c := fun e => hcn (e ▸ hdm)
    have hI2 : PInv (refs.getD i 0 :: held) (fun k => if k = key then setAt refs i c else view k) st1.pool st1.next := by
      apply hA1.reshape key (refs.getD i 0 :: held) (setAt refs i c)
      · exact setAt_nodup refs i c hndR hcn
      · simp only [List.nodup_cons]; exact ⟨(hI.jp key _ (hv ▸ hdm)).2, hnd.2⟩
      · intro x hx hm
        simp only [List.mem_cons] at hm
        rcases hm with e | hm
        · exact getD_not_mem_setAt refs i c 0 hndR hcn hi (e ▸ hx)
        · rcases mem_setAt refs i c x hx with e | e
          · exact hnd.1 (e ▸ hm)
          · exact (hI.jp key x (hv ▸ e)).2 hm
      · intro x hx
        rcases hx with h2 | h2
        · rcases mem_setAt refs i c x h2 with e | e
          · exact Or.inr (e ▸ List.mem_cons_self ..)
          · exact Or.inl (hv ▸ e)
        · simp only [List.mem_cons] at h2
          rcases h2 with e | h2
          · exact Or.inl (hv ▸ e ▸ hdm)
          · exact Or.inr (List.mem_cons_of_mem _ h2)
    refine ⟨release_inv st1 _ hI2, ?_, ?_, hj1⟩
    · rw [U1]
      apply map_congr_mem
      intro x hx
      have hxd : x ≠ refs.getD i 0 := fun e => getD_not_mem_setAt refs i c 0 hndR hcn hi (e ▸ hx)
      rw [release_heap_ne st1 _ x hxd, hh1]
      by_cases hxc : x = c
      · subst hxc; simp [setHeap]
      · simp [setHeap, hxc]
    · intro k x hk hx
      have hxd : x ≠ refs.getD i 0 := fun e => hI.disj k key hk x hx (hv ▸ e ▸ hdm)
      rw [release_heap_ne st1 _ x hxd, hh1]; exact h1x x (hcv k x hx)
  · -- some i, true: the server expired a stored cookie
    rename_i i
    obtain ⟨R1, hi⟩ := R
    have hdm : refs.getD i 0 ∈ refs := getD_mem refs i 0 hi
    have hdc : refs.getD i 0 ≠ c := fun e => hcn (e ▸ hdm)
    have hI2 : PInv (refs.getD i 0 :: c :: held) (fun k => if k = key then refs.eraseIdx i else view k)
        st1.pool st1.next := by
      apply hA1.reshape key (refs.getD i 0 :: c :: held) (refs.eraseIdx i)
      · exact hndR.eraseIdx i
      · simp only [List.nodup_cons, List.mem_cons, not_or]
        exact ⟨⟨hdc, (hI.jp key _ (hv ▸ hdm)).2⟩, hnd.1, hnd.2⟩
      · intro x hx hm
        have hxr : x ∈ refs := List.mem_of_mem_eraseIdx hx
        simp only [List.mem_cons] at hm
        rcases hm with e | e | hm
        · exact getD_not_mem_eraseIdx refs hndR i 0 hi (e ▸ hx)
        · exact hcn (e ▸ hxr)
        · exact (hI.jp key x (hv ▸ hxr)).2 hm
      · intro x hx
        rcases hx with h2 | h2
        · exact Or.inl (hv ▸ List.mem_of_mem_eraseIdx h2)
        · simp only [List.mem_cons] at h2
          rcases h2 with e | e | h2
          · exact Or.inl (hv ▸ e ▸ hdm)
          · exact Or.inr (e ▸ List.mem_cons_self ..)
          · exact Or.inr (List.mem_cons_of_mem _ h2)
    refine ⟨release_inv _ c (release_inv st1 _ hI2), ?_, ?_, hj1⟩
    · rw [R1]
      apply map_congr_mem
      intro x hx
      have hxr : x ∈ refs := List.mem_of_mem_eraseIdx hx
      have hxd : x ≠ refs.getD i 0 := fun e => getD_not_mem_eraseIdx refs hndR i 0 hi (e ▸ hx)
      have hxc : x ≠ c := fun e => hcn (e ▸ hxr)
      rw [release_heap_ne _ c x hxc, release_heap_ne st1 _ x hxd, hh1]
    · intro k x hk hx
      have hxd : x ≠ refs.getD i 0 := fun e => hI.disj k key hk x hx (hv ▸ e ▸ hdm)
      rw [release_heap_ne _ c x (hcv k x hx), release_heap_ne st1 _ x hxd, hh1]; exact h1x x (hcv k x hx)

def absRespFold (now : Nat) (cs : List Cookie) (scs : List Cookie) : List Cookie :=
  scs.foldl (fun cs sc => if deadOnArrival now sc then absRemove cs sc else absUpsert cs sc) cs

theorem respFold_spec (pol : Policy) (now : Nat) (key : Bytes) : ∀ (scs : List Cookie) (refs : List Ref) (st : JarState)
    {held : List Ref} {view : Bytes → List Ref}, PInv held view st.pool st.next → view key = refs →
    PInv held (fun k => if k = key then (scs.foldl (respOne pol now) (refs, st)).1 else view k)
      (scs.foldl (respOne pol now) (refs, st)).2.pool (scs.foldl (respOne pol now) (refs, st)).2.next ∧
    (scs.foldl (respOne pol now) (refs, st)).1.map (scs.foldl (respOne pol now) (refs, st)).2.heap =
      absRespFold now (refs.map st.heap) scs ∧
    (∀ k x, k ≠ key → x ∈ view k → (scs.foldl (respOne pol now) (refs, st)).2.heap x = st.heap x) ∧
    (scs.foldl (respOne pol now) (refs, st)).2.jar = st.jar := by
  intro scs
  induction scs with
  | nil =>
    intro refs st held view hI hv
    refine ⟨hI.congr (fun k => by by_cases hk : k = key <;> simp [hk, hv]), rfl, fun _ _ _ _ => rfl, rfl⟩
  | cons sc scs ih =>
    intro refs st held view hI hv
    obtain ⟨s1, s2, s3, s4⟩ := respOne_spec pol now key refs st sc hI hv
    simp only [List.foldl_cons, absRespFold]
    generalize hr1 : respOne pol now (refs, st) sc = r1 at s1 s2 s3 s4 ⊢
    obtain ⟨refs1, st1⟩ := r1
    simp only at s1 s2 s3 s4
    have hv1 : (fun k => if k = key then refs1 else view k) key = refs1 := by simp
    obtain ⟨i1, i2, i3, i4⟩ := ih refs1 st1 s1 hv1
    refine ⟨i1.congr (fun k => by by_cases hk : k = key <;> simp [hk]), ?_, ?_, by rw [i4, s4]⟩
    · rw [i2, s2]; rfl
    · intro k x hk hx
      rw [i3 k x hk (by simp [hk, hx]), s3 k x hk hx]

theorem absGetHost_absResp (a : AbsJar) (host : Bytes) (scs : List Cookie) (now : Nat) (k : Bytes) :
    absGetHost (absResp a host scs now) k =
      if k = hostKey host then absRespFold now (absGetHost a (hostKey host)) scs else absGetHost a k := by
  unfold absResp; rw [absGetHost_absPut]; rfl

theorem Refines.transfer {st st' : JarState} {a : AbsJar} (hR : Refines st a) (hj : st'.jar = st.jar)
    (hh : ∀ k x, x ∈ refsOf st k → st'.heap x = st.heap x) : Refines st' a := by
  intro k
  have : refsOf st' k = refsOf st k := by simp [refsOf, hj]
  rw [hR k, this]
  exact (map_congr_mem _ _ _ (hh k)).symm

theorem parseCookiesFromResp_spec (pol : Policy) (st : JarState) (host : Bytes) (scs : List Cookie) (now : Nat)
    {held : List Ref} {a : AbsJar} (hI : PInv held (refsOf st) st.pool st.next) (hR : Refines st a) :
    PInv held (refsOf (parseCookiesFromResp pol st host scs now)) (parseCookiesFromResp pol st host scs now).pool
      (parseCookiesFromResp pol st host scs now).next ∧
    Refines (parseCookiesFromResp pol st host scs now) (absResp a host scs now) := by
  unfold parseCookiesFromResp
  simp only
  have hrefs : (jarGet st.jar (hostKey host)).getD [] = refsOf st (hostKey host) := rfl
  rw [hrefs]
  generalize hkey : hostKey host = key
  obtain ⟨f1, f2, f3, f4⟩ := respFold_spec pol now key scs (refsOf st key) st hI rfl
  generalize hr : scs.foldl (respOne pol now) (refsOf st key, st) = r at f1 f2 f3 f4 ⊢
  obtain ⟨refs', st'⟩ := r
  simp only at f1 f2 f3 f4 ⊢
  have hview : ∀ k, refsOf { heap := st'.heap, jar := jarPut st'.jar key refs', pool := st'.pool, next := st'.next,
                             tick := st'.tick } k = if k = key then refs' else refsOf st k := by
    intro k; rw [f4]; exact refsOf_put st key refs' k _ _ _ _
  refine ⟨f1.congr (fun k => (hview k).symm), ?_⟩
  intro k
  rw [absGetHost_absResp, hkey, hview]
  by_cases hk : k = key
  · subst hk; simp only [if_true]; rw [hR k, f2]
  · simp only [hk, if_false]
    rw [hR k]
    exact (map_congr_mem _ _ _ (fun x hx => f3 k x hk hx)).symm

/-! ### one harness operation -/

/-- the invariant the induction carries: some set of outstanding objects is held by callers -/
def Good (st : JarState) : Prop := ∃ held, PInv held (refsOf st) st.pool st.next

theorem good_init : Good JarState.init :=
  ⟨[], by constructor <;> simp [refsOf, JarState.init, jarGet]⟩

theorem refines_init : Refines JarState.init [] := by
  intro k; simp [refsOf, JarState.init, jarGet, absGetHost]

theorem getByHostAndPath_spec (st : JarState) (host path : Bytes) (now : Nat) {held : List Ref} {a : AbsJar}
    (hI : PInv held (refsOf st) st.pool st.next) (hR : Refines st a) :
    PInv held (refsOf (getByHostAndPath st host path now).2) (getByHostAndPath st host path now).2.pool
      (getByHostAndPath st host path now).2.next ∧
    Refines (getByHostAndPath st host path now).2 (absPurge a host now) ∧
    (∀ r, r ∈ (getByHostAndPath st host path now).1 → r ∈ refsOf (getByHostAndPath st host path now).2 (hostKey host)) ∧
    (getByHostAndPath st host path now).1.map (getByHostAndPath st host path now).2.heap = implGet a host path now := by
  obtain ⟨g1, g2, g3, g4⟩ := getCookiesByHost_spec st (hostKey host) now hI hR
  unfold getByHostAndPath
  simp only
  refine ⟨g1, g2, ?_, ?_⟩
  · intro r hr; rw [← g3]; exact (List.mem_filter.mp hr).1
  · unfold implGet
    have : (absGetHost a (hostKey host)).filter (fun c => !expiredAt now c && implPathOK path c.path) =
        ((absGetHost a (hostKey host)).filter (fun c => !expiredAt now c)).filter (fun c => implPathOK path c.path) := by
      rw [List.filter_filter]; congr 1; funext c; exact Bool.and_comm _ _
    rw [this, ← g4, List.filter_map]; rfl

theorem refsOf_congr_jar {st st' : JarState} (h : st'.jar = st.jar) : ∀ k, refsOf st' k = refsOf st k := by
  intro k; simp [refsOf, h]

/-- the Response's own cookie objects (`parserResponseCookie`) -/
def holdAll (pol : Policy) (scs : List Cookie) (acc : List Ref × JarState) : List Ref × JarState :=
  scs.foldl (fun (acc : List Ref × JarState) sc =>
      let a := acquire pol acc.2
      (acc.1 ++ [a.1], { a.2 with heap := setHeap a.2.heap a.1 sc })) acc

theorem holdAll_spec (pol : Policy) : ∀ (scs : List Cookie) (acc : List Ref) (st : JarState) {held : List Ref}
    {view : Bytes → List Ref}, PInv (acc ++ held) view st.pool st.next →
    PInv ((holdAll pol scs (acc, st)).1 ++ held) view (holdAll pol scs (acc, st)).2.pool (holdAll pol scs (acc, st)).2.next ∧
    (holdAll pol scs (acc, st)).2.jar = st.jar ∧
    (∀ k x, x ∈ view k → (holdAll pol scs (acc, st)).2.heap x = st.heap x) := by
  intro scs
  induction scs with
  | nil => intro acc st held view h; exact ⟨h, rfl, fun _ _ _ => rfl⟩
  | cons sc scs ih =>
    intro acc st held view h
    have hA := acquire_inv pol st h
    simp only [holdAll, List.foldl_cons]
    generalize hst1 : ({ (acquire pol st).2 with
      heap := setHeap (acquire pol st).2.heap (acquire pol st).1 sc } : JarState) = st1
    have hA1 : PInv ((acc ++ [(acquire pol st).1]) ++ held) view st1.pool st1.next := by
      rw [← hst1]
      refine hA.perm ?_
      rw [List.append_assoc]
      exact (List.perm_middle (l₁ := acc) (l₂ := held) (a := (acquire pol st).1)).symm
    obtain ⟨i1, i2, i3⟩ := ih (acc ++ [(acquire pol st).1]) st1 hA1
    refine ⟨i1, ?_, ?_⟩
    · rw [show (List.foldl _ _ scs) = holdAll pol scs (acc ++ [(acquire pol st).1], st1) from rfl, i2, ← hst1]
      exact acquire_jar pol st
    · intro k x hx
      rw [show (List.foldl _ _ scs) = holdAll pol scs (acc ++ [(acquire pol st).1], st1) from rfl, i3 k x hx, ← hst1]
      have : x ≠ (acquire pol st).1 := fun e => (hA.jp k x hx).2 (e ▸ List.mem_cons_self ..)
      simp [setHeap, this, acquire_heap]

theorem step_refines (pol : Policy) (now : Nat) (st : JarState) (op : JarOp) {a : AbsJar}
    (hG : Good st) (hR : Refines st a) :
    (stepJar pol now st op).1 = implObsOf now a op ∧ Good (stepJar pol now st op).2 ∧
    Refines (stepJar pol now st op).2 (absStep now a op) := by
  obtain ⟨held, hI⟩ := hG
  cases op with
  | releaseJar =>
    refine ⟨rfl, ⟨held, ?_⟩, ?_⟩
    · exact ⟨by simp [stepJar, jarRelease, refsOf, jarGet], by simp [stepJar, jarRelease, refsOf, jarGet], hI.pnd, hI.hnd,
        by simp [stepJar, jarRelease, refsOf, jarGet], hI.hp, by simp [stepJar, jarRelease, refsOf, jarGet], hI.ltp, hI.lth⟩
    · intro k; simp [stepJar, jarRelease, refsOf, jarGet, absStep, absGetHost]
  | set host c =>
    simp only [stepJar, implObsOf, absStep]
    have hA := acquire_inv pol st hI
    generalize hst1 : ({ (acquire pol st).2 with
      heap := setHeap (acquire pol st).2.heap (acquire pol st).1 c } : JarState) = st1
    have hj1 : st1.jar = st.jar := by rw [← hst1]; exact acquire_jar pol st
    have hI1 : PInv ((acquire pol st).1 :: held) (refsOf st1) st1.pool st1.next := by
      have := hA.congr (fun k => (refsOf_congr_jar hj1 k).symm)
      rw [← hst1] at this ⊢; exact this
    have hR1 : Refines st1 a := by
      refine hR.transfer hj1 ?_
      intro k x hx
      have : x ≠ (acquire pol st).1 := fun e => (hA.jp k x hx).2 (e ▸ List.mem_cons_self ..)
      rw [← hst1]; simp [setHeap, this, acquire_heap]
    obtain ⟨s1, s2⟩ := setByHost_spec pol st1 host c hI1 hR1
    refine ⟨trivial, ⟨held, ?_⟩, ?_⟩
    · exact (release_inv _ _ s1).congr (fun k => rfl)
    · refine s2.transfer rfl ?_
      intro k x hx
      exact release_heap_ne _ _ x (fun e => (s1.jp k x hx).2 (e ▸ List.mem_cons_self ..))
  | setKV host name value =>
    simp only [stepJar, implObsOf, absStep]
    have hA := acquire_inv pol st hI
    generalize hc : ({ name := name, value := value, path := [], expiry := none } : Cookie) = c
    generalize hst1 : ({ (acquire pol st).2 with
      heap := setHeap (acquire pol st).2.heap (acquire pol st).1 c } : JarState) = st1
    have hj1 : st1.jar = st.jar := by rw [← hst1]; exact acquire_jar pol st
    have hI1 : PInv ((acquire pol st).1 :: held) (refsOf st1) st1.pool st1.next := by
      have := hA.congr (fun k => (refsOf_congr_jar hj1 k).symm)
      rw [← hst1] at this ⊢; exact this
    have hR1 : Refines st1 a := by
      refine hR.transfer hj1 ?_
      intro k x hx
      have : x ≠ (acquire pol st).1 := fun e => (hA.jp k x hx).2 (e ▸ List.mem_cons_self ..)
      rw [← hst1]; simp [setHeap, this, acquire_heap]
    obtain ⟨s1, s2⟩ := setByHost_spec pol st1 host c hI1 hR1
    exact ⟨trivial, ⟨_, s1⟩, s2⟩
  | get host path =>
    simp only [stepJar, implObsOf, absStep, jarGetCopies]
    obtain ⟨g1, g2, g3, g4⟩ := getByHostAndPath_spec st host path now hI hR
    generalize hg : getByHostAndPath st host path now = g at g1 g2 g3 g4 ⊢
    obtain ⟨c1, c2, c3, c4⟩ := copyOut_spec pol g.1 g.2 g1 (fun r hr => ⟨_, g3 r hr⟩)
    refine ⟨by rw [c3, g4], ⟨_, c1.congr (fun k => (refsOf_congr_jar c2 k).symm)⟩, ?_⟩
    exact g2.transfer c2 (fun k x hx => c4 x (Or.inr ⟨k, hx⟩))
  | getRelease host path =>
    simp only [stepJar, implObsOf, absStep, jarGetCopies]
    obtain ⟨g1, g2, g3, g4⟩ := getByHostAndPath_spec st host path now hI hR
    generalize hg : getByHostAndPath st host path now = g at g1 g2 g3 g4 ⊢
    obtain ⟨c1, c2, c3, c4⟩ := copyOut_spec pol g.1 g.2 g1 (fun r hr => ⟨_, g3 r hr⟩)
    have c1' := c1.congr (fun k => (refsOf_congr_jar c2 k).symm)
    refine ⟨by rw [c3, g4], ⟨held, ?_⟩, ?_⟩
    · exact (releaseAll_inv _ _ c1').congr (fun k => (refsOf_congr_jar (releaseAll_jar _ _) k).symm)
    · refine (g2.transfer c2 (fun k x hx => c4 x (Or.inr ⟨k, hx⟩))).transfer (releaseAll_jar _ _) ?_
      intro k x hx
      apply releaseAll_heap
      intro hm
      exact (c1'.jp k x hx).2 (List.mem_append_left _ hm)
  | resp host reqPath scs =>
    simp only [stepJar, implObsOf, absStep]
    obtain ⟨g1, g2, g3, g4⟩ := getByHostAndPath_spec st host reqPath now hI hR
    generalize hg : getByHostAndPath st host reqPath now = g at g1 g2 g3 g4 ⊢
    have hh := holdAll_spec pol scs [] g.2 (held := held) (view := refsOf g.2) (by simpa using g1)
    change _ ∧ Good (releaseAll (parseCookiesFromResp pol (holdAll pol scs ([], g.2)).2 host scs now)
      (holdAll pol scs ([], g.2)).1) ∧ Refines (releaseAll (parseCookiesFromResp pol (holdAll pol scs ([], g.2)).2 host scs now)
      (holdAll pol scs ([], g.2)).1) _
    generalize hhd : holdAll pol scs ([], g.2) = hd at hh ⊢
    obtain ⟨h1, h2, h3⟩ := hh
    have h1' := h1.congr (fun k => (refsOf_congr_jar h2 k).symm)
    have hR2 : Refines hd.2 (absPurge a host now) := g2.transfer h2 h3
    obtain ⟨p1, p2⟩ := parseCookiesFromResp_spec pol hd.2 host scs now h1' hR2
    refine ⟨by rw [g4], ⟨held, ?_⟩, ?_⟩
    · exact (releaseAll_inv _ _ p1).congr (fun k => (refsOf_congr_jar (releaseAll_jar _ _) k).symm)
    · refine p2.transfer (releaseAll_jar _ _) ?_
      intro k x hx
      apply releaseAll_heap
      intro hm
      exact (p1.jp k x hx).2 (List.mem_append_left _ hm)

end C18
