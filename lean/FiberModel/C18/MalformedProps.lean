import FiberModel.C18.Props
import FiberModel.C18.Malformed
/-
C18 (b') — theorems about responses with unparsable `Set-Cookie` headers (model: Malformed.lean).
-/
namespace C18
open B

/-- **A malformed `Set-Cookie` is invisible to every other host.** Take any history in which host A answers a request
    with any list of `Set-Cookie` lines — well-formed, malformed (early / late), in any order. What the operations on
    any OTHER host key `k` observe (every `Get`, every Cookie header on the wire, before and after that response) is
    what they observe when A's response carries any other list instead (`items' := []`: no `Set-Cookie` at all) — for
    every pool policy on either side, so also when the pool hands the objects of that response to later stores for `k`. -/
theorem malformed_setcookie_invisible_to_other_hosts (pol pol' : Policy) (pre post : List (Nat × JarOp)) (now : Nat)
    (host reqPath : Bytes) (items items' : List SetItem) (k : Bytes) (hk : hostKey host ≠ k) :
    projObs k (pre ++ (now, respOf host reqPath items) :: post)
        (runJarT pol (pre ++ (now, respOf host reqPath items) :: post) JarState.init) =
    projObs k (pre ++ (now, respOf host reqPath items') :: post)
        (runJarT pol' (pre ++ (now, respOf host reqPath items') :: post) JarState.init) := by
  rw [jar_no_cross_host pol pol' _ k, jar_no_cross_host pol' pol' _ k]
  congr 1
  simp [projHist, respOf, concerns, opKey, hk]

/-- the evaluation's scenario: a.com answers [malformed k=leak, well-formed k2=v]; then a secret is stored for b.com;
    then a.com, b.com and c.org are read (Get and wire) -/
def malHist (items : List SetItem) : List (Nat × JarOp) :=
  [(10, respOf (b "a.com") (b "/") items),
   (10, .set (b "b.com") ⟨b "s", b "secretB", [], none⟩),
   (10, .get (b "a.com") (b "/")), (10, .get (b "b.com") (b "/")), (10, respOf (b "b.com") (b "/") []),
   (10, .get (b "c.org") (b "/"))]

def malItems : List SetItem :=
  [{ cookie := ⟨b "k", b "leak", b "/", some 99⟩, mal := .early }, wf ⟨b "k2", b "v", [], none⟩]

/-- non-vacuity: the hypothesis is met (a.com ≠ b.com), host A really stores the malformed cookie (what `ParseBytes`
    left: name and value, no path, no expiry), and b.com reads exactly its own secret, c.org nothing -/
example : hostKey (b "a.com") ≠ b "b.com" ∧
    runJarT lifo (malHist malItems) JarState.init =
      [.header [], .done, .cookies [⟨b "k", b "leak", [], none⟩, ⟨b "k2", b "v", [], none⟩],
       .cookies [⟨b "s", b "secretB", [], none⟩], .header (b "s=secretB"), .cookies []] ∧
    projObs (b "b.com") (malHist malItems) (runJarT lifo (malHist malItems) JarState.init) =
      projObs (b "b.com") (malHist []) (runJarT lifo (malHist []) JarState.init) := by decide

/-- **A malformed `Set-Cookie` that is not the last one is stored as what `ParseBytes` left of it**: the response
    acts on the jar exactly like one whose lines are the parsed cookies. -/
theorem malformed_before_wellformed_acts_as_parsed (host reqPath : Bytes) (items : List SetItem) (c : Cookie) :
    respOf host reqPath (items ++ [wf c]) = .resp host reqPath (items.map (·.parsed) ++ [c]) := by
  simp [respOf, jarItems, hookFails, wf, SetItem.malformed, SetItem.parsed]

example : respOf (b "a.com") (b "/") malItems =
    .resp (b "a.com") (b "/") [⟨b "k", b "leak", [], none⟩, ⟨b "k2", b "v", [], none⟩] := by decide

/-- **A response whose last `Set-Cookie` is malformed stores nothing** (the client hook returns the parse error before
    the jar step): under every host key the abstract jar afterwards is the jar after the lookup alone — also the
    well-formed cookies of that response are not stored. -/
theorem malformed_last_stores_nothing (now : Nat) (j : AbsJar) (host reqPath : Bytes) (items : List SetItem) (it : SetItem)
    (hm : it.malformed = true) (k : Bytes) :
    absGetHost (absStep now j (respOf host reqPath (items ++ [it]))) k = absGetHost (absPurge j host now) k := by
  have hf : hookFails (items ++ [it]) = true := by simp [hookFails, hm]
  simp only [respOf, jarItems, hf, if_true, absStep]
  rw [absGetHost_absResp]
  split
  · rename_i e; subst e; rfl
  · rfl

example : runJarT lifo [(10, respOf (b "a.com") (b "/") [wf ⟨b "k2", b "v", [], none⟩, ⟨⟨b "k", b "x", [], none⟩, .late⟩]),
      (10, .get (b "a.com") (b "/"))] JarState.init = [.header [], .cookies []] := by decide

end C18
