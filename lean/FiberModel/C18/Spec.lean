import FiberModel.C18.Asm
import FiberModel.C18.Jar
import FiberModel.C18.Exec
/-
C18 — the property as executable predicates over what the harness observed on the real code.

  "Every header, query parameter, form field, file, cookie, path parameter, body, user agent and
   referer configured on a client or request arrives at the server with that value - request-level
   user agent, referer, cookies, timeout and path parameters taking precedence over client-level
   ones, request-level headers and query parameters being sent in addition - the resulting request
   is a deterministic function of the configuration, and every response handed back belongs to the
   request it is returned for, also while other requests time out or are cancelled. The cookie jar
   returns for a URL exactly the unexpired cookies stored for that host whose path is a prefix of
   the request path, each once - never a cookie stored for another host, a non-matching path, or
   one the server expired."
-/
namespace C18
open B C11

/-! ## (a) assembly -/

def valuesOf (l : List KV) (k : Bytes) : List Bytes := (l.filter (·.1 = k)).map (·.2)

/-- per-key comparison of two key/value lists over the keys of either -/
def sameValuesPerKey (got want : List KV) : Bool :=
  (got.map (·.1) ++ want.map (·.1)).all fun k => valuesOf got k == valuesOf want k

/-- tokens of a URL template: literal bytes and `:name` placeholders (`name` = maximal run of
    ASCII letters, digits, '_') -/
inductive Tok where
  | lit (c : Nat)
  | ph (name : Bytes)
  deriving Repr, DecidableEq

def nameByte (c : Nat) : Bool := isAlpha c || isDigit c || c == 95

def tokenize (s : Bytes) : List Tok :=
  go s.length s
where
  go : Nat → Bytes → List Tok
    | 0, _ => []
    | _, [] => []
    | fuel + 1, c :: cs =>
      if c == 58 then
        let name := cs.takeWhile nameByte
        if name.isEmpty then .lit c :: go fuel cs
        else .ph name :: go fuel (cs.drop name.length)
      else .lit c :: go fuel cs

/-- the value a placeholder must arrive with: request level wins over client level; a name that
    is configured on neither level stays as it is -/
def phValue (reqP clientP : List KV) (name : Bytes) : Bytes :=
  match mapGet reqP name with
  | some v => v
  | none => match mapGet clientP name with
    | some v => v
    | none => 58 :: name

def expectedURI (uri : Bytes) (reqP clientP : List KV) : Bytes :=
  (tokenize uri).flatMap fun t => match t with
    | .lit c => [c]
    | .ph n => phValue reqP clientP n

/-- a value that a URL path carries unchanged: unreserved bytes only and not a dot segment (the empty
    value is fine: it arrives as the empty string, `/items:ext` ↦ `/items`) -/
def pathValueSafe (v : Bytes) : Bool :=
  v.all unreserved && v != b "." && v != b ".."

/-- what may follow a ':' construct: after a placeholder or a literal ':' comes the end or a literal
    byte that cannot continue a name — a placeholder directly behind one of them would glue its
    value to that ':' (`::a`, `:a:b`) and the text could be read as another placeholder -/
def adjOK : List Tok → Bool
  | [] => true
  | [_] => true
  | t :: u :: rest =>
    (match t, u with
      | .ph _, .lit d => !nameByte d
      | .ph _, .ph _ => false
      | .lit c, .lit d => c != 58 || !nameByte d
      | .lit c, .ph _ => c != 58) && adjOK (u :: rest)

/-- the placeholder reading of the template is unambiguous for the configured keys: keys are
    non-empty names; no placeholder stands directly behind another ':' construct; and a key that is
    a proper prefix of a placeholder name (`id` in `:idx`) is harmless because that name is a key
    too (being longer it is substituted first) -/
def templateOK (uri : Bytes) (keys : List Bytes) : Bool :=
  keys.all (fun k => !k.isEmpty && k.all nameByte) && adjOK (tokenize uri) &&
  (tokenize uri).all fun t => match t with
    | .lit _ => true
    | .ph n => keys.all fun k => !(k.isPrefixOf n && k != n) || keys.contains n

/-- placeholder names of the template that some level configures -/
def usedValues (uri : Bytes) (reqP clientP : List KV) : List Bytes :=
  (tokenize uri).filterMap fun t => match t with
    | .lit _ => none
    | .ph n => match mapGet reqP n with
      | some v => some v
      | none => mapGet clientP n

/-- K2 region (known finding): a substituted path-parameter value needs escaping (a byte that is not
    unreserved) or is a dot segment -/
def unsafePathValue (uri : Bytes) (reqP clientP : List KV) : Bool :=
  (usedValues uri reqP clientP).any fun v => !pathValueSafe v

inductive BodyObs where
  | bytes (b : Bytes)
  | multipart (fields : List KV) (files : List (Bytes × Bytes × Bytes))
  | broken
  deriving Repr, DecidableEq

structure AsmObs where
  method : Bytes
  host : Bytes
  path : Bytes
  query : List KV
  headers : List KV
  userAgent : Bytes
  referer : Bytes
  cookies : List KV
  contentType : Bytes
  body : BodyObs
  deriving Repr, DecidableEq

/-- default field names of uploaded files: `file<i+1>` (`parserRequestBodyFile`) -/
def fileFieldNames (files : List (Bytes × Bytes × Bytes)) : List (Bytes × Bytes × Bytes) :=
  (List.range files.length).zip files |>.map fun (i, f) =>
    (if f.1.isEmpty then b "file" ++ natToDec (i + 1) else f.1, f.2.1, f.2.2)

def sortedBy (l : List (Bytes × Bytes × Bytes)) : List (Bytes × Bytes × Bytes) :=
  l.mergeSort fun a c => !bytesLt c.1 a.1

def sortedKV (l : List KV) : List KV := l.mergeSort fun a c => !bytesLt c.1 a.1

/-- host and everything behind it of `http(s)://host[/path]` — the path the property expects is the
    template's path with the values put in, whatever bytes the values consist of -/
def specHostPath (u : Bytes) : Bytes × Bytes :=
  let rest := if hasPrefix u (b "https://") then u.drop 8 else u.drop 7
  match indexByte rest 47 with
  | some i => (rest.take i, rest.drop i)
  | none => (rest, [47])

/-- cookies: per name the request's value, else the client's, else the jar's; nothing missing, no name twice -/
def cookiesArrive (c : Config) (got : List KV) : Bool :=
  (got.map (·.1)).all (fun k =>
    mapGet got k == (match mapGet c.request.cookies k with
      | some v => some v
      | none => match mapGet c.client.cookies k with
        | some v => some v
        | none => mapGet c.jar k)) &&
  (c.request.cookies ++ c.client.cookies ++ c.jar).all (fun kv => (mapGet got kv.1).isSome) &&
  decide (got.map (·.1)).Nodup

/-- the body clauses -/
def bodyArrives (c : Config) (o : AsmObs) : Option String :=
  match effectiveBody c.body, o.body with
  | .none, .bytes [] => none
  | .raw bs, .bytes got => if got = bs then none else some "body-arrives"
  | .form fs, .bytes got =>
    if o.contentType ≠ b "application/x-www-form-urlencoded" then some "form-content-type"
    else if !sameValuesPerKey ((parseArgsNV got).map fun a => (a.key, a.value)) fs then some "form-fields-arrive"
    else none
  | .files fs fl, .multipart gotF gotFiles =>
    if o.contentType ≠ b "multipart/form-data" then some "multipart-content-type"
    else if !sameValuesPerKey gotF fs then some "form-fields-arrive"
    else if sortedBy gotFiles ≠ sortedBy (fileFieldNames fl) then some "files-arrive"
    else none
  | _, _ => some "body-arrives"

/-- every clause but the URL ones on one arrived request. `urlArgs` = the query arguments written
    in the URL itself. -/
def specAsmRest (c : Config) (urlArgs : List KV) (o : AsmObs) : Option String :=
  if o.method ≠ c.method then some "method-arrives"
  else if !sameValuesPerKey o.headers (c.client.headers ++ c.request.headers) then
    some "headers-arrive(request-in-addition)"
  else if !sameValuesPerKey o.query (urlArgs ++ c.client.params ++ c.request.params) then
    some "query-parameters-arrive(request-in-addition)"
  else if o.userAgent ≠ (if c.request.userAgent ≠ [] then c.request.userAgent
                          else if c.client.userAgent ≠ [] then c.client.userAgent else defaultUserAgent) then
    some "user-agent(request-over-client)"
  else if o.referer ≠ (if c.request.referer ≠ [] then c.request.referer else c.client.referer) then
    some "referer(request-over-client)"
  else if !cookiesArrive c o.cookies then some "cookies-arrive(request-over-client-over-jar)"
  else bodyArrives c o

/-- the URL clauses: host and path of the template (`uri0` = absolute URL template, base URL joined,
    query split off) with the path parameters put in, request level over client level -/
def specAsmURL (c : Config) (uri0 : Bytes) (o : AsmObs) : Option String :=
  let want := expectedURI (split2 uri0 35).1 c.request.pathParams c.client.pathParams
  let hp := specHostPath want
  if o.host ≠ hp.1 then some "host-arrives"
  else if o.path ≠ hp.2 then some "path-parameter-arrives(request-over-client)"
  else none

/-- the assembly clauses on one arrived request; the URL clauses come last so that the known finding
    about unescaped path-parameter values (K2) hides no other clause -/
def specAsm (c : Config) (uri0 : Bytes) (urlArgs : List KV) (o : AsmObs) : Option String :=
  match specAsmRest c urlArgs o with
  | some cl => some cl
  | none => specAsmURL c uri0 o

/-- what a server sees of an assembled request (the form body parsed as fasthttp parses arguments,
    multipart parts as written) -/
def arrived (a : Assembled) : AsmObs :=
  { method := a.method, host := a.host, path := a.path,
    query := (parseArgsNV a.rawQuery).map fun x => (x.key, x.value),
    headers := a.headers, userAgent := a.userAgent, referer := a.referer, cookies := a.cookies,
    contentType := a.contentType,
    body := match a.body with
      | .none => .bytes []
      | .raw bs => .bytes bs
      | .form fs => .bytes (renderArgsNV (fs.map argOf))
      | .files fs fl => .multipart fs (fileFieldNames fl) }

/-- timeout precedence: request level over client level -/
def effectiveTimeout (c : Config) : Nat :=
  if c.request.timeout > 0 then c.request.timeout else c.client.timeout

/-! ## (b) the cookie jar: abstract store host ↦ list of (name, value, path, expiry) -/

abbrev AbsJar := List (Bytes × List Cookie)

def absGetHost (j : AbsJar) (k : Bytes) : List Cookie := ((j.find? (·.1 = k)).map (·.2)).getD []

def absPut : AbsJar → Bytes → List Cookie → AbsJar
  | [], k, v => [(k, v)]
  | (k', v') :: rest, k, v => if k' = k then (k', v) :: rest else (k', v') :: absPut rest k v

/-- store a cookie: it replaces the stored cookie with the same name and path, else it is added -/
def absUpsert : List Cookie → Cookie → List Cookie
  | [], c => [c]
  | d :: ds, c => if sameCookie d c then c :: ds else d :: absUpsert ds c

def absRemove : List Cookie → Cookie → List Cookie
  | [], _ => []
  | d :: ds, c => if sameCookie d c then ds else d :: absRemove ds c

def absSet (j : AbsJar) (host : Bytes) (c : Cookie) : AbsJar :=
  absPut j (hostKey host) (absUpsert (absGetHost j (hostKey host)) c)

/-- a response: an expired Set-Cookie deletes, any other stores -/
def absResp (j : AbsJar) (host : Bytes) (scs : List Cookie) (now : Nat) : AbsJar :=
  absPut j (hostKey host) (scs.foldl (fun cs sc => if deadOnArrival now sc then absRemove cs sc else absUpsert cs sc)
    (absGetHost j (hostKey host)))

/-- cookie path is a prefix of the request path (a missing path is the root) -/
def specPathOK (reqPath cookiePath : Bytes) : Bool :=
  decide (cookiePath.length ≤ 1) || hasPrefix reqPath cookiePath

/-- **the property's answer**: the unexpired cookies stored for that host whose path is a prefix
    of the request path -/
def specGet (j : AbsJar) (host path : Bytes) (now : Nat) : List Cookie :=
  (absGetHost j (hostKey host)).filter fun c => !expiredAt now c && specPathOK path c.path

/-- the same lookup with the path test as the code writes it (for attributing a failure to K1) -/
def implGet (j : AbsJar) (host path : Bytes) (now : Nat) : List Cookie :=
  (absGetHost j (hostKey host)).filter fun c => !expiredAt now c && implPathOK path c.path

/-- a lookup drops the expired cookies stored under the host key -/
def absPurgeK (j : AbsJar) (key : Bytes) (now : Nat) : AbsJar :=
  match j.find? (·.1 = key) with
  | none => j
  | some _ => absPut j key ((absGetHost j key).filter fun c => !expiredAt now c)

def absPurge (j : AbsJar) (host : Bytes) (now : Nat) : AbsJar := absPurgeK j (hostKey host) now

def absStep (now : Nat) (j : AbsJar) : JarOp → AbsJar
  | .set host c => absSet j host c
  | .setKV host name value => absSet j host { name := name, value := value, path := [], expiry := none }
  | .resp host _ scs => absResp (absPurge j host now) host scs now
  | .get host _ => absPurge j host now
  | .getRelease host _ => absPurge j host now
  | .releaseJar => []

/-- what the property demands of each operation's observation -/
def specObs (now : Nat) (j : AbsJar) : JarOp → JarObs
  | .get host path => .cookies (specGet j host path now)
  | .getRelease host path => .cookies (specGet j host path now)
  | .resp host reqPath _ => .header (renderCookieHeader (cookieHeaderOf (specGet j host reqPath now)))
  | _ => .done

def implObsOf (now : Nat) (j : AbsJar) : JarOp → JarObs
  | .get host path => .cookies (implGet j host path now)
  | .getRelease host path => .cookies (implGet j host path now)
  | .resp host reqPath _ => .header (renderCookieHeader (cookieHeaderOf (implGet j host reqPath now)))
  | _ => .done

/-! ### timed histories: every operation happens at its own time, cookies expire in between -/

/-- the answers the property demands along a history -/
def specRunT : AbsJar → List (Nat × JarOp) → List JarObs
  | _, [] => []
  | j, (now, op) :: h => specObs now j op :: specRunT (absStep now j op) h

/-- the same with the path test as the code writes it -/
def implRunT : AbsJar → List (Nat × JarOp) → List JarObs
  | _, [] => []
  | j, (now, op) :: h => implObsOf now j op :: implRunT (absStep now j op) h

/-- `specJar` for timed histories -/
def specJarT : AbsJar → List (Nat × JarOp) → List JarObs → Option (String × Bool)
  | _, [], [] => none
  | j, (now, op) :: ops, o :: os =>
    if o = specObs now j op then specJarT (absStep now j op) ops os
    else
      some ((match op with
        | .resp .. => "jar-sends-exactly-the-matching-cookies"
        | _ => "jar-returns-exactly-the-matching-cookies"), o = implObsOf now j op)
  | _, _, _ => some ("observation-count", false)

/-- compare a constant-time history of observations with the property; `(clause, attributableToK1)` -/
def specJar (now : Nat) (j : AbsJar) (ops : List JarOp) (os : List JarObs) : Option (String × Bool) :=
  specJarT j (ops.map fun op => (now, op)) os

/-- host and path an operation looks up -/
def lookupOf : JarOp → Option (Bytes × Bytes)
  | .get h p => some (h, p)
  | .getRelease h p => some (h, p)
  | .resp h p _ => some (h, p)
  | _ => none

namespace Known

/-- K1 at one operation: a lookup meets a stored, unexpired cookie of that host on which the
    reversed path test of `getByHostAndPath` and the property's prefix test disagree -/
def k1At (now : Nat) (j : AbsJar) (op : JarOp) : Bool :=
  match lookupOf op with
  | some (host, path) =>
    (absGetHost j (hostKey host)).any fun c =>
      !expiredAt now c && (implPathOK path c.path != specPathOK path c.path)
  | none => false

/-- **K1 region** of a history (known finding: reversed path test, pinned by Test_CookieJarGet) -/
def K1 : AbsJar → List (Nat × JarOp) → Bool
  | _, [] => false
  | j, (now, op) :: h => k1At now j op || K1 (absStep now j op) h

end Known

/-- the host key an operation works on (`none`: `Release`, which empties the whole jar) -/
def opKey : JarOp → Option Bytes
  | .set h _ => some (hostKey h)
  | .setKV h _ _ => some (hostKey h)
  | .resp h _ _ => some (hostKey h)
  | .get h _ => some (hostKey h)
  | .getRelease h _ => some (hostKey h)
  | .releaseJar => none

/-- operations that concern host key `k` -/
def concerns (k : Bytes) (op : JarOp) : Bool :=
  match opKey op with
  | some k' => k' == k
  | none => true

/-- the part of a history that concerns host key `k` -/
def projHist (k : Bytes) (h : List (Nat × JarOp)) : List (Nat × JarOp) := h.filter fun e => concerns k e.2

/-- the observations of the operations that concern host key `k` -/
def projObs (k : Bytes) : List (Nat × JarOp) → List JarObs → List JarObs
  | e :: h, o :: os => if concerns k e.2 then o :: projObs k h os else projObs k h os
  | _, _ => []

/-- the cookies an operation offers to the jar -/
def offered : JarOp → List Cookie
  | .set _ c => [c]
  | .setKV _ name value => [{ name := name, value := value, path := [], expiry := none }]
  | .resp _ _ scs => scs
  | _ => []

/-- what a lookup returned (the cookies of `Get`; nothing for the other operations) -/
def returned : JarObs → List Cookie
  | .cookies cs => cs
  | _ => []

/-! ## (c) responses belong to their requests -/

inductive ExecObs where
  | timeout
  | response (id : Bytes)
  | error
  deriving Repr, DecidableEq

/-- per request of a schedule case: an uncancelled request gets its own response; a cancelled one
    gets a timeout or its own response — never anything else -/
def specSched : List (String × Bytes × ExecObs) → Option String
  | [] => none
  | (act, own, o) :: rest =>
    match o with
    | .response id => if id = own then specSched rest else some "response-belongs-to-request"
    | .timeout => if act == "ok" then some "uncancelled-request-completes" else specSched rest
    | .error => some "request-fails-unexpectedly"

end C18
