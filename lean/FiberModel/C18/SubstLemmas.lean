import FiberModel.C18.AsmLemmas
import FiberModel.C11.Lemmas
/-
C18 (a) — `replacePathParams` against the property's placeholder reading of the template
(`substParams = expectedURI`), fasthttp's argument codec round trip for the query string and the form
body, and the assembled request against every assembly clause of the spec.
-/
namespace C18
open B C11
set_option linter.unusedSimpArgs false
set_option linter.unusedVariables false

/-! ### `strings.ReplaceAll` -/

theorem go_nil (pat rep : Bytes) (fuel : Nat) : replaceAll.go pat rep fuel [] = [] := by
  cases fuel <;> simp [replaceAll.go]

/-- no match at the head: the byte is copied -/
theorem go_copy (pat rep : Bytes) (fuel : Nat) (c : Nat) (cs : Bytes) (hp : pat ≠ [])
    (hn : pat.isPrefixOf (c :: cs) = false) :
    replaceAll.go pat rep (fuel + 1) (c :: cs) = c :: replaceAll.go pat rep fuel cs := by
  have : pat.isEmpty = false := by cases pat <;> simp_all
  simp [replaceAll.go, this, hn]

/-- a match at the head: the replacement is written, the scan continues behind the match -/
theorem go_match (pat rep : Bytes) (fuel : Nat) (rest : Bytes) (hp : pat ≠ []) :
    replaceAll.go pat rep (fuel + 1) (pat ++ rest) = rep ++ replaceAll.go pat rep fuel rest := by
  cases pat with
  | nil => exact absurd rfl hp
  | cons p ps =>
    have h1 : (p :: ps).isPrefixOf (p :: (ps ++ rest)) = true := by
      have := List.isPrefixOf_iff_prefix.mpr (List.prefix_append (p :: ps) rest)
      exact this
    simp only [List.cons_append, replaceAll.go, List.isEmpty_cons, Bool.false_eq_true, if_false, h1, if_true]
    simp

/-- a stretch without the first byte of the pattern is copied -/
theorem go_skip (p : Nat) (ps rep : Bytes) : ∀ (w : Bytes) (fuel : Nat) (rest : Bytes), (∀ x ∈ w, x ≠ p) →
    replaceAll.go (p :: ps) rep (fuel + w.length) (w ++ rest) = w ++ replaceAll.go (p :: ps) rep fuel rest := by
  intro w
  induction w with
  | nil => intro fuel rest _; simp
  | cons x xs ih =>
    intro fuel rest hw
    have hx : x ≠ p := hw x (List.mem_cons_self ..)
    have hn : (p :: ps).isPrefixOf (x :: (xs ++ rest)) = false := by
      have hpx : (p == x) = false := beq_eq_false_iff_ne.mpr (fun e => hx e.symm)
      simp [List.isPrefixOf, hpx]
    simp only [List.length_cons, List.cons_append]
    rw [show fuel + (xs.length + 1) = (fuel + xs.length) + 1 by omega, go_copy _ _ _ _ _ (by simp) hn,
      ih fuel rest (fun y hy => hw y (List.mem_cons_of_mem _ hy))]

/-! ### templates as token lists -/

/-- the template a token list stands for -/
def untok (ts : List Tok) : Bytes :=
  ts.flatMap fun t => match t with
    | .lit c => [c]
    | .ph n => 58 :: n

/-- placeholders are non-empty runs of name bytes -/
def phOK (ts : List Tok) : Bool :=
  ts.all fun t => match t with
    | .lit _ => true
    | .ph n => !n.isEmpty && n.all nameByte

/-- the value `replacePathParams` writes for a key -/
def valOf (reqP clientP : List KV) (k : Bytes) : Bytes :=
  match mapGet reqP k with
  | some v => v
  | none => (mapGet clientP k).getD []

/-- the template with the placeholders in `S` filled in -/
def renderS (reqP clientP : List KV) (S : List Bytes) (ts : List Tok) : Bytes :=
  ts.flatMap fun t => match t with
    | .lit c => [c]
    | .ph n => if S.contains n then valOf reqP clientP n else 58 :: n

theorem renderS_nil_set (reqP clientP : List KV) (ts : List Tok) : renderS reqP clientP [] ts = untok ts := by
  simp [renderS, untok]

theorem renderS_cons (reqP clientP : List KV) (S : List Bytes) (t : Tok) (ts : List Tok) :
    renderS reqP clientP S (t :: ts) =
      (match t with
        | .lit c => [c]
        | .ph n => if S.contains n then valOf reqP clientP n else 58 :: n) ++ renderS reqP clientP S ts := by
  simp [renderS]

/-- a key of name bytes that is a prefix of `n ++ d :: r`, `d` not a name byte, is a prefix of `n` -/
theorem prefix_of_name (k n r : Bytes) (d : Nat) (hk : k.all nameByte = true) (hd : nameByte d = false)
    (h : k.isPrefixOf (n ++ d :: r) = true) : k.isPrefixOf n = true := by
  induction k generalizing n with
  | nil => simp
  | cons x xs ih =>
    simp only [List.all_cons, Bool.and_eq_true] at hk
    cases n with
    | nil =>
      simp only [List.nil_append, List.isPrefixOf, Bool.and_eq_true, beq_iff_eq] at h
      rw [h.1] at hk; rw [hd] at hk; cases hk.1
    | cons y ys =>
      simp only [List.cons_append, List.isPrefixOf, Bool.and_eq_true, beq_iff_eq] at h ⊢
      exact ⟨h.1, ih ys hk.2 h.2⟩

theorem prefix_of_name_end (k n : Bytes) (hk : k ≠ []) (h : k.isPrefixOf (n ++ []) = true) : k.isPrefixOf n = true := by
  simpa using h

theorem nameByte_58 : nameByte 58 = false := by decide

/-- tokens that begin with a ':' -/
def colonTok : Tok → Bool
  | .lit c => c == 58
  | .ph _ => true

/-- what the rendering of a token list starts with when it may follow a ':' construct -/
theorem render_head (reqP clientP : List KV) (S : List Bytes) (ts : List Tok) (t : Tok)
    (hadj : adjOK (t :: ts) = true) (ht : colonTok t = true) :
    renderS reqP clientP S ts = [] ∨ ∃ d r, renderS reqP clientP S ts = d :: r ∧ nameByte d = false := by
  cases ts with
  | nil => left; rfl
  | cons u rest =>
    right
    cases u with
    | lit d =>
      refine ⟨d, renderS reqP clientP S rest, by simp [renderS], ?_⟩
      cases t with
      | lit c =>
        simp only [colonTok, beq_iff_eq] at ht
        simp only [adjOK, ht, bne_self_eq_false, Bool.false_or, Bool.and_eq_true, Bool.not_eq_true'] at hadj
        exact hadj.1
      | ph n =>
        simp only [adjOK, Bool.and_eq_true, Bool.not_eq_true'] at hadj
        exact hadj.1
    | ph m =>
      cases t with
      | lit c =>
        simp only [colonTok, beq_iff_eq] at ht
        simp [adjOK, ht] at hadj
      | ph n => simp [adjOK] at hadj

theorem adjOK_tail (t : Tok) (ts : List Tok) (h : adjOK (t :: ts) = true) : adjOK ts = true := by
  cases ts with
  | nil => rfl
  | cons u rest => simp only [adjOK, Bool.and_eq_true] at h; exact h.2

/-- one round of `strings.ReplaceAll(uri, ":"+k, val)` fills in exactly the placeholders named `k` -/
theorem subst_step (reqP clientP : List KV) (S : List Bytes) (k : Bytes)
    (hk : k ≠ []) (hkn : k.all nameByte = true) (hkS : S.contains k = false) :
    ∀ (ts : List Tok), phOK ts = true → adjOK ts = true →
      (∀ n, Tok.ph n ∈ ts → k.isPrefixOf n = true → n ≠ k → S.contains n = true) →
      (∀ n, Tok.ph n ∈ ts → S.contains n = true → ∀ x ∈ valOf reqP clientP n, x ≠ 58) →
      ∀ fuel, (renderS reqP clientP S ts).length ≤ fuel →
        replaceAll.go (58 :: k) (valOf reqP clientP k) fuel (renderS reqP clientP S ts) =
          renderS reqP clientP (k :: S) ts := by
  intro ts
  induction ts with
  | nil => intro _ _ _ _ fuel _; simp [renderS, go_nil]
  | cons t ts ih =>
    intro hph hadj hH hV fuel hfuel
    have hph' : phOK ts = true := by simp only [phOK, List.all_cons, Bool.and_eq_true] at hph ⊢; exact hph.2
    have hadj' := adjOK_tail t ts hadj
    have hH' : ∀ n, Tok.ph n ∈ ts → k.isPrefixOf n = true → n ≠ k → S.contains n = true :=
      fun n hn => hH n (List.mem_cons_of_mem _ hn)
    have hV' : ∀ n, Tok.ph n ∈ ts → S.contains n = true → ∀ x ∈ valOf reqP clientP n, x ≠ 58 :=
      fun n hn => hV n (List.mem_cons_of_mem _ hn)
    have IH := ih hph' hadj' hH' hV'
    -- a key of name bytes is no prefix of what follows a ':' construct, unless it is a prefix of the name
    have noPrefixAfter : colonTok t = true → ∀ n : Bytes,
        k.isPrefixOf (n ++ renderS reqP clientP S ts) = true → k.isPrefixOf n = true := by
      intro ht n hpre
      rcases render_head reqP clientP S ts t hadj ht with h0 | ⟨d, r, h1, h2⟩
      · rw [h0] at hpre; simpa using hpre
      · rw [h1] at hpre; exact prefix_of_name k n r d hkn h2 hpre
    rw [renderS_cons] at hfuel
    rw [renderS_cons, renderS_cons]
    generalize hrest : renderS reqP clientP S ts = rest at hfuel IH noPrefixAfter ⊢
    cases t with
    | lit c =>
      simp only [List.singleton_append, List.length_cons] at hfuel ⊢
      obtain ⟨f, rfl⟩ : ∃ f, fuel = f + 1 := ⟨fuel - 1, by omega⟩
      have hn : (58 :: k).isPrefixOf (c :: rest) = false := by
        by_cases hc : c = 58
        · subst hc
          cases hp : k.isPrefixOf rest with
          | false => simp [List.isPrefixOf, hp]
          | true =>
            have := noPrefixAfter (by simp [colonTok]) [] (by simpa using hp)
            cases k with
            | nil => exact absurd rfl hk
            | cons x xs => simp [List.isPrefixOf] at this
        · have : (58 == c) = false := beq_eq_false_iff_ne.mpr (fun e => hc e.symm)
          simp [List.isPrefixOf, this]
      rw [go_copy _ _ _ _ _ (by simp) hn, IH f (by omega)]
    | ph n =>
      have hnOK : n.all nameByte = true := by
        simp only [phOK, List.all_cons, Bool.and_eq_true] at hph; exact hph.1.2
      cases hS : S.contains n with
      | true =>
        have hkn' : (k :: S).contains n = true := by
          simp only [List.contains_cons, Bool.or_eq_true]; exact Or.inr hS
        simp only [hS, if_true, hkn', List.length_append] at hfuel ⊢
        have hv := hV n (List.mem_cons_self ..) hS
        obtain ⟨f, rfl⟩ : ∃ f, fuel = f + (valOf reqP clientP n).length := ⟨fuel - (valOf reqP clientP n).length, by omega⟩
        rw [go_skip 58 k _ _ f rest hv, IH f (by omega)]
      | false =>
        by_cases hnk : n = k
        · subst hnk
          have hkn' : (n :: S).contains n = true := by simp
          simp only [hS, Bool.false_eq_true, if_false, hkn', if_true, List.length_append, List.length_cons] at hfuel ⊢
          obtain ⟨f, rfl⟩ : ∃ f, fuel = f + 1 := ⟨fuel - 1, by omega⟩
          rw [show (58 :: n) ++ rest = (58 :: n) ++ rest from rfl, go_match _ _ _ _ (by simp), IH f (by omega)]
        · have hkn' : (k :: S).contains n = false := by
            simp only [List.contains_cons, Bool.or_eq_false_iff]
            exact ⟨beq_eq_false_iff_ne.mpr hnk, hS⟩
          simp only [hS, Bool.false_eq_true, if_false, hkn', List.length_append, List.length_cons] at hfuel ⊢
          have hn : (58 :: k).isPrefixOf (58 :: (n ++ rest)) = false := by
            cases hp : k.isPrefixOf (n ++ rest) with
            | false => simp [List.isPrefixOf, hp]
            | true =>
              have h1 := noPrefixAfter (by simp [colonTok]) n hp
              have := hH n (List.mem_cons_self ..) h1 hnk
              rw [hS] at this; cases this
          obtain ⟨f, rfl⟩ : ∃ f, fuel = (f + n.length) + 1 := ⟨fuel - n.length - 1, by omega⟩
          have hskip : ∀ x ∈ n, x ≠ 58 := by
            intro x hx e
            have := List.all_eq_true.mp hnOK x hx
            rw [e, nameByte_58] at this; cases this
          rw [List.cons_append, go_copy _ _ _ _ _ (by simp) hn, go_skip 58 k _ _ f rest hskip, IH f (by omega)]
          simp

theorem renderS_congr (reqP clientP : List KV) (S S' : List Bytes) (h : ∀ n, S.contains n = S'.contains n) (ts : List Tok) :
    renderS reqP clientP S ts = renderS reqP clientP S' ts := by
  unfold renderS
  congr 1
  funext t
  cases t with
  | lit c => rfl
  | ph n => simp only [h n]

theorem length_lt_of_proper_prefix (k n : Bytes) (h : k.isPrefixOf n = true) (hne : n ≠ k) : k.length < n.length := by
  obtain ⟨t, rfl⟩ := List.isPrefixOf_iff_prefix.mp h
  cases t with
  | nil => simp at hne
  | cons x xs => simp

theorem keyBefore_false_of_shorter (k n : Bytes) (h : k.length < n.length) : keyBefore k n = false := by
  unfold keyBefore
  have : k.length ≠ n.length := by omega
  simp only [ne_eq, this, not_false_eq_true, if_true, decide_eq_false_iff_not]
  omega

theorem subst_fold (reqP clientP : List KV) (ts : List Tok) (hph : phOK ts = true) (hadj : adjOK ts = true) :
    ∀ (Q P : List Bytes), (P ++ Q).Pairwise (fun a c => keyBefore a c = true) → (P ++ Q).Nodup →
      (∀ k, k ∈ P ++ Q → k ≠ [] ∧ k.all nameByte = true) →
      (∀ n, Tok.ph n ∈ ts → ∀ k, k ∈ P ++ Q → k.isPrefixOf n = true → n ≠ k → n ∈ P ++ Q) →
      (∀ n, Tok.ph n ∈ ts → n ∈ P ++ Q → ∀ x ∈ valOf reqP clientP n, x ≠ 58) →
      Q.foldl (fun u k => replaceAll u (58 :: k) (valOf reqP clientP k)) (renderS reqP clientP P ts) =
        renderS reqP clientP (Q.reverse ++ P) ts := by
  intro Q
  induction Q with
  | nil => intro P _ _ _ _ _; simp
  | cons k Q ih =>
    intro P hs hn hk hcl hv
    simp only [List.foldl_cons]
    have hkm : k ∈ P ++ k :: Q := by simp
    have hkP : P.contains k = false := by
      have := (List.nodup_append.mp hn).2.2
      cases hc : P.contains k with
      | false => rfl
      | true =>
        have hm : k ∈ P := by simpa using hc
        exact absurd rfl (this k hm k (List.mem_cons_self ..))
    have hstep : replaceAll (renderS reqP clientP P ts) (58 :: k) (valOf reqP clientP k) =
        renderS reqP clientP (k :: P) ts := by
      unfold replaceAll
      apply subst_step reqP clientP P k (hk k hkm).1 (hk k hkm).2 hkP ts hph hadj
      · intro n hn' hpre hne
        have hmem := hcl n hn' k hkm hpre hne
        have hlen := length_lt_of_proper_prefix k n hpre hne
        rcases List.mem_append.mp hmem with h1 | h1
        · simpa using h1
        · exfalso
          simp only [List.mem_cons] at h1
          rcases h1 with e | e
          · exact hne e
          · have hsorted := (List.pairwise_append.mp hs).2.1
            rw [List.pairwise_cons] at hsorted
            have := hsorted.1 n e
            rw [keyBefore_false_of_shorter k n hlen] at this; cases this
      · intro n hn' hS
        have : n ∈ P := by simpa using hS
        exact hv n hn' (List.mem_append_left _ this)
      · exact Nat.le_refl _
    rw [hstep, renderS_congr reqP clientP (k :: P) (P ++ [k]) (by intro n; simp [Bool.or_comm]) ts]
    have e : (P ++ [k]) ++ Q = P ++ k :: Q := by simp
    rw [ih (P ++ [k]) (e ▸ hs) (e ▸ hn) (e ▸ hk) (e ▸ hcl) (e ▸ hv)]
    apply renderS_congr
    intro n
    simp [Bool.or_comm, Bool.or_assoc]

theorem takeWhile_append_drop (p : Nat → Bool) : ∀ l : Bytes, l.takeWhile p ++ l.drop (l.takeWhile p).length = l
  | [] => rfl
  | x :: xs => by
    simp only [List.takeWhile_cons]
    cases h : p x
    · simp
    · simp [takeWhile_append_drop p xs]

theorem all_takeWhile (p : Nat → Bool) : ∀ l : Bytes, (l.takeWhile p).all p = true
  | [] => rfl
  | x :: xs => by
    simp only [List.takeWhile_cons]
    cases h : p x
    · simp
    · simp [h, all_takeWhile p xs]

theorem tokenize_go_spec : ∀ (fuel : Nat) (s : Bytes), s.length ≤ fuel →
    untok (tokenize.go fuel s) = s ∧ phOK (tokenize.go fuel s) = true := by
  intro fuel
  induction fuel with
  | zero => intro s h; cases s <;> simp_all [tokenize.go, untok, phOK]
  | succ f ih =>
    intro s h
    cases s with
    | nil => simp [tokenize.go, untok, phOK]
    | cons c cs =>
      simp only [List.length_cons, Nat.add_le_add_iff_right] at h
      simp only [tokenize.go]
      by_cases hc : (c == 58) = true
      · simp only [hc, if_true]
        cases hn : (cs.takeWhile nameByte).isEmpty
        · simp only [Bool.false_eq_true, if_false]
          have hlen : (cs.drop (cs.takeWhile nameByte).length).length ≤ f := by
            simp only [List.length_drop]; omega
          obtain ⟨i1, i2⟩ := ih _ hlen
          constructor
          · simp only [untok, List.flatMap_cons] at i1 ⊢
            rw [i1]
            have := takeWhile_append_drop nameByte cs
            simp only [beq_iff_eq] at hc
            subst hc
            simp [this]
          · simp only [phOK, List.all_cons, Bool.and_eq_true] at i2 ⊢
            exact ⟨⟨by simp [hn], all_takeWhile nameByte cs⟩, i2⟩
        · simp only [if_true]
          obtain ⟨i1, i2⟩ := ih cs h
          constructor
          · simp only [untok, List.flatMap_cons] at i1 ⊢; rw [i1]; rfl
          · simp only [phOK, List.all_cons] at i2 ⊢; simp [i2]
      · simp only [hc, if_false, Bool.false_eq_true]
        obtain ⟨i1, i2⟩ := ih cs h
        constructor
        · simp only [untok, List.flatMap_cons] at i1 ⊢; rw [i1]; rfl
        · simp only [phOK, List.all_cons] at i2 ⊢; simp [i2]

theorem untok_tokenize (s : Bytes) : untok (tokenize s) = s := (tokenize_go_spec s.length s (Nat.le_refl _)).1
theorem phOK_tokenize (s : Bytes) : phOK (tokenize s) = true := (tokenize_go_spec s.length s (Nat.le_refl _)).2

theorem unreserved_ne_colon (x : Nat) (h : unreserved x = true) : x ≠ 58 := by
  intro e; subst e; revert h; decide

theorem substParams_eq_expected (uri : Bytes) (reqP clientP : List KV)
    (hr : (reqP.map (·.1)).Nodup) (hc : (clientP.map (·.1)).Nodup)
    (hT : templateOK uri (reqP.map (·.1) ++ clientP.map (·.1)) = true)
    (hv : unsafePathValue uri reqP clientP = false) :
    substParams uri reqP clientP = expectedURI uri reqP clientP := by
  simp only [templateOK, Bool.and_eq_true] at hT
  obtain ⟨⟨hkeys, hadj⟩, hclos⟩ := hT
  have hun := untok_tokenize uri
  have hph := phOK_tokenize uri
  generalize hts : tokenize uri = ts at *
  -- the key list of `replacePathParams`
  generalize hK : reqP.map (·.1) ++ (clientP.map (·.1)).filter (fun k => (mapGet reqP k).isNone) = K
  have memK : ∀ n, n ∈ K ↔ (mapGet reqP n ≠ none ∨ mapGet clientP n ≠ none) := by
    intro n
    rw [← hK]
    simp only [List.mem_append, List.mem_filter, ne_eq, mapGet_eq_none_iff, Option.isNone_iff_eq_none]
    constructor
    · rintro (h | ⟨h, _⟩)
      · exact Or.inl (fun hn => hn h)
      · exact Or.inr (fun hn => hn h)
    · rintro (h | h)
      · exact Or.inl (Classical.not_not.mp h)
      · by_cases h' : n ∈ reqP.map (·.1)
        · exact Or.inl h'
        · exact Or.inr ⟨Classical.not_not.mp h, h'⟩
  have memK' : ∀ n, n ∈ K ↔ n ∈ reqP.map (·.1) ++ clientP.map (·.1) := by
    intro n
    rw [memK]
    simp only [List.mem_append, ne_eq, mapGet_eq_none_iff, Classical.not_not]
  have hKnd : K.Nodup := by
    rw [← hK, List.nodup_append]
    refine ⟨hr, hc.filter _, ?_⟩
    intro a ha b' hb e
    subst e
    have := (List.mem_filter.mp hb).2
    simp only [Option.isNone_iff_eq_none, mapGet_eq_none_iff] at this
    exact this ha
  have hsorted := sortKeys_sorted K
  have hperm := sortKeys_perm K
  have hsnd : (sortKeys K).Nodup := hperm.nodup_iff.mpr hKnd
  have memS : ∀ n, n ∈ sortKeys K ↔ n ∈ K := fun n => hperm.mem_iff
  unfold substParams
  simp only [hK]
  show List.foldl (fun u k => replaceAll u (58 :: k) (valOf reqP clientP k)) uri (sortKeys K) = _
  have hstart : uri = renderS reqP clientP [] ts := by rw [renderS_nil_set, hun]
  rw [show List.foldl (fun u k => replaceAll u (58 :: k) (valOf reqP clientP k)) uri (sortKeys K) =
        List.foldl (fun u k => replaceAll u (58 :: k) (valOf reqP clientP k)) (renderS reqP clientP [] ts) (sortKeys K) by
        rw [← hstart]]
  rw [subst_fold reqP clientP ts hph hadj (sortKeys K) [] (by simpa using hsorted) (by simpa using hsnd)]
  · -- all keys filled in = the property's reading
    unfold expectedURI renderS
    rw [hts]
    congr 1
    funext t
    cases t with
    | lit c => rfl
    | ph n =>
      simp only [List.append_nil, List.contains_reverse, phValue, valOf]
      cases h1 : mapGet reqP n with
      | some v =>
        have hm : n ∈ sortKeys K := (memS n).mpr ((memK n).mpr (Or.inl (by simp [h1])))
        simp [hm]
      | none =>
        cases h2 : mapGet clientP n with
        | some v =>
          have hm : n ∈ sortKeys K := (memS n).mpr ((memK n).mpr (Or.inr (by simp [h2])))
          simp [hm]
        | none =>
          have hm : n ∉ sortKeys K := by
            intro hm
            rcases (memK n).mp ((memS n).mp hm) with h | h
            · exact absurd h1 h
            · exact absurd h2 h
          simp [hm]
  · intro k hk
    have hk' : k ∈ reqP.map (·.1) ++ clientP.map (·.1) := (memK' k).mp ((memS k).mp (by simpa using hk))
    have := List.all_eq_true.mp hkeys k hk'
    simp only [Bool.and_eq_true, Bool.not_eq_true', List.isEmpty_eq_false_iff] at this
    exact ⟨this.1, this.2⟩
  · intro n hn k hk hpre hne
    have hk' : k ∈ reqP.map (·.1) ++ clientP.map (·.1) := (memK' k).mp ((memS k).mp (by simpa using hk))
    have h1 := List.all_eq_true.mp hclos (Tok.ph n) hn
    simp only at h1
    have h2 := List.all_eq_true.mp h1 k hk'
    have hkn : (k != n) = true := bne_iff_ne.mpr (fun e => hne e.symm)
    simp only [hpre, hkn, Bool.and_self, Bool.not_true, Bool.false_or, List.contains_iff_mem] at h2
    simpa using (memS n).mpr ((memK' n).mpr h2)
  · intro n hn hmem x hx
    have hm : n ∈ K := (memS n).mp (by simpa using hmem)
    -- the value is one of the used values, all of which are path-safe
    have hused : valOf reqP clientP n ∈ usedValues uri reqP clientP := by
      unfold usedValues
      rw [hts]
      refine List.mem_filterMap.mpr ⟨Tok.ph n, hn, ?_⟩
      simp only [valOf]
      cases h1 : mapGet reqP n with
      | some v => rfl
      | none =>
        cases h2 : mapGet clientP n with
        | some v => rfl
        | none =>
          rcases (memK n).mp hm with h | h
          · exact absurd h1 h
          · exact absurd h2 h
    have hsafe : pathValueSafe (valOf reqP clientP n) = true := by
      have := List.any_eq_false.mp hv (valOf reqP clientP n) hused
      simpa using this
    simp only [pathValueSafe, Bool.and_eq_true] at hsafe
    exact unreserved_ne_colon x (List.all_eq_true.mp hsafe.1.1 x hx)



/-- an argument that survives a render / parse round trip: byte values, not entirely empty, and a
    value-less argument (`?flag`) has no value -/
def ArgOK (a : Arg) : Prop :=
  (∀ c ∈ a.key, c < 256) ∧ (∀ c ∈ a.value, c < 256) ∧ ¬ (a.key = [] ∧ a.value = []) ∧ (a.noValue = true → a.value = [])

theorem contains_false_of_clean (s : Bytes) (c : Nat) (h : ∀ x ∈ s, x ≠ c) : s.contains c = false := by
  cases hc : s.contains c with
  | false => rfl
  | true => exact absurd rfl (h c (by simpa using hc))

theorem parseArgSeg_renderArgNV (a : Arg) (h : ArgOK a) : parseArgSeg (renderArgNV a) = a := by
  obtain ⟨hk, hv, _, hnv⟩ := h
  unfold parseArgSeg renderArgNV
  cases hn : a.noValue with
  | true =>
    have h1 : (urlencode a.key).contains 61 = false :=
      contains_false_of_clean _ _ (fun x hx => (urlencode_clean a.key hk x hx).2)
    simp only [if_true, h1, Bool.false_eq_true, if_false, urldecode_urlencode' _ hk]
    cases a with
    | mk key value noValue => simp only at hn hnv ⊢; subst hn; simp [hnv rfl]
  | false =>
    have h1 : (urlencode a.key ++ [61] ++ urlencode a.value).contains 61 = true := by simp
    have h2 : ∀ x ∈ urlencode a.key, x ≠ 61 := fun x hx => (urlencode_clean a.key hk x hx).2
    simp only [Bool.false_eq_true, if_false, h1, if_true]
    rw [List.append_assoc, List.singleton_append, cutEq_append _ _ h2]
    simp only [urldecode_urlencode' _ hk, urldecode_urlencode' _ hv]
    cases a with
    | mk key value noValue => simp only at hn ⊢; subst hn; rfl

theorem renderArgNV_clean (a : Arg) (h : ArgOK a) : ∀ x ∈ renderArgNV a, x ≠ 38 := by
  obtain ⟨hk, hv, _, _⟩ := h
  intro x hx
  unfold renderArgNV at hx
  split at hx
  · exact (urlencode_clean _ hk x hx).1
  · simp only [List.mem_append, List.mem_singleton] at hx
    rcases hx with (hx | hx) | hx
    · exact (urlencode_clean _ hk x hx).1
    · omega
    · exact (urlencode_clean _ hv x hx).1

theorem parseArgsNV_renderArgsNV (as : List Arg) (h : ∀ a ∈ as, ArgOK a) : parseArgsNV (renderArgsNV as) = as := by
  unfold parseArgsNV renderArgsNV
  cases has : as with
  | nil => simp [join, splitOn, splitOn.go, parseArgSeg, urldecode]
  | cons a0 as0 =>
    rw [← has]
    have hne : as.map renderArgNV ≠ [] := by simp [has]
    rw [splitOn_join 38 _ hne (by
      intro s hs x hx
      simp only [List.mem_map] at hs
      obtain ⟨a, ha, rfl⟩ := hs
      exact renderArgNV_clean a (h a ha) x hx)]
    rw [List.map_map]
    have : as.map (parseArgSeg ∘ renderArgNV) = as := by
      conv => rhs; rw [← List.map_id as]
      apply List.map_congr_left
      intro a ha
      simpa using parseArgSeg_renderArgNV a (h a ha)
    rw [this]
    apply List.filter_eq_self.mpr
    intro a ha
    have := (h a ha).2.2.1
    simp only [Bool.not_eq_true', Bool.and_eq_false_iff, List.isEmpty_eq_false_iff]
    by_cases h1 : a.key = []
    · right; exact fun h2 => this ⟨h1, h2⟩
    · left; exact h1


theorem hex2int_lt (c a : Nat) (h : hex2int c = some a) : a < 16 := by
  unfold hex2int at h
  split at h
  · simp only [Option.some.injEq] at h; omega
  · split at h
    · simp only [Option.some.injEq] at h; omega
    · split at h
      · simp only [Option.some.injEq] at h; omega
      · cases h

theorem plus_lt (c : Nat) (h : c < 256) : (if (c == 43) = true then 32 else c) < 256 := by
  split <;> omega

theorem urldecode_lt : ∀ (s : Bytes), (∀ c ∈ s, c < 256) → ∀ c ∈ urldecode s, c < 256
  | [], _ => by simp [urldecode]
  | [c], h => by
    intro x hx
    simp only [urldecode] at hx
    split at hx <;> simp only [List.mem_singleton] at hx <;> subst hx
    · omega
    · exact h _ (by simp)
  | [c, d], h => by
    intro x hx
    simp only [urldecode] at hx
    split at hx
    · simp only [List.mem_cons, List.not_mem_nil, or_false] at hx
      rcases hx with e | e <;> subst e
      · omega
      · exact h _ (by simp)
    · simp only [List.mem_cons] at hx
      rcases hx with e | e
      · subst e; exact plus_lt c (h c (by simp))
      · exact urldecode_lt [d] (fun y hy => h y (by simp at hy ⊢; exact Or.inr hy)) x e
  | c :: h' :: l :: tl, h => by
    intro x hx
    have hrest : ∀ y ∈ h' :: l :: tl, y < 256 := fun y hy => h y (List.mem_cons_of_mem _ hy)
    have htl : ∀ y ∈ tl, y < 256 := fun y hy => h y (by simp at hy ⊢; exact Or.inr (Or.inr (Or.inr hy)))
    rw [urldecode] at hx
    split at hx
    · split at hx
      · rename_i a b' ha hb
        simp only [List.mem_cons] at hx
        rcases hx with e | e
        · subst e
          have := hex2int_lt _ _ ha; have := hex2int_lt _ _ hb; omega
        · exact urldecode_lt tl htl x e
      · simp only [List.mem_cons] at hx
        rcases hx with e | e
        · subst e; omega
        · exact urldecode_lt (h' :: l :: tl) hrest x e
    · simp only [List.mem_cons] at hx
      rcases hx with e | e
      · subst e; exact plus_lt c (h c (by simp))
      · exact urldecode_lt (h' :: l :: tl) hrest x e


/-! ### the assembled request meets the assembly clauses -/

def BytesOK (s : Bytes) : Prop := ∀ c ∈ s, c < 256
def KVOK (kv : KV) : Prop := BytesOK kv.1 ∧ BytesOK kv.2 ∧ ¬ (kv.1 = [] ∧ kv.2 = [])

theorem sameValuesPerKey_refl (l : List KV) : sameValuesPerKey l l = true := by
  simp [sameValuesPerKey]

theorem mem_splitOn_go (c : Nat) : ∀ (s acc seg : Bytes), seg ∈ splitOn.go c s acc → ∀ x ∈ seg, x ∈ s ∨ x ∈ acc := by
  intro s
  induction s with
  | nil => intro acc seg h x hx; simp only [splitOn.go, List.mem_singleton] at h; subst h; right; simpa using hx
  | cons y ys ih =>
    intro acc seg h x hx
    simp only [splitOn.go] at h
    split at h
    · simp only [List.mem_cons] at h
      rcases h with e | e
      · subst e; right; simpa using hx
      · rcases ih [] seg e x hx with h1 | h1
        · left; exact List.mem_cons_of_mem _ h1
        · simp at h1
    · rcases ih (y :: acc) seg h x hx with h1 | h1
      · left; exact List.mem_cons_of_mem _ h1
      · simp only [List.mem_cons] at h1
        rcases h1 with e | e
        · left; rw [e]; exact List.mem_cons_self ..
        · right; exact e

theorem mem_splitOn (c : Nat) (s seg : Bytes) (h : seg ∈ splitOn s c) : ∀ x ∈ seg, x ∈ s := by
  intro x hx
  rcases mem_splitOn_go c s [] seg h x hx with h1 | h1
  · exact h1
  · simp at h1

theorem mem_cutEq : ∀ (s : Bytes), (∀ x ∈ (cutEq s).1, x ∈ s) ∧ (∀ x ∈ (cutEq s).2, x ∈ s)
  | [] => by simp [cutEq]
  | c :: cs => by
    have ih := mem_cutEq cs
    simp only [cutEq]
    split
    · exact ⟨by simp, fun x hx => List.mem_cons_of_mem _ hx⟩
    · refine ⟨?_, fun x hx => List.mem_cons_of_mem _ (ih.2 x hx)⟩
      intro x hx
      simp only [List.mem_cons] at hx ⊢
      rcases hx with e | e
      · exact Or.inl e
      · exact Or.inr (ih.1 x e)

theorem parsed_argOK (q : Bytes) (hq : BytesOK q) : ∀ a ∈ parseArgsNV q, ArgOK a := by
  intro a ha
  unfold parseArgsNV at ha
  obtain ⟨ha1, ha2⟩ := List.mem_filter.mp ha
  obtain ⟨seg, hseg, rfl⟩ := List.mem_map.mp ha1
  have hsegOK : BytesOK seg := fun x hx => hq x (mem_splitOn 38 q seg hseg x hx)
  have hne : ¬ ((parseArgSeg seg).key = [] ∧ (parseArgSeg seg).value = []) := by
    intro ⟨h1, h2⟩; simp [h1, h2] at ha2
  unfold parseArgSeg at hne ⊢
  split
  · rename_i hc
    simp only [hc, if_true] at hne
    exact ⟨urldecode_lt _ (fun x hx => hsegOK x ((mem_cutEq seg).1 x hx)),
           urldecode_lt _ (fun x hx => hsegOK x ((mem_cutEq seg).2 x hx)), hne, by simp⟩
  · rename_i hc
    simp only [hc, Bool.false_eq_true, if_false] at hne
    exact ⟨urldecode_lt _ hsegOK, by simp, by simpa using hne, fun _ => rfl⟩

theorem argOf_OK (kv : KV) (h : KVOK kv) : ArgOK (argOf kv) := ⟨h.1, h.2.1, h.2.2, by simp [argOf]⟩

theorem split2_clean (s : Bytes) (c : Nat) (h : ∀ x ∈ s, x ≠ c) : (split2 s c).1 = s := by
  simp [split2, splitOn_clean c s h]

theorem unreserved_ne (x : Nat) (h : unreserved x = true) : x ≠ 35 ∧ x ≠ 63 ∧ x ≠ 47 := by
  refine ⟨?_, ?_, ?_⟩ <;> (intro e; subst e; revert h; decide)


/-- every byte of the expected URL comes from the template or from a used value -/
theorem expectedURI_clean (uri : Bytes) (reqP clientP : List KV)
    (hu : ∀ x ∈ uri, x ≠ 35 ∧ x ≠ 63) (hv : unsafePathValue uri reqP clientP = false) :
    ∀ x ∈ expectedURI uri reqP clientP, x ≠ 35 ∧ x ≠ 63 := by
  intro x hx
  unfold expectedURI at hx
  obtain ⟨t, ht, hxt⟩ := List.mem_flatMap.mp hx
  have hsub : ∀ y, y ∈ untok [t] → y ∈ uri := by
    intro y hy
    have : y ∈ untok (tokenize uri) := by
      unfold untok at hy ⊢
      simp only [List.flatMap_cons, List.flatMap_nil, List.append_nil] at hy
      exact List.mem_flatMap.mpr ⟨t, ht, hy⟩
    rw [untok_tokenize] at this; exact this
  cases t with
  | lit c =>
    simp only [List.mem_singleton] at hxt
    subst hxt
    exact hu _ (hsub _ (by simp [untok]))
  | ph n =>
    simp only [phValue] at hxt
    have hname : ∀ y ∈ (58 :: n), y ∈ uri := fun y hy => hsub y (by simpa [untok] using hy)
    have used : ∀ v, (match mapGet reqP n with | some v => some v | none => mapGet clientP n) = some v →
        ∀ y ∈ v, y ≠ 35 ∧ y ≠ 63 := by
      intro v hvv y hy
      have hmem : v ∈ usedValues uri reqP clientP := by
        unfold usedValues
        exact List.mem_filterMap.mpr ⟨Tok.ph n, ht, hvv⟩
      have hs := List.any_eq_false.mp hv v hmem
      simp only [Bool.not_eq_true, Bool.not_eq_false'] at hs
      simp only [pathValueSafe, Bool.and_eq_true] at hs
      have := unreserved_ne y (List.all_eq_true.mp hs.1.1 y hy)
      exact ⟨this.1, this.2.1⟩
    cases h1 : mapGet reqP n with
    | some v => rw [h1] at hxt; exact used v (by rw [h1]) x hxt
    | none =>
      rw [h1] at hxt
      cases h2 : mapGet clientP n with
      | some v => rw [h2] at hxt; exact used v (by rw [h1]; exact h2) x hxt
      | none => rw [h2] at hxt; exact hu _ (hname x hxt)

theorem hostPath_eq_spec (u : Bytes) (h : ∀ x ∈ u, x ≠ 35 ∧ x ≠ 63) : hostPath u = specHostPath u := by
  unfold hostPath specHostPath
  simp only
  generalize hr : (if hasPrefix u (b "https://") = true then u.drop 8 else u.drop 7) = rest
  have hrest : ∀ x ∈ rest, x ≠ 35 ∧ x ≠ 63 := by
    intro x hx
    apply h
    rw [← hr] at hx
    split at hx <;> exact List.mem_of_mem_drop hx
  rw [split2_clean rest 35 (fun x hx => (hrest x hx).1), split2_clean rest 63 (fun x hx => (hrest x hx).2)]
  cases indexByte rest 47 <;> rfl


/-- the absolute URL template of a configuration (base URL joined, the query split off) -/
def uri0Of (c : Config) : Bytes :=
  if hasProtocol (split2 c.url 63).1 then (split2 c.url 63).1 else c.baseURL ++ (split2 c.url 63).1

/-- the arguments written in the URL itself -/
def urlArgsOf (c : Config) : List KV :=
  (parseArgsNV (split2 (split2 c.url 63).2 35).1).map fun a => (a.key, a.value)

/-- the configurations the assembly theorem speaks about -/
structure AsmDomain (c : Config) : Prop where
  maps : MapsOK c
  clean : ∀ x ∈ uri0Of c, x ≠ 35 ∧ x ≠ 63
  tmpl : templateOK (uri0Of c) (c.request.pathParams.map (·.1) ++ c.client.pathParams.map (·.1)) = true
  safe : unsafePathValue (uri0Of c) c.request.pathParams c.client.pathParams = false
  query : BytesOK (split2 (split2 c.url 63).2 35).1
  cParams : ∀ kv ∈ c.client.params, KVOK kv
  rParams : ∀ kv ∈ c.request.params, KVOK kv
  form : ∀ fs, (effectiveBody c.body = .form fs) → ∀ kv ∈ fs, KVOK kv

theorem map_kv_argOf (l : List KV) : (l.map argOf).map (fun a => (a.key, a.value)) = l := by
  induction l with
  | nil => rfl
  | cons x xs ih => simp [argOf, ih]

theorem cookiesArrive_merge (c : Config) (hm : MapsOK c) :
    cookiesArrive c (mergeCookies c.jar c.client.cookies c.request.cookies) = true := by
  have hmg := mapGet_mergeCookies c.jar c.client.cookies c.request.cookies hm.jar hm.cCookies hm.rCookies
  have hsome : ∀ (m : List KV) (kv : KV), kv ∈ m → (mapGet m kv.1).isSome = true := by
    intro m kv hmem
    cases hg : mapGet m kv.1 with
    | some v => rfl
    | none => exact absurd (List.mem_map.mpr ⟨kv, hmem, rfl⟩) ((mapGet_eq_none_iff m kv.1).mp hg)
  unfold cookiesArrive
  simp only [Bool.and_eq_true, List.all_eq_true, decide_eq_true_eq]
  refine ⟨⟨?_, ?_⟩, mergeCookies_nodup _ _ _⟩
  · intro k _
    rw [hmg k]
    generalize mapGet c.request.cookies k = r
    generalize mapGet c.client.cookies k = cl
    generalize mapGet c.jar k = j
    cases r <;> cases cl <;> cases j <;> simp
  · intro kv hkv
    rw [hmg kv.1]
    simp only [List.mem_append] at hkv
    have h3 : (mapGet c.request.cookies kv.1).isSome = true ∨ (mapGet c.client.cookies kv.1).isSome = true ∨
        (mapGet c.jar kv.1).isSome = true := by
      rcases hkv with (h1 | h1) | h1
      · exact Or.inl (hsome _ _ h1)
      · exact Or.inr (Or.inl (hsome _ _ h1))
      · exact Or.inr (Or.inr (hsome _ _ h1))
    revert h3
    generalize mapGet c.request.cookies kv.1 = r
    generalize mapGet c.client.cookies kv.1 = cl
    generalize mapGet c.jar kv.1 = j
    cases r <;> cases cl <;> cases j <;> simp

/-- the assembled request as an explicit record -/
theorem assemble_some (c : Config) (a : Assembled) (h : assemble c = some a) :
    a = { method := c.method,
          host := (hostPath (substParams (uri0Of c) c.request.pathParams c.client.pathParams)).1,
          path := (hostPath (substParams (uri0Of c) c.request.pathParams c.client.pathParams)).2,
          rawQuery := renderArgsNV (parseArgsNV (split2 (split2 c.url 63).2 35).1 ++ c.client.params.map argOf ++
                                    c.request.params.map argOf),
          headers := c.client.headers ++ c.request.headers,
          userAgent := if c.request.userAgent ≠ [] then c.request.userAgent
                       else if c.client.userAgent ≠ [] then c.client.userAgent else defaultUserAgent,
          referer := if c.request.referer ≠ [] then c.request.referer else c.client.referer,
          cookies := mergeCookies c.jar c.client.cookies c.request.cookies,
          contentType := contentTypeOf (effectiveBody c.body),
          body := effectiveBody c.body,
          timeout := if c.request.timeout > 0 then c.request.timeout else c.client.timeout } := by
  unfold assemble at h
  simp only at h
  cases hp : !hasProtocol (if hasProtocol (split2 c.url 63).1 = true then (split2 c.url 63).1
                            else c.baseURL ++ (split2 c.url 63).1)
  · simp only [hp, Bool.false_eq_true, if_false, Option.some.injEq] at h
    exact h.symm
  · simp [hp] at h

theorem assemble_meets_spec_partial (c : Config) (a : Assembled) (h : assemble c = some a) (hd : AsmDomain c) :
    specAsm c (uri0Of c) (urlArgsOf c) (arrived a) = none := by
  have hsub := substParams_eq_expected (uri0Of c) c.request.pathParams c.client.pathParams hd.maps.rPath hd.maps.cPath
    hd.tmpl hd.safe
  have hcl := expectedURI_clean (uri0Of c) c.request.pathParams c.client.pathParams hd.clean hd.safe
  have hhp := hostPath_eq_spec _ hcl
  have hcut : (split2 (uri0Of c) 35).1 = uri0Of c := split2_clean _ 35 (fun x hx => (hd.clean x hx).1)
  have hargs : ∀ x ∈ parseArgsNV (split2 (split2 c.url 63).2 35).1 ++ c.client.params.map argOf ++ c.request.params.map argOf,
      ArgOK x := by
    intro x hx
    simp only [List.mem_append, List.mem_map] at hx
    rcases hx with (hx | ⟨kv, hkv, rfl⟩) | ⟨kv, hkv, rfl⟩
    · exact parsed_argOK _ hd.query x hx
    · exact argOf_OK kv (hd.cParams kv hkv)
    · exact argOf_OK kv (hd.rParams kv hkv)
  have hq := parseArgsNV_renderArgsNV _ hargs
  rw [assemble_some c a h]
  have hrest : specAsmRest c (urlArgsOf c) (arrived
      { method := c.method,
        host := (hostPath (substParams (uri0Of c) c.request.pathParams c.client.pathParams)).1,
        path := (hostPath (substParams (uri0Of c) c.request.pathParams c.client.pathParams)).2,
        rawQuery := renderArgsNV (parseArgsNV (split2 (split2 c.url 63).2 35).1 ++ c.client.params.map argOf ++
                                  c.request.params.map argOf),
        headers := c.client.headers ++ c.request.headers,
        userAgent := if c.request.userAgent ≠ [] then c.request.userAgent
                     else if c.client.userAgent ≠ [] then c.client.userAgent else defaultUserAgent,
        referer := if c.request.referer ≠ [] then c.request.referer else c.client.referer,
        cookies := mergeCookies c.jar c.client.cookies c.request.cookies,
        contentType := contentTypeOf (effectiveBody c.body),
        body := effectiveBody c.body,
        timeout := if c.request.timeout > 0 then c.request.timeout else c.client.timeout }) = none := by
    unfold specAsmRest arrived
    simp only [hq, List.map_append, map_kv_argOf, urlArgsOf, ne_eq, not_true_eq_false, if_false, sameValuesPerKey_refl,
      Bool.not_true, Bool.false_eq_true, cookiesArrive_merge c hd.maps]
    unfold bodyArrives
    simp only
    cases hb : effectiveBody c.body with
    | none => rfl
    | raw bs => simp
    | form fs =>
      have hfs : ∀ x ∈ fs.map argOf, ArgOK x := by
        intro x hx
        obtain ⟨kv, hkv, rfl⟩ := List.mem_map.mp hx
        exact argOf_OK kv (hd.form fs hb kv hkv)
      simp only [contentTypeOf, ne_eq, not_true_eq_false, if_false, parseArgsNV_renderArgsNV _ hfs, map_kv_argOf,
        sameValuesPerKey_refl, Bool.not_true, Bool.false_eq_true]
    | files fs fl =>
      simp only [contentTypeOf, ne_eq, not_true_eq_false, if_false, sameValuesPerKey_refl, Bool.not_true,
        Bool.false_eq_true]
  unfold specAsm
  rw [hrest]
  simp only [specAsmURL, arrived, hcut, hsub, hhp, ne_eq, not_true_eq_false, if_false]

end C18
