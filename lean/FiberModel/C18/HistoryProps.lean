import FiberModel.C18.History
/-
C18 (a'') — theorems about request histories through one client.
-/
namespace C18
open B

/-- **Assembly does not write client-level configuration** (the hypothesis under which a request may be judged on its
    own): after any history of requests the client's configuration is the one it was given.
    The tie to /repo is the observation `ccfg=` of every assembly case (the client's path parameters, headers, query
    parameters, cookies and base URL read back after the history) and clause
    `requests-leave-the-client-configuration-alone` of the oracle. -/
theorem assembly_does_not_write_client_configuration (baseURL : Bytes) (jar : List KV) (cl : Level) (rs : List HReq) :
    (runHistoryH baseURL jar cl rs).2 = cl := by
  induction rs with
  | nil => rfl
  | cons r rs ih => simpa [runHistoryH, runHistoryWith, sendOne] using ih

/-- **Every request of a history is a function of the client's configuration and its own only**: what request i sends
    is `assemble` of (the configured client, request i) — whatever the earlier requests of the history set at request
    level (path parameters, query parameters, headers, cookies, user agent, referer, timeout, body). Hence
    `assembly_precedence`, `assembly_deterministic`, `assembly_meets_spec_partial` apply to each request of a history. -/
theorem history_request_judged_alone (baseURL : Bytes) (jar : List KV) (cl : Level) (rs : List HReq) :
    (runHistoryH baseURL jar cl rs).1 = rs.map fun r => assemble (r.config baseURL jar cl) := by
  induction rs with
  | nil => rfl
  | cons r rs ih => simpa [runHistoryH, runHistoryWith, sendOne] using ih

/-- earlier requests do not matter: two histories that end in the same request send the same last request -/
theorem history_last_request_independent_of_earlier (baseURL : Bytes) (jar : List KV) (cl : Level) (pre pre' : List HReq)
    (r : HReq) :
    (runHistoryH baseURL jar cl (pre ++ [r])).1.getLast? = (runHistoryH baseURL jar cl (pre' ++ [r])).1.getLast? := by
  simp [history_request_judged_alone]

def lvl0 : Level := { headers := [], params := [], cookies := [], pathParams := [], userAgent := [], referer := [], timeout := 0 }

/-- the lead's example: client-level name=alice; request 1 sets name=bob, section=profile; request 2 sets nothing -/
def aliceClient : Level := { lvl0 with pathParams := [(b "name", b "alice")] }
def reqBob : HReq := { url := b "/:name/:section", method := b "GET", body := .none,
                       level := { lvl0 with pathParams := [(b "name", b "bob"), (b "section", b "profile")] } }
def reqPlain : HReq := { url := b "/:name/:section", method := b "GET", body := .none, level := lvl0 }

/-- non-vacuity: on the model of the code, request 2 is built from the client's `alice` and the placeholder it has no
    value for stays; the client still holds exactly name=alice -/
example : ((runHistoryH (b "http://a.com") [] aliceClient [reqBob, reqPlain]).1.map fun o => o.map (·.path)) =
            [some (b "/bob/profile"), some (b "/alice/:section")] ∧
          (runHistoryH (b "http://a.com") [] aliceClient [reqBob, reqPlain]).2 = aliceClient := by decide

/-- witness: with the merge written into the client's own map, request 2 is sent to request 1's `/bob/profile` and the
    client's configuration has changed — both theorems above fail for that step function -/
theorem aliased_merge_leaks_into_later_requests :
    ((runHistoryWith (sendOneAliased (b "http://a.com") []) aliceClient [reqBob, reqPlain]).1.map fun o => o.map (·.path)) =
      [some (b "/bob/profile"), some (b "/bob/profile")] ∧
    (runHistoryWith (sendOneAliased (b "http://a.com") []) aliceClient [reqBob, reqPlain]).2 ≠ aliceClient := by decide

end C18
