import FiberModel.Basic
/-
Line-protocol plumbing shared by all drivers.

Every case is ONE line of tab-separated fields written by the Go harness:
  case <TAB> <id> <TAB> field … <TAB> field
Byte strings are hex (`-` = empty). Lists of byte strings are comma-separated hex (`-` = empty list,
`.` = one empty string is written as `-`? no: list elements use `_` for the empty string).
The driver answers one line per case:
  <id> <TAB> M=EQ | M=DIFF:<model obs> <TAB> S=OK | S=FAIL:<clause> <TAB> K=- | K=<finding id> <TAB> T=<tags>
`T` carries comma-separated branch tags used for the generator-distribution report; a tag starting
with `nt` marks the case as non-trivial.
-/
namespace DriverUtil
open B

def fields (line : String) : List String :=
  -- strip only the trailing newline; fields may legitimately be empty
  let l := if line.endsWith "\n" then (line.dropEnd 1).toString else line
  l.splitOn "\t"

/-- comma-separated list of hex strings; `-` is the empty list, `_` an empty element -/
def hexList (s : String) : Option (List Bytes) :=
  if s == "-" then some []
  else (s.splitOn ",").mapM fun e => if e == "_" then some [] else fromHexAux e.toList

def hexListField (l : List Bytes) : String :=
  if l.isEmpty then "-" else ",".intercalate (l.map fun e => if e.isEmpty then "_" else toHex e)

structure Verdict where
  id : String
  modelObs : String          -- canonical model observation
  implObs : String           -- canonical impl observation (as sent by the harness)
  spec : Option String       -- none = OK, some clause = FAIL
  known : Option String := none
  tags : List String := []

def Verdict.render (v : Verdict) : String :=
  let m := if v.modelObs == v.implObs then "M=EQ" else s!"M=DIFF:{v.modelObs}"
  let s := match v.spec with | none => "S=OK" | some c => s!"S=FAIL:{c}"
  let k := match v.known with | none => "K=-" | some c => s!"K={c}"
  s!"{v.id}\t{m}\t{s}\t{k}\tT={",".intercalate v.tags}"

/-- Main loop: `handle` maps the fields of a `case` line to a verdict (or an error string). -/
partial def loop (h : IO.FS.Stream) (out : IO.FS.Stream)
    (handle : List String → Except String Verdict) : IO Unit := do
  let line ← h.getLine
  if line.isEmpty then return ()
  match fields line with
  | "case" :: rest =>
    match handle rest with
    | .ok v => out.putStrLn v.render
    | .error e => out.putStrLn s!"{rest.headD "?"}\tBAD:{e}"
  | _ => pure ()        -- comments / dist lines are ignored
  loop h out handle

def run (handle : List String → Except String Verdict) : IO Unit := do
  let i ← IO.getStdin
  let o ← IO.getStdout
  loop i o handle
  o.flush

end DriverUtil
