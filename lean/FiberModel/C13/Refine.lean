import FiberModel.C13.Lemmas
/-
C13 — the model runs in lock-step with the abstract window counters of `Spec` (ghost state); the
relation between a stored item and the abstract window, and the sequential core of the refinement:
`upd` (what the handler does to the item) against `Spec.hit`, `unhitItem` against `Spec.unhit`.
-/
namespace C13
open Conc Spec

/-! ### product of the model with the specification's counters -/

structure PS where
  g : G
  s : Spec.State                     -- ghost: the abstract counters
  dec : Tid → Option Spec.Expect     -- ghost: what the specification decided for each request

/-- ghost update: a request is counted the moment the handler reads the clock inside its first
critical section (`atTs`), and taken back when the skip branch decides (`atTs2`) -/
def ghost (cfg : Cfg) (p : PS) : Act → Spec.State × (Tid → Option Spec.Expect)
  | .thr t =>
    let th := p.g.threads t
    match th.pc with
    | .atTs =>
      let w := Spec.hit cfg (p.s th.req.key) p.g.now t
      (p.s.set th.req.key w,
       fun t' => if t' = t then some { allow := admits cfg w p.g.now th.req.max, retry := retryAfter w p.g.now,
                                       limit := th.req.max, load := load cfg w p.g.now } else p.dec t')
    | .atTs2 =>
      match p.s th.req.key with
      | some w => (p.s.set th.req.key (Spec.unhit w t), p.dec)
      | none => (p.s, p.dec)
    | _ => (p.s, p.dec)
  | _ => (p.s, p.dec)

def pstep (cfg : Cfg) (p : PS) (a : Act) : Option PS :=
  match step cfg p.g a with
  | some g' => some ⟨g', (ghost cfg p a).1, (ghost cfg p a).2⟩
  | none => none

def psys (cfg : Cfg) : System PS Act := ⟨pstep cfg⟩

def pinit (reqs : Tid → Req) (t0 : Nat) : PS := ⟨init reqs t0, fun _ => none, fun _ => none⟩

/-- the ghost state does not influence the model: projecting a run of the product gives the run of
the model -/
theorem psys_run_g (cfg : Cfg) (p : PS) (as : List Act) :
    ((psys cfg).run p as).g = (sys cfg).run p.g as := by
  induction as generalizing p with
  | nil => rfl
  | cons a as ih =>
    simp only [run_cons]
    rw [ih]
    congr 1
    simp only [System.next, psys, sys, pstep]
    cases step cfg p.g a <;> rfl

/-! ### relation between a stored item and an abstract window -/

/-- how long after its end a window still matters: the sliding limiter weighs it for one more window -/
def gap (cfg : Cfg) : Nat := if cfg.sliding then cfg.expiration else 0

/-- the abstract counter of a key is of no consequence any more at `now` -/
def SDead (cfg : Cfg) (sk : Option Win) (now : Nat) : Prop := ∀ w, sk = some w → w.wend + gap cfg ≤ now

/-- item and abstract window describe the same window -/
def Live (cfg : Cfg) (it : Item) (w : Win) (now : Nat) : Prop :=
  w.wend = it.exp ∧ it.curr = w.cur.length ∧ (now < it.exp → cfg.sliding = true → it.prev = w.prev.length)

def RItem (cfg : Cfg) (it : Item) (sk : Option Win) (now : Nat) : Prop :=
  (it.exp = 0 → it = Item.zero ∧ SDead cfg sk now) ∧
  (it.exp ≠ 0 → it.exp ≤ now + cfg.expiration ∧
    (now < it.exp + gap cfg → ∃ w, sk = some w ∧ Live cfg it w now) ∧
    (it.exp + gap cfg ≤ now → SDead cfg sk now))

/-- backend entry: kept at least until the window stops mattering -/
def RStore (cfg : Cfg) (v : Option (Item × Nat)) (sk : Option Win) (now : Nat) : Prop :=
  match v with
  | none => SDead cfg sk now
  | some (it, sexp) => it.exp ≠ 0 ∧ it.exp + gap cfg ≤ sexp ∧ RItem cfg it sk now

theorem sdead_mono {cfg : Cfg} {sk : Option Win} {now now' : Nat} (h : SDead cfg sk now) (hn : now ≤ now') :
    SDead cfg sk now' := fun w hw => Nat.le_trans (h w hw) hn

theorem sdead_none (cfg : Cfg) (now : Nat) : SDead cfg none now := fun _ h => by cases h

theorem ritem_zero {cfg : Cfg} {sk : Option Win} {now : Nat} (h : SDead cfg sk now) : RItem cfg Item.zero sk now :=
  ⟨fun _ => ⟨rfl, h⟩, fun h => absurd rfl h⟩

theorem ritem_mono {cfg : Cfg} {it : Item} {sk : Option Win} {now now' : Nat}
    (h : RItem cfg it sk now) (hn : now ≤ now') : RItem cfg it sk now' := by
  refine ⟨fun h0 => ⟨(h.1 h0).1, sdead_mono (h.1 h0).2 hn⟩, fun h0 => ?_⟩
  obtain ⟨hb, hl, hd⟩ := h.2 h0
  refine ⟨by omega, fun hlt => ?_, fun hge => ?_⟩
  · obtain ⟨w, hw, hwe, hc, hp⟩ := hl (by omega)
    exact ⟨w, hw, hwe, hc, fun h1 h2 => hp (by omega) h2⟩
  · by_cases hlt : now < it.exp + gap cfg
    · obtain ⟨w, hw, hwe, _, _⟩ := hl hlt
      intro w' hw'
      rw [hw] at hw'; cases hw'
      omega
    · exact sdead_mono (hd (by omega)) hn

theorem rstore_mono {cfg : Cfg} {v : Option (Item × Nat)} {sk : Option Win} {now now' : Nat}
    (h : RStore cfg v sk now) (hn : now ≤ now') : RStore cfg v sk now' := by
  unfold RStore at *
  split at h
  · exact sdead_mono h hn
  · exact ⟨h.1, h.2.1, ritem_mono h.2.2 hn⟩

/-- a dead item (or an expired backend entry) means the abstract counter is dead -/
theorem sdead_of_ritem_expired {cfg : Cfg} {it : Item} {sk : Option Win} {now : Nat}
    (h : RItem cfg it sk now) (he : it.exp + gap cfg ≤ now) : SDead cfg sk now := by
  by_cases h0 : it.exp = 0
  · exact (h.1 h0).2
  · exact (h.2 h0).2.2 he

/-- manager.get returns an item related to the abstract counter -/
theorem ritem_lookup {cfg : Cfg} {g : G} {k : Key} {sk : Option Win}
    (h : RStore cfg (g.store k) sk g.now) : RItem cfg (lookup cfg g k) sk g.now := by
  unfold lookup
  unfold RStore at h
  split at h
  · rename_i heq; simp [heq]; exact ritem_zero h
  · rename_i it sexp heq
    simp only [heq]
    split
    · rename_i hc
      simp [expired] at hc
      exact ritem_zero (sdead_of_ritem_expired h.2.2 (by omega))
    · exact h.2.2

/-- backend garbage collection keeps the relation -/
theorem rstore_gc {cfg : Cfg} {g : G} {k : Key} {sk : Option Win}
    (h : RStore cfg (g.store k) sk g.now) : RStore cfg ((gcStore g).store k) sk g.now := by
  unfold gcStore
  simp only
  unfold RStore at h
  split at h
  · rename_i heq; simp [heq, RStore]; exact h
  · rename_i it sexp heq
    simp only [heq]
    split
    · rename_i hc
      simp [expired] at hc
      exact sdead_of_ritem_expired h.2.2 (by omega)
    · exact h

/-! ### the sequential core: `upd` against `Spec.hit` -/

theorem hit_some_wend_le (cfg : Cfg) (w0 : Win) (ts : Nat) (t : Tid) :
    w0.wend ≤ (hit cfg (some w0) ts t).wend := by
  unfold hit hitSliding hitFixed
  split <;> simp only <;> split <;> (try split) <;> simp <;> omega

/-- What the handler does to the item between `manager.get` and `manager.set` is what the
specification does to the abstract window. -/
theorem upd_refines (cfg : Cfg) (hE : 1 ≤ cfg.expiration) {e : Item} {sk : Option Win} {now : Nat} (t : Tid)
    (h : RItem cfg e sk now) :
    let e' := upd cfg e now
    let w := hit cfg sk now t
    now < e'.exp ∧ e'.exp ≤ now + cfg.expiration ∧ w.wend = e'.exp ∧ e'.curr = w.cur.length ∧
      (cfg.sliding = true → e'.prev = w.prev.length) := by
  intro e' w
  by_cases h0 : e.exp = 0
  · -- fresh item: the abstract counter is dead, both sides start a new window
    obtain ⟨hz, hd⟩ := h.1 h0
    subst hz
    have hw : w = ⟨now + cfg.expiration, [t], []⟩ := by
      show hit cfg sk now t = _
      cases hsk : sk with
      | none => unfold hit hitSliding hitFixed; split <;> rfl
      | some w0 =>
        have := hd w0 hsk
        unfold hit hitSliding hitFixed gap at *
        split <;> simp_all <;> (repeat' split) <;> first | rfl | omega
    have he : e' = ⟨1, 0, now + cfg.expiration⟩ := by
      show upd cfg Item.zero now = _
      unfold upd updSliding updFixed Item.zero
      split <;> simp
    rw [hw, he]; simp; omega
  · obtain ⟨hb, hl, hd⟩ := h.2 h0
    by_cases hlive : now < e.exp
    · -- inside the current window: count one more
      obtain ⟨w0, hsk, hwe, hc, hp⟩ := hl (by omega)
      have hw : w = { w0 with cur := t :: w0.cur } := by
        show hit cfg sk now t = _
        subst hsk
        unfold hit hitSliding hitFixed
        split <;> simp [hwe, hlive]
      have he : e' = { e with curr := e.curr + 1 } := by
        show upd cfg e now = _
        unfold upd updSliding updFixed
        have : ¬ now ≥ e.exp := by omega
        split <;> simp [h0, this]
      rw [hw, he]
      refine ⟨hlive, hb, hwe, ?_, fun hs => hp hlive hs⟩
      simp [hc]
    · by_cases hs : cfg.sliding = true
      · by_cases hroll : now < e.exp + cfg.expiration
        · -- sliding: the next window, the current one becomes the previous one
          obtain ⟨w0, hsk, hwe, hc, _⟩ := hl (by simp [gap, hs]; omega)
          have hw : w = ⟨w0.wend + cfg.expiration, [t], w0.cur⟩ := by
            show hit cfg sk now t = _
            subst hsk
            unfold hit hitSliding
            have h1 : ¬ now < w0.wend := by omega
            have h2 : now < w0.wend + cfg.expiration := by omega
            simp [hs, h1, h2]
          have he : e' = ⟨1, e.curr, e.exp + cfg.expiration⟩ := by
            show upd cfg e now = _
            unfold upd updSliding
            have h1 : now ≥ e.exp := by omega
            have h2 : ¬ (now - e.exp ≥ cfg.expiration) := by omega
            simp [hs, h0, h1, h2]
            omega
          rw [hw, he]; simp [hwe, hc]; omega
        · -- sliding: a whole window without requests, everything is forgotten
          have hdd := hd (by simp [gap, hs]; omega)
          have hw : w = ⟨now + cfg.expiration, [t], []⟩ := by
            show hit cfg sk now t = _
            cases hsk : sk with
            | none => unfold hit hitSliding; simp [hs]
            | some w0 =>
              have := hdd w0 hsk
              simp [gap, hs] at this
              unfold hit hitSliding
              have h1 : ¬ now < w0.wend := by omega
              have h2 : ¬ now < w0.wend + cfg.expiration := by omega
              simp [hs, h1, h2]
          have he : e' = ⟨1, 0, now + cfg.expiration⟩ := by
            show upd cfg e now = _
            unfold upd updSliding
            have h1 : now ≥ e.exp := by omega
            have h2 : now - e.exp ≥ cfg.expiration := by omega
            simp [hs, h0, h1, h2]
          rw [hw, he]; simp; omega
      · -- fixed: the window has ended, start a new one
        have hs' : cfg.sliding = false := by simpa using hs
        have hdd := hd (by simp [gap, hs']; omega)
        have hw : w = ⟨now + cfg.expiration, [t], []⟩ := by
          show hit cfg sk now t = _
          cases hsk : sk with
          | none => unfold hit hitFixed; simp [hs']
          | some w0 =>
            have := hdd w0 hsk
            simp [gap, hs'] at this
            unfold hit hitFixed
            have h1 : ¬ now < w0.wend := by omega
            simp [hs', h1]
        have he : e' = ⟨1, e.prev, now + cfg.expiration⟩ := by
          show upd cfg e now = _
          unfold upd updFixed
          have h1 : now ≥ e.exp := by omega
          simp [hs', h0, h1]
        rw [hw, he]; simp [hs']; omega

/-! ### the sequential core: `unhitItem` against `Spec.unhit` -/

/-- what the abstract window knows about request `t`, counted in the window ending at `wexp` -/
def MemOK (cfg : Cfg) (sk : Option Win) (t : Tid) (wexp : Nat) : Prop :=
  ∀ w, sk = some w → w.cur.Nodup ∧ w.prev.Nodup ∧ (t ∈ w.cur ↔ wexp = w.wend) ∧
    (t ∈ w.prev ↔ (cfg.sliding = true ∧ wexp + cfg.expiration = w.wend))

/-- the abstract counter after taking `t` back -/
def unhitOpt (sk : Option Win) (t : Tid) : Option Win := sk.map (fun w => unhit w t)

@[simp] theorem unhit_wend (w : Win) (t : Tid) : (unhit w t).wend = w.wend := by
  unfold unhit; split <;> rfl

theorem sdead_unhit {cfg : Cfg} {sk : Option Win} {now : Nat} (t : Tid) (h : SDead cfg sk now) :
    SDead cfg (unhitOpt sk t) now := by
  intro w hw
  cases sk with
  | none => simp [unhitOpt] at hw
  | some w0 =>
    simp [unhitOpt] at hw
    subst hw
    simpa using h w0 rfl

theorem unhit_not_mem {w : Win} {t : Tid} (h1 : t ∉ w.cur) (h2 : t ∉ w.prev) : unhit w t = w := by
  unfold unhit
  simp [h1, List.erase_of_not_mem h2]

theorem unhit_cur_only {w : Win} {t : Tid} (h1 : t ∉ w.cur) : (unhit w t).cur = w.cur := by
  unfold unhit
  simp [h1]

theorem length_erase_int {l : List Tid} {t : Tid} (h : t ∈ l) : ((l.erase t).length : Int) = (l.length : Int) - 1 := by
  have h1 := List.length_erase_of_mem h
  have h2 := List.length_pos_of_mem h
  omega

theorem unhitItem_fixed {cfg : Cfg} (hs : cfg.sliding = false) (e : Item) (wexp ts : Nat) :
    unhitItem cfg e wexp ts =
      if e.exp = wexp then some ({ e with curr := e.curr - 1 }, cfg.expiration) else none := by
  simp [unhitItem, hs]

theorem unhitItem_sliding {cfg : Cfg} (hs : cfg.sliding = true) (e : Item) (wexp ts : Nat) :
    unhitItem cfg e wexp ts =
      if ts < e.exp + cfg.expiration then
        if e.exp = wexp then some ({ e with curr := e.curr - 1 }, e.exp + cfg.expiration - ts)
        else if e.exp = wexp + cfg.expiration then some ({ e with prev := e.prev - 1 }, e.exp + cfg.expiration - ts)
        else none
      else none := by
  simp [unhitItem, hs]

theorem unhit_cur_of_mem {w : Win} {t : Tid} (h : t ∈ w.cur) :
    (unhit w t).cur = w.cur.erase t ∧ (unhit w t).prev = w.prev := by
  unfold unhit; simp [h]

theorem unhit_prev_of_not_mem {w : Win} {t : Tid} (h : t ∉ w.cur) :
    (unhit w t).cur = w.cur ∧ (unhit w t).prev = w.prev.erase t := by
  unfold unhit; simp [h]

/-- The skip branch writes back an item that describes the abstract window after `Spec.unhit`. -/
theorem unhit_some_refines (cfg : Cfg) (hE : 1 ≤ cfg.expiration) {e e' : Item} {sk : Option Win} {now wexp ttl : Nat}
    {t : Tid} (h : RItem cfg e sk now) (hw0 : wexp ≠ 0) (hm : MemOK cfg sk t wexp)
    (hu : unhitItem cfg e wexp now = some (e', ttl)) :
    e'.exp ≠ 0 ∧ e'.exp + gap cfg ≤ now + ttl ∧ RItem cfg e' (unhitOpt sk t) now := by
  -- which branch was taken
  have hbr : (e.exp = wexp ∧ e' = { e with curr := e.curr - 1 } ∧
                ((cfg.sliding = false ∧ ttl = cfg.expiration) ∨
                 (cfg.sliding = true ∧ now < e.exp + cfg.expiration ∧ ttl = e.exp + cfg.expiration - now))) ∨
             (cfg.sliding = true ∧ e.exp = wexp + cfg.expiration ∧ e' = { e with prev := e.prev - 1 } ∧
                now < e.exp + cfg.expiration ∧ ttl = e.exp + cfg.expiration - now) := by
    by_cases hs : cfg.sliding = true
    · rw [unhitItem_sliding hs] at hu
      split at hu
      · split at hu
        · simp at hu; obtain ⟨rfl, rfl⟩ := hu
          exact .inl ⟨‹_›, rfl, .inr ⟨hs, ‹_›, rfl⟩⟩
        · split at hu
          · simp at hu; obtain ⟨rfl, rfl⟩ := hu
            exact .inr ⟨hs, ‹_›, rfl, ‹_›, rfl⟩
          · simp at hu
      · simp at hu
    · have hs' : cfg.sliding = false := by simpa using hs
      rw [unhitItem_fixed hs'] at hu
      split at hu
      · simp at hu; obtain ⟨rfl, rfl⟩ := hu
        exact .inl ⟨‹_›, rfl, .inl ⟨hs', rfl⟩⟩
      · simp at hu
  have he0 : e.exp ≠ 0 := by
    rcases hbr with ⟨h1, _⟩ | ⟨_, h1, _⟩ <;> omega
  obtain ⟨hb, hl, hd⟩ := h.2 he0
  have he1 : e'.exp = e.exp := by
    rcases hbr with ⟨_, h1, _⟩ | ⟨_, _, h1, _⟩ <;> rw [h1]
  have httl : e'.exp + gap cfg ≤ now + ttl := by
    rw [he1]
    rcases hbr with ⟨_, _, ⟨hs, h2⟩ | ⟨hs, h2, h3⟩⟩ | ⟨hs, _, _, h2, h3⟩ <;> simp [gap, hs] <;> omega
  refine ⟨by omega, httl, fun hz => absurd (he1 ▸ hz) he0, fun _ => ⟨by omega, fun hlt => ?_, fun hge => ?_⟩⟩
  · -- live: the abstract window exists and has e's end
    rw [he1] at hlt
    obtain ⟨w0, hsk, hwe, hc, hp⟩ := hl hlt
    obtain ⟨hn1, hn2, hmc, hmp⟩ := hm w0 hsk
    refine ⟨unhit w0 t, by simp [unhitOpt, hsk], ?_⟩
    rcases hbr with ⟨h1, h2, _⟩ | ⟨hs, h1, h2, _⟩
    · -- counted in the current window
      have hin : t ∈ w0.cur := hmc.2 (by omega)
      obtain ⟨hc1, hc2⟩ := unhit_cur_of_mem hin
      subst h2
      refine ⟨by simp [hwe], ?_, ?_⟩
      · show e.curr - 1 = _
        rw [hc1, length_erase_int hin, hc]
      · intro h3 h4
        show e.prev = _
        rw [hc2]; exact hp h3 h4
    · -- counted in the previous window
      have hin : t ∈ w0.prev := hmp.2 ⟨hs, by omega⟩
      have hnc : t ∉ w0.cur := fun hc' => by have := hmc.1 hc'; omega
      obtain ⟨hc1, hc2⟩ := unhit_prev_of_not_mem hnc
      subst h2
      refine ⟨by simp [hwe], ?_, ?_⟩
      · show e.curr = _
        rw [hc1, hc]
      · intro h3 h4
        show e.prev - 1 = _
        rw [hc2, length_erase_int hin, hp h3 h4]
  · rw [he1] at hge
    exact sdead_unhit t (hd hge)

/-- When the skip branch finds nothing to take back, the abstract window (restricted to what still
matters) does not change either. -/
theorem unhit_none_refines (cfg : Cfg) (hE : 1 ≤ cfg.expiration) {e : Item} {v : Option (Item × Nat)} {sk : Option Win}
    {now wexp : Nat} {t : Tid} (h : RItem cfg e sk now) (hv : RStore cfg v sk now) (hw0 : wexp ≠ 0)
    (hm : MemOK cfg sk t wexp) (hu : unhitItem cfg e wexp now = none) :
    RStore cfg v (unhitOpt sk t) now := by
  unfold RStore at *
  split at hv
  · exact sdead_unhit t hv
  · rename_i it sexp
    obtain ⟨hi0, hsx, hri⟩ := hv
    refine ⟨hi0, hsx, fun hz => absurd hz hi0, fun _ => ?_⟩
    obtain ⟨hb, hl, hd⟩ := hri.2 hi0
    refine ⟨hb, fun hlt => ?_, fun hge => sdead_unhit t (hd hge)⟩
    obtain ⟨w0, hsk, hwe, hc, hp⟩ := hl hlt
    obtain ⟨hn1, hn2, hmc, hmp⟩ := hm w0 hsk
    -- e describes the same live window
    have hnd : ¬ SDead cfg sk now := fun hdd => by have := hdd w0 hsk; omega
    have he0 : e.exp ≠ 0 := fun hz => hnd (h.1 hz).2
    obtain ⟨_, hel, hed⟩ := h.2 he0
    have hel' : now < e.exp + gap cfg := by
      by_cases hx : now < e.exp + gap cfg
      · exact hx
      · exact absurd (hed (by omega)) hnd
    obtain ⟨w1, hsk1, hwe1, _, _⟩ := hel hel'
    rw [hsk] at hsk1; cases hsk1
    have hee : e.exp = it.exp := by omega
    -- so `t` is in neither list that matters
    by_cases hs : cfg.sliding = true
    · rw [unhitItem_sliding hs] at hu
      have hlt' : now < e.exp + cfg.expiration := by simpa [gap, hs] using hel'
      simp only [hlt', if_true] at hu
      split at hu
      · simp at hu
      · split at hu
        · simp at hu
        · rename_i h1 h2
          have hnc : t ∉ w0.cur := fun hc' => by have := hmc.1 hc'; omega
          have hnp : t ∉ w0.prev := fun hp' => by have := (hmp.1 hp').2; omega
          exact ⟨w0, by simp [unhitOpt, hsk, unhit_not_mem hnc hnp], hwe, hc, hp⟩
    · have hs' : cfg.sliding = false := by simpa using hs
      rw [unhitItem_fixed hs'] at hu
      split at hu
      · simp at hu
      · rename_i h1
        have hnc : t ∉ w0.cur := fun hc' => by have := hmc.1 hc'; omega
        refine ⟨unhit w0 t, by simp [unhitOpt, hsk], by simp [hwe], ?_, ?_⟩
        · rw [(unhit_prev_of_not_mem hnc).1]; exact hc
        · intro _ h2; simp [hs'] at h2

end C13
