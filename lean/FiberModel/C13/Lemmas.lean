import FiberModel.C13.Spec
/-
C13 — helper lemmas: step characterisation, the mutual-exclusion invariant, the product of the
model with the abstract counters (ghost state) and the refinement invariant.
-/
namespace C13
open Conc

/-! ### basic facts about state updates -/

@[simp] theorem setThread_threads_same (g : G) (t : Tid) (th : Thread) : (g.setThread t th).threads t = th := by
  simp [G.setThread]

theorem setThread_threads (g : G) (t t' : Tid) (th : Thread) :
    (g.setThread t th).threads t' = if t' = t then th else g.threads t' := rfl

@[simp] theorem setThread_threads_ne (g : G) {t t' : Tid} (th : Thread) (h : t' ≠ t) :
    (g.setThread t th).threads t' = g.threads t' := by
  simp [G.setThread, h]

@[simp] theorem setThread_store (g : G) (t : Tid) (th : Thread) : (g.setThread t th).store = g.store := rfl
@[simp] theorem setThread_mux (g : G) (t : Tid) (th : Thread) : (g.setThread t th).mux = g.mux := rfl
@[simp] theorem setThread_now (g : G) (t : Tid) (th : Thread) : (g.setThread t th).now = g.now := rfl
@[simp] theorem setStore_threads (g : G) (k : Key) (v : Item × Nat) : (g.setStore k v).threads = g.threads := rfl
@[simp] theorem setStore_mux (g : G) (k : Key) (v : Item × Nat) : (g.setStore k v).mux = g.mux := rfl
@[simp] theorem setStore_now (g : G) (k : Key) (v : Item × Nat) : (g.setStore k v).now = g.now := rfl
@[simp] theorem setStore_store_same (g : G) (k : Key) (v : Item × Nat) : (g.setStore k v).store k = some v := by
  simp [G.setStore]
@[simp] theorem setStore_store_ne (g : G) {k k' : Key} (v : Item × Nat) (h : k' ≠ k) :
    (g.setStore k v).store k' = g.store k' := by
  simp [G.setStore, h]

/-! ### the step relation: one constructor per branch of `stepThr` -/

inductive Step (cfg : Cfg) (g : G) (t : Tid) : G → Prop
  | arriveBypass (hpc : (g.threads t).pc = .idle) (hb : (g.threads t).req.next = true ∨ (g.threads t).req.max = 0) :
      Step cfg g t (g.setThread t { g.threads t with pc := .atHandlerB })
  | arrive (hpc : (g.threads t).pc = .idle) (hb : ¬ ((g.threads t).req.next = true ∨ (g.threads t).req.max = 0)) :
      Step cfg g t (g.setThread t { g.threads t with pc := .wantLock })
  | lock (hpc : (g.threads t).pc = .wantLock) (hm : g.mux = none) :
      Step cfg g t ({ g with mux := some t }.setThread t { g.threads t with pc := .atGet })
  | get (hpc : (g.threads t).pc = .atGet) :
      Step cfg g t (g.setThread t { g.threads t with pc := .atTs, e := lookup cfg g (g.threads t).req.key })
  | ts (hpc : (g.threads t).pc = .atTs) :
      Step cfg g t (g.setThread t { g.threads t with
        pc := .atSet, e := upd cfg (g.threads t).e g.now,
        reset := (upd cfg (g.threads t).e g.now).exp - g.now,
        wexp := (upd cfg (g.threads t).e g.now).exp,
        remaining := (g.threads t).req.max - rate cfg (upd cfg (g.threads t).e g.now) g.now,
        ttl := ttl1 cfg ((upd cfg (g.threads t).e g.now).exp - g.now) })
  | set (hpc : (g.threads t).pc = .atSet) :
      Step cfg g t ((g.setStore (g.threads t).req.key ((g.threads t).e, g.now + (g.threads t).ttl)).setThread t
        { g.threads t with pc := .atUnlock })
  | unlock (hpc : (g.threads t).pc = .atUnlock) :
      Step cfg g t ({ g with mux := none }.setThread t
        { g.threads t with pc := if (g.threads t).remaining < 0 then .rejected else .atHandler })
  | handlerBypass (hpc : (g.threads t).pc = .atHandlerB) :
      Step cfg g t (g.setThread t { g.threads t with pc := .doneBypass, ran := true })
  | handlerSkip (hpc : (g.threads t).pc = .atHandler)
      (hk : skipCond cfg (g.threads t).req.status = true) :
      Step cfg g t (g.setThread t { g.threads t with pc := .wantLock2, ran := true })
  | handlerDone (hpc : (g.threads t).pc = .atHandler)
      (hk : skipCond cfg (g.threads t).req.status = false) :
      Step cfg g t (g.setThread t { g.threads t with pc := .doneOk, ran := true })
  | lock2 (hpc : (g.threads t).pc = .wantLock2) (hm : g.mux = none) :
      Step cfg g t ({ g with mux := some t }.setThread t { g.threads t with pc := .atGet2 })
  | get2 (hpc : (g.threads t).pc = .atGet2) :
      Step cfg g t (g.setThread t { g.threads t with pc := .atTs2, e := lookup cfg g (g.threads t).req.key })
  | ts2Some (hpc : (g.threads t).pc = .atTs2) (e' : Item) (ttl : Nat)
      (hu : unhitItem cfg (g.threads t).e (g.threads t).wexp g.now = some (e', ttl)) :
      Step cfg g t (g.setThread t { g.threads t with pc := .atSet2, e := e', ttl := ttl,
                                                      remaining := (g.threads t).remaining + 1 })
  | ts2None (hpc : (g.threads t).pc = .atTs2)
      (hu : unhitItem cfg (g.threads t).e (g.threads t).wexp g.now = none) :
      Step cfg g t (g.setThread t { g.threads t with pc := .atUnlock2 })
  | set2 (hpc : (g.threads t).pc = .atSet2) :
      Step cfg g t ((g.setStore (g.threads t).req.key ((g.threads t).e, g.now + (g.threads t).ttl)).setThread t
        { g.threads t with pc := .atUnlock2 })
  | unlock2 (hpc : (g.threads t).pc = .atUnlock2) :
      Step cfg g t ({ g with mux := none }.setThread t { g.threads t with pc := .doneOk })

theorem step_of_stepThr (cfg : Cfg) {g g' : G} {t : Tid} (h : stepThr cfg g t = some g') : Step cfg g t g' := by
  cases hpc : (g.threads t).pc <;> simp [stepThr, hpc] at h
  · split at h <;> simp at h <;> subst h
    · exact .arriveBypass hpc ‹_›
    · exact .arrive hpc ‹_›
  · split at h <;> simp at h
    subst h; exact .lock hpc ‹_›
  · subst h; exact .get hpc
  · subst h; exact .ts hpc
  · subst h; exact .set hpc
  · subst h; exact .unlock hpc
  · split at h <;> simp at h <;> subst h
    · exact .handlerSkip hpc ‹_›
    · exact .handlerDone hpc (by simp_all)
  · subst h; exact .handlerBypass hpc
  · split at h <;> simp at h
    subst h; exact .lock2 hpc ‹_›
  · subst h; exact .get2 hpc
  · split at h <;> simp at h <;> subst h
    · exact .ts2Some hpc _ _ ‹_›
    · exact .ts2None hpc ‹_›
  · subst h; exact .set2 hpc
  · subst h; exact .unlock2 hpc

/-! ### mutual exclusion -/

/-- the program counters between `mux.Lock()` and `mux.Unlock()` -/
def crit : Pc → Bool
  | .atGet | .atTs | .atSet | .atUnlock | .atGet2 | .atTs2 | .atSet2 | .atUnlock2 => true
  | _ => false

@[simp] theorem crit_idle : crit .idle = false := rfl
@[simp] theorem crit_wantLock : crit .wantLock = false := rfl
@[simp] theorem crit_atGet : crit .atGet = true := rfl
@[simp] theorem crit_atTs : crit .atTs = true := rfl
@[simp] theorem crit_atSet : crit .atSet = true := rfl
@[simp] theorem crit_atUnlock : crit .atUnlock = true := rfl
@[simp] theorem crit_atHandler : crit .atHandler = false := rfl
@[simp] theorem crit_atHandlerB : crit .atHandlerB = false := rfl
@[simp] theorem crit_wantLock2 : crit .wantLock2 = false := rfl
@[simp] theorem crit_atGet2 : crit .atGet2 = true := rfl
@[simp] theorem crit_atTs2 : crit .atTs2 = true := rfl
@[simp] theorem crit_atSet2 : crit .atSet2 = true := rfl
@[simp] theorem crit_atUnlock2 : crit .atUnlock2 = true := rfl
@[simp] theorem crit_rejected : crit .rejected = false := rfl
@[simp] theorem crit_doneOk : crit .doneOk = false := rfl
@[simp] theorem crit_doneBypass : crit .doneBypass = false := rfl

/-- the mutex is held by exactly the thread that is inside a critical section -/
def Excl (g : G) : Prop := ∀ t, crit (g.threads t).pc = true ↔ g.mux = some t

theorem excl_init (reqs : Tid → Req) (t0 : Nat) : Excl (init reqs t0) := by
  intro t; simp [init, crit]

theorem excl_step (cfg : Cfg) {g g' : G} {a : Act} (hi : Excl g) (hs : step cfg g a = some g') : Excl g' := by
  cases a with
  | tick d => simp [step] at hs; subst hs; exact hi
  | gc => simp [step, gcStore] at hs; subst hs; exact hi
  | thr t =>
    have hmine := hi t
    intro t'
    have hother := hi t'
    by_cases htt : t' = t
    · subst htt
      cases step_of_stepThr cfg hs <;> simp_all
      by_cases hr : (g.threads t').remaining < 0 <;> simp [hr]
    · cases step_of_stepThr cfg hs <;> simp_all [setThread_threads_ne]
      all_goals (intro h; exact htt h.symm)

end C13
