import FiberModel.C13.More
/-
C13 — fixed window without skip options and with a constant limit: the load a request is weighed
with is its position in the window, hence a request is refused only when `M` other requests of the
same window have passed the limiter (the budget of the window really is used up).
-/
namespace C13
open Conc Spec

/-! ### fixed window, no skip options, constant limit: a rejection means `M` others passed -/

/-- neither skip option is configured -/
def noSkip (cfg : Cfg) : Prop := cfg.skipFailed = false ∧ cfg.skipSuccessful = false

theorem skipCond_noSkip {cfg : Cfg} (h : noSkip cfg) (st : Nat) : skipCond cfg st = false := by
  simp [skipCond, h.1, h.2]

/-- the load a counted request of the open window was weighed with is its position in the window -/
def IRank (p : PS) : Prop :=
  ∀ k w, p.s k = some w → ∀ t rest, (t :: rest) <:+ w.cur → ∀ x, p.dec t = some x →
    x.load = ((rest.length + 1 : Nat) : Int)

theorem irank_init (reqs : Tid → Req) (t0 : Nat) : IRank (pinit reqs t0) := by
  intro k w hw; simp [pinit] at hw

theorem irank_step (cfg : Cfg) (hfix : cfg.sliding = false) (hns : noSkip cfg) (reqs : Tid → Req) {p p' : PS} {a : Act}
    (hi : Inv cfg reqs p) (hr : IRank p) (hs : pstep cfg p a = some p') : IRank p' := by
  cases a with
  | tick d => rw [pstep_tick hs]; exact hr
  | gc => rw [pstep_gc hs]; exact hr
  | thr t =>
    obtain ⟨g', s', d'⟩ := p'
    obtain ⟨hraw, hst, rfl, rfl⟩ := pstep_thr hs
    by_cases hpc : (p.g.threads t).pc = .atTs
    · intro k' w' hw' t' rest hsuf x hx
      simp only [ghost, hpc] at hw' hx
      have hnc : counted cfg (p.g.threads t) = false := by simp [counted, hpc]
      have hnotin : ∀ k0 w0, p.s k0 = some w0 → t ∉ w0.cur := fun k0 w0 h0 hin => by
        have := (((hi.mem k0 w0 h0).2.2.1 t).1 hin).1; rw [hnc] at this; cases this
      generalize hk : (p.g.threads t).req.key = k at *
      by_cases hkk : k' = k
      · subst hkk
        simp only [state_set_same, Option.some.injEq] at hw'
        subst hw'
        rcases hit_shape cfg (p.s k') p.g.now t with ⟨w0, hs0, _, hsh⟩ | ⟨hsl, _⟩ | ⟨hsh, _⟩
        · rw [hsh] at hsuf
          rcases List.suffix_cons_iff.1 hsuf with heq | hsuf'
          · cases heq
            simp only [if_true, Option.some.injEq] at hx
            subst hx
            simp [load, hfix, hsh]
          · have hne : t' ≠ t := fun h => hnotin k' w0 hs0 (h ▸ List.IsSuffix.mem (List.mem_cons_self) hsuf')
            simp only [hne, if_false] at hx
            exact hr k' w0 hs0 t' rest hsuf' x hx
        · rw [hfix] at hsl; cases hsl
        · rw [hsh] at hsuf
          rcases List.suffix_cons_iff.1 hsuf with heq | hsuf'
          · cases heq
            simp only [if_true, Option.some.injEq] at hx
            subst hx
            simp [load, hfix, hsh]
          · simp at hsuf'
      · rw [state_set_ne _ _ hkk] at hw'
        have hne : t' ≠ t := fun h => hnotin k' w' hw' (h ▸ List.IsSuffix.mem (List.mem_cons_self) hsuf)
        simp only [hne, if_false] at hx
        exact hr k' w' hw' t' rest hsuf x hx
    · by_cases hpc2 : (p.g.threads t).pc = .atTs2
      · exfalso
        have := hi.sec t (by simp [hpc2])
        rw [skipCond_noSkip hns] at this; cases this
      · rw [ghost_other hpc hpc2]
        exact hr

theorem irank_reach (cfg : Cfg) (hfix : cfg.sliding = false) (hns : noSkip cfg) (hE : 1 ≤ cfg.expiration)
    (reqs : Tid → Req) (t0 : Nat) {p : PS} (h : (psys cfg).Reach (pinit reqs t0) p) : IRank p := by
  refine Conc.reach_induction (psys cfg) IRank (irank_init reqs t0) ?_ p h
  intro p a p' hr hk hs
  exact irank_step cfg hfix hns reqs (all_reach cfg hE reqs t0 hr).inv hk hs

theorem mem_drop_suffix {l : List Tid} {n : Nat} {a : Tid} (h : a ∈ l.drop n) :
    ∃ rest, (a :: rest) <:+ l ∧ rest.length + 1 ≤ l.length - n := by
  obtain ⟨s1, s2, hs⟩ := List.append_of_mem h
  refine ⟨s2, ?_, ?_⟩
  · have h1 : (a :: s2) <:+ l.drop n := ⟨s1, hs.symm⟩
    exact h1.trans (List.drop_suffix n l)
  · have := congrArg List.length hs
    simp at this
    omega

/-- what a step that is not the count leaves alone -/
theorem step_stable {cfg : Cfg} {g g' : G} {t : Tid} (hst : Step cfg g t g') (hnts : (g.threads t).pc ≠ .atTs) (u : Tid) :
    (g'.threads u).req = (g.threads u).req ∧ (g'.threads u).wexp = (g.threads u).wexp ∧
    (hitDone (g'.threads u).pc = true → hitDone (g.threads u).pc = true) ∧
    (admittedPc (g.threads u).pc = true → admittedPc (g'.threads u).pc = true) := by
  by_cases h : u = t
  · subst h
    cases hst <;> simp_all [admittedPc]
  · have : g'.threads u = g.threads u := by cases hst <;> simp [setThread_threads_ne _ _ h]
    rw [this]; simp

theorem step_other {cfg : Cfg} {g g' : G} {t : Tid} (hst : Step cfg g t g') {u : Tid} (h : u ≠ t) :
    g'.threads u = g.threads u := by
  cases hst <;> simp [setThread_threads_ne _ _ h]

/-- a counted request the specification refused has `M` others of its window that passed -/
def IRej (M : Nat) (k : Key) (p : PS) : Prop :=
  ∀ t, (p.g.threads t).req.key = k → hitDone (p.g.threads t).pc = true → ∀ x, p.dec t = some x → x.allow = false →
    ∃ l : List Tid, l.Nodup ∧ l.length = M ∧ ∀ t' ∈ l, t' ≠ t ∧ (p.g.threads t').req.key = k ∧
      (p.g.threads t').wexp = (p.g.threads t).wexp ∧ admittedPc (p.g.threads t').pc = true

theorem irej_init (M : Nat) (k : Key) (reqs : Tid → Req) (t0 : Nat) : IRej M k (pinit reqs t0) := by
  intro t _ hp; simp [pinit, init] at hp

theorem irej_step (cfg : Cfg) (hfix : cfg.sliding = false) (hE : 1 ≤ cfg.expiration) (reqs : Tid → Req)
    (M : Nat) (k : Key) (hM : ∀ t, (reqs t).key = k → (reqs t).max = (M : Int)) {p p' : PS} {a : Act}
    (hi : Inv cfg reqs p) (hd : IDec p) (hrk : IRank p) (hj : IRej M k p) (hs : pstep cfg p a = some p') :
    IRej M k p' := by
  cases a with
  | tick d => rw [pstep_tick hs]; exact hj
  | gc => rw [pstep_gc hs]; exact hj
  | thr t =>
    obtain ⟨g', s', d'⟩ := p'
    obtain ⟨hraw, hst, rfl, rfl⟩ := pstep_thr hs
    by_cases hpc : (p.g.threads t).pc = .atTs
    · intro u huk huh x hx hxa
      by_cases hut : u = t
      · -- the request being counted
        subst hut
        cases hst with
        | ts _ =>
          obtain ⟨hu1, hu2, hu3, hu4, hu5⟩ := upd_refines cfg hE u (hi.loc u (.inl hpc))
          simp only [setThread_threads_same] at huk ⊢
          simp only [ghost, hpc, if_true, Option.some.injEq] at hx
          subst hx
          simp only [admits, decide_eq_false_iff_not, Int.not_le] at hxa
          have hmax : (p.g.threads u).req.max = (M : Int) := by
            rw [hi.req u]; exact hM u (by rw [← hi.req u]; exact huk)
          rw [hmax] at hxa
          have hnc : counted cfg (p.g.threads u) = false := by simp [counted, hpc]
          rcases hit_shape cfg (p.s (p.g.threads u).req.key) p.g.now u with ⟨w0, hs0, _, hsh⟩ | ⟨hsl, _⟩ | ⟨hsh, _⟩
          · rw [hsh] at hxa hu3
            simp [load, hfix] at hxa
            obtain ⟨n1, _, m1, _⟩ := hi.mem _ w0 hs0
            refine ⟨w0.cur.drop (w0.cur.length - M), n1.sublist (List.drop_sublist _ _), by rw [List.length_drop]; omega, ?_⟩
            intro t' ht'
            have hin : t' ∈ w0.cur := List.mem_of_mem_drop ht'
            obtain ⟨hc1, hc2, hc3⟩ := (m1 t').1 hin
            have hne : t' ≠ u := fun h => by rw [h, hnc] at hc1; cases hc1
            simp only [setThread_threads_ne _ _ hne]
            refine ⟨hne, by rw [hc2, huk], by rw [hc3]; exact hu3, ?_⟩
            -- its verdict was `allow`
            obtain ⟨rest', hsuf, hlen⟩ := mem_drop_suffix ht'
            have hhd : hitDone (p.g.threads t').pc = true := by
              revert hc1; simp only [counted]; cases hitDone (p.g.threads t').pc <;> simp
            obtain ⟨x', h1, h2, _, h4, h5, _, _⟩ := hd t' hhd
            have hload := hrk _ w0 hs0 t' rest' hsuf x' h1
            have hlim : x'.limit = (M : Int) := by
              rw [h2, hi.req t']; exact hM t' (by rw [← hi.req t', hc2, huk])
            have hallow : x'.allow = true := h4.2 (by rw [hload, hlim]; omega)
            have hncr := not_crit_of_other hi.excl (t := u) (by simp [hpc]) hne
            have hnr : (p.g.threads t').pc ≠ .rejected := fun h => by
              have := h5 h; rw [hallow] at this; cases this
            revert hhd hncr hnr
            cases (p.g.threads t').pc <;> simp [admittedPc, crit]
          · rw [hfix] at hsl; cases hsl
          · rw [hsh] at hxa
            simp [load, hfix] at hxa
            have hM0 : M = 0 := by omega
            exact ⟨[], List.nodup_nil, by simp [hM0], fun t' ht' => by cases ht'⟩
        | _ => simp_all
      · -- another request: nothing it depends on changes
        have hsame := step_other hst hut
        rw [hsame] at huk huh
        simp only [ghost, hpc, hut, if_false] at hx
        obtain ⟨l, hl1, hl2, hl3⟩ := hj u huk huh x hx hxa
        refine ⟨l, hl1, hl2, fun t' ht' => ?_⟩
        obtain ⟨g1, g2, g3, g4⟩ := hl3 t' ht'
        have hne : t' ≠ t := fun h => by rw [h, hpc] at g4; simp [admittedPc] at g4
        rw [step_other hst hne, hsame]
        exact ⟨g1, g2, g3, g4⟩
    · have hdec : (ghost cfg p (.thr t)).2 = p.dec := by
        by_cases hpc2 : (p.g.threads t).pc = .atTs2
        · exact (ghost_ts2 (cfg := cfg) hpc2).2
        · rw [ghost_other hpc hpc2]
      intro u huk huh x hx hxa
      obtain ⟨s1, s2, s3, _⟩ := step_stable hst hpc u
      change (ghost cfg p (.thr t)).2 u = some x at hx
      rw [hdec] at hx
      change (g'.threads u).req.key = k at huk
      change hitDone (g'.threads u).pc = true at huh
      rw [s1] at huk
      obtain ⟨l, hl1, hl2, hl3⟩ := hj u huk (s3 huh) x hx hxa
      refine ⟨l, hl1, hl2, fun t' ht' => ?_⟩
      obtain ⟨g1, g2, g3, g4⟩ := hl3 t' ht'
      obtain ⟨r1, r2, _, r4⟩ := step_stable hst hpc t'
      show t' ≠ u ∧ (g'.threads t').req.key = k ∧ (g'.threads t').wexp = (g'.threads u).wexp ∧
        admittedPc (g'.threads t').pc = true
      rw [r1, r2, s2]
      exact ⟨g1, g2, g3, r4 g4⟩

theorem irej_reach (cfg : Cfg) (hfix : cfg.sliding = false) (hns : noSkip cfg) (hE : 1 ≤ cfg.expiration)
    (reqs : Tid → Req) (t0 : Nat) (M : Nat) (k : Key) (hM : ∀ t, (reqs t).key = k → (reqs t).max = (M : Int))
    {p : PS} (h : (psys cfg).Reach (pinit reqs t0) p) : IRej M k p := by
  refine Conc.reach_induction (psys cfg) (IRej M k) (irej_init M k reqs t0) ?_ p h
  intro p a p' hr hk hs
  have ha := all_reach cfg hE reqs t0 hr
  exact irej_step cfg hfix hE reqs M k hM ha.inv ha.dec (irank_reach cfg hfix hns hE reqs t0 hr) hk hs


end C13
