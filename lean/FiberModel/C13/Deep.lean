import FiberModel.C13.Props
import FiberModel.C13.Trace
/-
C13 — deepening: the sliding window with the weight of the real code (`codeWt`, whole-number arithmetic
regenerated from limiter_sliding.go, `Facts.rate_is_code`) instead of an arbitrary function, and the
exactness of the X-RateLimit-* values.
-/
namespace C13
open Conc Spec

/-! ### the code's weight in closed form -/

/-- for a non-negative hit count the code's `prevHits*int(resetInSec)/int(expiration)` is the natural-number
quotient `⌊prev·reset/expiration⌋` -/
theorem codeWt_nat (n r E : Nat) : codeWt (n : Int) r E = ((n * r / E : Nat) : Int) := by
  unfold codeWt
  rw [← Int.natCast_mul, Int.natCast_ediv]
  exact Int.tdiv_eq_ediv_of_nonneg (Int.natCast_nonneg _)

/-- it is the floor of the exact rational weight: `E·q ≤ prev·reset < E·(q+1)`; it never exceeds `prev`
while `reset ≤ expiration` and is all of `prev` in the first second of a window -/
theorem codeWt_floor (n r E : Nat) (hE : 1 ≤ E) (hr : r ≤ E) :
    E * (n * r / E) ≤ n * r ∧ n * r < E * (n * r / E + 1) ∧ n * r / E ≤ n ∧ n * E / E = n := by
  refine ⟨Nat.mul_div_le _ _, Nat.lt_mul_div_succ _ (by omega), ?_, Nat.mul_div_cancel n (by omega)⟩
  apply Nat.div_le_of_le_mul
  rw [Nat.mul_comm E n]
  exact Nat.mul_le_mul_left n hr

example : codeWt 22 15 22 = 15 ∧ codeWt 2 3 4 = 1 ∧ codeWt 49 1 49 = 1 ∧ codeWt 90 7 10 = 63 := by decide

/-! ### the sliding-window theorems with the concrete weight -/

/-- **sliding_weighted_le_max_code.** `sliding_weighted_le_max` for a configuration that weighs like the
code: a request passes iff `⌊|prev|·(window end − now)/expiration⌋ + |cur| ≤` its own limit. -/
theorem sliding_weighted_le_max_code (cfg : Cfg) (hc : cfg.code) (hsl : cfg.sliding = true) (hE : 1 ≤ cfg.expiration)
    (reqs : Tid → Req) (t0 : Nat) {p : PS} (h : (psys cfg).Reach (pinit reqs t0) p) (t : Tid)
    (hpc : (p.g.threads t).pc = .atTs) :
    let w := hit cfg (p.s (reqs t).key) p.g.now t
    let e' := upd cfg (p.g.threads t).e p.g.now
    (0 ≤ (reqs t).max - rate cfg e' p.g.now ↔
      ((w.prev.length * (w.wend - p.g.now) / cfg.expiration : Nat) : Int) + w.cur.length ≤ (reqs t).max) := by
  have hw : cfg.wt = codeWt := hc
  have := sliding_weighted_le_max cfg hsl hE reqs t0 h t hpc
  simp only [hw, codeWt_nat] at this
  exact this

/-- **sliding_decision_counts_real_requests_code.** `decision_counts_real_requests` for the sliding window
with the code's weight: `remaining = MaxFunc(this request) − (⌊|prev|·resetInSec/expiration⌋ + |cur|)` over
the real, duplicate-free sets of same-key requests counted in the previous / current window and not taken
back; the weighted part is at most `|prev|`. -/
theorem sliding_decision_counts_real_requests_code (cfg : Cfg) (hc : cfg.code) (hsl : cfg.sliding = true)
    (hE : 1 ≤ cfg.expiration) (reqs : Tid → Req) (t0 : Nat) {g : G}
    (h : (sys cfg).Reach (init reqs t0) g) (t : Tid) (hpc : (g.threads t).pc = .atUnlock) :
    ∃ cur prev : List Tid, cur.Nodup ∧ prev.Nodup ∧ t ∈ cur ∧
      (∀ t', t' ∈ cur ↔ (counted cfg (g.threads t') = true ∧ (reqs t').key = (reqs t).key ∧
                          (g.threads t').wexp = (g.threads t).wexp)) ∧
      (∀ t', t' ∈ prev ↔ (counted cfg (g.threads t') = true ∧ (reqs t').key = (reqs t).key ∧
                           (g.threads t').wexp + cfg.expiration = (g.threads t).wexp)) ∧
      (g.threads t).remaining = (reqs t).max -
        (((prev.length * (g.threads t).reset / cfg.expiration : Nat) : Int) + cur.length) ∧
      prev.length * (g.threads t).reset / cfg.expiration ≤ prev.length ∧
      1 ≤ (g.threads t).reset ∧ (g.threads t).reset ≤ cfg.expiration := by
  obtain ⟨cur, prev, n1, n2, hm, m1, m2, hrem, r1, r2, _⟩ := decision_counts_real_requests cfg hE reqs t0 h t hpc
  refine ⟨cur, prev, n1, n2, hm, m1, fun t' => ?_, ?_, (codeWt_floor _ _ _ hE r2).2.2.1, r1, r2⟩
  · rw [m2 t']; simp [hsl]
  · have hw : cfg.wt = codeWt := hc
    rw [hrem]; simp only [hsl, if_true, hw, codeWt_nat]

/-! ### X-RateLimit-Limit / X-RateLimit-Reset / Retry-After are exact -/

/-- **ratelimit_headers_exact.** Every request that passed the limiter and was answered (`doneOk`: the
X-RateLimit-* headers are written from `maxRequests`, `remaining`, `resetInSec`,
`Facts.headers_are_model_locals`): `X-RateLimit-Limit` is the value MaxFunc returned for this request and the
limit the specification judged it by; `X-RateLimit-Reset` is the specification's time until the window
it was counted in ends (the same number a rejected request gets as `Retry-After`, `retry_after_exact`), in
`1 … expiration`; and the request was within its limit. -/
theorem ratelimit_headers_exact (cfg : Cfg) (hE : 1 ≤ cfg.expiration) (reqs : Tid → Req) (t0 : Nat) {p : PS}
    (h : (psys cfg).Reach (pinit reqs t0) p) (t : Tid) (hd : (p.g.threads t).pc = .doneOk) :
    ∃ x, p.dec t = some x ∧ (p.g.threads t).req.max = (reqs t).max ∧ x.limit = (reqs t).max ∧
      (p.g.threads t).reset = x.retry ∧ 1 ≤ x.retry ∧ x.retry ≤ cfg.expiration ∧ x.load ≤ x.limit := by
  have ha := all_reach cfg hE reqs t0 h
  obtain ⟨x, h1, h2, h3, h4, _, h6, _⟩ := ha.dec t (by simp [hd, hitDone])
  obtain ⟨r1, r2, _⟩ := ha.rst t (by simp [hd, hitDone])
  have hreq := ha.inv.req t
  exact ⟨x, h1, by rw [hreq], by rw [h2, hreq], h3.symm, by omega, by omega, h4.1 (h6 (by simp [hd, admittedPc]))⟩

/-! ### non-vacuity -/

section ExamplesDeep
/-- sliding window, expiration 4, the code's weight -/
def exCfgC : Cfg := ⟨true, false, 4, false, false, codeWt⟩
example : exCfgC.code := rfl

/- two requests in the window ending at 104; at second 105 (3 s before the next window ends) the previous
window weighs `⌊2·3/4⌋ = 1`: request 2 passes with `X-RateLimit-Remaining 0`, `X-RateLimit-Reset 3`
(hypothesis of `ratelimit_headers_exact`), request 3 is rejected with `Retry-After 3`; request 3 at `atTs` /
`atUnlock` (hypotheses of the two `_code` theorems) -/
set_option maxRecDepth 8000 in
example : let p := (psys exCfgC).run (pinit (fun _ => ⟨0, 2, 200, false⟩) 100) (runT 0 7 ++ runT 1 7 ++ [.tick 5] ++ runT 2 7 ++ runT 3 6)
    (p.g.threads 2).pc = .doneOk ∧ (p.g.threads 2).remaining = 0 ∧ (p.g.threads 2).reset = 3 ∧
    (p.g.threads 3).pc = .rejected ∧ (p.g.threads 3).reset = 3 := by decide

set_option maxRecDepth 8000 in
example : let p := (psys exCfgC).run (pinit (fun _ => ⟨0, 2, 200, false⟩) 100) (runT 0 7 ++ runT 1 7 ++ [.tick 5] ++ runT 2 7 ++ runT 3 3)
    (p.g.threads 3).pc = .atTs := by decide

set_option maxRecDepth 8000 in
example : let p := (psys exCfgC).run (pinit (fun _ => ⟨0, 2, 200, false⟩) 100) (runT 0 7 ++ runT 1 7 ++ [.tick 5] ++ runT 2 7 ++ runT 3 5)
    (p.g.threads 3).pc = .atUnlock ∧ (p.g.threads 3).remaining = -1 := by decide
end ExamplesDeep

end C13
