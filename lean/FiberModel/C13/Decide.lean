import FiberModel.C13.Inv
/-
C13 — the decisions of the handler are the decisions of the specification (ghost `dec`), and the
fixed window's admitted requests are bounded by the limit (suffix invariant on the abstract list).
-/
namespace C13
open Conc Spec

/-- the request passed the limiter (the handler will run / has run for it) -/
def admittedPc : Pc → Bool
  | .atHandler | .wantLock2 | .atGet2 | .atTs2 | .atSet2 | .atUnlock2 | .doneOk => true
  | _ => false

/-- every counted request carries the specification's verdict, and the handler's locals agree with it -/
def IDec (p : PS) : Prop :=
  ∀ t, hitDone (p.g.threads t).pc = true →
    ∃ x, p.dec t = some x ∧ x.limit = (p.g.threads t).req.max ∧ x.retry = (p.g.threads t).reset ∧
      (x.allow = true ↔ x.load ≤ x.limit) ∧
      ((p.g.threads t).pc = .rejected → x.allow = false) ∧
      (admittedPc (p.g.threads t).pc = true → x.allow = true) ∧
      (((p.g.threads t).pc = .atSet ∨ (p.g.threads t).pc = .atUnlock) →
        (x.allow = true ↔ 0 ≤ (p.g.threads t).remaining))

theorem rate_eq_load (cfg : Cfg) {e' : Item} {w : Win} {now : Nat}
    (h3 : w.wend = e'.exp) (h4 : e'.curr = w.cur.length) (h5 : cfg.sliding = true → e'.prev = w.prev.length) :
    rate cfg e' now = load cfg w now := by
  unfold rate load
  by_cases hs : cfg.sliding = true
  · simp [hs, h3, h4, h5 hs]
  · have hs' : cfg.sliding = false := by simpa using hs
    simp [hs', h4]

/-- steps that leave `dec`, `req` and `reset` of the moving thread alone -/
theorem idec_quiet {p : PS} {g' : G} {t : Tid}
    (hd : IDec p)
    (hoth : ∀ t', t' ≠ t → g'.threads t' = p.g.threads t')
    (hreq : (g'.threads t).req = (p.g.threads t).req) (hreset : (g'.threads t).reset = (p.g.threads t).reset)
    (hhit : hitDone (g'.threads t).pc = true → hitDone (p.g.threads t).pc = true)
    (hrej : (g'.threads t).pc = .rejected →
      (p.g.threads t).pc = .rejected ∨ ((p.g.threads t).pc = .atUnlock ∧ (p.g.threads t).remaining < 0))
    (hadm : admittedPc (g'.threads t).pc = true →
      admittedPc (p.g.threads t).pc = true ∨ ((p.g.threads t).pc = .atUnlock ∧ 0 ≤ (p.g.threads t).remaining))
    (hrem : ((g'.threads t).pc = .atSet ∨ (g'.threads t).pc = .atUnlock) →
      ((p.g.threads t).pc = .atSet ∨ (p.g.threads t).pc = .atUnlock) ∧
        (g'.threads t).remaining = (p.g.threads t).remaining) :
    IDec ⟨g', p.s, p.dec⟩ := by
  intro t' hp
  by_cases h : t' = t
  · subst h
    obtain ⟨x, h1, h2, h3, h4, h5, h6, h7⟩ := hd t' (hhit hp)
    refine ⟨x, h1, by rw [hreq]; exact h2, by rw [hreset]; exact h3, h4, ?_, ?_, ?_⟩
    · intro hr
      rcases hrej hr with h | ⟨h, hlt⟩
      · exact h5 h
      · have := h7 (.inr h)
        cases hx : x.allow with
        | false => rfl
        | true => have := this.1 hx; omega
    · intro ha
      rcases hadm ha with h | ⟨h, hge⟩
      · exact h6 h
      · exact (h7 (.inr h)).2 hge
    · intro hs
      obtain ⟨h8, h9⟩ := hrem hs
      show x.allow = true ↔ 0 ≤ (g'.threads t').remaining
      rw [h9]; exact h7 h8
  · have hp' : hitDone (p.g.threads t').pc = true := by rw [← hoth t' h]; exact hp
    obtain ⟨x, hx⟩ := hd t' hp'
    refine ⟨x, ?_⟩
    show p.dec t' = some x ∧ x.limit = (g'.threads t').req.max ∧ x.retry = (g'.threads t').reset ∧ _ ∧
      ((g'.threads t').pc = .rejected → _) ∧ (admittedPc (g'.threads t').pc = true → _) ∧
      (((g'.threads t').pc = .atSet ∨ (g'.threads t').pc = .atUnlock) → (_ ↔ 0 ≤ (g'.threads t').remaining))
    rw [hoth t' h]; exact hx

theorem idec_init (reqs : Tid → Req) (t0 : Nat) : IDec (pinit reqs t0) := by
  intro t hp; simp [pinit, init] at hp

theorem idec_step (cfg : Cfg) (hE : 1 ≤ cfg.expiration) (reqs : Tid → Req) {p p' : PS} {a : Act}
    (hi : Inv cfg reqs p) (hd : IDec p) (hs : pstep cfg p a = some p') : IDec p' := by
  cases a with
  | tick d => rw [pstep_tick hs]; exact hd
  | gc => rw [pstep_gc hs]; exact hd
  | thr t =>
    obtain ⟨g', s', d'⟩ := p'
    obtain ⟨hraw, hst, rfl, rfl⟩ := pstep_thr hs
    cases hst with
    | ts hpc =>
      obtain ⟨hu1, hu2, hu3, hu4, hu5⟩ := upd_refines cfg hE t (hi.loc t (.inl hpc))
      have hrl := rate_eq_load cfg (now := p.g.now) hu3 hu4 hu5
      intro t' hp
      by_cases h : t' = t
      · subst h
        simp only [ghost, hpc, setThread_threads_same, if_true]
        refine ⟨_, rfl, rfl, ?_, ?_, ?_, ?_, ?_⟩
        · simp [retryAfter, hu3]
        · simp [admits]
        · intro hr; simp at hr
        · intro ha; simp [admittedPc] at ha
        · intro _
          simp only [admits, decide_eq_true_eq]
          rw [hrl]; omega
      · simp only [setThread_threads_ne _ _ h] at hp ⊢
        obtain ⟨x, hx⟩ := hd t' hp
        refine ⟨x, ?_⟩
        simp only [ghost, hpc, h, if_false]
        exact hx
    | arriveBypass hpc hb =>
      rw [ghost_other (by simp [hpc]) (by simp [hpc])]
      exact idec_quiet (t := t) hd (fun t' h => by simp [setThread_threads_ne _ _ h]) (by simp) (by simp)
        (by simp) (by simp) (by simp [admittedPc]) (by simp)
    | arrive hpc hb =>
      rw [ghost_other (by simp [hpc]) (by simp [hpc])]
      exact idec_quiet (t := t) hd (fun t' h => by simp [setThread_threads_ne _ _ h]) (by simp) (by simp)
        (by simp) (by simp) (by simp [admittedPc]) (by simp)
    | lock hpc hm =>
      rw [ghost_other (by simp [hpc]) (by simp [hpc])]
      exact idec_quiet (t := t) hd (fun t' h => by simp [setThread_threads_ne _ _ h]) (by simp) (by simp)
        (by simp) (by simp) (by simp [admittedPc]) (by simp)
    | get hpc =>
      rw [ghost_other (by simp [hpc]) (by simp [hpc])]
      exact idec_quiet (t := t) hd (fun t' h => by simp [setThread_threads_ne _ _ h]) (by simp) (by simp)
        (by simp) (by simp) (by simp [admittedPc]) (by simp)
    | set hpc =>
      rw [ghost_other (by simp [hpc]) (by simp [hpc])]
      exact idec_quiet (t := t) hd (fun t' h => by simp [setThread_threads_ne _ _ h]) (by simp) (by simp)
        (by simp [hpc]) (by simp) (by simp [admittedPc]) (by simp [hpc])
    | unlock hpc =>
      rw [ghost_other (by simp [hpc]) (by simp [hpc])]
      refine idec_quiet (t := t) hd (fun t' h => by simp [setThread_threads_ne _ _ h]) (by simp) (by simp)
        (by simp [hpc]) ?_ ?_ ?_
      · by_cases hr : (p.g.threads t).remaining < 0 <;> simp [hr, hpc]
      · by_cases hr : (p.g.threads t).remaining < 0 <;> simp [hr, hpc, admittedPc]; omega
      · by_cases hr : (p.g.threads t).remaining < 0 <;> simp [hr]
    | handlerBypass hpc =>
      rw [ghost_other (by simp [hpc]) (by simp [hpc])]
      exact idec_quiet (t := t) hd (fun t' h => by simp [setThread_threads_ne _ _ h]) (by simp) (by simp)
        (by simp) (by simp) (by simp [admittedPc]) (by simp)
    | handlerSkip hpc hk =>
      rw [ghost_other (by simp [hpc]) (by simp [hpc])]
      exact idec_quiet (t := t) hd (fun t' h => by simp [setThread_threads_ne _ _ h]) (by simp) (by simp)
        (by simp [hpc]) (by simp) (by simp [admittedPc, hpc]) (by simp)
    | handlerDone hpc hk =>
      rw [ghost_other (by simp [hpc]) (by simp [hpc])]
      exact idec_quiet (t := t) hd (fun t' h => by simp [setThread_threads_ne _ _ h]) (by simp) (by simp)
        (by simp [hpc]) (by simp) (by simp [admittedPc, hpc]) (by simp)
    | lock2 hpc hm =>
      rw [ghost_other (by simp [hpc]) (by simp [hpc])]
      exact idec_quiet (t := t) hd (fun t' h => by simp [setThread_threads_ne _ _ h]) (by simp) (by simp)
        (by simp [hpc]) (by simp) (by simp [admittedPc, hpc]) (by simp)
    | get2 hpc =>
      rw [ghost_other (by simp [hpc]) (by simp [hpc])]
      exact idec_quiet (t := t) hd (fun t' h => by simp [setThread_threads_ne _ _ h]) (by simp) (by simp)
        (by simp [hpc]) (by simp) (by simp [admittedPc, hpc]) (by simp)
    | ts2Some hpc e' ttl hu =>
      rw [show ghost cfg p (.thr t) = ((ghost cfg p (.thr t)).1, p.dec) from by
        rw [← (ghost_ts2 (cfg := cfg) hpc).2]]
      exact idec_quiet (p := ⟨p.g, _, p.dec⟩) (t := t) hd (fun t' h => by simp [setThread_threads_ne _ _ h]) (by simp)
        (by simp) (by simp [hpc]) (by simp) (by simp [admittedPc, hpc]) (by simp)
    | ts2None hpc hu =>
      rw [show ghost cfg p (.thr t) = ((ghost cfg p (.thr t)).1, p.dec) from by
        rw [← (ghost_ts2 (cfg := cfg) hpc).2]]
      exact idec_quiet (p := ⟨p.g, _, p.dec⟩) (t := t) hd (fun t' h => by simp [setThread_threads_ne _ _ h]) (by simp)
        (by simp) (by simp [hpc]) (by simp) (by simp [admittedPc, hpc]) (by simp)
    | set2 hpc =>
      rw [ghost_other (by simp [hpc]) (by simp [hpc])]
      exact idec_quiet (t := t) hd (fun t' h => by simp [setThread_threads_ne _ _ h]) (by simp) (by simp)
        (by simp [hpc]) (by simp) (by simp [admittedPc, hpc]) (by simp)
    | unlock2 hpc =>
      rw [ghost_other (by simp [hpc]) (by simp [hpc])]
      exact idec_quiet (t := t) hd (fun t' h => by simp [setThread_threads_ne _ _ h]) (by simp) (by simp)
        (by simp [hpc]) (by simp) (by simp [admittedPc, hpc]) (by simp)

/-! ### fixed window: the admitted requests of the open window are bounded -/

/-- a suffix of a list with one element erased comes from a suffix (with the same head) of the list -/
theorem suffix_erase {a b : Tid} {rest' l : List Tid} (h : (a :: rest') <:+ l.erase b) :
    ∃ rest, (a :: rest) <:+ l ∧ rest'.length ≤ rest.length := by
  induction l with
  | nil => simp at h
  | cons c l' ih =>
    rw [List.erase_cons] at h
    split at h
    · exact ⟨rest', h.trans (List.suffix_cons c l'), Nat.le_refl _⟩
    · rcases List.suffix_cons_iff.1 h with heq | hsuf
      · cases heq
        exact ⟨l', List.suffix_refl _, List.length_erase_le⟩
      · obtain ⟨rest, h1, h2⟩ := ih hsuf
        exact ⟨rest, h1.trans (List.suffix_cons c l'), h2⟩

/-- fixed window: each counted request that the specification admitted was, together with everything
counted before it in its window and still counted, within its own limit -/
def ISuf (cfg : Cfg) (p : PS) : Prop :=
  cfg.sliding = false → ∀ k w, p.s k = some w → ∀ t rest, (t :: rest) <:+ w.cur →
    ∀ x, p.dec t = some x → x.allow = true → ((rest.length + 1 : Nat) : Int) ≤ x.limit

theorem isuf_init (cfg : Cfg) (reqs : Tid → Req) (t0 : Nat) : ISuf cfg (pinit reqs t0) := by
  intro _ k w hw; simp [pinit] at hw

theorem isuf_step (cfg : Cfg) (reqs : Tid → Req) {p p' : PS} {a : Act}
    (hi : Inv cfg reqs p) (hsf : ISuf cfg p) (hs : pstep cfg p a = some p') : ISuf cfg p' := by
  cases a with
  | tick d => rw [pstep_tick hs]; exact hsf
  | gc => rw [pstep_gc hs]; exact hsf
  | thr t =>
    obtain ⟨g', s', d'⟩ := p'
    obtain ⟨hraw, hst, rfl, rfl⟩ := pstep_thr hs
    by_cases hpc : (p.g.threads t).pc = .atTs
    · -- the count
      intro hfix k' w' hw' t' rest hsuf x hx hallow
      simp only [ghost, hpc] at hw' hx
      have hnc : counted cfg (p.g.threads t) = false := by simp [counted, hpc]
      have hnotin : ∀ k0 w0, p.s k0 = some w0 → t ∉ w0.cur := fun k0 w0 h0 hin => by
        have := (((hi.mem k0 w0 h0).2.2.1 t).1 hin).1; rw [hnc] at this; cases this
      generalize hk : (p.g.threads t).req.key = k at *
      by_cases hkk : k' = k
      · subst hkk
        simp only [state_set_same, Option.some.injEq] at hw'
        subst hw'
        rcases hit_shape cfg (p.s k') p.g.now t with ⟨w0, hs0, _, hsh⟩ | ⟨hsl, _⟩ | ⟨hsh, _⟩
        · rw [hsh] at hsuf
          rcases List.suffix_cons_iff.1 hsuf with heq | hsuf'
          · cases heq
            simp only [if_true, Option.some.injEq] at hx
            subst hx
            simp only [admits, decide_eq_true_eq, hsh] at hallow
            simpa [load, hfix] using hallow
          · have hne : t' ≠ t := fun h => hnotin k' w0 hs0 (h ▸ List.IsSuffix.mem (List.mem_cons_self) hsuf')
            simp only [hne, if_false] at hx
            exact hsf hfix k' w0 hs0 t' rest hsuf' x hx hallow
        · rw [hfix] at hsl; cases hsl
        · rw [hsh] at hsuf
          rcases List.suffix_cons_iff.1 hsuf with heq | hsuf'
          · cases heq
            simp only [if_true, Option.some.injEq] at hx
            subst hx
            simp only [admits, decide_eq_true_eq, hsh] at hallow
            simpa [load, hfix] using hallow
          · simp at hsuf'
      · rw [state_set_ne _ _ hkk] at hw'
        have hne : t' ≠ t := fun h => hnotin k' w' hw' (h ▸ List.IsSuffix.mem (List.mem_cons_self) hsuf)
        simp only [hne, if_false] at hx
        exact hsf hfix k' w' hw' t' rest hsuf x hx hallow
    · by_cases hpc2 : (p.g.threads t).pc = .atTs2
      · -- the take-back
        intro hfix k' w' hw' t' rest hsuf x hx hallow
        obtain ⟨hgs, hgd⟩ := ghost_ts2 (cfg := cfg) hpc2
        change (ghost cfg p (.thr t)).1 k' = some w' at hw'
        change (ghost cfg p (.thr t)).2 t' = some x at hx
        rw [hgd] at hx
        rw [hgs] at hw'
        split at hw'
        · cases hs0 : p.s k' with
          | none => simp [hs0, unhitOpt] at hw'
          | some w0 =>
            simp only [hs0, unhitOpt, Option.map_some, Option.some.injEq] at hw'
            subst hw'
            by_cases hin : t ∈ w0.cur
            · rw [(unhit_cur_of_mem hin).1] at hsuf
              obtain ⟨rest0, h1, h2⟩ := suffix_erase hsuf
              have := hsf hfix k' w0 hs0 t' rest0 h1 x hx hallow
              omega
            · rw [(unhit_prev_of_not_mem hin).1] at hsuf
              exact hsf hfix k' w0 hs0 t' rest hsuf x hx hallow
        · exact hsf hfix k' w' hw' t' rest hsuf x hx hallow
      · rw [ghost_other hpc hpc2]
        exact hsf

/-- counting the admitted requests of a list whose admitted suffixes are bounded -/
theorem filter_len_le_of_suffix_bound (P : Tid → Bool) (M : Nat) (l : List Tid)
    (h : ∀ t rest, (t :: rest) <:+ l → P t = true → rest.length + 1 ≤ M) :
    (l.filter P).length ≤ M := by
  induction l with
  | nil => simp
  | cons a l' ih =>
    rw [List.filter_cons]
    split
    · rename_i hp
      have := h a l' (List.suffix_refl _) hp
      have := List.length_filter_le P l'
      simp; omega
    · exact ih (fun t rest hs hp => h t rest (hs.trans (List.suffix_cons a l')) hp)

end C13
