import FiberModel.C13.Rank
/-
C13 — property theorems (only). All of them quantify over every configuration with
`expiration ≥ 1` (configDefault guarantees it), every assignment of requests to threads (unboundedly
many threads, any keys, any MaxFunc values, any handler statuses), and EVERY schedule: any
interleaving of the atomic steps of the threads with clock ticks of any length and backend garbage
collections (`(sys cfg).Reach` / `(psys cfg).Reach`; `psys` is `sys` run in lock-step with the
specification's abstract counters, `psys_run_g` shows the ghost part does not influence the model).
The weight function of the sliding window (`cfg.wt`, float arithmetic in Go) is arbitrary.

The second half of the file (from `decision_counts_real_requests` on) states the property without
the ghost state: over reachable states of the model itself (`(sys cfg).Reach (init reqs t0) g`) and
the real sets of requests (`counted`, `wexp` = end of the window a request was counted in).
-/
namespace C13
open Conc Spec

/-- everything proved invariant, in one bundle -/
structure Full (cfg : Cfg) (reqs : Tid → Req) (p : PS) : Prop where
  inv : Inv cfg reqs p
  dec : IDec p
  suf : ISuf cfg p

theorem full_reach (cfg : Cfg) (hE : 1 ≤ cfg.expiration) (reqs : Tid → Req) (t0 : Nat) {p : PS}
    (h : (psys cfg).Reach (pinit reqs t0) p) : Full cfg reqs p :=
  Conc.inv_reach (psys cfg) (Full cfg reqs)
    (fun _ _ _ hf hs => ⟨inv_step cfg hE reqs hf.inv hs, idec_step cfg hE reqs hf.inv hf.dec hs,
                         isuf_step cfg reqs hf.inv hf.suf hs⟩)
    ⟨inv_init cfg reqs t0, idec_init reqs t0, isuf_init cfg reqs t0⟩ h

/-- every run of the model is the projection of a run of the product (so theorems about reachable
product states are theorems about all schedules of the model) -/
theorem model_run_is_product_run (cfg : Cfg) (reqs : Tid → Req) (t0 : Nat) (as : List Act) :
    (sys cfg).run (init reqs t0) as = ((psys cfg).run (pinit reqs t0) as).g :=
  (psys_run_g cfg (pinit reqs t0) as).symm

/-! ### mutual exclusion -/

/-- **crit_section_exclusive.** In every reachable state the mutex is held by exactly the thread
that is between `mux.Lock()` and `mux.Unlock()`; hence at most one thread is between `manager.get`
and `manager.set`. -/
theorem crit_section_exclusive (cfg : Cfg) (reqs : Tid → Req) (t0 : Nat) {g : G}
    (h : (sys cfg).Reach (init reqs t0) g) :
    (∀ t, crit (g.threads t).pc = true ↔ g.mux = some t) ∧
    (∀ t t', crit (g.threads t).pc = true → crit (g.threads t').pc = true → t = t') := by
  have hex : Excl g :=
    Conc.inv_reach (sys cfg) Excl (fun _ _ _ hi hs => excl_step cfg hi hs) (excl_init reqs t0) h
  refine ⟨hex, fun t t' h1 h2 => ?_⟩
  have a := (hex t).1 h1
  have b := (hex t').1 h2
  rw [a] at b; cases b; rfl

example : ∃ g, (sys ⟨false, false, 2, false, false, fun _ _ _ => 0⟩).Reach (init (fun _ => ⟨0, 1, 200, false⟩) 100) g ∧
    crit (g.threads 0).pc = true ∧ (g.threads 1).pc = .wantLock :=
  ⟨_, ⟨[.thr 0, .thr 0, .thr 1, .thr 1], rfl⟩, by decide, by decide⟩

/-! ### the handler's decisions are the abstract counter's decisions -/

/-- **decision_is_spec_decision.** Whenever a request is counted (its thread reads the clock inside
the critical section), under any schedule: the `remaining` the handler computes is the request's own
MaxFunc limit minus the load of the abstract window after adding the request, the `Retry-After`
value is the time until that window ends (and is positive), the second of the clock read lies inside
that window (`wend − expiration ≤ now < wend`), and the request is now a member of the abstract window
of its key — of no other. -/
theorem decision_is_spec_decision (cfg : Cfg) (hE : 1 ≤ cfg.expiration) (reqs : Tid → Req) (t0 : Nat) {p : PS}
    (h : (psys cfg).Reach (pinit reqs t0) p) (t : Tid) (hpc : (p.g.threads t).pc = .atTs) :
    let w := hit cfg (p.s (reqs t).key) p.g.now t
    let e' := upd cfg (p.g.threads t).e p.g.now
    (reqs t).max - rate cfg e' p.g.now = (reqs t).max - load cfg w p.g.now ∧
    e'.exp - p.g.now = retryAfter w p.g.now ∧ p.g.now < w.wend ∧ w.wend ≤ p.g.now + cfg.expiration ∧
    t ∈ w.cur := by
  have hf := full_reach cfg hE reqs t0 h
  have hreq := hf.inv.req t
  have hl := hf.inv.loc t (.inl hpc)
  rw [hreq] at hl
  obtain ⟨hu1, hu2, hu3, hu4, hu5⟩ := upd_refines cfg hE t hl
  show (reqs t).max - rate cfg (upd cfg (p.g.threads t).e p.g.now) p.g.now =
      (reqs t).max - load cfg (hit cfg (p.s (reqs t).key) p.g.now t) p.g.now ∧
    (upd cfg (p.g.threads t).e p.g.now).exp - p.g.now = retryAfter (hit cfg (p.s (reqs t).key) p.g.now t) p.g.now ∧
    p.g.now < (hit cfg (p.s (reqs t).key) p.g.now t).wend ∧
    (hit cfg (p.s (reqs t).key) p.g.now t).wend ≤ p.g.now + cfg.expiration ∧
    t ∈ (hit cfg (p.s (reqs t).key) p.g.now t).cur
  refine ⟨by rw [rate_eq_load cfg hu3 hu4 hu5], by simp only [retryAfter]; omega, by omega, by omega, ?_⟩
  rcases hit_shape cfg (p.s (reqs t).key) p.g.now t with ⟨w0, _, _, hsh⟩ | ⟨_, w0, _, _, _, hsh⟩ | ⟨hsh, _⟩ <;>
    (rw [hsh]; simp)

/-- **outcome_refines_spec** (`fixed_refines_counter` and `sliding_refines_spec` are its two
instances). In every reachable state, for every request: if it was rejected then the specification's
counter — run on the serialisation given by the order of the clock reads inside the critical
sections — rejected it: its load exceeded the limit MaxFunc returned for *this* request, and the
`Retry-After` it carries is the specification's; if it passed the limiter then the specification
admitted it: load ≤ its own limit. -/
theorem outcome_refines_spec (cfg : Cfg) (hE : 1 ≤ cfg.expiration) (reqs : Tid → Req) (t0 : Nat) {p : PS}
    (h : (psys cfg).Reach (pinit reqs t0) p) (t : Tid) :
    ((p.g.threads t).pc = .rejected →
      ∃ x, p.dec t = some x ∧ x.allow = false ∧ x.limit < x.load ∧ x.limit = (reqs t).max ∧
           (p.g.threads t).reset = x.retry) ∧
    (admittedPc (p.g.threads t).pc = true →
      ∃ x, p.dec t = some x ∧ x.allow = true ∧ x.load ≤ x.limit ∧ x.limit = (reqs t).max) := by
  have hf := full_reach cfg hE reqs t0 h
  have hreq := hf.inv.req t
  constructor
  · intro hr
    obtain ⟨x, h1, h2, h3, h4, h5, _, _⟩ := hf.dec t (by simp [hr])
    have ha := h5 hr
    refine ⟨x, h1, ha, ?_, by rw [h2, hreq], h3.symm⟩
    have : ¬ x.load ≤ x.limit := fun hle => by have := h4.2 hle; rw [ha] at this; cases this
    omega
  · intro hadm
    have hhd : hitDone (p.g.threads t).pc = true := by
      revert hadm; cases (p.g.threads t).pc <;> simp [admittedPc]
    obtain ⟨x, h1, h2, _, h4, _, h6, _⟩ := hf.dec t hhd
    have ha := h6 hadm
    exact ⟨x, h1, ha, h4.1 ha, by rw [h2, hreq]⟩

/-- **fixed_refines_counter.** -/
theorem fixed_refines_counter (cfg : Cfg) (_hfix : cfg.sliding = false) (hE : 1 ≤ cfg.expiration) (reqs : Tid → Req)
    (t0 : Nat) {p : PS} (h : (psys cfg).Reach (pinit reqs t0) p) (t : Tid) :
    ((p.g.threads t).pc = .rejected →
      ∃ x, p.dec t = some x ∧ x.allow = false ∧ x.limit < x.load ∧ x.limit = (reqs t).max ∧
           (p.g.threads t).reset = x.retry) ∧
    (admittedPc (p.g.threads t).pc = true →
      ∃ x, p.dec t = some x ∧ x.allow = true ∧ x.load ≤ x.limit ∧ x.limit = (reqs t).max) :=
  outcome_refines_spec cfg hE reqs t0 h t

/-- **sliding_refines_spec.** -/
theorem sliding_refines_spec (cfg : Cfg) (_hsl : cfg.sliding = true) (hE : 1 ≤ cfg.expiration) (reqs : Tid → Req)
    (t0 : Nat) {p : PS} (h : (psys cfg).Reach (pinit reqs t0) p) (t : Tid) :
    ((p.g.threads t).pc = .rejected →
      ∃ x, p.dec t = some x ∧ x.allow = false ∧ x.limit < x.load ∧ x.limit = (reqs t).max ∧
           (p.g.threads t).reset = x.retry) ∧
    (admittedPc (p.g.threads t).pc = true →
      ∃ x, p.dec t = some x ∧ x.allow = true ∧ x.load ≤ x.limit ∧ x.limit = (reqs t).max) :=
  outcome_refines_spec cfg hE reqs t0 h t

/-- **not_rejected_under_budget.** A request is rejected only if, at its turn, the load of its
key's window (itself included) exceeded its limit. -/
theorem not_rejected_under_budget (cfg : Cfg) (hE : 1 ≤ cfg.expiration) (reqs : Tid → Req) (t0 : Nat) {p : PS}
    (h : (psys cfg).Reach (pinit reqs t0) p) (t : Tid) (hr : (p.g.threads t).pc = .rejected) :
    ∃ x, p.dec t = some x ∧ x.limit < x.load := by
  obtain ⟨x, h1, _, h3, _⟩ := (outcome_refines_spec cfg hE reqs t0 h t).1 hr
  exact ⟨x, h1, h3⟩

/-- **limit_is_maxfunc.** The limit every decision was taken against is the value MaxFunc returned
for that very request (never `cfg.Max`, never another request's). -/
theorem limit_is_maxfunc (cfg : Cfg) (hE : 1 ≤ cfg.expiration) (reqs : Tid → Req) (t0 : Nat) {p : PS}
    (h : (psys cfg).Reach (pinit reqs t0) p) (t : Tid) (hd : hitDone (p.g.threads t).pc = true) :
    ∃ x, p.dec t = some x ∧ x.limit = (reqs t).max ∧ (x.allow = true ↔ x.load ≤ (reqs t).max) := by
  have hf := full_reach cfg hE reqs t0 h
  obtain ⟨x, h1, h2, _, h4, _⟩ := hf.dec t hd
  have hreq := hf.inv.req t
  exact ⟨x, h1, by rw [h2, hreq], by rw [← hreq, ← h2]; exact h4⟩

/-- **retry_after_exact.** A rejected request's `Retry-After` is the specification's: the end of the
window it was counted in minus the second it was counted (see `decision_is_spec_decision` for the
formula at the moment of counting; it is positive). -/
theorem retry_after_exact (cfg : Cfg) (hE : 1 ≤ cfg.expiration) (reqs : Tid → Req) (t0 : Nat) {p : PS}
    (h : (psys cfg).Reach (pinit reqs t0) p) (t : Tid) (hr : (p.g.threads t).pc = .rejected) :
    ∃ x, p.dec t = some x ∧ (p.g.threads t).reset = x.retry := by
  obtain ⟨x, h1, _, _, _, h5⟩ := (outcome_refines_spec cfg hE reqs t0 h t).1 hr
  exact ⟨x, h1, h5⟩

/-! ### what the abstract window is: exactly the requests counted in it -/

/-- **window_members.** In every reachable state the abstract window of a key lists, without
repetition, exactly the requests of that key that were counted in the window ending at `wend` and
have not been taken back by a skip option (sliding: `prev` likewise for the window before). -/
theorem window_members (cfg : Cfg) (hE : 1 ≤ cfg.expiration) (reqs : Tid → Req) (t0 : Nat) {p : PS}
    (h : (psys cfg).Reach (pinit reqs t0) p) (k : Key) (w : Win) (hw : p.s k = some w) :
    w.cur.Nodup ∧ w.prev.Nodup ∧
    (∀ t, t ∈ w.cur ↔ (counted cfg (p.g.threads t) = true ∧ (reqs t).key = k ∧ (p.g.threads t).wexp = w.wend)) ∧
    (∀ t, t ∈ w.prev ↔ (cfg.sliding = true ∧ counted cfg (p.g.threads t) = true ∧ (reqs t).key = k ∧
                         (p.g.threads t).wexp + cfg.expiration = w.wend)) := by
  have hf := full_reach cfg hE reqs t0 h
  obtain ⟨n1, n2, m1, m2⟩ := hf.inv.mem k w hw
  refine ⟨n1, n2, fun t => ?_, fun t => ?_⟩
  · rw [m1 t, hf.inv.req t]
  · rw [m2 t, hf.inv.req t]

/-! ### fixed window: never more than Max requests of a key's open window reach the handler -/

/-- **fixed_admits_at_most_max.** Fixed window, every schedule, every tick sequence: if no request's
limit exceeds `M`, then among the requests counted in a key's open window (admissions only ever go to
the open window, `decision_is_spec_decision`) at most `M` have passed the limiter and are still
counted — without skip options these are all requests of the window that reach the handler. -/
theorem fixed_admits_at_most_max (cfg : Cfg) (hfix : cfg.sliding = false) (hE : 1 ≤ cfg.expiration)
    (reqs : Tid → Req) (t0 : Nat) (M : Nat) (hM : ∀ t, (reqs t).max ≤ (M : Int)) {p : PS}
    (h : (psys cfg).Reach (pinit reqs t0) p) (k : Key) (w : Win) (hw : p.s k = some w) :
    (w.cur.filter fun t => admittedPc (p.g.threads t).pc).length ≤ M := by
  have hf := full_reach cfg hE reqs t0 h
  apply filter_len_le_of_suffix_bound
  intro t rest hsuf hadm
  have hhd : hitDone (p.g.threads t).pc = true := by
    revert hadm; cases (p.g.threads t).pc <;> simp [admittedPc]
  obtain ⟨x, h1, h2, _, _, _, h6, _⟩ := hf.dec t hhd
  have := hf.suf hfix k w hw t rest hsuf x h1 (h6 hadm)
  have := hM t
  rw [hf.inv.req t] at h2
  omega

/-- **fixed_admitted_rank_le_limit** (dynamic MaxFunc): every admitted request of the open window,
together with the requests counted before it in that window and still counted, is within its own
limit. -/
theorem fixed_admitted_rank_le_limit (cfg : Cfg) (hfix : cfg.sliding = false) (hE : 1 ≤ cfg.expiration)
    (reqs : Tid → Req) (t0 : Nat) {p : PS} (h : (psys cfg).Reach (pinit reqs t0) p)
    (k : Key) (w : Win) (hw : p.s k = some w) (t : Tid) (rest : List Tid) (hsuf : (t :: rest) <:+ w.cur)
    (hadm : admittedPc (p.g.threads t).pc = true) : ((rest.length + 1 : Nat) : Int) ≤ (reqs t).max := by
  have hf := full_reach cfg hE reqs t0 h
  have hhd : hitDone (p.g.threads t).pc = true := by
    revert hadm; cases (p.g.threads t).pc <;> simp [admittedPc]
  obtain ⟨x, h1, h2, _, _, _, h6, _⟩ := hf.dec t hhd
  have := hf.suf hfix k w hw t rest hsuf x h1 (h6 hadm)
  rw [hf.inv.req t] at h2
  omega

/-! ### sliding window -/

/-- **sliding_weighted_le_max.** Sliding window, every schedule: a request passes the limiter only if
`wt(|prev|, window end − now, expiration) + |cur| ≤` its own limit, where `prev`/`cur` are the
requests counted (and not taken back) in the previous/current window of its key (`window_members`),
the request itself included in `cur`. -/
theorem sliding_weighted_le_max (cfg : Cfg) (hsl : cfg.sliding = true) (hE : 1 ≤ cfg.expiration)
    (reqs : Tid → Req) (t0 : Nat) {p : PS} (h : (psys cfg).Reach (pinit reqs t0) p) (t : Tid)
    (hpc : (p.g.threads t).pc = .atTs) :
    let w := hit cfg (p.s (reqs t).key) p.g.now t
    let e' := upd cfg (p.g.threads t).e p.g.now
    (0 ≤ (reqs t).max - rate cfg e' p.g.now ↔
      cfg.wt w.prev.length (w.wend - p.g.now) cfg.expiration + w.cur.length ≤ (reqs t).max) := by
  obtain ⟨h1, _⟩ := decision_is_spec_decision cfg hE reqs t0 h t hpc
  show 0 ≤ (reqs t).max - rate cfg (upd cfg (p.g.threads t).e p.g.now) p.g.now ↔
    cfg.wt (hit cfg (p.s (reqs t).key) p.g.now t).prev.length
        ((hit cfg (p.s (reqs t).key) p.g.now t).wend - p.g.now) cfg.expiration +
      (hit cfg (p.s (reqs t).key) p.g.now t).cur.length ≤ (reqs t).max
  rw [h1]
  simp only [load, hsl, if_true]
  omega

/-! ### keys are independent -/

/-- **keys_independent.** A step of a request with key `k` (any step, any state) leaves the backend
entry and the abstract window of every other key untouched, as well as every other request's
record and verdict; and (`decision_is_spec_decision`) a request's verdict is a function of its own
key's window only. -/
theorem keys_independent (cfg : Cfg) {p p' : PS} {t : Tid} (hs : pstep cfg p (.thr t) = some p') :
    (∀ k', k' ≠ (p.g.threads t).req.key → p'.g.store k' = p.g.store k' ∧ p'.s k' = p.s k') ∧
    (∀ t', t' ≠ t → p'.g.threads t' = p.g.threads t' ∧ p'.dec t' = p.dec t') := by
  obtain ⟨g', s', d'⟩ := p'
  obtain ⟨_, hst, rfl, rfl⟩ := pstep_thr hs
  by_cases hpc : (p.g.threads t).pc = .atTs
  · constructor
    · intro k' hk
      cases hst <;> simp_all [ghost, state_set_ne]
    · intro t' ht
      cases hst <;> simp_all [ghost, setThread_threads_ne]
  · by_cases hpc2 : (p.g.threads t).pc = .atTs2
    · obtain ⟨hgs, hgd⟩ := ghost_ts2 (cfg := cfg) hpc2
      constructor
      · intro k' hk
        refine ⟨?_, by show (ghost cfg p (.thr t)).1 k' = p.s k'; rw [hgs]; simp [hk]⟩
        cases hst <;> simp_all
      · intro t' ht
        refine ⟨?_, by show (ghost cfg p (.thr t)).2 t' = p.dec t'; rw [hgd]⟩
        cases hst <;> simp_all [setThread_threads_ne]
    · rw [ghost_other hpc hpc2]
      constructor
      · intro k' hk
        cases hst <;> simp_all [setStore_store_ne]
      · intro t' ht
        cases hst <;> simp_all [setThread_threads_ne]

/-! ### non-vacuity: concrete schedules -/

section Examples

def exCfg : Cfg := ⟨false, false, 2, true, false, fun _ _ _ => 0⟩
def exReqs : Tid → Req := fun t => if t = 2 then ⟨0, 1, 500, false⟩ else ⟨0, 1, 200, false⟩
/-- run thread `t` for `n` steps -/
def runT (t n : Nat) : List Act := List.replicate n (.thr t)

/-- two requests, limit 1: the first is admitted, the second rejected with Retry-After 2 -/
example : let p := (psys exCfg).run (pinit exReqs 100) (runT 0 7 ++ runT 1 6)
    (p.g.threads 0).pc = .doneOk ∧ (p.g.threads 1).pc = .rejected ∧ (p.g.threads 1).reset = 2 := by decide

/-- interleaved at the mutex: thread 1 has to wait, is then rejected -/
example : let p := (psys exCfg).run (pinit exReqs 100) ([.thr 0, .thr 0, .thr 1, .thr 1, .thr 1] ++ runT 0 5 ++ runT 1 5)
    (p.g.threads 0).pc = .doneOk ∧ (p.g.threads 1).pc = .rejected := by decide

/-- a failing request (thread 2, SkipFailedRequests) is taken back: the next request is admitted;
after a tick past the window end everything starts again -/
example : let p := (psys exCfg).run (pinit exReqs 100) (runT 2 12 ++ runT 0 7 ++ [.tick 2] ++ runT 1 7)
    (p.g.threads 2).pc = .doneOk ∧ (p.g.threads 0).pc = .doneOk ∧ (p.g.threads 1).pc = .doneOk := by decide

/-- sliding window, expiration 4, limit 2, weight `⌊prev·reset/expiration⌋`: two requests in the window
ending at 104; at second 105 (3 s before the next window ends) the previous window weighs
`⌊2·3/4⌋ = 1`: the third request has rate 1 + 1 = 2 ≤ 2 and passes with `remaining = 0`, the fourth has
rate 1 + 2 = 3 > 2 and is rejected with `Retry-After: 3` -/
def exCfgS : Cfg := ⟨true, false, 4, false, false, fun p r e => p * (r : Int) / (e : Int)⟩

set_option maxRecDepth 8000 in
example : let p := (psys exCfgS).run (pinit (fun _ => ⟨0, 2, 200, false⟩) 100) (runT 0 7 ++ runT 1 7 ++ [.tick 5] ++ runT 2 7 ++ runT 3 6)
    (p.g.threads 2).pc = .doneOk ∧ (p.g.threads 2).remaining = 0 ∧
    (p.g.threads 3).pc = .rejected ∧ (p.g.threads 3).reset = 3 := by decide

end Examples

/-! ## the property over the model's own state (no ghost state in the statements) -/

/-- **decision_counts_real_requests** (both algorithms, every schedule, every backend variant). When a
request is about to leave its critical section (`atUnlock`: the item is written, the next step unlocks
and either answers 429 or calls the handler), the `remaining` it computed is the limit MaxFunc
returned for THIS request minus the number of real requests counted against its key:
`cur` = the requests of the same key counted in the same window (window end `wexp`) whose hit has not
been taken back by a skip option — the request itself included —, `prev` = those of the window before
(sliding only); fixed: `|cur|`, sliding: `wt(|prev|, resetInSec, expiration) + |cur|`. Requests of
other keys do not occur. `resetInSec` (the `Retry-After` / `X-RateLimit-Reset` value) lies in
`1 … expiration`, and the next step answers 429 exactly when `remaining < 0`. -/
theorem decision_counts_real_requests (cfg : Cfg) (hE : 1 ≤ cfg.expiration) (reqs : Tid → Req) (t0 : Nat) {g : G}
    (h : (sys cfg).Reach (init reqs t0) g) (t : Tid) (hpc : (g.threads t).pc = .atUnlock) :
    ∃ cur prev : List Tid, cur.Nodup ∧ prev.Nodup ∧ t ∈ cur ∧
      (∀ t', t' ∈ cur ↔ (counted cfg (g.threads t') = true ∧ (reqs t').key = (reqs t).key ∧
                          (g.threads t').wexp = (g.threads t).wexp)) ∧
      (∀ t', t' ∈ prev ↔ (cfg.sliding = true ∧ counted cfg (g.threads t') = true ∧ (reqs t').key = (reqs t).key ∧
                           (g.threads t').wexp + cfg.expiration = (g.threads t).wexp)) ∧
      (g.threads t).remaining = (reqs t).max -
        (if cfg.sliding then cfg.wt prev.length (g.threads t).reset cfg.expiration + cur.length else cur.length) ∧
      1 ≤ (g.threads t).reset ∧ (g.threads t).reset ≤ cfg.expiration ∧
      ∃ g', stepThr cfg g t = some g' ∧
        (g'.threads t).pc = (if (g.threads t).remaining < 0 then Pc.rejected else Pc.atHandler) := by
  obtain ⟨p, hp, rfl⟩ := reach_lift cfg reqs t0 h
  have ha := all_reach cfg hE reqs t0 hp
  obtain ⟨w, hw1, hw2, hw3⟩ := ha.opn t (.inr hpc)
  obtain ⟨n1, n2, m1, m2⟩ := ha.inv.mem _ w hw1
  obtain ⟨r1, r2, _⟩ := ha.rst t (by simp [hpc])
  have hreq := ha.inv.req t
  refine ⟨w.cur, w.prev, n1, n2, ?_, fun t' => ?_, fun t' => ?_, ?_, r1, r2, ?_⟩
  · exact (m1 t).2 ⟨by simp [counted, unhitDone, hpc], rfl, hw2.symm⟩
  · rw [m1 t', ha.inv.req t', hreq, hw2]
  · rw [m2 t', ha.inv.req t', hreq, hw2]
  · rw [hw3, hreq]; rfl
  · simp [stepThr, hpc]

/-- **fixed_admits_at_most_max_per_window** (fixed window, every schedule, every tick sequence, any
number of requests; open and closed windows alike). If no limit MaxFunc returns for a request of key
`k` exceeds `M` (other keys may have any limits), then in every reachable state, for every window
(identified by its end `W`), the requests of `k` counted in that window that have passed the limiter and whose hit has not been taken back by a skip
option are at most `M`: any duplicate-free list of such requests has length ≤ `M`. -/
theorem fixed_admits_at_most_max_per_window (cfg : Cfg) (hfix : cfg.sliding = false) (hE : 1 ≤ cfg.expiration)
    (reqs : Tid → Req) (t0 : Nat) (M : Nat) (k : Key) (hM : ∀ t, (reqs t).key = k → (reqs t).max ≤ (M : Int)) {g : G}
    (h : (sys cfg).Reach (init reqs t0) g) (W : Nat) (l : List Tid) (hnd : l.Nodup)
    (hl : ∀ t ∈ l, (reqs t).key = k ∧ (g.threads t).wexp = W ∧ admittedPc (g.threads t).pc = true ∧
                   counted cfg (g.threads t) = true) :
    l.length ≤ M := by
  obtain ⟨p, hp, rfl⟩ := reach_lift cfg reqs t0 h
  have ha := all_reach cfg hE reqs t0 hp
  refine ibound_reach cfg hfix hE reqs t0 M k hM hp W l hnd (fun t ht => ?_)
  obtain ⟨h1, h2, h3, h4⟩ := hl t ht
  exact ⟨by rw [ha.inv.req t]; exact h1, h2, h3, h4⟩

/-- **fixed_handler_runs_at_most_max** (fixed window without skip options): per key and window at most
`M` requests that went through the limiter have had the protected handler executed (`ran`). -/
theorem fixed_handler_runs_at_most_max (cfg : Cfg) (hfix : cfg.sliding = false) (hns : noSkip cfg)
    (hE : 1 ≤ cfg.expiration) (reqs : Tid → Req) (t0 : Nat) (M : Nat) (k : Key)
    (hM : ∀ t, (reqs t).key = k → (reqs t).max ≤ (M : Int)) {g : G}
    (h : (sys cfg).Reach (init reqs t0) g) (W : Nat) (l : List Tid) (hnd : l.Nodup)
    (hl : ∀ t ∈ l, (reqs t).key = k ∧ (g.threads t).wexp = W ∧ (g.threads t).ran = true ∧
                   (reqs t).next = false ∧ (reqs t).max ≠ 0) :
    l.length ≤ M := by
  refine fixed_admits_at_most_max_per_window cfg hfix hE reqs t0 M k hM h W l hnd (fun t ht => ?_)
  obtain ⟨h1, h2, h3, h4, h5⟩ := hl t ht
  obtain ⟨hr1, hr2, _⟩ := iran_reach cfg reqs t0 h t
  obtain ⟨p, hp, rfl⟩ := reach_lift cfg reqs t0 h
  have ha := all_reach cfg hE reqs t0 hp
  have hreq := ha.inv.req t
  have hadm : admittedPc (p.g.threads t).pc = true := by
    rcases hr1 h3 with hb | hb
    · have := hr2 (.inr hb); rw [hreq] at this; simp [h4, h5] at this
    · exact hb.1
  refine ⟨h1, h2, hadm, ?_⟩
  have hsec := ha.inv.sec t
  have hsk := skipCond_noSkip hns (p.g.threads t).req.status
  revert hadm hsec
  cases hpc : (p.g.threads t).pc <;> simp [admittedPc, counted, unhitDone, hpc, hsk]

/-- **handler_runs_iff_passed.** In every reachable state: the protected handler has been executed for
every request answered through the limiter or around it (`doneOk`, `doneBypass`), it has not been
executed for a rejected request, and a request bypasses the limiter only if `Next` returned true or
MaxFunc returned 0 for it. -/
theorem handler_runs_iff_passed (cfg : Cfg) (reqs : Tid → Req) (t0 : Nat) {g : G}
    (h : (sys cfg).Reach (init reqs t0) g) (t : Tid) :
    (((g.threads t).pc = .doneOk ∨ (g.threads t).pc = .doneBypass) → (g.threads t).ran = true) ∧
    ((g.threads t).pc = .rejected → (g.threads t).ran = false) ∧
    ((g.threads t).pc = .doneBypass → ((g.threads t).req.next = true ∨ (g.threads t).req.max = 0)) := by
  obtain ⟨h1, h2, h3⟩ := iran_reach cfg reqs t0 h t
  refine ⟨fun hp => h3 (by rcases hp with hp | hp <;> simp [hp]), fun hp => ?_, fun hp => h2 (.inr hp)⟩
  cases hr : (g.threads t).ran with
  | false => rfl
  | true => have := h1 hr; simp [hp, admittedPc] at this

/-- **retry_after_in_range.** The `Retry-After` of a rejected request is between 1 and `expiration`
seconds (and the window it refers to ends at `wexp`, the clock read having happened at
`wexp − Retry-After`, see `decision_is_spec_decision`). -/
theorem retry_after_in_range (cfg : Cfg) (hE : 1 ≤ cfg.expiration) (reqs : Tid → Req) (t0 : Nat) {g : G}
    (h : (sys cfg).Reach (init reqs t0) g) (t : Tid) (hr : (g.threads t).pc = .rejected) :
    1 ≤ (g.threads t).reset ∧ (g.threads t).reset ≤ cfg.expiration ∧
      (g.threads t).reset ≤ (g.threads t).wexp := by
  obtain ⟨p, hp, rfl⟩ := reach_lift cfg reqs t0 h
  exact (all_reach cfg hE reqs t0 hp).rst t (by simp [hr])

/-- the request has been answered -/
def finalPc : Pc → Bool
  | .rejected | .doneOk | .doneBypass => true
  | _ => false

/-- **no_deadlock.** In every reachable state in which some request is unanswered, a thread can move:
the holder of the mutex if it is taken (it is inside a critical section, all of whose steps are always
enabled), the unanswered request itself otherwise. No request waits for the limiter forever under a
fair scheduler; in particular none is "rejected" by starvation. -/
theorem no_deadlock (cfg : Cfg) (reqs : Tid → Req) (t0 : Nat) {g : G}
    (h : (sys cfg).Reach (init reqs t0) g) (t : Tid) (hlive : finalPc (g.threads t).pc = false) :
    ∃ t', (stepThr cfg g t').isSome = true ∧ (g.mux = some t' ∨ (g.mux = none ∧ t' = t)) := by
  have hex : Excl g :=
    Conc.inv_reach (sys cfg) Excl (fun _ _ _ hi hs => excl_step cfg hi hs) (excl_init reqs t0) h
  cases hm : g.mux with
  | some t' =>
    refine ⟨t', ?_, .inl rfl⟩
    have hc := (hex t').2 hm
    revert hc
    cases hpc : (g.threads t').pc <;> simp [stepThr, hpc, crit]
    split <;> simp
  | none =>
    refine ⟨t, ?_, .inr ⟨rfl, rfl⟩⟩
    revert hlive
    cases hpc : (g.threads t).pc <;> simp [stepThr, hpc, finalPc, hm]
    · split <;> simp
    · split <;> simp
    · split <;> simp

/-- **fixed_rejected_only_after_max_passed** (fixed window, no skip options, key `k` has the constant
limit `M`): a request of `k` is answered 429 only if `M` OTHER requests of `k` counted in the very same
window have passed the limiter — the window's budget is really used up, not merely the counter. -/
theorem fixed_rejected_only_after_max_passed (cfg : Cfg) (hfix : cfg.sliding = false) (hns : noSkip cfg)
    (hE : 1 ≤ cfg.expiration) (reqs : Tid → Req) (t0 : Nat) (M : Nat) (k : Key)
    (hM : ∀ t, (reqs t).key = k → (reqs t).max = (M : Int)) {g : G}
    (h : (sys cfg).Reach (init reqs t0) g) (t : Tid) (hk : (reqs t).key = k) (hr : (g.threads t).pc = .rejected) :
    ∃ l : List Tid, l.Nodup ∧ l.length = M ∧ ∀ t' ∈ l, t' ≠ t ∧ (reqs t').key = k ∧
      (g.threads t').wexp = (g.threads t).wexp ∧ admittedPc (g.threads t').pc = true := by
  obtain ⟨p, hp, rfl⟩ := reach_lift cfg reqs t0 h
  have ha := all_reach cfg hE reqs t0 hp
  obtain ⟨x, h1, _, _, _, h5, _, _⟩ := ha.dec t (by simp [hr])
  obtain ⟨l, hl1, hl2, hl3⟩ := irej_reach cfg hfix hns hE reqs t0 M k hM hp t (by rw [ha.inv.req t]; exact hk)
    (by simp [hr]) x h1 (h5 hr)
  refine ⟨l, hl1, hl2, fun t' ht' => ?_⟩
  obtain ⟨g1, g2, g3, g4⟩ := hl3 t' ht'
  exact ⟨g1, by rw [← ha.inv.req t']; exact g2, g3, g4⟩


/-! ### non-vacuity of the ghost-free theorems -/

section Examples2

def exCfg2 : Cfg := ⟨false, false, 2, false, false, fun _ _ _ => 0⟩
def exReqs2 : Tid → Req := fun _ => ⟨0, 1, 200, false⟩

/-- `atUnlock` is reachable (hypothesis of `decision_counts_real_requests`) -/
example : (((sys exCfg2).run (init exReqs2 100) (runT 0 5)).threads 0).pc = .atUnlock := by decide

/-- two requests, limit 1: request 0 holds the one slot of the window ending at 102, request 1 is
rejected with Retry-After 2 (hypotheses of `fixed_admits_at_most_max_per_window`,
`fixed_handler_runs_at_most_max`, `retry_after_in_range`, `fixed_rejected_only_after_max_passed`) -/
example : let g := (sys exCfg2).run (init exReqs2 100) (runT 0 7 ++ runT 1 6)
    (g.threads 0).wexp = 102 ∧ admittedPc (g.threads 0).pc = true ∧ counted exCfg2 (g.threads 0) = true ∧
    (g.threads 0).ran = true ∧ (g.threads 1).pc = .rejected ∧ (g.threads 1).wexp = 102 ∧ (g.threads 1).reset = 2 := by
  decide

example : noSkip exCfg2 := ⟨rfl, rfl⟩
example : ∀ t, (exReqs2 t).key = 0 → (exReqs2 t).max = ((1 : Nat) : Int) := fun _ _ => rfl

/-- a bypassing request (MaxFunc returned 0) reaches the handler although the key's budget is used up -/
def exReqs3 : Tid → Req := fun t => if t = 2 then ⟨0, 0, 200, false⟩ else ⟨0, 1, 200, false⟩
example : let g := (sys exCfg2).run (init exReqs3 100) (runT 0 7 ++ runT 1 6 ++ runT 2 2)
    (g.threads 1).pc = .rejected ∧ (g.threads 2).pc = .doneBypass ∧ (g.threads 2).ran = true := by decide

/-- a state with an unanswered request and a taken mutex (hypothesis of `no_deadlock`) -/
example : let g := (sys exCfg2).run (init exReqs2 100) [.thr 0, .thr 0, .thr 1, .thr 1]
    finalPc (g.threads 1).pc = false ∧ g.mux = some 0 := by decide

end Examples2

end C13
