import FiberModel.C13.Model
/-
C13 — the property as an executable specification.

Per key an *abstract window counter*: the window's end and the requests (thread ids) counted in it
— every request that asked (admitted or not) and has not been taken back by a skip option — plus,
for the sliding window, the requests counted in the window before. A request is admitted iff the
counter after adding it is within the limit MaxFunc returned *for that request*:
    fixed:    |cur| ≤ limit
    sliding:  wt(|prev|, wend − now, expiration) + |cur| ≤ limit
and a rejected one is told `Retry-After = wend − now`. Keys have separate counters. A request
un-counted by SkipFailedRequests / SkipSuccessfulRequests is removed from the window it was counted
in (and from nothing else).
-/
namespace C13.Spec

structure Win where
  wend : Nat
  cur : List Tid
  prev : List Tid
  deriving Repr

/-- request `t` asks at second `ts` (fixed window): a window that has ended is replaced -/
def hitFixed (E : Nat) (s : Option Win) (ts : Nat) (t : Tid) : Win :=
  match s with
  | some w => if ts < w.wend then { w with cur := t :: w.cur } else ⟨ts + E, [t], []⟩
  | none => ⟨ts + E, [t], []⟩

/-- sliding: the window after the current one starts where that one ended; after a gap of a whole
window everything is forgotten -/
def hitSliding (E : Nat) (s : Option Win) (ts : Nat) (t : Tid) : Win :=
  match s with
  | some w =>
    if ts < w.wend then { w with cur := t :: w.cur }
    else if ts < w.wend + E then ⟨w.wend + E, [t], w.cur⟩
    else ⟨ts + E, [t], []⟩
  | none => ⟨ts + E, [t], []⟩

def hit (cfg : Cfg) (s : Option Win) (ts : Nat) (t : Tid) : Win :=
  if cfg.sliding then hitSliding cfg.expiration s ts t else hitFixed cfg.expiration s ts t

/-- what the algorithm weighs against the limit, right after `t` was added at `ts` -/
def load (cfg : Cfg) (w : Win) (ts : Nat) : Int :=
  if cfg.sliding then cfg.wt w.prev.length (w.wend - ts) cfg.expiration + w.cur.length else w.cur.length

def admits (cfg : Cfg) (w : Win) (ts : Nat) (limit : Int) : Bool := load cfg w ts ≤ limit

def retryAfter (w : Win) (ts : Nat) : Nat := w.wend - ts

/-- a skip option takes request `t` back: out of the window it was counted in -/
def unhit (w : Win) (t : Tid) : Win :=
  if t ∈ w.cur then { w with cur := w.cur.erase t } else { w with prev := w.prev.erase t }

abbrev State := Key → Option Win

def State.set (s : State) (k : Key) (w : Win) : State := fun k' => if k' = k then some w else s k'

/-! ### The oracle: the specification evaluated on an observed history

`Ev.hit t ts`   – request t's read-modify-write took effect at second ts (order = order of the list)
`Ev.unhit t`    – request t was taken back (skip option) -/

inductive Ev
  | hit (t : Tid) (ts : Nat)
  | unhit (t : Tid)
  deriving Repr

/-- outcome of a request as observed on the implementation -/
inductive Obs
  | answered (status : Nat) (ran : Bool) (retryAfter : Option Nat) (limitHdr : Option Int)
      (remainingHdr : Option Int) (resetHdr : Option Nat)
  | noAnswer          -- panicked / never finished
  deriving Repr

/-- what the specification expects for a counted request -/
structure Expect where
  allow : Bool       -- load ≤ limit
  retry : Nat        -- window end − now
  limit : Int        -- MaxFunc's value for this request
  load : Int         -- what was weighed against the limit (the request itself included)
  deriving Repr

/-- replay the events on the abstract counters; returns the expectation per request -/
def expectations (cfg : Cfg) (reqs : Tid → Req) : List Ev → State → List (Tid × Expect)
  | [], _ => []
  | .hit t ts :: evs, s =>
    let r := reqs t
    let w := hit cfg (s r.key) ts t
    (t, { allow := admits cfg w ts r.max, retry := retryAfter w ts, limit := r.max, load := load cfg w ts }) ::
      expectations cfg reqs evs (s.set r.key w)
  | .unhit t :: evs, s =>
    let r := reqs t
    match s r.key with
    | some w => expectations cfg reqs evs (s.set r.key (unhit w t))
    | none => expectations cfg reqs evs s

/-- first violated clause for one request -/
def judge (r : Req) (bypass : Bool) (back : Bool) (x : Option Expect) (o : Obs) : Option String :=
  if bypass then
    match o with
    | .answered _ true _ _ _ _ => none
    | _ => some "early-rejection (request that bypasses the limiter did not reach the handler)"
  else match x with
    | none =>
      match o with
      | .noAnswer => some "no-answer (request panicked or never finished, budget untouched)"
      | _ => some "no-linearisation (request answered without a counter update)"
    | some x =>
      if x.allow then
        match o with
        | .answered st true _ lim rem rst =>
          if st != r.status then some "early-rejection (handler result replaced)"
          else if lim != some x.limit then some "limit-is-maxfunc (X-RateLimit-Limit differs from MaxFunc's value)"
          else if rst != some x.retry then some "reset-header (X-RateLimit-Reset differs from time until the window resets)"
          else if rem != some (x.limit - x.load) && !(back && rem == some (x.limit - x.load + 1)) then
            some "remaining-header (X-RateLimit-Remaining differs from limit minus load, plus one if the hit was taken back)"
          else none
        | _ => some "early-rejection (budget not exhausted, request did not reach the handler)"
      else
        match o with
        | .answered _ true _ _ _ _ => some "over-admission (budget exhausted, request reached the handler)"
        | .answered _ false ra _ _ _ =>
          if ra != some x.retry then some "retry-after (differs from time until the window resets)" else none
        | .noAnswer => some "no-answer"

def check (cfg : Cfg) (reqs : Tid → Req) (n : Nat) (evs : List Ev) (obs : Tid → Obs) : Option String :=
  let xs := expectations cfg reqs evs (fun _ => none)
  (List.range n).findSome? fun t =>
    let r := reqs t
    let bypass := r.next || r.max == 0
    -- a skip option asked to take this request's hit back (whether it still found it or not)
    let back := evs.any fun e => match e with | .unhit t' => t' == t | _ => false
    (judge r bypass back ((xs.find? (·.1 == t)).map (·.2)) (obs t)).map fun c => s!"{c} thread={t}"

end C13.Spec
