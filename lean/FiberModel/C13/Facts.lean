import FiberModel.C13.Model
import FiberModel.Generated.C13Facts
/-
C13 — the model against the facts regenerated from /repo on every check run
(`translator/c13` → `FiberModel/Generated/C13Facts.lean`): the order of the shared-state accesses in
the two handler closures and every arithmetic / comparison expression a decision is made of. The
theorems below say that `Model.lean` computes exactly these expressions; if one of them changes in
/repo the regenerated definition changes, the proof below breaks, and the check goes looking for a
failing input.
-/
namespace C13
open Facts

/-- limiter_fixed.go performs its shared-state accesses in the order of the model's program points:
`idle` (MaxFunc, Next check → bypass handler | KeyGenerator), `wantLock`, `atGet`, `atTs` (clock, roll-over
reset of currHits, currHits++, remaining), `atSet`, `atUnlock`, then LimitReached | `atHandler`, and the skip
branch `wantLock2`, `atGet2`, `atTs2` (currHits--), `atSet2`, `atUnlock2`. -/
theorem fixed_order_is_model_order :
    Facts.fixedOrder =
      ["maxfunc", "nextcheck", "handler", "key", "lock", "get", "clock", "assign-currHits", "inc-currHits",
       "remaining", "set", "unlock", "reject", "handler", "lock", "get", "dec-currHits", "set", "unlock"] := by
  decide

/-- limiter_sliding.go likewise (roll-over: prevHits := currHits, currHits := 0, idle gap: prevHits := 0;
skip branch: clock read, then currHits-- + set | prevHits-- + set). -/
theorem sliding_order_is_model_order :
    Facts.slidingOrder =
      ["maxfunc", "nextcheck", "handler", "key", "lock", "get", "clock", "assign-prevHits", "assign-currHits",
       "assign-prevHits", "inc-currHits", "remaining", "set", "unlock", "reject", "handler", "lock", "get",
       "clock", "dec-currHits", "set", "dec-prevHits", "set", "unlock"] := by
  decide

/-- the fixed window's update of the item is built from the code's own expressions -/
theorem updFixed_is_code (cfg : Cfg) (e : Item) (ts : Nat) :
    updFixed cfg e ts =
      (let e1 : Item :=
        if e.exp = 0 then { e with exp := fixedFreshExp ts cfg.expiration }
        else if fixedRollCond ts e.exp = true then { e with curr := 0, exp := fixedRollExp ts cfg.expiration }
        else e
       { e1 with curr := e1.curr + 1 }) := by
  simp [updFixed, fixedFreshExp, fixedRollCond, fixedRollExp]

/-- the sliding window's update of the item is built from the code's own expressions -/
theorem updSliding_is_code (cfg : Cfg) (e : Item) (ts : Nat) :
    updSliding cfg e ts =
      (let e1 : Item :=
        if e.exp = 0 then { e with exp := slidingFreshExp ts cfg.expiration }
        else if slidingRollCond ts e.exp = true then
          if slidingGapCond (slidingElapsed ts e.exp) cfg.expiration = true then
            { curr := 0, prev := 0, exp := slidingGapExp ts cfg.expiration }
          else { curr := 0, prev := e.curr, exp := slidingAlignedExp ts cfg.expiration (slidingElapsed ts e.exp) }
        else e
       { e1 with curr := e1.curr + 1 }) := by
  simp [updSliding, slidingFreshExp, slidingRollCond, slidingGapCond, slidingElapsed, slidingGapExp, slidingAlignedExp]

/-- the count step (`atTs`): `resetInSec`, `remaining` and the TTL of `manager.set` are the code's expressions -/
theorem count_step_is_code (cfg : Cfg) (g : G) (t : Tid) (hpc : (g.threads t).pc = .atTs) :
    let th := g.threads t
    let e' := upd cfg th.e g.now
    stepThr cfg g t = some (g.setThread t { th with
      pc := .atSet, e := e', wexp := e'.exp,
      reset := if cfg.sliding then slidingReset e'.exp g.now else fixedReset e'.exp g.now,
      remaining := if cfg.sliding then slidingRemaining th.req.max (rate cfg e' g.now)
                   else fixedRemaining th.req.max e'.curr,
      ttl := if cfg.sliding then slidingTtl (slidingReset e'.exp g.now) cfg.expiration else fixedTtl cfg.expiration }) := by
  by_cases hs : cfg.sliding = true
  · simp [stepThr, hpc, hs, slidingReset, slidingRemaining, slidingTtl, ttl1]
  · have hs' : cfg.sliding = false := by simpa using hs
    simp [stepThr, hpc, hs', fixedReset, fixedRemaining, fixedTtl, ttl1, rate]

/-- the unlock step answers 429 exactly when the code's reject test holds (same test in both files) -/
theorem unlock_step_is_code (cfg : Cfg) (g : G) (t : Tid) (hpc : (g.threads t).pc = .atUnlock) :
    (∀ r : Int, fixedRejectCond r = slidingRejectCond r) ∧
    stepThr cfg g t = some ({ g with mux := none }.setThread t { g.threads t with
      pc := if fixedRejectCond (g.threads t).remaining = true then .rejected else .atHandler }) := by
  refine ⟨fun r => rfl, ?_⟩
  simp [stepThr, hpc, fixedRejectCond]

/-- the skip condition is the code's (same in both files) -/
theorem skipCond_is_code (cfg : Cfg) (status : Nat) :
    skipCond cfg status = fixedSkipCond cfg.skipSuccessful status cfg.skipFailed ∧
    skipCond cfg status = slidingSkipCond cfg.skipSuccessful status cfg.skipFailed := by
  simp [skipCond, fixedSkipCond, slidingSkipCond]

/-- the take-back decision is built from the code's guards, switch cases and TTL expressions -/
theorem unhitItem_is_code (cfg : Cfg) (e : Item) (wexp ts : Nat) :
    unhitItem cfg e wexp ts =
      if cfg.sliding then
        if slidingUnhitGuard ts e.exp cfg.expiration = true then
          if slidingUnhitCurCase e.exp wexp = true then
            some ({ e with curr := e.curr - 1 }, slidingUnhitTtl e.exp cfg.expiration ts)
          else if slidingUnhitPrevCase e.exp wexp cfg.expiration = true then
            some ({ e with prev := e.prev - 1 }, slidingUnhitTtl e.exp cfg.expiration ts)
          else none
        else none
      else if fixedUnhitGuard e.exp wexp = true then some ({ e with curr := e.curr - 1 }, fixedTtl cfg.expiration)
      else none := by
  simp [unhitItem, slidingUnhitGuard, slidingUnhitCurCase, slidingUnhitPrevCase, slidingUnhitTtl, fixedUnhitGuard, fixedTtl]

/-- the sliding window's `rate` is the regenerated whole-number expression of limiter_sliding.go
(`e.prevHits*int(resetInSec)/int(expiration) + e.currHits`, `/` truncating toward zero): the weight of a
configuration that weighs like the code (`Cfg.code`) is no parameter any more. A `float64` in that
expression makes the translator fail (unsupported call), which breaks this obligation. -/
theorem rate_is_code (cfg : Cfg) (hc : cfg.code) (e : Item) (ts : Nat) :
    rate cfg e ts = if cfg.sliding then slidingRate e.prev (slidingReset e.exp ts) cfg.expiration e.curr else e.curr := by
  unfold rate
  rw [hc]
  rfl

/-- `codeWt` is literally the previous-window summand of the regenerated expression -/
theorem codeWt_is_code (prev : Int) (reset expiration : Nat) :
    codeWt prev reset expiration = slidingRate prev reset expiration 0 := by
  simp [codeWt, slidingRate]

/-- which local each response header prints, in both files: `Retry-After` (429 only) and `X-RateLimit-Reset`
print `resetInSec` (model: `Thread.reset`), `X-RateLimit-Limit` prints `maxRequests` (MaxFunc's value for this
request, model: `Thread.req.max`), `X-RateLimit-Remaining` prints `remaining` (model: `Thread.remaining`) -/
theorem headers_are_model_locals :
    Facts.fixedHeaders = ["fiber.HeaderRetryAfter=resetInSec", "xRateLimitLimit=maxRequests",
                          "xRateLimitRemaining=remaining", "xRateLimitReset=resetInSec"] ∧
    Facts.slidingHeaders = Facts.fixedHeaders := by
  decide

end C13
