import FiberModel.Conc.Basic
/-
C13 — model of middleware/limiter (fixed and sliding window) in the `Conc` style.

Every request is a thread; `step` transcribes the handler closures of limiter_fixed.go and
limiter_sliding.go one shared-state access at a time (mutex acquire, Storage.Get, reading
utils.Timestamp(), Storage.Set, mutex release, the downstream handler). Computation on locals is
folded into the access that precedes it. The store is the manager's view of the backend
(manager.go): for an external `fiber.Storage` the item is (un)marshalled, i.e. `get` returns a copy
and `set` writes a copy; for the built-in memory store the stored pointer is returned, which is the
same thing while the mutex is held (theorem `crit_section_exclusive`).
-/
namespace C13

abbrev Tid := Nat
abbrev Key := Nat

/-- manager.go `item` -/
structure Item where
  curr : Int
  prev : Int
  exp : Nat
  deriving DecidableEq, Repr

/-- a fresh item from the pool (`manager.acquire` after `release`: all zero) -/
def Item.zero : Item := ⟨0, 0, 0⟩

/-- limiter.Config after configDefault, as far as the handler reads it -/
structure Cfg where
  sliding : Bool            -- LimiterMiddleware = SlidingWindow{}
  lazy : Bool               -- backend keeps expired entries until it garbage-collects (`gc` action)
  expiration : Nat          -- uint64(cfg.Expiration.Seconds())
  skipFailed : Bool
  skipSuccessful : Bool
  /-- the weighted hits of the previous window, as a function of prevHits, resetInSec, expiration:
  arbitrary in the generic proofs; the code's is `codeWt` (`Cfg.code`) -/
  wt : Int → Nat → Nat → Int

/-- what the request brings: the key (KeyGenerator), the limit (MaxFunc), the status the downstream
handler will answer with, whether Config.Next skips the middleware -/
structure Req where
  key : Key
  max : Int
  status : Nat
  next : Bool
  deriving Repr

inductive Pc
  | idle        -- request not yet arrived
  | wantLock    -- at mux.Lock()
  | atGet       -- holds mux; about to call manager.get
  | atTs        -- got e; about to read utils.Timestamp() and update e
  | atSet       -- about to call manager.set
  | atUnlock    -- about to mux.Unlock()
  | atHandler   -- about to run c.Next()
  | atHandlerB  -- Next()/max == 0: about to run c.Next() without the limiter being involved
  | wantLock2   -- skip branch: at the second mux.Lock()
  | atGet2
  | atTs2       -- got e again; about to decide whether/where to take the hit back
  | atSet2
  | atUnlock2
  | rejected    -- answered by LimitReached with Retry-After
  | doneOk      -- handler ran, X-RateLimit-* headers set
  | doneBypass  -- Next()/max == 0: handler ran, middleware not involved
  deriving DecidableEq, Repr

structure Thread where
  req : Req
  pc : Pc := .idle
  e : Item := Item.zero      -- local `e` (content of the item it points to)
  reset : Nat := 0           -- resetInSec
  remaining : Int := 0
  wexp : Nat := 0            -- windowExp
  ttl : Nat := 0             -- TTL of the pending manager.set (seconds)
  ran : Bool := false        -- the downstream handler was executed for this request

structure G where
  store : Key → Option (Item × Nat)     -- backend: value and absolute expiry second (0 = never)
  mux : Option Tid                      -- limiter_*.go `mux`
  now : Nat                             -- utils.Timestamp()
  threads : Tid → Thread

inductive Act
  | thr (t : Tid)      -- thread t takes its next atomic step
  | tick (d : Nat)     -- d seconds pass
  | gc                 -- the backend drops its expired entries

def G.setThread (g : G) (t : Tid) (th : Thread) : G :=
  { g with threads := fun t' => if t' = t then th else g.threads t' }

def G.setStore (g : G) (k : Key) (v : Item × Nat) : G :=
  { g with store := fun k' => if k' = k then some v else g.store k' }

def expired (sexp now : Nat) : Bool := sexp != 0 && sexp ≤ now

/-- manager.get: Storage.Get + UnmarshalMsg into a pooled item / memory.Get; an absent (or, for a
backend that filters on read, expired) entry gives a zeroed item. -/
def lookup (cfg : Cfg) (g : G) (k : Key) : Item :=
  match g.store k with
  | some (it, sexp) => if !cfg.lazy && expired sexp g.now then Item.zero else it
  | none => Item.zero

/-- (cfg.SkipSuccessfulRequests && status < 400) || (cfg.SkipFailedRequests && status >= 400) -/
def skipCond (cfg : Cfg) (status : Nat) : Bool :=
  (cfg.skipSuccessful && status < 400) || (cfg.skipFailed && status ≥ 400)

/-- limiter_fixed.go: the update of `e` between `manager.get` and `manager.set` -/
def updFixed (cfg : Cfg) (e : Item) (ts : Nat) : Item :=
  let e1 : Item :=
    if e.exp = 0 then { e with exp := ts + cfg.expiration }
    else if ts ≥ e.exp then { e with curr := 0, exp := ts + cfg.expiration }
    else e
  { e1 with curr := e1.curr + 1 }

/-- limiter_sliding.go: the update of `e` between `manager.get` and `manager.set` -/
def updSliding (cfg : Cfg) (e : Item) (ts : Nat) : Item :=
  let e1 : Item :=
    if e.exp = 0 then { e with exp := ts + cfg.expiration }
    else if ts ≥ e.exp then
      let elapsed := ts - e.exp
      if elapsed ≥ cfg.expiration then { curr := 0, prev := 0, exp := ts + cfg.expiration }
      else { curr := 0, prev := e.curr, exp := ts + cfg.expiration - elapsed }
    else e
  { e1 with curr := e1.curr + 1 }

def upd (cfg : Cfg) (e : Item) (ts : Nat) : Item :=
  if cfg.sliding then updSliding cfg e ts else updFixed cfg e ts

/-- limiter_sliding.go `e.prevHits*int(resetInSec)/int(expiration)` (the weighted hits of the previous
window; Go's `/` on `int` truncates toward zero = `Int.tdiv`). This is the weight of the real code
(regenerated: `Facts.slidingRate`, theorem `rate_is_code`); `Cfg.wt` stays a parameter of the generic
proofs and is instantiated with it (`Cfg.code`). -/
def codeWt (prev : Int) (reset expiration : Nat) : Int := Int.tdiv (prev * (reset : Int)) (expiration : Int)

/-- the configuration weighs the previous window the way limiter_sliding.go does -/
def Cfg.code (cfg : Cfg) : Prop := cfg.wt = codeWt

/-- `rate` (sliding) resp. `e.currHits` (fixed): what is subtracted from maxRequests -/
def rate (cfg : Cfg) (e : Item) (ts : Nat) : Int :=
  if cfg.sliding then cfg.wt e.prev (e.exp - ts) cfg.expiration + e.curr else e.curr

/-- TTL of the first manager.set: cfg.Expiration (fixed), resetInSec+expiration (sliding) -/
def ttl1 (cfg : Cfg) (reset : Nat) : Nat :=
  if cfg.sliding then reset + cfg.expiration else cfg.expiration

/-- The skip branch after `e = manager.get(key)`: `none` = nothing to take back (no set),
`some (e', ttl)` = write e' with that TTL. -/
def unhitItem (cfg : Cfg) (e : Item) (wexp ts : Nat) : Option (Item × Nat) :=
  if cfg.sliding then
    if ts < e.exp + cfg.expiration then
      if e.exp = wexp then some ({ e with curr := e.curr - 1 }, e.exp + cfg.expiration - ts)
      else if e.exp = wexp + cfg.expiration then some ({ e with prev := e.prev - 1 }, e.exp + cfg.expiration - ts)
      else none
    else none
  else
    if e.exp = wexp then some ({ e with curr := e.curr - 1 }, cfg.expiration) else none

/-- one atomic step of thread `t` (none = disabled) -/
def stepThr (cfg : Cfg) (g : G) (t : Tid) : Option G :=
  let th := g.threads t
  match th.pc with
  | .idle =>
    -- maxRequests := cfg.MaxFunc(c); if Next(c) || maxRequests == 0 { return c.Next() }; key := KeyGenerator(c)
    if th.req.next || th.req.max = 0 then some (g.setThread t { th with pc := .atHandlerB })
    else some (g.setThread t { th with pc := .wantLock })
  | .wantLock =>
    match g.mux with
    | none => some ({ g with mux := some t }.setThread t { th with pc := .atGet })
    | some _ => none
  | .atGet => some (g.setThread t { th with pc := .atTs, e := lookup cfg g th.req.key })
  | .atTs =>
    let ts := g.now
    let e := upd cfg th.e ts
    let reset := e.exp - ts
    some (g.setThread t { th with pc := .atSet, e := e, reset := reset, wexp := e.exp,
                                  remaining := th.req.max - rate cfg e ts, ttl := ttl1 cfg reset })
  | .atSet => some ((g.setStore th.req.key (th.e, g.now + th.ttl)).setThread t { th with pc := .atUnlock })
  | .atUnlock =>
    some ({ g with mux := none }.setThread t { th with pc := if th.remaining < 0 then .rejected else .atHandler })
  | .atHandlerB => some (g.setThread t { th with pc := .doneBypass, ran := true })
  | .atHandler =>
    if skipCond cfg th.req.status then some (g.setThread t { th with pc := .wantLock2, ran := true })
    else some (g.setThread t { th with pc := .doneOk, ran := true })
  | .wantLock2 =>
    match g.mux with
    | none => some ({ g with mux := some t }.setThread t { th with pc := .atGet2 })
    | some _ => none
  | .atGet2 => some (g.setThread t { th with pc := .atTs2, e := lookup cfg g th.req.key })
  | .atTs2 =>
    match unhitItem cfg th.e th.wexp g.now with
    | some (e', ttl) => some (g.setThread t { th with pc := .atSet2, e := e', ttl := ttl, remaining := th.remaining + 1 })
    | none => some (g.setThread t { th with pc := .atUnlock2 })
  | .atSet2 => some ((g.setStore th.req.key (th.e, g.now + th.ttl)).setThread t { th with pc := .atUnlock2 })
  | .atUnlock2 => some ({ g with mux := none }.setThread t { th with pc := .doneOk })
  | .rejected | .doneOk | .doneBypass => none

/-- backend garbage collection (memory.go gc / our injected store's gc) -/
def gcStore (g : G) : G :=
  { g with store := fun k => match g.store k with
      | some (it, sexp) => if expired sexp g.now then none else some (it, sexp)
      | none => none }

def step (cfg : Cfg) (g : G) : Act → Option G
  | .thr t => stepThr cfg g t
  | .tick d => some { g with now := g.now + d }
  | .gc => some (gcStore g)

def sys (cfg : Cfg) : Conc.System G Act := ⟨step cfg⟩

/-- initial state: empty backend, free mutex, all requests not yet arrived -/
def init (reqs : Tid → Req) (t0 : Nat) : G :=
  { store := fun _ => none, mux := none, now := t0, threads := fun t => { req := reqs t } }

end C13
