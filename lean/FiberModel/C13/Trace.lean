import FiberModel.C13.Lemmas
/-
C13 — keys are independent at the level of whole schedules.
-/
namespace C13
open Conc

/-- the schedule restricted to key `k`, relative to the run from `g`: the actions of requests of other
keys are deleted, and so are the scheduler's picks of a request that cannot move at that moment (it
waits for `mux.Lock()` or is finished — a stutter of the run, `System.next`). Clock ticks and backend
garbage collections stay where they are. -/
def restrictK (cfg : Cfg) (reqs : Tid → Req) (k : Key) : G → List Act → List Act
  | _, [] => []
  | g, a :: as =>
    (match a with
     | .thr t => if (reqs t).key = k ∧ (stepThr cfg g t).isSome = true then [a] else []
     | _ => [a]) ++ restrictK cfg reqs k ((sys cfg).next g a) as

/-- what the mutex looks like when only key `k`'s requests exist -/
def muxK (reqs : Tid → Req) (k : Key) : Option Tid → Option Tid
  | some t => if (reqs t).key = k then some t else none
  | none => none

/-- `h` is `g` as seen by key `k` alone -/
structure KeyView (reqs : Tid → Req) (k : Key) (g h : G) : Prop where
  now : h.now = g.now
  store : h.store k = g.store k
  thr : ∀ t, (reqs t).key = k → h.threads t = g.threads t
  other : ∀ t, (reqs t).key ≠ k → h.threads t = { req := reqs t }
  mux : h.mux = muxK reqs k g.mux
  req : ∀ t, (g.threads t).req = reqs t
  excl : Excl g

theorem lookup_congr (cfg : Cfg) {g h : G} {k : Key} (hn : h.now = g.now) (hs : h.store k = g.store k) :
    lookup cfg h k = lookup cfg g k := by
  simp [lookup, hn, hs]

theorem keyView_init (reqs : Tid → Req) (k : Key) (t0 : Nat) : KeyView reqs k (init reqs t0) (init reqs t0) :=
  ⟨rfl, rfl, fun _ _ => rfl, fun _ _ => rfl, rfl, fun _ => rfl, excl_init reqs t0⟩

/-- a step of another key's request is invisible -/
theorem keyView_other (cfg : Cfg) {reqs : Tid → Req} {k : Key} {g h g' : G} {t : Tid}
    (hv : KeyView reqs k g h) (hk : (reqs t).key ≠ k) (hs : stepThr cfg g t = some g') :
    KeyView reqs k g' h := by
  have hex' : Excl g' := excl_step cfg (a := .thr t) hv.excl hs
  have hkt : (g.threads t).req.key ≠ k := by rw [hv.req t]; exact hk
  have hne : ∀ t', (reqs t').key = k → t' ≠ t := fun t' h1 h2 => hk (h2 ▸ h1)
  have hcr := hv.excl t
  have hreq := hv.req
  refine ⟨?_, ?_, ?_, hv.other, ?_, ?_, hex'⟩
  · rw [hv.now]; cases step_of_stepThr cfg hs <;> simp
  · rw [hv.store]; cases step_of_stepThr cfg hs <;> simp [setStore_store_ne _ _ (Ne.symm hkt)]
  · intro t' ht'
    rw [hv.thr t' ht']
    cases step_of_stepThr cfg hs <;> simp [setThread_threads_ne _ _ (hne t' ht')]
  · rw [hv.mux]
    cases step_of_stepThr cfg hs <;> simp_all [muxK]
  · intro t'
    by_cases htt : t' = t
    · subst htt
      cases step_of_stepThr cfg hs <;> simp [hreq t']
    · cases step_of_stepThr cfg hs <;> simp [setThread_threads_ne _ _ htt, hreq t']

/-- a step of one of `k`'s own requests is taken identically when only `k`'s requests exist -/
theorem keyView_same (cfg : Cfg) {reqs : Tid → Req} {k : Key} {g h g' : G} {t : Tid}
    (hv : KeyView reqs k g h) (hk : (reqs t).key = k) (hs : stepThr cfg g t = some g') :
    ∃ h', stepThr cfg h t = some h' ∧ KeyView reqs k g' h' := by
  have hex' : Excl g' := excl_step cfg (a := .thr t) hv.excl hs
  have hth : h.threads t = g.threads t := hv.thr t hk
  have hkt : (g.threads t).req.key = k := by rw [hv.req t]; exact hk
  have hlk : lookup cfg h (g.threads t).req.key = lookup cfg g (g.threads t).req.key := by
    rw [hkt]; exact lookup_congr cfg hv.now hv.store
  have hcr := hv.excl t
  have hreq := hv.req
  have hnow := hv.now
  have hmux := hv.mux
  have hst := step_of_stepThr cfg hs
  -- the very same update, applied to `h`
  have key : ∀ (th : Thread) (f : G → G), g' = (f g).setThread t th →
      (f h).now = (f g).now → (f h).store k = (f g).store k → (f h).threads = h.threads →
      (f h).mux = muxK reqs k (f g).mux → (f g).threads = g.threads → th.req = reqs t →
      KeyView reqs k g' ((f h).setThread t th) := by
    intro th f hg' h1 h2 h3 h4 h5 h6
    subst hg'
    refine ⟨by simpa using h1, by simpa using h2, ?_, ?_, by simpa using h4, ?_, hex'⟩
    · intro t' ht'
      by_cases htt : t' = t
      · subst htt; simp
      · simp [setThread_threads_ne _ _ htt, h3, h5, hv.thr t' ht']
    · intro t' ht'
      have htt : t' ≠ t := fun e => ht' (e ▸ hk)
      simp [setThread_threads_ne _ _ htt, h3, hv.other t' ht']
    · intro t'
      by_cases htt : t' = t
      · subst htt; simpa using h6
      · simp [setThread_threads_ne _ _ htt, h5, hreq t']
  cases hst with
  | arriveBypass hpc hb =>
    refine ⟨_, ?_, key _ id rfl hnow hv.store rfl hmux rfl (hreq t)⟩
    simp [stepThr, hth, hpc]; intro hc; simp_all
  | arrive hpc hb =>
    refine ⟨_, ?_, key _ id rfl hnow hv.store rfl hmux rfl (hreq t)⟩
    simp [stepThr, hth, hpc]; intro hc; simp_all
  | lock hpc hm =>
    have hm' : h.mux = none := by rw [hmux, hm]; rfl
    refine ⟨_, ?_, key _ (fun x => { x with mux := some t }) rfl hnow hv.store rfl (by simp [muxK, hk]) rfl (hreq t)⟩
    simp [stepThr, hth, hpc, hm']
  | get hpc =>
    refine ⟨_, ?_, key _ id rfl hnow hv.store rfl hmux rfl (hreq t)⟩
    simp [stepThr, hth, hpc, hlk]
  | ts hpc =>
    refine ⟨_, ?_, key _ id rfl hnow hv.store rfl hmux rfl (hreq t)⟩
    simp [stepThr, hth, hpc, hnow]
  | set hpc =>
    refine ⟨_, ?_, key _ (fun x => x.setStore (g.threads t).req.key ((g.threads t).e, g.now + (g.threads t).ttl)) rfl
      hnow (by simp [hkt]) rfl hmux rfl (hreq t)⟩
    simp [stepThr, hth, hpc, hnow]
  | unlock hpc =>
    refine ⟨_, ?_, key _ (fun x => { x with mux := none }) rfl hnow hv.store rfl (by simp [muxK]) rfl (hreq t)⟩
    simp [stepThr, hth, hpc]
  | handlerBypass hpc =>
    refine ⟨_, ?_, key _ id rfl hnow hv.store rfl hmux rfl (hreq t)⟩
    simp [stepThr, hth, hpc]
  | handlerSkip hpc hsk =>
    refine ⟨_, ?_, key _ id rfl hnow hv.store rfl hmux rfl (hreq t)⟩
    simp [stepThr, hth, hpc, hsk]
  | handlerDone hpc hsk =>
    refine ⟨_, ?_, key _ id rfl hnow hv.store rfl hmux rfl (hreq t)⟩
    simp [stepThr, hth, hpc, hsk]
  | lock2 hpc hm =>
    have hm' : h.mux = none := by rw [hmux, hm]; rfl
    refine ⟨_, ?_, key _ (fun x => { x with mux := some t }) rfl hnow hv.store rfl (by simp [muxK, hk]) rfl (hreq t)⟩
    simp [stepThr, hth, hpc, hm']
  | get2 hpc =>
    refine ⟨_, ?_, key _ id rfl hnow hv.store rfl hmux rfl (hreq t)⟩
    simp [stepThr, hth, hpc, hlk]
  | ts2Some hpc e' ttl hu =>
    refine ⟨_, ?_, key _ id rfl hnow hv.store rfl hmux rfl (hreq t)⟩
    simp [stepThr, hth, hpc, hnow, hu]
  | ts2None hpc hu =>
    refine ⟨_, ?_, key _ id rfl hnow hv.store rfl hmux rfl (hreq t)⟩
    simp [stepThr, hth, hpc, hnow, hu]
  | set2 hpc =>
    refine ⟨_, ?_, key _ (fun x => x.setStore (g.threads t).req.key ((g.threads t).e, g.now + (g.threads t).ttl)) rfl
      hnow (by simp [hkt]) rfl hmux rfl (hreq t)⟩
    simp [stepThr, hth, hpc, hnow]
  | unlock2 hpc =>
    refine ⟨_, ?_, key _ (fun x => { x with mux := none }) rfl hnow hv.store rfl (by simp [muxK]) rfl (hreq t)⟩
    simp [stepThr, hth, hpc]

theorem keyView_tick {reqs : Tid → Req} {k : Key} {g h : G} (hv : KeyView reqs k g h) (d : Nat) :
    KeyView reqs k { g with now := g.now + d } { h with now := h.now + d } :=
  ⟨by simp [hv.now], hv.store, hv.thr, hv.other, hv.mux, hv.req, hv.excl⟩

theorem keyView_gc {reqs : Tid → Req} {k : Key} {g h : G} (hv : KeyView reqs k g h) :
    KeyView reqs k (gcStore g) (gcStore h) :=
  ⟨hv.now, by simp [gcStore, hv.store, hv.now], hv.thr, hv.other, hv.mux, hv.req, hv.excl⟩

theorem keyView_run (cfg : Cfg) (reqs : Tid → Req) (k : Key) (as : List Act) :
    ∀ g h, KeyView reqs k g h →
      KeyView reqs k ((sys cfg).run g as) ((sys cfg).run h (restrictK cfg reqs k g as)) := by
  induction as with
  | nil => intro g h hv; exact hv
  | cons a as ih =>
    intro g h hv
    simp only [restrictK, run_cons, run_append]
    apply ih
    cases a with
    | tick d => exact keyView_tick hv d
    | gc => exact keyView_gc hv
    | thr t =>
      cases hs : stepThr cfg g t with
      | none => simpa [System.next, sys, step, hs] using hv
      | some g' =>
        by_cases hk : (reqs t).key = k
        · obtain ⟨h', hs', hv'⟩ := keyView_same cfg hv hk hs
          simpa [System.next, sys, step, hs, hk, hs'] using hv'
        · simpa [System.next, sys, step, hs, hk] using keyView_other cfg hv hk hs

/-- **key_trace_independent.** For EVERY schedule `as` (any interleaving of any number of requests of any
keys, clock ticks, backend collections) and every key `k`: run the schedule restricted to `k` — the
actions of other keys' requests deleted, as well as the picks of a request that could not move at that
moment (waiting for the shared `mux`; a stutter) — from the same initial state. The two runs agree on
everything key `k` can observe: the clock, `k`'s backend entry, and the complete record of every request
of `k` (program point, item, `resetInSec` = Retry-After / X-RateLimit-Reset, `remaining`, window end,
TTL, handler-ran flag); the mutex is held by the same request of `k` or, where another key's request
held it, free; the other keys' requests have never moved. As this holds for every prefix of the
schedule (`restrictK_append`), the whole sub-trace of `k` — every decision, `remaining`, Retry-After —
is the trace `k` would have produced alone: other keys influence it only by making it wait. -/
theorem key_trace_independent (cfg : Cfg) (reqs : Tid → Req) (t0 : Nat) (k : Key) (as : List Act) :
    let g := (sys cfg).run (init reqs t0) as
    let h := (sys cfg).run (init reqs t0) (restrictK cfg reqs k (init reqs t0) as)
    h.now = g.now ∧ h.store k = g.store k ∧
    (∀ t, (reqs t).key = k → h.threads t = g.threads t) ∧
    (∀ t, (reqs t).key ≠ k → (h.threads t).pc = .idle) ∧
    h.mux = muxK reqs k g.mux := by
  have hv := keyView_run cfg reqs k as _ _ (keyView_init reqs k t0)
  exact ⟨hv.now, hv.store, hv.thr, fun t ht => by rw [hv.other t ht], hv.mux⟩

/-- the restriction is computed prefix by prefix -/
theorem restrictK_append (cfg : Cfg) (reqs : Tid → Req) (k : Key) (as bs : List Act) (g : G) :
    restrictK cfg reqs k g (as ++ bs) =
      restrictK cfg reqs k g as ++ restrictK cfg reqs k ((sys cfg).run g as) bs := by
  induction as generalizing g with
  | nil => rfl
  | cons a as ih => simp [restrictK, ih, List.append_assoc]

/-- the restricted schedule is a sub-schedule, and contains only actions of `k`'s requests (and ticks / gc) -/
theorem restrictK_sublist (cfg : Cfg) (reqs : Tid → Req) (k : Key) (as : List Act) (g : G) :
    (restrictK cfg reqs k g as).Sublist as ∧
    ∀ t, Act.thr t ∈ restrictK cfg reqs k g as → (reqs t).key = k := by
  induction as generalizing g with
  | nil => exact ⟨List.Sublist.refl _, fun _ h => by simp [restrictK] at h⟩
  | cons a as ih =>
    obtain ⟨i1, i2⟩ := ih ((sys cfg).next g a)
    cases a with
    | tick d =>
      refine ⟨by simpa [restrictK] using i1, fun t ht => ?_⟩
      simp [restrictK] at ht; exact i2 t ht
    | gc =>
      refine ⟨by simpa [restrictK] using i1, fun t ht => ?_⟩
      simp [restrictK] at ht; exact i2 t ht
    | thr u =>
      by_cases hc : (reqs u).key = k ∧ (stepThr cfg g u).isSome = true
      · refine ⟨by simpa [restrictK, hc] using i1, fun t ht => ?_⟩
        simp [restrictK, hc] at ht
        rcases ht with rfl | ht
        · exact hc.1
        · exact i2 t ht
      · refine ⟨by simp only [restrictK, if_neg hc, List.nil_append]; exact List.Sublist.cons _ i1, fun t ht => ?_⟩
        simp only [restrictK, if_neg hc, List.nil_append] at ht
        exact i2 t ht

/-- in particular: deleting the requests of all other keys from the configuration (they never arrive)
changes nothing for `k` — a request's answer is a function of its own key's history -/
theorem key_outcome_alone (cfg : Cfg) (reqs : Tid → Req) (t0 : Nat) (k : Key) (as : List Act) (t : Tid)
    (hk : (reqs t).key = k) :
    (((sys cfg).run (init reqs t0) (restrictK cfg reqs k (init reqs t0) as)).threads t) =
      (((sys cfg).run (init reqs t0) as).threads t) :=
  (key_trace_independent cfg reqs t0 k as).2.2.1 t hk

section ExamplesTrace
/-- keys 0 and 1, limit 1 each, fixed window of 2 s: thread 0 (key 0) and thread 1 (key 1) interleave at the
mutex — thread 1 is picked twice while thread 0 holds it (stutters) —, thread 1 finishes, then thread 2
(key 0) is rejected with Retry-After 1.
The schedule restricted to key 0 keeps exactly the moves of threads 0 and 2 and the tick. -/
def trCfg : Cfg := ⟨false, false, 2, false, false, fun _ _ _ => 0⟩
def trReqs : Tid → Req := fun t => if t = 1 then ⟨1, 1, 200, false⟩ else ⟨0, 1, 200, false⟩
def trSched : List Act :=
  [.thr 0, .thr 1, .thr 0, .thr 1, .thr 1, .thr 0, .thr 0, .thr 0, .thr 0, .thr 1, .tick 1, .thr 0] ++
  List.replicate 6 (.thr 1) ++ List.replicate 6 (.thr 2)

example : restrictK trCfg trReqs 0 (init trReqs 100) trSched =
    [.thr 0, .thr 0, .thr 0, .thr 0, .thr 0, .thr 0, .tick 1, .thr 0] ++ List.replicate 6 (.thr 2) := by rfl

example : let g := (sys trCfg).run (init trReqs 100) trSched
    (g.threads 0).pc = .doneOk ∧ (g.threads 1).pc = .doneOk ∧ (g.threads 2).pc = .rejected ∧
    (g.threads 2).reset = 1 := by decide
end ExamplesTrace

end C13
