import FiberModel.C13.Decide
/-
C13 — invariants that tie the handler's locals to the *real* sets of counted requests (no reference
to the ghost state in the final statements), and the per-window bound of the fixed window for every
window, open or closed.
-/
namespace C13
open Conc Spec

/-! ### between the clock read and the unlock: the locals describe the open window -/

/-- what is weighed against the limit, with the time until the window ends given explicitly -/
def loadAt (cfg : Cfg) (w : Win) (reset : Nat) : Int :=
  if cfg.sliding then cfg.wt w.prev.length reset cfg.expiration + w.cur.length else w.cur.length

theorem load_eq_loadAt (cfg : Cfg) (w : Win) (now : Nat) : load cfg w now = loadAt cfg w (w.wend - now) := rfl

/-- while a request sits between its clock read and `mux.Unlock()`, the abstract window of its key is
the one it was counted in, and `remaining` is its limit minus that window's load -/
def IOpen (cfg : Cfg) (p : PS) : Prop :=
  ∀ t, ((p.g.threads t).pc = .atSet ∨ (p.g.threads t).pc = .atUnlock) →
    ∃ w, p.s (p.g.threads t).req.key = some w ∧ w.wend = (p.g.threads t).wexp ∧
      (p.g.threads t).remaining = (p.g.threads t).req.max - loadAt cfg w (p.g.threads t).reset

/-- `resetInSec` of a counted request lies in `1 … expiration` -/
def IReset (cfg : Cfg) (p : PS) : Prop :=
  ∀ t, hitDone (p.g.threads t).pc = true →
    1 ≤ (p.g.threads t).reset ∧ (p.g.threads t).reset ≤ cfg.expiration ∧
      (p.g.threads t).reset ≤ (p.g.threads t).wexp

theorem iopen_init (cfg : Cfg) (reqs : Tid → Req) (t0 : Nat) : IOpen cfg (pinit reqs t0) := by
  intro t hp; simp [pinit, init] at hp

theorem ireset_init (cfg : Cfg) (reqs : Tid → Req) (t0 : Nat) : IReset cfg (pinit reqs t0) := by
  intro t hp; simp [pinit, init] at hp

theorem iopen_quiet {cfg : Cfg} {p : PS} {g' : G} {t : Tid} (ho : IOpen cfg p)
    (hoth : ∀ t', t' ≠ t → g'.threads t' = p.g.threads t')
    (hkeep : ((g'.threads t).pc = .atSet ∨ (g'.threads t).pc = .atUnlock) →
      ((p.g.threads t).pc = .atSet ∨ (p.g.threads t).pc = .atUnlock) ∧
      (g'.threads t).req = (p.g.threads t).req ∧ (g'.threads t).wexp = (p.g.threads t).wexp ∧
      (g'.threads t).reset = (p.g.threads t).reset ∧ (g'.threads t).remaining = (p.g.threads t).remaining) :
    IOpen cfg ⟨g', p.s, p.dec⟩ := by
  intro t' hp
  by_cases h : t' = t
  · subst h
    obtain ⟨h0, h1, h2, h3, h4⟩ := hkeep hp
    show ∃ w, p.s (g'.threads t').req.key = some w ∧ w.wend = (g'.threads t').wexp ∧
      (g'.threads t').remaining = (g'.threads t').req.max - loadAt cfg w (g'.threads t').reset
    rw [h1, h2, h3, h4]
    exact ho t' h0
  · show ∃ w, p.s (g'.threads t').req.key = some w ∧ w.wend = (g'.threads t').wexp ∧
      (g'.threads t').remaining = (g'.threads t').req.max - loadAt cfg w (g'.threads t').reset
    have hp' : (g'.threads t').pc = .atSet ∨ (g'.threads t').pc = .atUnlock := hp
    rw [hoth t' h] at hp' ⊢
    exact ho t' hp'

theorem ireset_quiet {cfg : Cfg} {p : PS} {g' : G} {t : Tid} {s' : Spec.State} {d' : Tid → Option Spec.Expect}
    (hr : IReset cfg p)
    (hoth : ∀ t', t' ≠ t → g'.threads t' = p.g.threads t')
    (hkeep : hitDone (g'.threads t).pc = true →
      hitDone (p.g.threads t).pc = true ∧ (g'.threads t).wexp = (p.g.threads t).wexp ∧
      (g'.threads t).reset = (p.g.threads t).reset) :
    IReset cfg ⟨g', s', d'⟩ := by
  intro t' hp
  by_cases h : t' = t
  · subst h
    obtain ⟨h0, h1, h2⟩ := hkeep hp
    show 1 ≤ (g'.threads t').reset ∧ (g'.threads t').reset ≤ cfg.expiration ∧ (g'.threads t').reset ≤ (g'.threads t').wexp
    rw [h1, h2]; exact hr t' h0
  · show 1 ≤ (g'.threads t').reset ∧ (g'.threads t').reset ≤ cfg.expiration ∧ (g'.threads t').reset ≤ (g'.threads t').wexp
    have hp' : hitDone (g'.threads t').pc = true := hp
    rw [hoth t' h] at hp' ⊢
    exact hr t' hp'

theorem ireset_step (cfg : Cfg) (hE : 1 ≤ cfg.expiration) (reqs : Tid → Req) {p p' : PS} {a : Act}
    (hi : Inv cfg reqs p) (hr : IReset cfg p) (hs : pstep cfg p a = some p') : IReset cfg p' := by
  cases a with
  | tick d => rw [pstep_tick hs]; exact hr
  | gc => rw [pstep_gc hs]; exact hr
  | thr t =>
    obtain ⟨g', s', d'⟩ := p'
    obtain ⟨hraw, hst, rfl, rfl⟩ := pstep_thr hs
    cases hst with
    | ts hpc =>
      obtain ⟨hu1, hu2, _, _, _⟩ := upd_refines cfg hE t (hi.loc t (.inl hpc))
      intro t' hp
      by_cases h : t' = t
      · subst h
        simp only [setThread_threads_same]
        omega
      · simp only [setThread_threads_ne _ _ h] at hp ⊢
        exact hr t' hp
    | unlock hpc =>
      refine ireset_quiet (t := t) hr (fun t' h => by simp [setThread_threads_ne _ _ h]) ?_
      intro _; simp [hpc]
    | arriveBypass hpc hb => exact ireset_quiet (t := t) hr (fun t' h => by simp [setThread_threads_ne _ _ h]) (by simp)
    | arrive hpc hb => exact ireset_quiet (t := t) hr (fun t' h => by simp [setThread_threads_ne _ _ h]) (by simp)
    | lock hpc hm => exact ireset_quiet (t := t) hr (fun t' h => by simp [setThread_threads_ne _ _ h]) (by simp)
    | get hpc => exact ireset_quiet (t := t) hr (fun t' h => by simp [setThread_threads_ne _ _ h]) (by simp)
    | set hpc => exact ireset_quiet (t := t) hr (fun t' h => by simp [setThread_threads_ne _ _ h]) (by simp [hpc])
    | handlerBypass hpc => exact ireset_quiet (t := t) hr (fun t' h => by simp [setThread_threads_ne _ _ h]) (by simp)
    | handlerSkip hpc hk => exact ireset_quiet (t := t) hr (fun t' h => by simp [setThread_threads_ne _ _ h]) (by simp [hpc])
    | handlerDone hpc hk => exact ireset_quiet (t := t) hr (fun t' h => by simp [setThread_threads_ne _ _ h]) (by simp [hpc])
    | lock2 hpc hm => exact ireset_quiet (t := t) hr (fun t' h => by simp [setThread_threads_ne _ _ h]) (by simp [hpc])
    | get2 hpc => exact ireset_quiet (t := t) hr (fun t' h => by simp [setThread_threads_ne _ _ h]) (by simp [hpc])
    | ts2Some hpc e' ttl hu => exact ireset_quiet (t := t) hr (fun t' h => by simp [setThread_threads_ne _ _ h]) (by simp [hpc])
    | ts2None hpc hu => exact ireset_quiet (t := t) hr (fun t' h => by simp [setThread_threads_ne _ _ h]) (by simp [hpc])
    | set2 hpc => exact ireset_quiet (t := t) hr (fun t' h => by simp [setThread_threads_ne _ _ h]) (by simp [hpc])
    | unlock2 hpc => exact ireset_quiet (t := t) hr (fun t' h => by simp [setThread_threads_ne _ _ h]) (by simp [hpc])

/-- while `t` is inside a critical section no other thread sits between clock read and unlock -/
theorem iopen_other_crit {cfg : Cfg} {p : PS} {g' : G} {t : Tid} {s' : Spec.State} {d' : Tid → Option Spec.Expect}
    (hex : Excl p.g) (hc : crit (p.g.threads t).pc = true)
    (hoth : ∀ t', t' ≠ t → g'.threads t' = p.g.threads t')
    (hself : ((g'.threads t).pc = .atSet ∨ (g'.threads t).pc = .atUnlock) →
      ∃ w, s' (g'.threads t).req.key = some w ∧ w.wend = (g'.threads t).wexp ∧
        (g'.threads t).remaining = (g'.threads t).req.max - loadAt cfg w (g'.threads t).reset) :
    IOpen cfg ⟨g', s', d'⟩ := by
  intro t' hp
  by_cases h : t' = t
  · subst h; exact hself hp
  · exfalso
    have hp' : (g'.threads t').pc = .atSet ∨ (g'.threads t').pc = .atUnlock := hp
    rw [hoth t' h] at hp'
    have := not_crit_of_other hex hc h
    rcases hp' with hp' | hp' <;> simp [hp'] at this

theorem iopen_step (cfg : Cfg) (hE : 1 ≤ cfg.expiration) (reqs : Tid → Req) {p p' : PS} {a : Act}
    (hi : Inv cfg reqs p) (ho : IOpen cfg p) (hs : pstep cfg p a = some p') : IOpen cfg p' := by
  cases a with
  | tick d => rw [pstep_tick hs]; exact ho
  | gc => rw [pstep_gc hs]; exact ho
  | thr t =>
    obtain ⟨g', s', d'⟩ := p'
    obtain ⟨hraw, hst, rfl, rfl⟩ := pstep_thr hs
    cases hst with
    | ts hpc =>
      obtain ⟨hu1, hu2, hu3, hu4, hu5⟩ := upd_refines cfg hE t (hi.loc t (.inl hpc))
      have hrl := rate_eq_load cfg (now := p.g.now) hu3 hu4 hu5
      refine iopen_other_crit (t := t) hi.excl (by simp [hpc]) (fun t' h => by simp [setThread_threads_ne _ _ h]) ?_
      intro _
      simp only [setThread_threads_same]
      refine ⟨_, by rw [ghost_ts hpc]; simp, hu3, ?_⟩
      rw [hrl, load_eq_loadAt, hu3]
    | ts2Some hpc e' ttl hu =>
      exact iopen_other_crit (t := t) hi.excl (by simp [hpc]) (fun t' h => by simp [setThread_threads_ne _ _ h]) (by simp)
    | ts2None hpc hu =>
      exact iopen_other_crit (t := t) hi.excl (by simp [hpc]) (fun t' h => by simp [setThread_threads_ne _ _ h]) (by simp)
    | arriveBypass hpc hb =>
      rw [ghost_other (by simp [hpc]) (by simp [hpc])]
      exact iopen_quiet (t := t) ho (fun t' h => by simp [setThread_threads_ne _ _ h]) (by simp)
    | arrive hpc hb =>
      rw [ghost_other (by simp [hpc]) (by simp [hpc])]
      exact iopen_quiet (t := t) ho (fun t' h => by simp [setThread_threads_ne _ _ h]) (by simp)
    | lock hpc hm =>
      rw [ghost_other (by simp [hpc]) (by simp [hpc])]
      exact iopen_quiet (t := t) ho (fun t' h => by simp [setThread_threads_ne _ _ h]) (by simp)
    | get hpc =>
      rw [ghost_other (by simp [hpc]) (by simp [hpc])]
      exact iopen_quiet (t := t) ho (fun t' h => by simp [setThread_threads_ne _ _ h]) (by simp)
    | set hpc =>
      rw [ghost_other (by simp [hpc]) (by simp [hpc])]
      exact iopen_quiet (t := t) ho (fun t' h => by simp [setThread_threads_ne _ _ h]) (by simp [hpc])
    | unlock hpc =>
      rw [ghost_other (by simp [hpc]) (by simp [hpc])]
      refine iopen_quiet (t := t) ho (fun t' h => by simp [setThread_threads_ne _ _ h]) ?_
      by_cases hr : (p.g.threads t).remaining < 0 <;> simp [hr]
    | handlerBypass hpc =>
      rw [ghost_other (by simp [hpc]) (by simp [hpc])]
      exact iopen_quiet (t := t) ho (fun t' h => by simp [setThread_threads_ne _ _ h]) (by simp)
    | handlerSkip hpc hk =>
      rw [ghost_other (by simp [hpc]) (by simp [hpc])]
      exact iopen_quiet (t := t) ho (fun t' h => by simp [setThread_threads_ne _ _ h]) (by simp)
    | handlerDone hpc hk =>
      rw [ghost_other (by simp [hpc]) (by simp [hpc])]
      exact iopen_quiet (t := t) ho (fun t' h => by simp [setThread_threads_ne _ _ h]) (by simp)
    | lock2 hpc hm =>
      rw [ghost_other (by simp [hpc]) (by simp [hpc])]
      exact iopen_quiet (t := t) ho (fun t' h => by simp [setThread_threads_ne _ _ h]) (by simp)
    | get2 hpc =>
      rw [ghost_other (by simp [hpc]) (by simp [hpc])]
      exact iopen_quiet (t := t) ho (fun t' h => by simp [setThread_threads_ne _ _ h]) (by simp)
    | set2 hpc =>
      rw [ghost_other (by simp [hpc]) (by simp [hpc])]
      exact iopen_quiet (t := t) ho (fun t' h => by simp [setThread_threads_ne _ _ h]) (by simp)
    | unlock2 hpc =>
      rw [ghost_other (by simp [hpc]) (by simp [hpc])]
      exact iopen_quiet (t := t) ho (fun t' h => by simp [setThread_threads_ne _ _ h]) (by simp)

/-! ### everything proved invariant, in one bundle -/

structure All (cfg : Cfg) (reqs : Tid → Req) (p : PS) : Prop where
  inv : Inv cfg reqs p
  dec : IDec p
  suf : ISuf cfg p
  opn : IOpen cfg p
  rst : IReset cfg p

theorem all_step (cfg : Cfg) (hE : 1 ≤ cfg.expiration) (reqs : Tid → Req) {p p' : PS} {a : Act}
    (ha : All cfg reqs p) (hs : pstep cfg p a = some p') : All cfg reqs p' :=
  ⟨inv_step cfg hE reqs ha.inv hs, idec_step cfg hE reqs ha.inv ha.dec hs, isuf_step cfg reqs ha.inv ha.suf hs,
   iopen_step cfg hE reqs ha.inv ha.opn hs, ireset_step cfg hE reqs ha.inv ha.rst hs⟩

theorem all_reach (cfg : Cfg) (hE : 1 ≤ cfg.expiration) (reqs : Tid → Req) (t0 : Nat) {p : PS}
    (h : (psys cfg).Reach (pinit reqs t0) p) : All cfg reqs p :=
  Conc.inv_reach (psys cfg) (All cfg reqs) (fun _ _ _ ha hs => all_step cfg hE reqs ha hs)
    ⟨inv_init cfg reqs t0, idec_init reqs t0, isuf_init cfg reqs t0, iopen_init cfg reqs t0, ireset_init cfg reqs t0⟩ h

/-- every reachable state of the model is the projection of a reachable state of the product -/
theorem reach_lift (cfg : Cfg) (reqs : Tid → Req) (t0 : Nat) {g : G} (h : (sys cfg).Reach (init reqs t0) g) :
    ∃ p, (psys cfg).Reach (pinit reqs t0) p ∧ p.g = g := by
  obtain ⟨as, rfl⟩ := h
  exact ⟨(psys cfg).run (pinit reqs t0) as, ⟨as, rfl⟩, psys_run_g cfg (pinit reqs t0) as⟩

/-! ### fixed window: the bound holds for every window, open or closed -/

theorem nodup_length_le_of_subset {l l2 : List Tid} (hnd : l.Nodup) (hsub : ∀ t ∈ l, t ∈ l2) :
    l.length ≤ l2.length := by
  induction l generalizing l2 with
  | nil => simp
  | cons a l' ih =>
    have ha : a ∈ l2 := hsub a (List.mem_cons_self)
    have hnd' := List.nodup_cons.1 hnd
    have hsub' : ∀ t ∈ l', t ∈ l2.erase a := fun t ht =>
      (List.mem_erase_of_ne (fun (h : t = a) => hnd'.1 (by rw [← h]; exact ht))).2 (hsub t (List.mem_cons_of_mem a ht))
    have h1 := ih hnd'.2 hsub'
    have h2 := List.length_erase_of_mem ha
    have h3 := List.length_pos_of_mem ha
    simp only [List.length_cons]
    omega

/-- the request passed the limiter, counted in the window of key `k` that ends at `W`, and its hit
has not been taken back by a skip option -/
def holdsSlot (cfg : Cfg) (th : Thread) (k : Key) (W : Nat) : Prop :=
  th.req.key = k ∧ th.wexp = W ∧ admittedPc th.pc = true ∧ counted cfg th = true

theorem open_window_bound (cfg : Cfg) (hfix : cfg.sliding = false) (reqs : Tid → Req) (M : Nat) (k : Key)
    (hM : ∀ t, (reqs t).key = k → (reqs t).max ≤ (M : Int)) {p : PS} (ha : All cfg reqs p) (w : Win)
    (hw : p.s k = some w) :
    (w.cur.filter fun t => admittedPc (p.g.threads t).pc).length ≤ M := by
  apply filter_len_le_of_suffix_bound
  intro t rest hsuf hadm
  have hhd : hitDone (p.g.threads t).pc = true := by
    revert hadm; cases (p.g.threads t).pc <;> simp [admittedPc]
  obtain ⟨x, h1, h2, _, _, _, h6, _⟩ := ha.dec t hhd
  have := ha.suf hfix k w hw t rest hsuf x h1 (h6 hadm)
  have hkey : (reqs t).key = k := by
    have := (((ha.inv.mem k w hw).2.2.1 t).1 (List.IsSuffix.mem (List.mem_cons_self) hsuf)).2.1
    rwa [ha.inv.req t] at this
  have := hM t hkey
  rw [ha.inv.req t] at h2
  omega

/-- a request that holds a slot after a step held it before, unless its window is the open one -/
theorem slot_back (cfg : Cfg) (reqs : Tid → Req) {p p' : PS} {a : Act} (ha : All cfg reqs p)
    (hs : pstep cfg p a = some p') (t' : Tid) (k : Key) (W : Nat) (hv : holdsSlot cfg (p'.g.threads t') k W) :
    holdsSlot cfg (p.g.threads t') k W ∨ ∃ w, p'.s k = some w ∧ w.wend = W := by
  cases a with
  | tick d => rw [pstep_tick hs] at hv; exact .inl hv
  | gc => rw [pstep_gc hs] at hv; exact .inl hv
  | thr t =>
    obtain ⟨g', s', d'⟩ := p'
    obtain ⟨hraw, hst, rfl, rfl⟩ := pstep_thr hs
    by_cases h : t' = t
    · subst h
      obtain ⟨hk, hW, hadm, hcnt⟩ := hv
      cases hst with
      | unlock hpc =>
        right
        obtain ⟨w, hw1, hw2, _⟩ := ha.opn t' (.inr hpc)
        rw [ghost_other (by simp [hpc]) (by simp [hpc])]
        simp only [setThread_threads_same] at hk hW
        exact ⟨w, by rw [← hk]; exact hw1, by rw [hw2, hW]⟩
      | unlock2 hpc =>
        exfalso
        have hsk := ha.inv.sec t' (by simp [hpc])
        simp [counted, unhitDone, hsk] at hcnt
      | handlerSkip hpc hk' =>
        left
        simp only [setThread_threads_same] at hk hW
        exact ⟨hk, hW, by simp [hpc, admittedPc], by simp [counted, unhitDone, hpc]⟩
      | handlerDone hpc hk' =>
        left
        simp only [setThread_threads_same] at hk hW
        exact ⟨hk, hW, by simp [hpc, admittedPc], by simp [counted, unhitDone, hpc]⟩
      | lock2 hpc hm =>
        left
        simp only [setThread_threads_same] at hk hW
        exact ⟨hk, hW, by simp [hpc, admittedPc], by simp [counted, unhitDone, hpc]⟩
      | get2 hpc =>
        left
        simp only [setThread_threads_same] at hk hW
        exact ⟨hk, hW, by simp [hpc, admittedPc], by simp [counted, unhitDone, hpc]⟩
      | ts hpc => simp [admittedPc] at hadm
      | set hpc => simp [admittedPc] at hadm
      | arriveBypass hpc hb => simp [admittedPc] at hadm
      | arrive hpc hb => simp [admittedPc] at hadm
      | lock hpc hm => simp [admittedPc] at hadm
      | get hpc => simp [admittedPc] at hadm
      | handlerBypass hpc => simp [admittedPc] at hadm
      | ts2Some hpc e' ttl hu => simp [counted, unhitDone] at hcnt
      | ts2None hpc hu => simp [counted, unhitDone] at hcnt
      | set2 hpc => simp [counted, unhitDone] at hcnt
    · left
      have : g'.threads t' = p.g.threads t' := by
        cases hst <;> simp [setThread_threads_ne _ _ h]
      rw [this] at hv
      exact hv

/-- at most `M` requests hold a slot of any one window of key `k` -/
def IBound (cfg : Cfg) (M : Nat) (k : Key) (p : PS) : Prop :=
  ∀ W (l : List Tid), l.Nodup → (∀ t ∈ l, holdsSlot cfg (p.g.threads t) k W) → l.length ≤ M

theorem ibound_reach (cfg : Cfg) (hfix : cfg.sliding = false) (hE : 1 ≤ cfg.expiration) (reqs : Tid → Req) (t0 : Nat)
    (M : Nat) (k : Key) (hM : ∀ t, (reqs t).key = k → (reqs t).max ≤ (M : Int)) {p : PS}
    (h : (psys cfg).Reach (pinit reqs t0) p) : IBound cfg M k p := by
  refine Conc.reach_induction (psys cfg) (IBound cfg M k) ?_ ?_ p h
  · intro W l _ hl
    cases l with
    | nil => simp
    | cons a l' =>
      have := (hl a (List.mem_cons_self)).2.2.1
      simp [pinit, init, admittedPc] at this
  · intro p a p' hr hb hs W l hnd hl
    have ha := all_reach cfg hE reqs t0 hr
    have ha' := all_step cfg hE reqs ha hs
    by_cases hopen : ∃ w, p'.s k = some w ∧ w.wend = W
    · obtain ⟨w, hw, hwW⟩ := hopen
      have hsub : ∀ t ∈ l, t ∈ w.cur.filter fun t => admittedPc (p'.g.threads t).pc := by
        intro t ht
        obtain ⟨h1, h2, h3, h4⟩ := hl t ht
        rw [List.mem_filter]
        exact ⟨((ha'.inv.mem k w hw).2.2.1 t).2 ⟨h4, h1, by rw [h2, hwW]⟩, h3⟩
      exact Nat.le_trans (nodup_length_le_of_subset hnd hsub) (open_window_bound cfg hfix reqs M k hM ha' w hw)
    · apply hb W l hnd
      intro t ht
      rcases slot_back cfg reqs ha hs t k W (hl t ht) with h1 | h1
      · exact h1
      · exact absurd h1 hopen

/-! ### the downstream handler runs only for requests that passed the limiter (or bypass it) -/

def IRan (g : G) : Prop :=
  ∀ t, ((g.threads t).ran = true →
          (g.threads t).pc = .doneBypass ∨ (admittedPc (g.threads t).pc = true ∧ (g.threads t).pc ≠ .atHandler)) ∧
       (((g.threads t).pc = .atHandlerB ∨ (g.threads t).pc = .doneBypass) →
          ((g.threads t).req.next = true ∨ (g.threads t).req.max = 0)) ∧
       (((g.threads t).pc = .doneOk ∨ (g.threads t).pc = .doneBypass ∨ sec2 (g.threads t).pc = true) →
          (g.threads t).ran = true)

theorem iran_init (reqs : Tid → Req) (t0 : Nat) : IRan (init reqs t0) := by
  intro t; simp [init]

theorem iran_step (cfg : Cfg) {g g' : G} {a : Act} (hi : IRan g) (hs : step cfg g a = some g') : IRan g' := by
  cases a with
  | tick d => simp [step] at hs; subst hs; exact hi
  | gc => simp [step, gcStore] at hs; subst hs; exact hi
  | thr t =>
    intro t'
    have hmine := hi t
    have hother := hi t'
    by_cases htt : t' = t
    · subst htt
      cases step_of_stepThr cfg hs <;> simp_all [admittedPc]
      by_cases hr : (g.threads t').remaining < 0 <;> simp [hr]
    · cases step_of_stepThr cfg hs <;> simp_all [setThread_threads_ne]

theorem iran_reach (cfg : Cfg) (reqs : Tid → Req) (t0 : Nat) {g : G} (h : (sys cfg).Reach (init reqs t0) g) : IRan g :=
  Conc.inv_reach (sys cfg) IRan (fun _ _ _ hi hs => iran_step cfg hi hs) (iran_init reqs t0) h

end C13
