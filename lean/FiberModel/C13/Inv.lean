import FiberModel.C13.Refine
/-
C13 — the refinement invariant of the product system and its preservation by every step.
-/
namespace C13
open Conc Spec

/-- the request has been counted (its first critical section passed the clock read) -/
def hitDone : Pc → Bool
  | .idle => false
  | .wantLock => false
  | .atGet => false
  | .atTs => false
  | .atSet => true
  | .atUnlock => true
  | .atHandler => true
  | .atHandlerB => false
  | .wantLock2 => true
  | .atGet2 => true
  | .atTs2 => true
  | .atSet2 => true
  | .atUnlock2 => true
  | .rejected => true
  | .doneOk => true
  | .doneBypass => false

@[simp] theorem hitDone_idle : hitDone .idle = false := rfl
@[simp] theorem hitDone_wantLock : hitDone .wantLock = false := rfl
@[simp] theorem hitDone_atGet : hitDone .atGet = false := rfl
@[simp] theorem hitDone_atTs : hitDone .atTs = false := rfl
@[simp] theorem hitDone_atSet : hitDone .atSet = true := rfl
@[simp] theorem hitDone_atUnlock : hitDone .atUnlock = true := rfl
@[simp] theorem hitDone_atHandler : hitDone .atHandler = true := rfl
@[simp] theorem hitDone_atHandlerB : hitDone .atHandlerB = false := rfl
@[simp] theorem hitDone_wantLock2 : hitDone .wantLock2 = true := rfl
@[simp] theorem hitDone_atGet2 : hitDone .atGet2 = true := rfl
@[simp] theorem hitDone_atTs2 : hitDone .atTs2 = true := rfl
@[simp] theorem hitDone_atSet2 : hitDone .atSet2 = true := rfl
@[simp] theorem hitDone_atUnlock2 : hitDone .atUnlock2 = true := rfl
@[simp] theorem hitDone_rejected : hitDone .rejected = true := rfl
@[simp] theorem hitDone_doneOk : hitDone .doneOk = true := rfl
@[simp] theorem hitDone_doneBypass : hitDone .doneBypass = false := rfl

/-- the request is in the skip branch (second critical section) -/
def sec2 : Pc → Bool
  | .idle => false
  | .wantLock => false
  | .atGet => false
  | .atTs => false
  | .atSet => false
  | .atUnlock => false
  | .atHandler => false
  | .atHandlerB => false
  | .wantLock2 => true
  | .atGet2 => true
  | .atTs2 => true
  | .atSet2 => true
  | .atUnlock2 => true
  | .rejected => false
  | .doneOk => false
  | .doneBypass => false

@[simp] theorem sec2_idle : sec2 .idle = false := rfl
@[simp] theorem sec2_wantLock : sec2 .wantLock = false := rfl
@[simp] theorem sec2_atGet : sec2 .atGet = false := rfl
@[simp] theorem sec2_atTs : sec2 .atTs = false := rfl
@[simp] theorem sec2_atSet : sec2 .atSet = false := rfl
@[simp] theorem sec2_atUnlock : sec2 .atUnlock = false := rfl
@[simp] theorem sec2_atHandler : sec2 .atHandler = false := rfl
@[simp] theorem sec2_atHandlerB : sec2 .atHandlerB = false := rfl
@[simp] theorem sec2_wantLock2 : sec2 .wantLock2 = true := rfl
@[simp] theorem sec2_atGet2 : sec2 .atGet2 = true := rfl
@[simp] theorem sec2_atTs2 : sec2 .atTs2 = true := rfl
@[simp] theorem sec2_atSet2 : sec2 .atSet2 = true := rfl
@[simp] theorem sec2_atUnlock2 : sec2 .atUnlock2 = true := rfl
@[simp] theorem sec2_rejected : sec2 .rejected = false := rfl
@[simp] theorem sec2_doneOk : sec2 .doneOk = false := rfl
@[simp] theorem sec2_doneBypass : sec2 .doneBypass = false := rfl

/-- the request has been taken back (or the skip branch decided there was nothing to take back) -/
def unhitDone (cfg : Cfg) (th : Thread) : Bool :=
  match th.pc with
  | .atSet2 | .atUnlock2 => true
  | .doneOk => skipCond cfg th.req.status
  | _ => false

/-- the request is counted at this moment -/
def counted (cfg : Cfg) (th : Thread) : Bool := hitDone th.pc && !unhitDone cfg th

/-! ### the invariant -/

/-- requests never change -/
def IReq (reqs : Tid → Req) (p : PS) : Prop := ∀ t, (p.g.threads t).req = reqs t

/-- no thread is between computing an update and writing it for key `k` -/
def Clean (g : G) (k : Key) : Prop :=
  ∀ t, (g.threads t).req.key = k → (g.threads t).pc ≠ .atSet ∧ (g.threads t).pc ≠ .atSet2

/-- backend and abstract counters agree wherever no write is pending -/
def IStore (cfg : Cfg) (p : PS) : Prop :=
  ∀ k, Clean p.g k → RStore cfg (p.g.store k) (p.s k) p.g.now

/-- the item a thread holds between `get` and the decision agrees with the abstract counter -/
def ILocal (cfg : Cfg) (p : PS) : Prop :=
  ∀ t, ((p.g.threads t).pc = .atTs ∨ (p.g.threads t).pc = .atTs2) →
    RItem cfg (p.g.threads t).e (p.s (p.g.threads t).req.key) p.g.now

/-- a pending write agrees with the abstract counter and will be kept long enough -/
def IPending (cfg : Cfg) (p : PS) : Prop :=
  ∀ t, ((p.g.threads t).pc = .atSet ∨ (p.g.threads t).pc = .atSet2) →
    (p.g.threads t).e.exp ≠ 0 ∧ (p.g.threads t).e.exp + gap cfg ≤ p.g.now + (p.g.threads t).ttl ∧
    RItem cfg (p.g.threads t).e (p.s (p.g.threads t).req.key) p.g.now

/-- only requests whose status triggers a skip option enter the second critical section -/
def ISec2 (cfg : Cfg) (p : PS) : Prop :=
  ∀ t, sec2 (p.g.threads t).pc = true → skipCond cfg (p.g.threads t).req.status = true

/-- a counted request remembers a window end that is not later than its key's abstract window -/
def IHit (p : PS) : Prop :=
  ∀ t, hitDone (p.g.threads t).pc = true →
    (p.g.threads t).wexp ≠ 0 ∧ ∃ w, p.s (p.g.threads t).req.key = some w ∧ (p.g.threads t).wexp ≤ w.wend

/-- the abstract lists are exactly the counted requests of the window (and the one before) -/
def IMem (cfg : Cfg) (p : PS) : Prop :=
  ∀ k w, p.s k = some w → w.cur.Nodup ∧ w.prev.Nodup ∧
    (∀ t, t ∈ w.cur ↔ (counted cfg (p.g.threads t) = true ∧ (p.g.threads t).req.key = k ∧ (p.g.threads t).wexp = w.wend)) ∧
    (∀ t, t ∈ w.prev ↔ (cfg.sliding = true ∧ counted cfg (p.g.threads t) = true ∧ (p.g.threads t).req.key = k ∧
                         (p.g.threads t).wexp + cfg.expiration = w.wend))

structure Inv (cfg : Cfg) (reqs : Tid → Req) (p : PS) : Prop where
  excl : Excl p.g
  req : IReq reqs p
  store : IStore cfg p
  loc : ILocal cfg p
  pending : IPending cfg p
  sec : ISec2 cfg p
  hit : IHit p
  mem : IMem cfg p

/-! ### how a step of the product decomposes -/

theorem pstep_thr {cfg : Cfg} {p : PS} {t : Tid} {g' : G} {s' : Spec.State} {d' : Tid → Option Spec.Expect}
    (h : pstep cfg p (.thr t) = some ⟨g', s', d'⟩) :
    step cfg p.g (.thr t) = some g' ∧ Step cfg p.g t g' ∧ s' = (ghost cfg p (.thr t)).1 ∧
      d' = (ghost cfg p (.thr t)).2 := by
  unfold pstep at h
  cases hs : step cfg p.g (.thr t) with
  | none => simp [hs] at h
  | some g'' =>
    simp [hs] at h
    obtain ⟨rfl, rfl, rfl⟩ := h
    exact ⟨rfl, step_of_stepThr cfg hs, rfl, rfl⟩

theorem pstep_tick {cfg : Cfg} {p p' : PS} {d : Nat} (h : pstep cfg p (.tick d) = some p') :
    p' = ⟨{ p.g with now := p.g.now + d }, p.s, p.dec⟩ := by
  simp [pstep, step, ghost] at h; exact h.symm

theorem pstep_gc {cfg : Cfg} {p p' : PS} (h : pstep cfg p .gc = some p') :
    p' = ⟨gcStore p.g, p.s, p.dec⟩ := by
  simp [pstep, step, ghost] at h; exact h.symm

/-- ghost state after a step that is neither the count nor the take-back -/
theorem ghost_other {cfg : Cfg} {p : PS} {t : Tid} (h1 : (p.g.threads t).pc ≠ .atTs) (h2 : (p.g.threads t).pc ≠ .atTs2) :
    ghost cfg p (.thr t) = (p.s, p.dec) := by
  unfold ghost
  split <;> simp_all

theorem ghost_ts {cfg : Cfg} {p : PS} {t : Tid} (h : (p.g.threads t).pc = .atTs) :
    (ghost cfg p (.thr t)).1 =
      p.s.set (p.g.threads t).req.key (Spec.hit cfg (p.s (p.g.threads t).req.key) p.g.now t) := by
  simp [ghost, h]

theorem ghost_ts2 {cfg : Cfg} {p : PS} {t : Tid} (h : (p.g.threads t).pc = .atTs2) :
    (∀ k, (ghost cfg p (.thr t)).1 k =
      if k = (p.g.threads t).req.key then unhitOpt (p.s k) t else p.s k) ∧
    (ghost cfg p (.thr t)).2 = p.dec := by
  simp only [ghost, h]
  cases hk : p.s (p.g.threads t).req.key with
  | none =>
    refine ⟨fun k => ?_, rfl⟩
    by_cases hkk : k = (p.g.threads t).req.key
    · subst hkk; simp [hk, unhitOpt]
    · simp [hkk]
  | some w =>
    refine ⟨fun k => ?_, rfl⟩
    by_cases hkk : k = (p.g.threads t).req.key
    · subst hkk; simp [hk, unhitOpt, State.set]
    · simp [hkk, State.set]

@[simp] theorem state_set_same (s : Spec.State) (k : Key) (w : Win) : (s.set k w) k = some w := by simp [State.set]
theorem state_set_ne (s : Spec.State) {k k' : Key} (w : Win) (h : k' ≠ k) : (s.set k w) k' = s k' := by simp [State.set, h]

/-! ### preservation: steps that only move one thread's program counter -/

theorem inv_quiet {cfg : Cfg} {reqs : Tid → Req} {p : PS} {g' : G} {t : Tid}
    (hi : Inv cfg reqs p) (hex : Excl g')
    (hst : g'.store = p.g.store) (hnow : g'.now = p.g.now)
    (hoth : ∀ t', t' ≠ t → g'.threads t' = p.g.threads t')
    (hreq : (g'.threads t).req = (p.g.threads t).req) (hwexp : (g'.threads t).wexp = (p.g.threads t).wexp)
    (hpc0 : (p.g.threads t).pc ≠ .atSet ∧ (p.g.threads t).pc ≠ .atSet2)
    (hpc1 : (g'.threads t).pc ≠ .atTs ∧ (g'.threads t).pc ≠ .atTs2 ∧ (g'.threads t).pc ≠ .atSet ∧
            (g'.threads t).pc ≠ .atSet2)
    (hcnt : counted cfg (g'.threads t) = counted cfg (p.g.threads t))
    (hhit : hitDone (g'.threads t).pc = true → hitDone (p.g.threads t).pc = true)
    (hsec : sec2 (g'.threads t).pc = true → skipCond cfg (p.g.threads t).req.status = true) :
    Inv cfg reqs ⟨g', p.s, p.dec⟩ := by
  have hkey : ∀ t', (g'.threads t').req = (p.g.threads t').req := by
    intro t'; by_cases h : t' = t
    · subst h; exact hreq
    · rw [hoth t' h]
  have hwx : ∀ t', (g'.threads t').wexp = (p.g.threads t').wexp := by
    intro t'; by_cases h : t' = t
    · subst h; exact hwexp
    · rw [hoth t' h]
  have hcn : ∀ t', counted cfg (g'.threads t') = counted cfg (p.g.threads t') := by
    intro t'; by_cases h : t' = t
    · subst h; exact hcnt
    · rw [hoth t' h]
  refine ⟨hex, ?_, ?_, ?_, ?_, ?_, ?_, ?_⟩
  · intro t'; show (g'.threads t').req = _; rw [hkey]; exact hi.req t'
  · intro k hc
    show RStore cfg (g'.store k) (p.s k) g'.now
    rw [hst, hnow]
    apply hi.store k
    intro t' hk
    by_cases h : t' = t
    · subst h; exact hpc0
    · have := hc t' (by rw [hkey]; exact hk)
      rwa [hoth t' h] at this
  · intro t' hp
    show RItem cfg (g'.threads t').e (p.s (g'.threads t').req.key) g'.now
    by_cases h : t' = t
    · subst h; rcases hp with hp | hp
      · exact absurd hp hpc1.1
      · exact absurd hp hpc1.2.1
    · rw [hoth t' h] at hp ⊢; rw [hnow]; exact hi.loc t' hp
  · intro t' hp
    show (g'.threads t').e.exp ≠ 0 ∧ (g'.threads t').e.exp + gap cfg ≤ g'.now + (g'.threads t').ttl ∧
      RItem cfg (g'.threads t').e (p.s (g'.threads t').req.key) g'.now
    by_cases h : t' = t
    · subst h; rcases hp with hp | hp
      · exact absurd hp hpc1.2.2.1
      · exact absurd hp hpc1.2.2.2
    · rw [hoth t' h] at hp ⊢; rw [hnow]; exact hi.pending t' hp
  · intro t' hp
    show skipCond cfg (g'.threads t').req.status = true
    by_cases h : t' = t
    · subst h; rw [hreq]; exact hsec hp
    · rw [hoth t' h] at hp ⊢; exact hi.sec t' hp
  · intro t' hp
    show (g'.threads t').wexp ≠ 0 ∧ ∃ w, p.s (g'.threads t').req.key = some w ∧ (g'.threads t').wexp ≤ w.wend
    rw [hkey, hwx]
    apply hi.hit t'
    by_cases h : t' = t
    · subst h; exact hhit hp
    · rwa [hoth t' h] at hp
  · intro k w hw
    obtain ⟨h1, h2, h3, h4⟩ := hi.mem k w hw
    refine ⟨h1, h2, fun t' => ?_, fun t' => ?_⟩
    · show t' ∈ w.cur ↔ (counted cfg (g'.threads t') = true ∧ (g'.threads t').req.key = k ∧ (g'.threads t').wexp = w.wend)
      rw [hcn, hkey, hwx]; exact h3 t'
    · show t' ∈ w.prev ↔ (cfg.sliding = true ∧ counted cfg (g'.threads t') = true ∧ (g'.threads t').req.key = k ∧
        (g'.threads t').wexp + cfg.expiration = w.wend)
      rw [hcn, hkey, hwx]; exact h4 t'

/-! ### preservation: `manager.get` -/

/-- while `t` is inside a critical section nobody has a write pending -/
theorem clean_of_crit {g : G} (hex : Excl g) {t : Tid} (hc : crit (g.threads t).pc = true)
    (hne : (g.threads t).pc ≠ .atSet ∧ (g.threads t).pc ≠ .atSet2) (k : Key) : Clean g k := by
  intro t' _
  by_cases h : t' = t
  · subst h; exact hne
  · have hm := (hex t).1 hc
    constructor <;> intro hp
    · have := (hex t').1 (by simp [hp]); rw [hm] at this; cases this; exact absurd rfl h
    · have := (hex t').1 (by simp [hp]); rw [hm] at this; cases this; exact absurd rfl h

theorem inv_get {cfg : Cfg} {reqs : Tid → Req} {p : PS} {g' : G} {t : Tid} {pc' : Pc}
    (hi : Inv cfg reqs p) (hex : Excl g')
    (hpcs : ((p.g.threads t).pc = .atGet ∧ pc' = .atTs) ∨ ((p.g.threads t).pc = .atGet2 ∧ pc' = .atTs2))
    (hg : g' = p.g.setThread t { p.g.threads t with pc := pc', e := lookup cfg p.g (p.g.threads t).req.key }) :
    Inv cfg reqs ⟨g', p.s, p.dec⟩ := by
  subst hg
  have hcrit : crit (p.g.threads t).pc = true := by rcases hpcs with ⟨h, _⟩ | ⟨h, _⟩ <;> simp [h]
  have hne : (p.g.threads t).pc ≠ .atSet ∧ (p.g.threads t).pc ≠ .atSet2 := by
    rcases hpcs with ⟨h, _⟩ | ⟨h, _⟩ <;> simp [h]
  have hpc'ne : pc' ≠ .atSet ∧ pc' ≠ .atSet2 := by rcases hpcs with ⟨_, h⟩ | ⟨_, h⟩ <;> simp [h]
  have hcnt : counted cfg { p.g.threads t with pc := pc', e := lookup cfg p.g (p.g.threads t).req.key } =
      counted cfg (p.g.threads t) := by
    rcases hpcs with ⟨h, h'⟩ | ⟨h, h'⟩ <;> simp [counted, unhitDone, h, h']
  have hhd : hitDone pc' = hitDone (p.g.threads t).pc := by
    rcases hpcs with ⟨h, h'⟩ | ⟨h, h'⟩ <;> simp [h, h']
  have hs2 : sec2 pc' = sec2 (p.g.threads t).pc := by
    rcases hpcs with ⟨h, h'⟩ | ⟨h, h'⟩ <;> simp [h, h']
  refine ⟨hex, ?_, ?_, ?_, ?_, ?_, ?_, ?_⟩
  · intro t'; by_cases h : t' = t
    · subst h; simpa using hi.req t'
    · simpa [setThread_threads_ne _ _ h] using hi.req t'
  · intro k _
    exact hi.store k (clean_of_crit hi.excl hcrit hne k)
  · intro t' hp
    by_cases h : t' = t
    · subst h
      simp only [setThread_threads_same, setThread_now]
      exact ritem_lookup (hi.store _ (clean_of_crit hi.excl hcrit hne _))
    · simp only [setThread_threads_ne _ _ h, setThread_now] at hp ⊢
      exact hi.loc t' hp
  · intro t' hp
    by_cases h : t' = t
    · subst h
      simp only [setThread_threads_same] at hp
      rcases hp with hp | hp
      · exact absurd hp hpc'ne.1
      · exact absurd hp hpc'ne.2
    · simp only [setThread_threads_ne _ _ h, setThread_now] at hp ⊢
      exact hi.pending t' hp
  · intro t' hp
    by_cases h : t' = t
    · subst h
      simp only [setThread_threads_same] at hp ⊢
      exact hi.sec t' (by rw [← hs2]; exact hp)
    · simp only [setThread_threads_ne _ _ h] at hp ⊢
      exact hi.sec t' hp
  · intro t' hp
    by_cases h : t' = t
    · subst h
      simp only [setThread_threads_same] at hp ⊢
      exact hi.hit t' (by rw [← hhd]; exact hp)
    · simp only [setThread_threads_ne _ _ h] at hp ⊢
      exact hi.hit t' hp
  · intro k w hw
    obtain ⟨h1, h2, h3, h4⟩ := hi.mem k w hw
    refine ⟨h1, h2, fun t' => ?_, fun t' => ?_⟩
    · by_cases h : t' = t
      · subst h; simp only [setThread_threads_same]; rw [hcnt]; exact h3 t'
      · simp only [setThread_threads_ne _ _ h]; exact h3 t'
    · by_cases h : t' = t
      · subst h; simp only [setThread_threads_same]; rw [hcnt]; exact h4 t'
      · simp only [setThread_threads_ne _ _ h]; exact h4 t'

/-! ### preservation: `manager.set` -/

theorem inv_set {cfg : Cfg} {reqs : Tid → Req} {p : PS} {g' : G} {t : Tid} {pc' : Pc}
    (hi : Inv cfg reqs p) (hex : Excl g')
    (hpcs : ((p.g.threads t).pc = .atSet ∧ pc' = .atUnlock) ∨ ((p.g.threads t).pc = .atSet2 ∧ pc' = .atUnlock2))
    (hg : g' = (p.g.setStore (p.g.threads t).req.key ((p.g.threads t).e, p.g.now + (p.g.threads t).ttl)).setThread t
            { p.g.threads t with pc := pc' }) :
    Inv cfg reqs ⟨g', p.s, p.dec⟩ := by
  subst hg
  have hpc'ne : pc' ≠ .atSet ∧ pc' ≠ .atSet2 ∧ pc' ≠ .atTs ∧ pc' ≠ .atTs2 := by
    rcases hpcs with ⟨_, h⟩ | ⟨_, h⟩ <;> simp [h]
  have hcnt : counted cfg { p.g.threads t with pc := pc' } = counted cfg (p.g.threads t) := by
    rcases hpcs with ⟨h, h'⟩ | ⟨h, h'⟩ <;> simp [counted, unhitDone, h, h']
  have hhd : hitDone pc' = hitDone (p.g.threads t).pc := by
    rcases hpcs with ⟨h, h'⟩ | ⟨h, h'⟩ <;> simp [h, h']
  have hs2 : sec2 pc' = sec2 (p.g.threads t).pc := by
    rcases hpcs with ⟨h, h'⟩ | ⟨h, h'⟩ <;> simp [h, h']
  have hpend := hi.pending t (by rcases hpcs with ⟨h, _⟩ | ⟨h, _⟩ <;> simp [h])
  refine ⟨hex, ?_, ?_, ?_, ?_, ?_, ?_, ?_⟩
  · intro t'; by_cases h : t' = t
    · subst h; simpa using hi.req t'
    · simpa [setThread_threads_ne _ _ h] using hi.req t'
  · intro k hc
    by_cases hk : k = (p.g.threads t).req.key
    · subst hk
      simp only [setThread_store, setStore_store_same, setThread_now, setStore_now]
      exact ⟨hpend.1, hpend.2.1, hpend.2.2⟩
    · simp only [setThread_store, setStore_store_ne _ _ hk, setThread_now, setStore_now]
      apply hi.store k
      intro t' hk'
      by_cases h : t' = t
      · subst h; exact absurd hk'.symm hk
      · have := hc t' (by simpa [setThread_threads_ne _ _ h] using hk')
        simpa [setThread_threads_ne _ _ h] using this
  · intro t' hp
    by_cases h : t' = t
    · subst h
      simp only [setThread_threads_same] at hp
      rcases hp with hp | hp
      · exact absurd hp hpc'ne.2.2.1
      · exact absurd hp hpc'ne.2.2.2
    · simp only [setThread_threads_ne _ _ h, setThread_now, setStore_threads, setStore_now] at hp ⊢
      exact hi.loc t' hp
  · intro t' hp
    by_cases h : t' = t
    · subst h
      simp only [setThread_threads_same] at hp
      rcases hp with hp | hp
      · exact absurd hp hpc'ne.1
      · exact absurd hp hpc'ne.2.1
    · simp only [setThread_threads_ne _ _ h, setThread_now, setStore_threads, setStore_now] at hp ⊢
      exact hi.pending t' hp
  · intro t' hp
    by_cases h : t' = t
    · subst h
      simp only [setThread_threads_same] at hp ⊢
      exact hi.sec t' (by rw [← hs2]; exact hp)
    · simp only [setThread_threads_ne _ _ h, setStore_threads] at hp ⊢
      exact hi.sec t' hp
  · intro t' hp
    by_cases h : t' = t
    · subst h
      simp only [setThread_threads_same] at hp ⊢
      exact hi.hit t' (by rw [← hhd]; exact hp)
    · simp only [setThread_threads_ne _ _ h, setStore_threads] at hp ⊢
      exact hi.hit t' hp
  · intro k w hw
    obtain ⟨h1, h2, h3, h4⟩ := hi.mem k w hw
    refine ⟨h1, h2, fun t' => ?_, fun t' => ?_⟩
    · by_cases h : t' = t
      · subst h; simp only [setThread_threads_same]; rw [hcnt]; exact h3 t'
      · simp only [setThread_threads_ne _ _ h, setStore_threads]; exact h3 t'
    · by_cases h : t' = t
      · subst h; simp only [setThread_threads_same]; rw [hcnt]; exact h4 t'
      · simp only [setThread_threads_ne _ _ h, setStore_threads]; exact h4 t'

/-! ### preservation: time passing, backend garbage collection -/

theorem inv_tick {cfg : Cfg} {reqs : Tid → Req} {p : PS} (d : Nat) (hi : Inv cfg reqs p) :
    Inv cfg reqs ⟨{ p.g with now := p.g.now + d }, p.s, p.dec⟩ := by
  refine ⟨hi.excl, hi.req, ?_, ?_, ?_, hi.sec, hi.hit, hi.mem⟩
  · intro k hc; exact rstore_mono (hi.store k hc) (Nat.le_add_right _ _)
  · intro t hp; exact ritem_mono (hi.loc t hp) (Nat.le_add_right _ _)
  · intro t hp
    obtain ⟨h1, h2, h3⟩ := hi.pending t hp
    refine ⟨h1, ?_, ritem_mono h3 (Nat.le_add_right _ _)⟩
    show (p.g.threads t).e.exp + gap cfg ≤ p.g.now + d + (p.g.threads t).ttl
    omega

theorem inv_gc {cfg : Cfg} {reqs : Tid → Req} {p : PS} (hi : Inv cfg reqs p) :
    Inv cfg reqs ⟨gcStore p.g, p.s, p.dec⟩ := by
  refine ⟨hi.excl, hi.req, ?_, hi.loc, hi.pending, hi.sec, hi.hit, hi.mem⟩
  intro k hc
  exact rstore_gc (hi.store k hc)

/-! ### preservation: the count (`atTs`) -/

theorem hit_shape (cfg : Cfg) (sk : Option Win) (ts : Nat) (t : Tid) :
    (∃ w0, sk = some w0 ∧ ts < w0.wend ∧ hit cfg sk ts t = { w0 with cur := t :: w0.cur }) ∨
    (cfg.sliding = true ∧ ∃ w0, sk = some w0 ∧ w0.wend ≤ ts ∧ ts < w0.wend + cfg.expiration ∧
        hit cfg sk ts t = ⟨w0.wend + cfg.expiration, [t], w0.cur⟩) ∨
    (hit cfg sk ts t = ⟨ts + cfg.expiration, [t], []⟩ ∧ ∀ w0, sk = some w0 → w0.wend + gap cfg ≤ ts) := by
  cases sk with
  | none =>
    refine .inr (.inr ⟨?_, fun _ h => by cases h⟩)
    unfold hit hitSliding hitFixed; split <;> rfl
  | some w0 =>
    by_cases h1 : ts < w0.wend
    · refine .inl ⟨w0, rfl, h1, ?_⟩
      unfold hit hitSliding hitFixed; split <;> simp [h1]
    · by_cases hs : cfg.sliding = true
      · by_cases h2 : ts < w0.wend + cfg.expiration
        · refine .inr (.inl ⟨hs, w0, rfl, by omega, h2, ?_⟩)
          unfold hit hitSliding; simp [hs, h1, h2]
        · refine .inr (.inr ⟨?_, fun w hw => ?_⟩)
          · unfold hit hitSliding; simp [hs, h1, h2]
          · cases hw; simp [gap, hs]; omega
      · have hs' : cfg.sliding = false := by simpa using hs
        refine .inr (.inr ⟨?_, fun w hw => ?_⟩)
        · unfold hit hitFixed; simp [hs', h1]
        · cases hw; simp [gap, hs']; omega

/-- another thread cannot be inside a critical section while `t` is -/
theorem not_crit_of_other {g : G} (hex : Excl g) {t t' : Tid} (hc : crit (g.threads t).pc = true) (hne : t' ≠ t) :
    crit (g.threads t').pc = false := by
  cases hc' : crit (g.threads t').pc with
  | false => rfl
  | true =>
    have h1 := (hex t).1 hc
    have h2 := (hex t').1 hc'
    rw [h1] at h2; cases h2; exact absurd rfl hne

theorem inv_ts {cfg : Cfg} (hE : 1 ≤ cfg.expiration) {reqs : Tid → Req} {p : PS} {g' : G} {t : Tid}
    {d' : Tid → Option Spec.Expect}
    (hi : Inv cfg reqs p) (hex : Excl g') (hpc : (p.g.threads t).pc = .atTs)
    (hg : g' = p.g.setThread t { p.g.threads t with
        pc := .atSet, e := upd cfg (p.g.threads t).e p.g.now,
        reset := (upd cfg (p.g.threads t).e p.g.now).exp - p.g.now,
        wexp := (upd cfg (p.g.threads t).e p.g.now).exp,
        remaining := (p.g.threads t).req.max - rate cfg (upd cfg (p.g.threads t).e p.g.now) p.g.now,
        ttl := ttl1 cfg ((upd cfg (p.g.threads t).e p.g.now).exp - p.g.now) }) :
    Inv cfg reqs ⟨g', p.s.set (p.g.threads t).req.key (hit cfg (p.s (p.g.threads t).req.key) p.g.now t), d'⟩ := by
  subst hg
  have hcrit : crit (p.g.threads t).pc = true := by simp [hpc]
  have hloc := hi.loc t (.inl hpc)
  obtain ⟨hu1, hu2, hu3, hu4, hu5⟩ := upd_refines cfg hE t hloc
  -- abbreviations
  generalize hk : (p.g.threads t).req.key = k at *
  generalize hw : hit cfg (p.s k) p.g.now t = w at *
  generalize he' : upd cfg (p.g.threads t).e p.g.now = e' at *
  have hother : ∀ t', t' ≠ t → crit (p.g.threads t').pc = false := fun t' h => not_crit_of_other hi.excl hcrit h
  have hnotcounted : counted cfg (p.g.threads t) = false := by simp [counted, hpc]
  refine ⟨hex, ?_, ?_, ?_, ?_, ?_, ?_, ?_⟩
  · intro t'; by_cases h : t' = t
    · subst h; simpa using hi.req t'
    · simpa [setThread_threads_ne _ _ h] using hi.req t'
  · -- store: the key just counted has a write pending; other keys are untouched
    intro k' hc
    by_cases hkk : k' = k
    · subst hkk
      have := (hc t (by simp [hk])).1
      simp at this
    · simp only [setThread_store, setThread_now, state_set_ne _ _ hkk]
      apply hi.store k'
      intro t' hk'
      by_cases h : t' = t
      · subst h; rw [hk] at hk'; exact absurd hk'.symm hkk
      · have := hc t' (by simpa [setThread_threads_ne _ _ h] using hk')
        simpa [setThread_threads_ne _ _ h] using this
  · intro t' hp
    by_cases h : t' = t
    · subst h; simp at hp
    · simp only [setThread_threads_ne _ _ h] at hp
      have := hother t' h
      rcases hp with hp | hp <;> simp [hp] at this
  · intro t' hp
    by_cases h : t' = t
    · subst h
      simp only [setThread_threads_same, setThread_now, hk, state_set_same]
      refine ⟨by omega, ?_, fun hz => by omega, fun _ => ⟨hu2, fun _ => ⟨w, rfl, hu3, hu4, fun _ => hu5⟩, fun hge => by omega⟩⟩
      unfold ttl1 gap
      split <;> omega
    · simp only [setThread_threads_ne _ _ h] at hp
      have := hother t' h
      rcases hp with hp | hp <;> simp [hp] at this
  · intro t' hp
    by_cases h : t' = t
    · subst h; simp at hp
    · simp only [setThread_threads_ne _ _ h] at hp ⊢
      exact hi.sec t' hp
  · intro t' hp
    by_cases h : t' = t
    · subst h
      simp only [setThread_threads_same, hk, state_set_same]
      exact ⟨by omega, w, rfl, by omega⟩
    · simp only [setThread_threads_ne _ _ h] at hp ⊢
      obtain ⟨h1, w0, h2, h3⟩ := hi.hit t' hp
      refine ⟨h1, ?_⟩
      by_cases hkk : (p.g.threads t').req.key = k
      · rw [hkk] at h2 ⊢
        refine ⟨w, by simp, ?_⟩
        have := hit_some_wend_le cfg w0 p.g.now t
        rw [← h2, hw] at this
        omega
      · exact ⟨w0, by rw [state_set_ne _ _ hkk]; exact h2, h3⟩
  · -- the abstract lists
    intro k' w' hw'
    by_cases hkk : k' = k
    · subst hkk
      simp only [state_set_same, Option.some.injEq] at hw'
      subst hw'
      -- facts about the other counted requests of this key
      have hle : ∀ t', t' ≠ t → counted cfg (p.g.threads t') = true → (p.g.threads t').req.key = k' →
          ∃ w0, p.s k' = some w0 ∧ (p.g.threads t').wexp ≤ w0.wend := by
        intro t' _ hc hk'
        have hd : hitDone (p.g.threads t').pc = true := by
          simp [counted] at hc; exact hc.1
        obtain ⟨_, w0, h2, h3⟩ := hi.hit t' hd
        exact ⟨w0, hk' ▸ h2, h3⟩
      have hnew : ∀ th : Thread, th.pc = .atSet → counted cfg th = true := by
        intro th h; simp [counted, unhitDone, h]
      rcases hit_shape cfg (p.s k') p.g.now t with ⟨w0, hs0, hlt, hsh⟩ | ⟨hsl, w0, hs0, hge, hlt, hsh⟩ | ⟨hsh, hdead⟩
      · -- same window, one more
        rw [hw] at hsh; subst hsh
        obtain ⟨n1, n2, m1, m2⟩ := hi.mem k' w0 hs0
        have htn : t ∉ w0.cur := fun hin => by
          have := ((m1 t).1 hin).1; rw [hnotcounted] at this; cases this
        refine ⟨List.nodup_cons.2 ⟨htn, n1⟩, n2, fun t' => ?_, fun t' => ?_⟩
        · by_cases h : t' = t
          · subst h
            simp only [setThread_threads_same, List.mem_cons, true_or, true_iff]
            exact ⟨hnew _ rfl, hk, by (try simp at hu3); omega⟩
          · simp only [setThread_threads_ne _ _ h, List.mem_cons, h, false_or]
            exact m1 t'
        · by_cases h : t' = t
          · subst h
            simp only [setThread_threads_same]
            constructor
            · intro hin
              have := ((m2 t').1 hin).2.1; rw [hnotcounted] at this; cases this
            · intro ⟨_, _, _, h4⟩
              (try simp at hu3 h4); omega
          · simp only [setThread_threads_ne _ _ h]
            exact m2 t'
      · -- sliding: next window
        rw [hw] at hsh; subst hsh
        obtain ⟨n1, n2, m1, m2⟩ := hi.mem k' w0 hs0
        refine ⟨by simp, n1, fun t' => ?_, fun t' => ?_⟩
        · by_cases h : t' = t
          · subst h
            simp only [setThread_threads_same, List.mem_cons, List.not_mem_nil, or_false, true_iff]
            exact ⟨hnew _ rfl, hk, by (try simp at hu3); omega⟩
          · simp only [setThread_threads_ne _ _ h, List.mem_cons, h, List.not_mem_nil, or_false, false_iff]
            intro ⟨hc, hk', hx⟩
            obtain ⟨w1, hs1, hle1⟩ := hle t' h hc hk'
            rw [hs0] at hs1; cases hs1
            (try simp at hx); omega
        · by_cases h : t' = t
          · subst h
            simp only [setThread_threads_same]
            constructor
            · intro hin
              have := ((m1 t').1 hin).1; rw [hnotcounted] at this; cases this
            · intro ⟨_, _, _, h4⟩
              (try simp at hu3 h4); omega
          · simp only [setThread_threads_ne _ _ h]
            rw [m1 t']
            simp only [hsl, true_and]
            constructor
            · intro ⟨a, b, c⟩; exact ⟨a, b, by omega⟩
            · intro ⟨a, b, c⟩; exact ⟨a, b, by (try simp at c); omega⟩
      · -- a fresh window
        rw [hw] at hsh; subst hsh
        refine ⟨by simp, by simp, fun t' => ?_, fun t' => ?_⟩
        · by_cases h : t' = t
          · subst h
            simp only [setThread_threads_same, List.mem_cons, List.not_mem_nil, or_false, true_iff]
            exact ⟨hnew _ rfl, hk, by (try simp at hu3); omega⟩
          · simp only [setThread_threads_ne _ _ h, List.mem_cons, h, List.not_mem_nil, or_false, false_iff]
            intro ⟨hc, hk', hx⟩
            obtain ⟨w1, hs1, hle1⟩ := hle t' h hc hk'
            have := hdead w1 hs1
            (try simp at hx); omega
        · simp only [List.not_mem_nil, false_iff]
          by_cases h : t' = t
          · subst h
            simp only [setThread_threads_same]
            intro ⟨_, _, _, h4⟩
            (try simp at hu3 h4); omega
          · simp only [setThread_threads_ne _ _ h]
            intro ⟨hsl, hc, hk', hx⟩
            obtain ⟨w1, hs1, hle1⟩ := hle t' h hc hk'
            have := hdead w1 hs1
            simp [gap, hsl] at this
            (try simp at hx); omega
    · change (p.s.set k w) k' = some w' at hw'
      rw [state_set_ne _ _ hkk] at hw'
      obtain ⟨n1, n2, m1, m2⟩ := hi.mem k' w' hw'
      refine ⟨n1, n2, fun t' => ?_, fun t' => ?_⟩
      · by_cases h : t' = t
        · subst h
          simp only [setThread_threads_same]
          rw [m1 t']
          constructor
          · intro ⟨_, h2, _⟩; rw [hk] at h2; exact absurd h2.symm hkk
          · intro ⟨_, h2, _⟩; rw [hk] at h2; exact absurd h2.symm hkk
        · simp only [setThread_threads_ne _ _ h]; exact m1 t'
      · by_cases h : t' = t
        · subst h
          simp only [setThread_threads_same]
          rw [m2 t']
          constructor
          · intro ⟨_, _, h2, _⟩; rw [hk] at h2; exact absurd h2.symm hkk
          · intro ⟨_, _, h2, _⟩; rw [hk] at h2; exact absurd h2.symm hkk
        · simp only [setThread_threads_ne _ _ h]; exact m2 t'

/-! ### preservation: the take-back decision (`atTs2`) -/

/-- what the invariant says about a counted request `t` and its key's abstract window -/
theorem memOK_of_inv {cfg : Cfg} {reqs : Tid → Req} {p : PS} (hi : Inv cfg reqs p) {t : Tid}
    (hc : counted cfg (p.g.threads t) = true) :
    MemOK cfg (p.s (p.g.threads t).req.key) t (p.g.threads t).wexp := by
  intro w hw
  obtain ⟨n1, n2, m1, m2⟩ := hi.mem _ w hw
  refine ⟨n1, n2, ?_, ?_⟩
  · rw [m1 t]; simp [hc]
  · rw [m2 t]; simp [hc]

theorem inv_ts2_core {cfg : Cfg} (hE : 1 ≤ cfg.expiration) {reqs : Tid → Req} {p : PS} {g' : G} {t : Tid}
    {s' : Spec.State} {d' : Tid → Option Spec.Expect} {th' : Thread}
    (hi : Inv cfg reqs p) (hex : Excl g') (hpc : (p.g.threads t).pc = .atTs2)
    (hg : g' = p.g.setThread t th') (hreq : th'.req = (p.g.threads t).req) (hwexp : th'.wexp = (p.g.threads t).wexp)
    (hpc' : th'.pc = .atSet2 ∨ th'.pc = .atUnlock2)
    (hs' : ∀ k', s' k' = if k' = (p.g.threads t).req.key then unhitOpt (p.s k') t else p.s k')
    (hstore : th'.pc = .atUnlock2 →
      RStore cfg (p.g.store (p.g.threads t).req.key) (unhitOpt (p.s (p.g.threads t).req.key) t) p.g.now)
    (hpend : th'.pc = .atSet2 → th'.e.exp ≠ 0 ∧ th'.e.exp + gap cfg ≤ p.g.now + th'.ttl ∧
      RItem cfg th'.e (unhitOpt (p.s (p.g.threads t).req.key) t) p.g.now) :
    Inv cfg reqs ⟨g', s', d'⟩ := by
  subst hg
  have hcrit : crit (p.g.threads t).pc = true := by simp [hpc]
  have hother : ∀ t', t' ≠ t → crit (p.g.threads t').pc = false := fun t' h => not_crit_of_other hi.excl hcrit h
  have hcounted : counted cfg (p.g.threads t) = true := by simp [counted, unhitDone, hpc]
  have hnc : counted cfg th' = false := by
    rcases hpc' with h | h <;> simp [counted, unhitDone, h]
  have hmem := memOK_of_inv hi hcounted
  generalize hk : (p.g.threads t).req.key = k at *
  have hsk : s' k = unhitOpt (p.s k) t := by rw [hs']; simp
  have hsne : ∀ k', k' ≠ k → s' k' = p.s k' := fun k' h => by rw [hs']; simp [h]
  refine ⟨hex, ?_, ?_, ?_, ?_, ?_, ?_, ?_⟩
  · intro t'; by_cases h : t' = t
    · subst h; simp only [setThread_threads_same]; rw [hreq]; exact hi.req t'
    · simpa [setThread_threads_ne _ _ h] using hi.req t'
  · intro k' hc
    simp only [setThread_store, setThread_now]
    by_cases hkk : k' = k
    · subst hkk
      rw [hsk]
      rcases hpc' with h | h
      · have := (hc t (by simp [hreq, hk])).2
        simp [h] at this
      · exact hstore h
    · rw [hsne k' hkk]
      apply hi.store k'
      intro t' hk'
      by_cases h : t' = t
      · subst h; rw [hk] at hk'; exact absurd hk'.symm hkk
      · have := hc t' (by simpa [setThread_threads_ne _ _ h] using hk')
        simpa [setThread_threads_ne _ _ h] using this
  · intro t' hp
    by_cases h : t' = t
    · subst h
      simp only [setThread_threads_same] at hp
      rcases hpc' with h | h <;> simp [h] at hp
    · simp only [setThread_threads_ne _ _ h] at hp
      have := hother t' h
      rcases hp with hp | hp <;> simp [hp] at this
  · intro t' hp
    by_cases h : t' = t
    · subst h
      simp only [setThread_threads_same, setThread_now] at hp ⊢
      rcases hp with hp | hp
      · rcases hpc' with h | h <;> rw [h] at hp <;> cases hp
      · rw [hreq, hk, hsk]; exact hpend hp
    · simp only [setThread_threads_ne _ _ h] at hp
      have := hother t' h
      rcases hp with hp | hp <;> simp [hp] at this
  · intro t' hp
    by_cases h : t' = t
    · subst h
      simp only [setThread_threads_same] at hp ⊢
      rw [hreq]; exact hi.sec t' (by simp [hpc])
    · simp only [setThread_threads_ne _ _ h] at hp ⊢
      exact hi.sec t' hp
  · intro t' hp
    have hold : hitDone (p.g.threads t').pc = true := by
      by_cases h : t' = t
      · subst h; simp [hpc]
      · simpa [setThread_threads_ne _ _ h] using hp
    obtain ⟨h1, w0, h2, h3⟩ := hi.hit t' hold
    have hkey : ((p.g.setThread t th').threads t').req.key = (p.g.threads t').req.key := by
      by_cases h : t' = t
      · subst h; simp [hreq]
      · simp [setThread_threads_ne _ _ h]
    have hwx : ((p.g.setThread t th').threads t').wexp = (p.g.threads t').wexp := by
      by_cases h : t' = t
      · subst h; simp [hwexp]
      · simp [setThread_threads_ne _ _ h]
    show ((p.g.setThread t th').threads t').wexp ≠ 0 ∧ ∃ w, s' ((p.g.setThread t th').threads t').req.key = some w ∧
      ((p.g.setThread t th').threads t').wexp ≤ w.wend
    rw [hkey, hwx]
    refine ⟨h1, ?_⟩
    by_cases hkk : (p.g.threads t').req.key = k
    · rw [hkk] at h2 ⊢
      exact ⟨unhit w0 t, by rw [hsk, h2]; rfl, by simpa using h3⟩
    · exact ⟨w0, by rw [hsne _ hkk]; exact h2, h3⟩
  · intro k' w' hw'
    change s' k' = some w' at hw'
    by_cases hkk : k' = k
    · subst hkk
      rw [hsk] at hw'
      cases hs0 : p.s k' with
      | none => simp [hs0, unhitOpt] at hw'
      | some w0 =>
        simp only [hs0, unhitOpt, Option.map_some, Option.some.injEq] at hw'
        subst hw'
        obtain ⟨n1, n2, m1, m2⟩ := hi.mem k' w0 hs0
        obtain ⟨_, _, c1, c2⟩ := hmem w0 hs0
        by_cases hin : t ∈ w0.cur
        · obtain ⟨e1, e2⟩ := unhit_cur_of_mem hin
          have hnp : t ∉ w0.prev := fun hp' => by
            have := c1.1 hin; have := (c2.1 hp').2; omega
          refine ⟨by rw [e1]; exact n1.erase t, by rw [e2]; exact n2, fun t' => ?_, fun t' => ?_⟩
          · rw [e1, n1.mem_erase_iff]
            by_cases h : t' = t
            · subst h; simp [hnc]
            · simp only [setThread_threads_ne _ _ h, unhit_wend, ne_eq, h, not_false_eq_true, true_and]
              exact m1 t'
          · rw [e2]
            by_cases h : t' = t
            · subst h; simp [hnc, hnp]
            · simp only [setThread_threads_ne _ _ h, unhit_wend]
              exact m2 t'
        · obtain ⟨e1, e2⟩ := unhit_prev_of_not_mem hin
          refine ⟨by rw [e1]; exact n1, by rw [e2]; exact n2.erase t, fun t' => ?_, fun t' => ?_⟩
          · rw [e1]
            by_cases h : t' = t
            · subst h; simp [hnc, hin]
            · simp only [setThread_threads_ne _ _ h, unhit_wend]
              exact m1 t'
          · rw [e2, n2.mem_erase_iff]
            by_cases h : t' = t
            · subst h; simp [hnc]
            · simp only [setThread_threads_ne _ _ h, unhit_wend, ne_eq, h, not_false_eq_true, true_and]
              exact m2 t'
    · rw [hsne k' hkk] at hw'
      obtain ⟨n1, n2, m1, m2⟩ := hi.mem k' w' hw'
      refine ⟨n1, n2, fun t' => ?_, fun t' => ?_⟩
      · by_cases h : t' = t
        · subst h
          simp only [setThread_threads_same]
          rw [m1 t', hreq, hk]
          constructor
          · intro ⟨_, h2, _⟩; exact absurd h2.symm hkk
          · intro ⟨_, h2, _⟩; exact absurd h2.symm hkk
        · simp only [setThread_threads_ne _ _ h]; exact m1 t'
      · by_cases h : t' = t
        · subst h
          simp only [setThread_threads_same]
          rw [m2 t', hreq, hk]
          constructor
          · intro ⟨_, _, h2, _⟩; exact absurd h2.symm hkk
          · intro ⟨_, _, h2, _⟩; exact absurd h2.symm hkk
        · simp only [setThread_threads_ne _ _ h]; exact m2 t'

/-! ### the invariant holds initially and is preserved by every step -/

theorem inv_init (cfg : Cfg) (reqs : Tid → Req) (t0 : Nat) : Inv cfg reqs (pinit reqs t0) := by
  refine ⟨excl_init reqs t0, fun _ => rfl, ?_, ?_, ?_, ?_, ?_, ?_⟩
  · intro k _; simp [pinit, init, RStore]; exact sdead_none _ _
  · intro t hp; simp [pinit, init] at hp
  · intro t hp; simp [pinit, init] at hp
  · intro t hp; simp [pinit, init] at hp
  · intro t hp; simp [pinit, init] at hp
  · intro k w hw; simp [pinit] at hw

theorem inv_step (cfg : Cfg) (hE : 1 ≤ cfg.expiration) (reqs : Tid → Req) {p p' : PS} {a : Act}
    (hi : Inv cfg reqs p) (hs : pstep cfg p a = some p') : Inv cfg reqs p' := by
  cases a with
  | tick d => rw [pstep_tick hs]; exact inv_tick d hi
  | gc => rw [pstep_gc hs]; exact inv_gc hi
  | thr t =>
    obtain ⟨g', s', d'⟩ := p'
    obtain ⟨hraw, hst, rfl, rfl⟩ := pstep_thr hs
    have hex : Excl g' := excl_step cfg hi.excl hraw
    cases hst with
    | arriveBypass hpc hb =>
      rw [ghost_other (by simp [hpc]) (by simp [hpc])]
      exact inv_quiet (t := t) hi hex rfl rfl (fun t' h => by simp [setThread_threads_ne _ _ h]) (by simp) (by simp)
        (by simp [hpc]) (by simp) (by simp [counted, unhitDone, hpc]) (by simp) (by simp)
    | arrive hpc hb =>
      rw [ghost_other (by simp [hpc]) (by simp [hpc])]
      exact inv_quiet (t := t) hi hex rfl rfl (fun t' h => by simp [setThread_threads_ne _ _ h]) (by simp) (by simp)
        (by simp [hpc]) (by simp) (by simp [counted, unhitDone, hpc]) (by simp) (by simp)
    | lock hpc hm =>
      rw [ghost_other (by simp [hpc]) (by simp [hpc])]
      exact inv_quiet (t := t) hi hex rfl rfl (fun t' h => by simp [setThread_threads_ne _ _ h]) (by simp) (by simp)
        (by simp [hpc]) (by simp) (by simp [counted, unhitDone, hpc]) (by simp) (by simp)
    | get hpc =>
      rw [ghost_other (by simp [hpc]) (by simp [hpc])]
      exact inv_get hi hex (.inl ⟨hpc, rfl⟩) rfl
    | ts hpc =>
      rw [ghost_ts hpc]
      exact inv_ts hE hi hex hpc rfl
    | set hpc =>
      rw [ghost_other (by simp [hpc]) (by simp [hpc])]
      exact inv_set hi hex (.inl ⟨hpc, rfl⟩) rfl
    | unlock hpc =>
      rw [ghost_other (by simp [hpc]) (by simp [hpc])]
      refine inv_quiet (t := t) hi hex rfl rfl (fun t' h => by simp [setThread_threads_ne _ _ h]) (by simp) (by simp)
        (by simp [hpc]) ?_ ?_ (by simp [hpc]) ?_
      · by_cases hr : (p.g.threads t).remaining < 0 <;> simp [hr]
      · by_cases hr : (p.g.threads t).remaining < 0 <;> simp [hr, counted, unhitDone, hpc]
      · by_cases hr : (p.g.threads t).remaining < 0 <;> simp [hr]
    | handlerBypass hpc =>
      rw [ghost_other (by simp [hpc]) (by simp [hpc])]
      exact inv_quiet (t := t) hi hex rfl rfl (fun t' h => by simp [setThread_threads_ne _ _ h]) (by simp) (by simp)
        (by simp [hpc]) (by simp) (by simp [counted, unhitDone, hpc]) (by simp) (by simp)
    | handlerSkip hpc hk =>
      rw [ghost_other (by simp [hpc]) (by simp [hpc])]
      exact inv_quiet (t := t) hi hex rfl rfl (fun t' h => by simp [setThread_threads_ne _ _ h]) (by simp) (by simp)
        (by simp [hpc]) (by simp) (by simp [counted, unhitDone, hpc]) (by simp [hpc]) (by simp [hk])
    | handlerDone hpc hk =>
      rw [ghost_other (by simp [hpc]) (by simp [hpc])]
      exact inv_quiet (t := t) hi hex rfl rfl (fun t' h => by simp [setThread_threads_ne _ _ h]) (by simp) (by simp)
        (by simp [hpc]) (by simp) (by simp [counted, unhitDone, hpc, hk]) (by simp [hpc]) (by simp)
    | lock2 hpc hm =>
      rw [ghost_other (by simp [hpc]) (by simp [hpc])]
      exact inv_quiet (t := t) hi hex rfl rfl (fun t' h => by simp [setThread_threads_ne _ _ h]) (by simp) (by simp)
        (by simp [hpc]) (by simp) (by simp [counted, unhitDone, hpc]) (by simp [hpc])
        (fun _ => hi.sec t (by simp [hpc]))
    | get2 hpc =>
      rw [ghost_other (by simp [hpc]) (by simp [hpc])]
      exact inv_get hi hex (.inr ⟨hpc, rfl⟩) rfl
    | ts2Some hpc e' ttl hu =>
      have hcounted : counted cfg (p.g.threads t) = true := by simp [counted, unhitDone, hpc]
      obtain ⟨hgs, hgd⟩ := ghost_ts2 (cfg := cfg) hpc
      refine inv_ts2_core hE hi hex hpc rfl rfl rfl (.inl rfl) hgs (fun h => by simp at h) (fun _ => ?_)
      exact unhit_some_refines cfg hE (hi.loc t (.inr hpc)) (hi.hit t (by simp [hpc])).1 (memOK_of_inv hi hcounted) hu
    | ts2None hpc hu =>
      have hcounted : counted cfg (p.g.threads t) = true := by simp [counted, unhitDone, hpc]
      obtain ⟨hgs, hgd⟩ := ghost_ts2 (cfg := cfg) hpc
      refine inv_ts2_core hE hi hex hpc rfl rfl rfl (.inr rfl) hgs (fun _ => ?_) (fun h => by simp at h)
      exact unhit_none_refines cfg hE (hi.loc t (.inr hpc))
        (hi.store _ (clean_of_crit (t := t) hi.excl (by simp [hpc]) (by simp [hpc]) _))
        (hi.hit t (by simp [hpc])).1 (memOK_of_inv hi hcounted) hu
    | set2 hpc =>
      rw [ghost_other (by simp [hpc]) (by simp [hpc])]
      exact inv_set hi hex (.inr ⟨hpc, rfl⟩) rfl
    | unlock2 hpc =>
      rw [ghost_other (by simp [hpc]) (by simp [hpc])]
      have hsk := hi.sec t (by simp [hpc])
      exact inv_quiet (t := t) hi hex rfl rfl (fun t' h => by simp [setThread_threads_ne _ _ h]) (by simp) (by simp)
        (by simp [hpc]) (by simp) (by simp [counted, unhitDone, hpc, hsk]) (by simp [hpc]) (by simp)

/-- The refinement invariant holds in every state reachable under any schedule. -/
theorem inv_reach (cfg : Cfg) (hE : 1 ≤ cfg.expiration) (reqs : Tid → Req) (t0 : Nat) {p : PS}
    (h : (psys cfg).Reach (pinit reqs t0) p) : Inv cfg reqs p :=
  Conc.inv_reach (psys cfg) (Inv cfg reqs) (fun _ _ _ hi hs => inv_step cfg hE reqs hi hs) (inv_init cfg reqs t0) h

end C13
