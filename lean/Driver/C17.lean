import FiberModel.DriverUtil
-- stub driver for C17; replaced when the property's model lands
def main : IO Unit := pure ()
