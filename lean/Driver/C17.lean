import FiberModel.DriverUtil
import FiberModel.C17.Spec
/-
Driver for C17. Case fields (after the id):  cfg  threads  actions  obs
(see harness/cmd/c17/main.go for the syntax). The model is executed at the harness' granularity:
an action lets one parked thread perform its pending call (or makes that call fail), then every
thread that is not at a yield point of the harness runs on until it parks, blocks inside MemoryLock
or finishes; a countedLock's mutex is handed to its waiters in FIFO order.
-/
open DriverUtil C17

structure CaseCfg where
  st : String
  life : Nat
  keep : Option (List String)
  split : Bool
  t0 : Nat
  nx : Bool := false    -- custom Config.Next: steps aside for DELETE and OPTIONS only
  kh : Bool := false    -- custom Config.KeyHeader (the harness sends the key under that name)
  kv : Bool := false    -- custom Config.KeyHeaderValidate: at least 36 characters

structure ThrIn where
  method : Char
  key : Char
  status : Nat
  body : Bool
  hdrs : Nat
  err : Bool

def kvs (s : String) : List (String × String) :=
  (s.splitOn ";").filterMap fun p => match p.splitOn "=" with
    | [k, v] => some (k, v) | _ => none

def parseCfg (s : String) : Except String CaseCfg := do
  let kv := kvs s
  let get (k : String) : Except String String :=
    match kv.find? (·.1 == k) with | some p => pure p.2 | none => throw s!"outside-domain: cfg key {k} missing"
  let st ← get "st"
  unless st == "X" || st == "M" || st == "F" do throw "outside-domain: st"
  let some life := (← get "life").toNat? | throw "outside-domain: life"
  unless life ≥ 1 ∧ life ≤ 100000 do throw "outside-domain: life range"
  let keep ← (match (← get "keep") with
    | "all" => pure none
    | "a" => pure (some ["X-A"])
    | "m" => pure (some ["X-M", "Set-Cookie"])
    | "am" => pure (some ["x-a", "X-M", "X-C", "Set-Cookie"])
    | "e" => pure none      -- empty non-nil list: configDefault replaces it by nil
    | "c" => pure (some ["Content-Type"])
    | "ac" => pure (some ["X-A", "content-type"])
    | _ => throw "outside-domain: keep")
  let sp ← get "split"
  unless sp == "0" || sp == "1" do throw "outside-domain: split"
  let some t0 := (← get "t0").toNat? | throw "outside-domain: t0"
  unless t0 ≥ 1 do throw "outside-domain: t0"
  let flag (k : String) : Except String Bool :=
    match kv.find? (·.1 == k) with
    | none => pure false
    | some p => if p.2 == "0" then pure false else if p.2 == "1" then pure true else throw s!"outside-domain: {k}"
  pure { st := st, life := life, keep := keep, split := sp == "1", t0 := t0, nx := ← flag "nx", kh := ← flag "kh", kv := ← flag "kv" }

def parseThreads (s : String) : Except String (Array ThrIn) := do
  if s == "-" then return #[]
  let mut out := #[]
  for p in s.splitOn "," do
    match p.splitOn ":" with
    | [m, k, st, b, h, e] =>
      let [mc] := m.toList | throw "outside-domain: method"
      unless "GHOTPDUA".contains mc do throw "outside-domain: method"
      let [kc] := k.toList | throw "outside-domain: key"
      unless kc == '-' || kc == '!' || kc == '?' || (kc ≥ 'a' && kc ≤ 'z') || (kc ≥ 'A' && kc ≤ 'Z') do throw "outside-domain: key"
      let some st := st.toNat? | throw "outside-domain: status"
      unless st ≥ 200 ∧ st ≤ 599 do throw "outside-domain: status range"
      unless b == "0" || b == "1" do throw "outside-domain: body"
      let some h := h.toNat? | throw "outside-domain: hdrs"
      unless h ≤ 6 do throw "outside-domain: hdrs range"
      unless e == "0" || e == "1" do throw "outside-domain: err"
      out := out.push { method := mc, key := kc, status := st, body := b == "1", hdrs := h, err := e == "1" }
    | _ => throw "outside-domain: thread syntax"
  if out.size > 64 then throw "outside-domain: too many threads"
  pure out

/-- the response the harness' handler produces for thread t (header presets of harness/cmd/c17) -/
def ownResp (i : ThrIn) (t : Nat) : Resp :=
  let v := toString t
  let hdrs : List (String × String) := match i.hdrs with
    | 1 => [("X-A", "v" ++ v)]
    | 2 => [("X-M", "m1-" ++ v), ("X-M", "m2-" ++ v)]
    | 3 => [("X-C", "a" ++ v ++ ",b, c"), ("X-A", "")]
    | 4 => [("Set-Cookie", "s=" ++ v ++ "; Path=/"), ("Set-Cookie", "u=1,2; Path=/"), ("X-A", "w" ++ v)]
    | 5 => [("Content-Type", "application/x-custom"), ("X-A", "t" ++ v)]
    | 6 => [("Content-Type", "application/json; charset=utf-8")]
    | _ => []
  { status := i.status, body := if i.body then "body" ++ v else "", hdrs := hdrs }

def watched : List String := ["X-A", "X-M", "X-C", "Set-Cookie", "Content-Type"]

/-- Config.Next (safe method) comes first, then the empty key, then KeyHeaderValidate (`!` too short,
`?` too long) -/
def reqOf (cc : CaseCfg) (i : ThrIn) (t : Nat) : Req :=
  -- Config.Next: default = fiber.IsMethodSafe; the harness' custom one = DELETE or OPTIONS
  let next := if cc.nx then i.method == 'D' || i.method == 'O' else "GHOT".contains i.method
  -- the value of the configured key header (the harness sends it under the configured name)
  let key : Option Key := if i.key == '-' then none else some i.key.toNat
  -- Config.KeyHeaderValidate: default = exactly 36 characters; the harness' custom one = at least 36
  let valid := if cc.kv then i.key != '!' else i.key != '!' && i.key != '?'
  Req.ofHttp next key valid i.err (ownResp i t)

inductive HAct | start (t : Nat) | release (t : Nat) | fault (t : Nat) | corrupt (t : Nat) | tick (d : Nat)

def parseAct (n : Nat) (s : String) : Except String HAct := do
  let num (r : List Char) : Except String Nat :=
    match (String.ofList r).toNat? with | some v => pure v | none => throw s!"outside-domain: action {s}"
  match s.toList with
  | 's' :: r => let t ← num r; if t < n then pure (.start t) else throw "outside-domain: tid"
  | 'r' :: r => let t ← num r; if t < n then pure (.release t) else throw "outside-domain: tid"
  | 'f' :: r => let t ← num r; if t < n then pure (.fault t) else throw "outside-domain: tid"
  | 'c' :: r => let t ← num r; if t < n then pure (.corrupt t) else throw "outside-domain: tid"
  | 't' :: r => let d ← num r; if d ≤ 100000 then pure (.tick d) else throw "outside-domain: tick"
  | _ => throw s!"outside-domain: action {s}"

/-! ### coarse execution -/

structure Ex where
  g : G
  waitq : List Nat := []     -- the requests inside `lock.mu.Lock()` (blocked), in arrival order

/-- is request t parked at a yield point of the harness? `st=F` (fine): the three `verifYield` points of
locker.go are yield points too: 'a' = pc `lockAcq` before the request has been let into `lock.mu.Lock()`
(afterwards it is in `waitq`), 'u' = pc `unlockRelease`, 'd' = pc `unlockDec`. -/
def isYield (st : String) (x : Ex) (t : Nat) : Bool :=
  match (x.g.threads t).pc with
  | .atHandler | .atHandlerB => true
  | .atGet1 | .atLock | .atGet2 | .atSet | .atUnlock => st != "M"
  | .lockAcq => st == "F" && !x.waitq.contains t
  | .unlockRelease | .unlockDec => st == "F"
  | _ => false

def settle (life : Nat) (st : String) (n : Nat) : Nat → Ex → Ex
  | 0, x => x
  | fuel + 1, x =>
    let newW := if st == "F" then [] else
      (List.range n).filter fun t => (x.g.threads t).pc == .lockAcq && !x.waitq.contains t
    let x := { x with waitq := x.waitq ++ newW }
    -- the first waiter whose countedLock is free gets it
    match x.waitq.find? fun t => ((x.g.locks (x.g.threads t).lk).holder).isNone with
    | some t =>
      match stepThr life x.g t with
      | some g' => settle life st n fuel { g := g', waitq := x.waitq.erase t }
      | none => x
    | none =>
      match (List.range n).find? fun t =>
          let pc := (x.g.threads t).pc
          pc != .idle && pc != .done && pc != .leaked && pc != .lockAcq && !isYield st x t with
      | some t =>
        match stepThr life x.g t with
        | some g' => settle life st n fuel { x with g := g' }
        | none => x
      | none => x

def posChar (st : String) (x : Ex) (t : Nat) : Char :=
  match (x.g.threads t).pc with
  | .idle => '-'
  | .atGet1 | .atGet2 => 'G'
  | .atLock => 'L'
  | .atSet => 'S'
  | .atUnlock => 'U'
  | .atHandler | .atHandlerB => 'H'
  | .done | .leaked => 'D'
  | .lockAcq => if isYield st x t then 'a' else 'B'
  | .unlockRelease => if st == "F" then 'u' else 'B'
  | .unlockDec => if st == "F" then 'd' else 'B'
  | _ => 'B'

def positions (st : String) (n : Nat) (x : Ex) : String := String.ofList ((List.range n).map fun t => posChar st x t)

def doAct (life : Nat) (st : String) (n : Nat) (x : Ex) : HAct → Except String Ex
  | .start t =>
    if (x.g.threads t).pc == .idle then
      match stepThr life x.g t with
      | some g' => pure (settle life st n 300 { x with g := g' })
      | none => throw "start disabled"
    else throw "start of a started thread"
  | .release t =>
    if isYield st x t then
      -- released at yield point 'a': the request enters `lock.mu.Lock()` (behind those already waiting)
      if (x.g.threads t).pc == .lockAcq then pure (settle life st n 300 { x with waitq := x.waitq ++ [t] }) else
      match stepThr life x.g t with
      | some g' => pure (settle life st n 300 { x with g := g' })
      | none => throw "release disabled"
    else throw "release of a thread that is not parked in the model"
  | .fault t =>
    if st == "M" then throw "outside-domain: fault on the built-in storage/lock"
    else match stepFault x.g t with
      | some g' => pure (settle life st n 300 { x with g := g' })
      | none => throw "fault where no call is pending in the model"
  | .corrupt t =>
    -- Storage.Get returns bytes that do not unmarshal: a failed lookup
    if st == "M" then throw "outside-domain: corrupt record on the built-in storage"
    else if (x.g.threads t).pc != .atGet1 && (x.g.threads t).pc != .atGet2 then
      throw "corrupt record where no Storage.Get is pending in the model"
    else match stepFault x.g t with
      | some g' => pure (settle life st n 300 { x with g := g' })
      | none => throw "corrupt record where no Storage.Get is pending in the model"
  | .tick d => pure { x with g := { x.g with now := x.g.now + d } }

/-! ### rendering -/

def hexStr (s : String) : String := B.toHexField (s.toUTF8.toList.map (·.toNat))

def renderHdrs (l : List (String × String)) : String :=
  if l.isEmpty then "-" else ";".intercalate (l.map fun (n, v) => n ++ "=" ++ hexStr v)

def renderResp (ran : Bool) (cls : String) (r : Resp) : String :=
  s!"{r.status}:{if ran then 1 else 0}:{cls}:{hexStr r.body}:{renderHdrs r.hdrs}"

/-- what the model says thread t's result line is -/
def resultOf (ins : Array ThrIn) (t : Nat) (th : Thread) : String :=
  let i := ins.getD t { method := 'G', key := '-', status := 200, body := false, hdrs := 0, err := false }
  let own := ownResp i t
  -- the answer the model wrote, as the harness observes it (watched headers, stable-sorted by name)
  let answer : Resp := Spec.record none watched (th.ans.getD ⟨0, "no-answer-in-model", []⟩)
  if th.pc != .done && th.pc != .leaked then "stuck" else
  match th.out with
  | .pending => "stuck"
  | .errKey => renderResp th.ran "Ekey" ⟨500, "", []⟩
  | .errGet1 => renderResp th.ran "Eget1" ⟨500, "", []⟩
  | .errLock => renderResp th.ran "Elock" ⟨500, "", []⟩
  | .errGet2 => renderResp th.ran "Eget2" ⟨500, "", []⟩
  | .errSet => renderResp th.ran "Eset" ⟨500, "", (Spec.record none watched own).hdrs.filter (·.1 != "Content-Type")⟩
  | .errHandler => renderResp th.ran "Ehandler" ⟨i.status, "", []⟩
  | .own => renderResp th.ran "ok" answer
  | .replay _ => renderResp th.ran "ok" answer

/-! ### the implementation's observation -/

def unhex (s : String) : Except String String :=
  if s == "-" then pure "" else
  match B.fromHex s with
  | some bs => pure (String.fromUTF8! (ByteArray.mk (bs.map (·.toUInt8)).toArray))
  | none => throw "outside-domain: hex"

def parseHdrs (s : String) : Except String (List (String × String)) := do
  if s == "-" then return []
  (s.splitOn ";").mapM fun p => match p.splitOn "=" with
    | [n, v] => do pure (n, ← unhex v)
    | _ => throw "outside-domain: header syntax"

structure ImplRes where
  noAnswer : Bool := false
  status : Nat := 0
  ran : Bool := false
  cls : String := ""
  resp : Resp := ⟨0, "", []⟩

def parseRes (s : String) : Except String ImplRes := do
  if s == "panic" || s == "stuck" then return { noAnswer := true }
  match s.splitOn ":" with
  | [st, ran, cls, body, hdrs] =>
    let some st := st.toNat? | throw "outside-domain: obs status"
    let b ← unhex body
    let h ← parseHdrs hdrs
    pure { status := st, ran := ran == "1", cls := cls, resp := ⟨st, b, h⟩ }
  | _ => throw "outside-domain: obs syntax"

def handleCase (f : List String) : Except String Verdict := do
  match f with
  | [id, cfgS, thrS, actS, impl] =>
    let cc ← parseCfg cfgS
    let ins ← parseThreads thrS
    let n := ins.size
    let acts ← (if actS == "-" then pure [] else (actS.splitOn ",").mapM (parseAct n))
    if acts.length > 5000 then throw "outside-domain: too many actions"
    let dflt : ThrIn := { method := 'G', key := '-', status := 200, body := false, hdrs := 0, err := false }
    let reqF : Nat → Req := fun t => reqOf cc (ins.getD t dflt) t
    -- model (if the implementation left the modelled behaviour the model cannot follow the actions: that is a
    -- correspondence failure, not a malformed case — the oracle below is still evaluated)
    let runModel : Except String String := do
      let mut x : Ex := { g := init reqF cc.t0 cc.keep }
      let mut poss : List String := []
      for a in acts do
        x ← doAct cc.life cc.st n x a
        poss := positions cc.st n x :: poss
      let modelPos := if poss.isEmpty then "-" else ",".intercalate poss.reverse
      let modelRes := if n == 0 then "-" else
        ",".intercalate ((List.range n).map fun t => resultOf ins t (x.g.threads t))
      pure (modelPos ++ "|" ++ modelRes)
    let modelObs := match runModel with
      | .ok s => s
      | .error e => "model-cannot-follow(" ++ e ++ ")"
    -- implementation observation
    let [implPos, implRes] := impl.splitOn "|" | throw "outside-domain: obs"
    let iposs := if implPos == "-" then [] else implPos.splitOn ","
    unless iposs.length == acts.length do throw "outside-domain: position vectors do not match the actions"
    unless iposs.all (·.length == n) do throw "outside-domain: position vector width"
    let ires := if implRes == "-" then [] else implRes.splitOn ","
    unless ires.length == n do throw "outside-domain: results do not match the threads"
    let resL ← ires.mapM parseRes
    -- events from the implementation's own trace
    let mut now := cc.t0
    let mut before : List Char := List.replicate n '-'
    let mut evs : List Spec.Ev := []
    let mut touched : List Nat := []
    let mut passedLock : List Nat := []     -- seen waiting at / inside Lock.Lock: a later `G` is the lookup under the lock
    let mut leakers : List Nat := []        -- their Lock.Unlock was made to fail
    for (a, p) in acts.zip iposs do
      let after := p.toList
      match a with
      | .tick d => now := now + d
      | .start _ =>
        -- built-in storage/lock: everything up to the handler happens inside this action
        pure ()
      | .release t =>
        let b := before.getD t '-'
        if b == 'H' then
          evs := .exec t now :: evs
          if cc.st == "M" && (reqF t).key.isSome && !(reqF t).fails then evs := .set t now true :: evs
        if b == 'S' then evs := .set t now true :: evs
      | .fault t =>
        let b := before.getD t '-'
        if b == 'U' then
          evs := .unlockFailed t :: evs
          leakers := t :: leakers
        else
          evs := .faulted t (b == 'S') :: evs
          if b == 'S' then evs := .set t now false :: evs
      | .corrupt t => evs := .faulted t false :: evs
      for t in List.range n do
        let c := after.getD t '-'
        if c == 'G' || c == 'L' || c == 'S' || c == 'U' || c == 'B' || c == 'a' || c == 'u' || c == 'd' then
          if !touched.contains t then touched := t :: touched
        -- a request is answered when it finishes, or already when its Storage.Get returned the record / an
        -- error (from G straight to the deferred Unlock or to the end): the answer is written at that moment,
        -- with st=F other requests can run while the deferred Unlock is still under way
        if c == 'D' && before.getD t '-' != 'D' then evs := .answered t :: evs
        else if before.getD t '-' == 'G' && c == 'U' then evs := .answered t :: evs
        if (c == 'L' || c == 'B' || c == 'a') && !passedLock.contains t then passedLock := t :: passedLock
      -- who waits inside Lock.Lock, and who is between Lock.Lock returning and Lock.Unlock
      let inside := (List.range n).filter fun t' =>
        let c := after.getD t' '-'
        c == 'S' || c == 'U' || c == 'u' || (c == 'G' && passedLock.contains t') || leakers.contains t' ||
          (c == 'H' && (reqF t').key.isSome)
      for t in List.range n do
        if after.getD t '-' == 'B' then evs := .blocked t inside :: evs
      before := after
    let evsF := evs.reverse
    let obsF : Nat → Spec.ThreadObs := fun t =>
      let r := resL.getD t { noAnswer := true }
      { req := reqF t, own := ownResp (ins.getD t dflt) t, ran := r.ran, isErr := r.cls != "ok", handlerErr := r.cls == "Ehandler", resp := r.resp,
        touched := touched.contains t, noAnswer := r.noAnswer }
    let verdict := Spec.check cc.life cc.keep watched n obsF evsF
    let spec := verdict.map (·.1)
    let known := match verdict with | some (_, true) => some "K1" | _ => none
    -- tags
    let replays := (List.range n).any fun t => let r := resL.getD t {}; !r.ran && r.cls == "ok" && (reqF t).key.isSome
    let faults := acts.any fun a => match a with | .fault _ => true | .corrupt _ => true | _ => false
    let ufault := !leakers.isEmpty
    let blocked := iposs.any (·.contains 'B')
    let reexec := (List.range n).any fun t => (List.range n).any fun t' =>
      t < t' && (reqF t).key.isSome && (reqF t).key == (reqF t').key && (resL.getD t {}).ran && (resL.getD t' {}).ran
    let fineOverlap := iposs.any fun p => (p.toList.filter fun c => c == 'a' || c == 'u' || c == 'd').length ≥ 2
    let tags := ["st" ++ cc.st] ++ (if fineOverlap then ["inside-memorylock-overlap"] else []) ++ (if replays then ["replay"] else []) ++ (if faults then ["fault"] else []) ++
      (if blocked then ["blocked"] else []) ++ (if reexec then ["reexec"] else []) ++
      (if ufault then ["unlock-fault"] else []) ++ (if cc.nx then ["custom-next"] else []) ++
      (if cc.kh then ["custom-keyheader"] else []) ++ (if cc.kv then ["custom-validate"] else []) ++
      (if (List.range n).any fun t => let r := resL.getD t {}; !r.ran && r.cls == "ok" && (reqF t).key.isSome &&
          r.resp.hdrs.any (fun h => h.1 == "Content-Type" && h.2 != Spec.defaultCT) then ["replay-content-type"] else []) ++
      (if replays || blocked then ["nt"] else [])
    pure { id := id, modelObs := modelObs, implObs := impl, spec := spec, known := known, tags := tags }
  | _ => throw s!"outside-domain: expected 5 fields, got {f.length}"

def main : IO Unit := run handleCase
