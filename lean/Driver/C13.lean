import FiberModel.DriverUtil
import FiberModel.C13.Spec
/-
Driver for C13. Case fields (after the id):  cfg  threads  actions  obs
(see harness/cmd/c13/main.go for the syntax). The model is executed at the harness' granularity:
an action releases one thread for one atomic step, then every thread that is not at a yield point
of the harness (Storage.Get/Set of an injected store, the downstream handler) runs on until it
parks, blocks on the mutex or finishes; mutex hand-off is FIFO (sync.Mutex with sleeping waiters).
-/
open DriverUtil C13

structure CaseCfg where
  cfg : Cfg
  st : String          -- M | X | L
  cfgMax : Int
  mf : Bool
  t0 : Nat

def kvs (s : String) : List (String × String) :=
  (s.splitOn ";").filterMap fun p => match p.splitOn "=" with
    | [k, v] => some (k, v) | _ => none

def parseCfg (s : String) : Except String CaseCfg := do
  let kv := kvs s
  let get (k : String) : Except String String :=
    match kv.find? (·.1 == k) with | some p => pure p.2 | none => throw s!"outside-domain: cfg key {k} missing"
  let flag (k : String) : Except String Bool := do
    let v ← get k
    if v == "1" then pure true else if v == "0" then pure false else throw s!"outside-domain: cfg flag {k}"
  let alg ← get "alg"
  let st ← get "st"
  unless alg == "F" || alg == "S" do throw "outside-domain: alg"
  unless st == "M" || st == "X" || st == "L" do throw "outside-domain: st"
  let some exp := (← get "exp").toNat? | throw "outside-domain: exp"
  unless exp ≥ 1 ∧ exp ≤ 1000 do throw "outside-domain: exp range"
  let some mx := (← get "max").toInt? | throw "outside-domain: max"
  let some t0 := (← get "t0").toNat? | throw "outside-domain: t0"
  unless t0 ≥ 1 do throw "outside-domain: t0 = 0 (timestamp updater not running)"
  let dflt ← flag "dflt"
  if dflt then
    unless alg == "F" ∧ st == "M" ∧ exp == 60 ∧ mx == 5 ∧ !(← flag "mf") ∧ !(← flag "sf") ∧ !(← flag "ss") do
      throw "outside-domain: dflt with non-default fields"
  pure { cfg := { sliding := alg == "S", lazy := st == "L", expiration := exp, skipFailed := ← flag "sf",
                  skipSuccessful := ← flag "ss", wt := codeWt },
         st := st, cfgMax := mx, mf := ← flag "mf", t0 := t0 }

/-- key:max:status:next -/
def parseThreads (cc : CaseCfg) (s : String) : Except String (Array Req) := do
  if s == "-" then return #[]
  let mut out := #[]
  for p in s.splitOn "," do
    match p.splitOn ":" with
    | [k, m, st, nx] =>
      let [kc] := k.toList | throw "outside-domain: key"
      let some m := m.toInt? | throw "outside-domain: thread max"
      let some st := st.toNat? | throw "outside-domain: status"
      unless st ≥ 200 ∧ st ≤ 599 do throw "outside-domain: status range"
      unless nx == "0" || nx == "1" do throw "outside-domain: next flag"
      -- configDefault: Max <= 0 → 5; MaxFunc nil → func returning cfg.Max
      let limit : Int := if cc.mf then m else if cc.cfgMax ≤ 0 then 5 else cc.cfgMax
      out := out.push { key := kc.toNat, max := limit, status := st, next := nx == "1" }
    | _ => throw "outside-domain: thread syntax"
  if out.size > 64 then throw "outside-domain: too many threads"
  pure out

inductive HAct | start (t : Nat) | release (t : Nat) | tick (d : Nat) | gc

def parseAct (n : Nat) (st : String) (s : String) : Except String HAct := do
  let num (r : String) : Except String Nat :=
    match r.toNat? with | some v => pure v | none => throw s!"outside-domain: action {s}"
  match s.toList with
  | 's' :: r => let t ← num (String.ofList r); if t < n then pure (.start t) else throw "outside-domain: tid"
  | 'r' :: r => let t ← num (String.ofList r); if t < n then pure (.release t) else throw "outside-domain: tid"
  | 't' :: r => let d ← num (String.ofList r); if d ≤ 100000 then pure (.tick d) else throw "outside-domain: tick"
  | ['g'] => if st == "M" then throw "outside-domain: gc on the built-in store" else pure .gc
  | _ => throw s!"outside-domain: action {s}"

/-! ### coarse execution -/

/-- is `pc` a point where the harness holds the thread? -/
def isYield (st : String) (pc : Pc) : Bool :=
  match pc with
  | .atHandler | .atHandlerB => true
  | .atGet | .atSet | .atGet2 | .atSet2 => st != "M"
  | _ => false

def isFinal (pc : Pc) : Bool := pc == .rejected || pc == .doneOk || pc == .doneBypass
def isWant (pc : Pc) : Bool := pc == .wantLock || pc == .wantLock2

structure Ex where
  g : G
  waitq : List Nat := []

/-- let everything that is not held by the harness run until quiescence -/
def settle (cfg : Cfg) (st : String) (n : Nat) : Nat → Ex → Ex
  | 0, x => x
  | fuel + 1, x =>
    -- enqueue new mutex waiters in tid order of arrival (at most one arrives per action)
    let newW := (List.range n).filter fun t => isWant (x.g.threads t).pc && !x.waitq.contains t
    let x := { x with waitq := x.waitq ++ newW }
    -- a free mutex goes to the head of the queue
    match (if x.g.mux.isNone then x.waitq.head? else none) with
    | some t =>
      match stepThr cfg x.g t with
      | some g' => settle cfg st n fuel { g := g', waitq := x.waitq.tail }
      | none => x
    | none =>
      -- any thread in the middle of straight-line code moves on
      match (List.range n).find? fun t =>
          let pc := (x.g.threads t).pc
          pc != .idle && !isYield st pc && !isFinal pc && !isWant pc with
      | some t =>
        match stepThr cfg x.g t with
        | some g' => settle cfg st n fuel { x with g := g' }
        | none => x
      | none => x

def posChar (pc : Pc) : Char :=
  match pc with
  | .idle => '-'
  | .atGet | .atGet2 => 'G'
  | .atSet | .atSet2 => 'S'
  | .atHandler | .atHandlerB => 'H'
  | .rejected | .doneOk | .doneBypass => 'D'
  | _ => 'B'

def positions (n : Nat) (g : G) : String := String.ofList ((List.range n).map fun t => posChar (g.threads t).pc)

/-- one harness action (inapplicable ones do not occur in the harness' output: outside the domain) -/
def doAct (cfg : Cfg) (st : String) (n : Nat) (x : Ex) : HAct → Except String Ex
  | .start t =>
    if (x.g.threads t).pc == .idle then
      match stepThr cfg x.g t with
      | some g' => pure (settle cfg st n 200 { x with g := g' })
      | none => throw "start disabled"
    else throw "start of a started thread"
  | .release t =>
    if isYield st (x.g.threads t).pc then
      match stepThr cfg x.g t with
      | some g' => pure (settle cfg st n 200 { x with g := g' })
      | none => throw "release disabled"
    else throw "release of a thread that is not parked in the model"
  | .tick d => pure { x with g := { x.g with now := x.g.now + d } }
  | .gc => pure { x with g := gcStore x.g }

def resultOf (th : Thread) : String :=
  match th.pc with
  | .rejected => s!"429:0:{th.reset}:x:x:x"
  | .doneOk => s!"{th.req.status}:1:x:{th.req.max}:{th.remaining}:{th.reset}"
  | .doneBypass => s!"{th.req.status}:1:x:x:x:x"
  | _ => "stuck"

/-! ### events and observations from the implementation's trace -/

def parseObs (s : String) : Except String Spec.Obs := do
  if s == "panic" || s == "stuck" then return .noAnswer
  match s.splitOn ":" with
  | [st, ran, ra, lim, rem, rst] =>
    let some st := st.toNat? | throw "outside-domain: obs status"
    let ra ← (if ra == "x" then pure none else match ra.toNat? with
      | some v => pure (some v) | none => throw "outside-domain: obs retry-after")
    let lim ← (if lim == "x" then pure none else match lim.toInt? with
      | some v => pure (some v) | none => throw "outside-domain: obs limit")
    let rem ← (if rem == "x" then pure none else match rem.toInt? with
      | some v => pure (some v) | none => throw "outside-domain: obs remaining")
    let rst ← (if rst == "x" then pure none else match rst.toNat? with
      | some v => pure (some v) | none => throw "outside-domain: obs reset")
    pure (.answered st (ran == "1") ra lim rem rst)
  | _ => throw "outside-domain: obs syntax"

structure Trace where
  now : Nat
  passedH : List Nat := []
  hitDone : List Nat := []
  evs : List Spec.Ev := []     -- reversed

def bypassed (r : Req) : Bool := r.next || r.max == 0

/-- derive the linearisation (hit / unhit events) from the implementation's position vectors -/
def traceStep (cc : CaseCfg) (reqs : Array Req) (tr : Trace) (a : HAct) (before after : List Char) : Trace :=
  let hitIfMissing (tr : Trace) (t : Nat) : Trace :=
    if tr.hitDone.contains t then tr else { tr with hitDone := t :: tr.hitDone, evs := .hit t tr.now :: tr.evs }
  match a with
  | .tick d => { tr with now := tr.now + d }
  | .gc => tr
  | .start t =>
    match reqs[t]? with
    | none => tr
    | some r =>
      if bypassed r then tr
      else
        let c := after.getD t '-'
        -- built-in store: the whole first critical section happens inside this action
        if c == 'H' || c == 'D' then hitIfMissing tr t else tr
  | .release t =>
    match reqs[t]? with
    | none => tr
    | some r =>
      if bypassed r then tr
      else
        let b := before.getD t '-'
        if b == 'G' then
          if tr.passedH.contains t then { tr with evs := .unhit t :: tr.evs } else hitIfMissing tr t
        else if b == 'H' then
          let tr := { tr with passedH := t :: tr.passedH }
          if cc.st == "M" && skipCond cc.cfg r.status then { tr with evs := .unhit t :: tr.evs } else tr
        else
          -- released from Set: if it reaches the handler without ever having parked at Get, count it here
          let c := after.getD t '-'
          if c == 'H' || c == 'D' then hitIfMissing tr t else tr

/-- distribution tags: where, relative to the abstract windows, the implementation's hits and
take-backs fell (window edges, idle gaps, weighted previous window, take-back of an old hit) -/
def edgeTags (cfg : Cfg) (reqs : Nat → Req) : List Spec.Ev → Spec.State → List String → List String
  | [], _, acc => acc
  | .hit t ts :: evs, s, acc =>
    let r := reqs t
    let w' := Spec.hit cfg (s r.key) ts t
    let E := cfg.expiration
    let tg : List String := match s r.key with
      | none => []
      | some w =>
        (if ts + 1 == w.wend then ["hit-last-second"] else []) ++
        (if ts == w.wend then ["hit-at-end"] else []) ++
        (if cfg.sliding && ts + 1 == w.wend + E then ["hit-prev-last-second"] else []) ++
        (if cfg.sliding && ts == w.wend + E then ["hit-gap-exact"] else []) ++
        (if ts > w.wend + E then ["hit-gap-long"] else []) ++
        (if cfg.sliding && w.wend ≤ ts && ts < w.wend + E && !w.cur.isEmpty then ["weighted"] else [])
    let lim := if Spec.admits cfg w' ts r.max then
        (if Spec.load cfg w' ts == r.max then ["pass-at-limit"] else [])
      else (if Spec.load cfg w' ts == r.max + 1 then ["reject-just-over"] else [])
    edgeTags cfg reqs evs (s.set r.key w') (acc ++ tg ++ lim)
  | .unhit t :: evs, s, acc =>
    let r := reqs t
    match s r.key with
    | some w =>
      let tg := if w.cur.contains t then "unhit-cur" else if w.prev.contains t then "unhit-prev" else "unhit-late"
      edgeTags cfg reqs evs (s.set r.key (Spec.unhit w t)) (acc ++ [tg])
    | none => edgeTags cfg reqs evs s (acc ++ ["unhit-late"])

def handleCase (f : List String) : Except String Verdict := do
  match f with
  | [id, cfgS, thrS, actS, impl] =>
    let cc ← parseCfg cfgS
    let reqs ← parseThreads cc thrS
    let n := reqs.size
    let acts ← (if actS == "-" then pure [] else (actS.splitOn ",").mapM (parseAct n cc.st))
    if acts.length > 5000 then throw "outside-domain: too many actions"
    let reqF : Nat → Req := fun t => reqs.getD t { key := 0, max := 0, status := 200, next := true }
    -- model (if the implementation left the modelled behaviour the model cannot follow the actions: that is a
    -- correspondence failure, not a malformed case — the oracle below is still evaluated)
    let runModel : Except String String := do
      let mut x : Ex := { g := init reqF cc.t0 }
      let mut poss : List String := []
      for a in acts do
        x ← doAct cc.cfg cc.st n x a
        poss := positions n x.g :: poss
      let modelPos := if poss.isEmpty then "-" else ",".intercalate poss.reverse
      let modelRes := if n == 0 then "-" else ",".intercalate ((List.range n).map fun t => resultOf (x.g.threads t))
      pure (modelPos ++ "|" ++ modelRes)
    let modelObs := match runModel with
      | .ok s => s
      | .error e => "model-cannot-follow(" ++ e ++ ")"
    -- implementation observation
    let [implPos, implRes] := impl.splitOn "|" | throw "outside-domain: obs"
    let iposs := if implPos == "-" then [] else implPos.splitOn ","
    unless iposs.length == acts.length do throw "outside-domain: position vectors do not match the actions"
    unless iposs.all (·.length == n) do throw "outside-domain: position vector width"
    let ires := if implRes == "-" then [] else implRes.splitOn ","
    unless ires.length == n do throw "outside-domain: results do not match the threads"
    let obsL ← ires.mapM parseObs
    let obsF : Nat → Spec.Obs := fun t => obsL.getD t .noAnswer
    -- linearisation from the implementation's own trace
    let mut tr : Trace := { now := cc.t0 }
    let mut before : List Char := List.replicate n '-'
    for (a, p) in acts.zip iposs do
      tr := traceStep cc reqs tr a before p.toList
      before := p.toList
    let evs := tr.evs.reverse
    let spec := Spec.check cc.cfg reqF n evs obsF
    -- tags
    let rej := ires.any (·.startsWith "429:")
    let unh := evs.any fun e => match e with | .unhit _ => true | _ => false
    let conc := iposs.any (·.contains 'B')
    let keysUsed := ((reqs.toList.filter (fun r => !bypassed r)).map (·.key)).eraseDups
    let limitsUsed := ((reqs.toList.filter (fun r => !bypassed r)).map (·.max)).eraseDups
    let tags := [(if cc.cfg.sliding then "sliding" else "fixed"), "st" ++ cc.st] ++
      (if rej then ["rejects"] else []) ++ (if unh then ["unhit"] else []) ++
      (if conc then ["contended"] else []) ++
      (if keysUsed.length > 1 then ["multi-key"] else []) ++
      (if limitsUsed.length > 1 then ["dyn-limit"] else []) ++
      (edgeTags cc.cfg reqF evs (fun _ => none) []).eraseDups ++
      (if rej || unh then ["nt"] else [])
    pure { id := id, modelObs := modelObs, implObs := impl, spec := spec, tags := tags }
  | _ => throw s!"outside-domain: expected 5 fields, got {f.length}"

def main : IO Unit := run handleCase
