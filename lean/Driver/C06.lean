import FiberModel.DriverUtil
-- stub driver for C06; replaced when the property's model lands
def main : IO Unit := pure ()
