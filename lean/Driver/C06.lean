import FiberModel.DriverUtil
import FiberModel.C06.Spec
import FiberModel.Generated.C06Facts
/-
Driver for C06. Case fields (after the id):
  cfg  req0  later(`;`-separated requests or `-`)  implObs
cfg     := imm(0/1)[,cs][,hh][,ipv][,mw][,na][,nf][,ph][,po][,rr][,split][,srv][,tp][,uo]   (flags in this
           order; at most one of hh, mw, na, nf, po, rr, uo; po only with imm = 1)
request := proto|name|rest|query|headers|cookies|host|body   (pairs: `hexk=hexv,…` or `-`;
           body: `n` | `r:<hex>` | `f:<pairs>` | `j:<pairs>` | `m:<pairs>~<file pairs>` |
                 `z:<hex list of encodings>:<hex list of layers>`)
implObs := acc=during/end/after;…   (each a hex list; after = `na` when imm = 0; `acc=v` is short for
           v/v/v, or v/v/na when imm = 0)
Special case id `coverage`: one field, the `,`-separated accessor ids the harness probed; compared
with the regenerated table (every row must have a dynamic confirmation).
-/
open B DriverUtil C06

def parsePairs (s : String) : Option (List (Bytes × Bytes)) :=
  if s == "-" then some [] else
  (s.splitOn ",").mapM fun p =>
    match p.splitOn "=" with
    | [k, v] => do some (← fromHex k, ← fromHex v)
    | _ => none

def parseCfg (s : String) : Option Cfg :=
  match s.splitOn "," with
  | i :: flags => do
    let imm ← if i == "1" then some true else if i == "0" then some false else none
    -- canonical spelling only: known flags, strictly ascending
    let known := ["cs", "hh", "ipv", "mw", "na", "nf", "ph", "po", "rr", "split", "srv", "tp", "uo"]
    if !(flags.all known.contains) then none
    let rec asc : List String → Bool
      | a :: b :: r => a < b && asc (b :: r)
      | _ => true
    if !asc flags then none
    let chains := flags.filter ["hh", "mw", "na", "nf", "po", "rr", "uo"].contains
    if chains.length > 1 then none
    -- rewriting the path is the handler's own doing: without the option nothing is promised across it
    if flags.contains "po" && !imm then none
    let chain := if flags.contains "hh" then 1 else if flags.contains "mw" then 2 else if flags.contains "rr" then 3
      else if flags.contains "po" then 4 else if flags.contains "nf" then 5 else if flags.contains "na" then 6
      else if flags.contains "uo" then 7 else 0
    some { imm, chain, cs := flags.contains "cs", ipv := flags.contains "ipv", ph := flags.contains "ph",
           split := flags.contains "split", tp := flags.contains "tp", srv := flags.contains "srv" }
  | [] => none

def parseReq (s : String) : Option Req :=
  match s.splitOn "|" with
  | [pr, name, rest, qy, hd, ck, host, body] => do
    let proto ← if pr == "0" then some 0 else if pr == "1" then some 1 else none
    let name ← fromHex name
    let rest ← fromHex rest
    let qy ← parsePairs qy
    let hd ← parsePairs hd
    let ck ← parsePairs ck
    let host ← fromHex host
    if name.isEmpty || host.isEmpty then none
    let base : Req := { proto, name, rest, query := qy, headers := hd, cookies := ck, host, bkind := 'n', braw := [], bform := [] }
    if body == "n" then some base
    else if body.startsWith "r:" then do some { base with bkind := 'r', braw := ← fromHex (body.drop 2).toString }
    else if body.startsWith "f:" then do some { base with bkind := 'f', bform := ← parsePairs (body.drop 2).toString }
    else if body.startsWith "j:" then do some { base with bkind := 'j', bform := ← parsePairs (body.drop 2).toString }
    else if body.startsWith "m:" then
      match (body.drop 2).toString.splitOn "~" with
      | [fs, files] => do some { base with bkind := 'm', bform := ← parsePairs fs, bfiles := ← parsePairs files }
      | _ => none
    else if body.startsWith "z:" then
      match (body.drop 2).toString.splitOn ":" with
      | [es, ls] => do
        let encs ← hexList es
        let layers ← hexList ls
        -- one layer more than the leading run of supported encodings
        let n := (encs.takeWhile supportedEnc).length
        if encs.isEmpty || layers.length != n + 1 then none
        some { base with bkind := 'z', encs, layers }
      | _ => none
    else none
  | _ => none

/-- `Meth(key)` → (Meth, key) -/
def splitAcc (acc : String) : String × Bytes :=
  match acc.splitOn "(" with
  | [m] => (m, [])
  | m :: rest =>
    let k := "(".intercalate rest
    (m, b (if k.endsWith ")" then (k.dropEnd 1).toString else k))
  | [] => (acc, [])

/-- name of the table row an accessor id is a dynamic confirmation of -/
def rowNameOf (meth : String) : String :=
  -- `Query[string]` → `Query`; `Bind.Query:map` → `Bind.Query:source`; `Bind.Body:map` → `Bind.Body:dispatch`
  let m := (meth.splitOn "[").headD meth
  let m := if m.startsWith "Mw." || m.startsWith "H1." then (m.drop 3).toString else m  -- handler in front
  let m := if m.startsWith "Pre." then (m.drop 4).toString else m     -- early probe of the same accessor
  if m.startsWith "Bind." then
    let base := (m.splitOn ":").headD m
    if base == "Bind.Body" || base == "Bind.Custom" then base ++ ":dispatch" else base ++ ":source"
  else m

def findRow (meth : String) : Option Row :=
  let n := rowNameOf meth
  let generic := (meth.splitOn "[").length > 1
  Facts.rows.find? fun r => r.name == n && (if generic then r.kind == .generic else r.kind != .generic && r.kind != .conv)

def parseObs (imm : Bool) (s : String) : Option Obs :=
  match s.splitOn "/" with
  | [d] => do   -- compact form: the value read the same all three times
    let d ← hexList d
    some { during := d, atEnd := d, after := if imm then some d else none }
  | [d, e, a] => do
    let d ← hexList d
    let e ← hexList e
    if a == "na" then (if imm then none else some { during := d, atEnd := e, after := none })
    else some { during := d, atEnd := e, after := some (← hexList a) }
  | _ => none

def renderObs (d e : List Bytes) (a : Option (List Bytes)) : String :=
  if e == d && (match a with | some a => a == d | none => true) then hexListField d else
  s!"{hexListField d}/{hexListField e}/{match a with | some a => hexListField a | none => "na"}"

/-- accessor id → method part (`Get(Host)` → `Get`, `Query[string](q)` → `Query[string]`) -/
def methOf (i : String) : String := (i.splitOn "(").headD i

def coverage (probed : String) : Except String Verdict := do
  let ids := (probed.splitOn ",").map methOf |>.eraseDups
  let probedRow (r : Row) : Bool :=
    match r.kind with
    | .binder | .conv => true      -- exercised through the Bind.* probes / every getString accessor
    | _ => ids.any fun i => (findRow i).any fun r' => r'.name == r.name && r'.kind == r.kind
  -- every row needs a probe, and every probe needs a row (an accessor the translator did not tabulate
  -- would otherwise escape the obligation)
  let missing := (Facts.rows.filter fun r => !probedRow r).map (·.name)
  let untabled := ids.filter fun i => (findRow i).isNone
  let notOk := (Facts.rows.filter fun r => !r.okImmutable).map (·.name)
  let obs := if missing.isEmpty && untabled.isEmpty then "covered"
    else "unprobed:" ++ ",".intercalate missing ++ " untabled:" ++ ",".intercalate untabled
  pure { id := "coverage", modelObs := "covered", implObs := obs, spec := none,
         tags := ["coverage"] ++ notOk.map (fun n => "table-not-copying:" ++ n) ++ missing.map (fun n => "unprobed:" ++ n) ++
                 untabled.map (fun n => "untabled:" ++ n) }

def handleCase (f : List String) : Except String Verdict := do
  match f with
  | ["coverage", probed] => coverage probed
  | [id, imm, req0, later, impl] =>
    if impl == "invalid" || impl == "unserved" then throw "outside-domain: request outside the structured vocabulary"
    let some cfg := parseCfg imm | throw "outside-domain: cfg"
    let imm := cfg.imm
    let some q := parseReq req0 | throw "outside-domain: req0"
    let laterN ← if later == "-" then pure 0 else do
      let ls := later.splitOn ";"
      if ls.all fun l => (parseReq l).isSome then pure ls.length else throw "outside-domain: later"
    let mut modelParts : List String := []
    let mut fail : Option String := none
    let mut nosem := 0
    let mut views := 0
    for part in impl.splitOn ";" do
      let (acc, v) := match part.splitOn "=" with
        | a :: rest => (a, "=".intercalate rest)
        | [] => (part, "")
      -- accessor ids may contain '=' only inside parentheses (they do not); values never do
      let some o := parseObs imm v | throw s!"unparsable observation for {acc}"
      let (meth, key) := splitAcc acc
      let want := sem cfg q meth key
      if want.isNone then nosem := nosem + 1
      -- spec oracle on the implementation's observation
      if fail.isNone then
        match specViolation imm want o with
        | some c => fail := some s!"{c} {acc}"
        | none => pure ()
      -- model: the value is the reference text; it is owned when the regenerated table says the
      -- accessor returns through a copying conversion (always, or under Immutable), a view otherwise
      let text := want.getD o.during
      let owned := match findRow meth with
        | some r => r.okImmutable
        | none => true
      let after : Option (List Bytes) :=
        if !imm then none
        else if owned then some text
        else o.after            -- a view: the model cannot say what later requests left there
      if imm && !owned then views := views + 1
      modelParts := modelParts ++ [s!"{acc}={renderObs text text after}"]
    let tags := [if imm then "immutable" else "mutable", s!"later{min laterN 9}", s!"body-{q.bkind}"] ++
      (if cfg.cs then ["cs"] else []) ++ (if cfg.split then ["split"] else []) ++ (if cfg.ph then ["ph"] else []) ++
      (if cfg.ipv then ["ipv"] else []) ++ (if cfg.tp then ["tp"] else []) ++ (if cfg.srv then ["real-server"] else []) ++
      [s!"chain{cfg.chain}"] ++
      (if nosem > 0 then ["has-nosem"] else []) ++ (if views > 0 then ["table-says-view"] else []) ++
      (if imm && laterN > 0 then ["nt"] else [])
    pure { id := id, modelObs := ";".intercalate modelParts, implObs := impl, spec := fail, tags := tags }
  | _ => throw s!"outside-domain: expected 5 fields, got {f.length}"

def main : IO Unit := run handleCase
