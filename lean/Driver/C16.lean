import FiberModel.DriverUtil
import FiberModel.C16.Spec
/-
Driver for C16. Case fields (after the id):
  backend(st|mem|ss|sm) extractor single(0/1) idle(secs) trusted(hexlist) ops obs
see harness/cmd/c16/main.go for the op and observation syntax.
-/
open B DriverUtil C16

def tokGen (n : Nat) : Bytes := b "t" ++ natToDec (n + 1)
def sidGen (n : Nat) : Bytes := b "s" ++ natToDec (n + 1)

def hx (s : String) : Except String Bytes :=
  match fromHex s with
  | some v => pure v
  | none => throw s!"outside-domain: bad hex {s}"

def isAscii (s : Bytes) : Bool := s.all (· < 128)
def tokenSafe (s : Bytes) : Bool := s.all fun c => isAlpha c || isDigit c || c == 95 || c == 45

def parseUrl (ok sch host : String) : Except String UrlInfo := do
  if ok != "0" && ok != "1" then throw "outside-domain: url ok flag"
  pure { ok := ok == "1", scheme := ← hx sch, host := ← hx host }

def parseOp (ext : Ext) (faultsOK : Bool) (s : String) : Except String Op := do
  match s.splitOn ":" with
  | ["a", n] =>
    match n.toNat? with
    | some d => if d > 100000 then throw "outside-domain: advance" else pure (.adv d)
    | none => throw "outside-domain: advance"
  | ["r", m, ck, sc, hdr, qry, form, param, custom, og, ook, osch, ohost, rf, rok, rsch, rhost, host, https, del, faults] =>
    let me := b m
    if !(["GET", "HEAD", "OPTIONS", "TRACE", "POST", "PUT", "DELETE", "PATCH"].contains m) then
      throw "outside-domain: method"
    let q : Req := {
      method := me, ck := ← hx ck, sc := ← hx sc, hdr := ← hx hdr, qry := ← hx qry, form := ← hx form,
      param := ← hx param, custom := ← hx custom, origin := ← hx og, ourl := ← parseUrl ook osch ohost,
      referer := ← hx rf, rurl := ← parseUrl rok rsch rhost, host := ← hx host,
      https := https == "1", del := del == "1",
      failGet := faults.contains 'g', failSet := faults.contains 's', failDel := faults.contains 'd' }
    if https != "0" && https != "1" then throw "outside-domain: https flag"
    if del != "0" && del != "1" then throw "outside-domain: del flag"
    if !(faults == "-" || faults.all fun c => c == 'g' || c == 's' || c == 'd') then throw "outside-domain: faults"
    if faults != "-" && !faultsOK then throw "outside-domain: faults on this back-end"
    if q.host = [] then throw "outside-domain: empty Host"
    if !(isAscii q.origin && isAscii q.referer && isAscii q.host) then throw "outside-domain: non-ascii header"
    if !(tokenSafe q.ck && tokenSafe q.sc && tokenSafe q.hdr && tokenSafe q.qry && tokenSafe q.form &&
         tokenSafe q.param && tokenSafe q.custom) then throw "outside-domain: token alphabet"
    if ext = .param && q.param = [] then throw "outside-domain: empty route parameter"
    pure (.req q)
  | _ => throw "outside-domain: malformed op"

def optTok : Option Bytes → String
  | none => "none"
  | some [] => "exp"
  | some v => toHex v

def plusList (l : List Bytes) : String :=
  if l.isEmpty then "-" else "+".intercalate (l.map toHex)

def insertSorted (x : String) : List String → List String
  | [] => [x]
  | y :: ys => if x < y then x :: y :: ys else y :: insertSorted x ys

def sortStrings (l : List String) : List String := l.foldr insertSorted []

def renderLive (mem : Bool) (cfg : Cfg) (st : St) : String :=
  if mem then "?" else
  let items : List String := (probe cfg st).map fun it =>
    match cfg.backend, it.tok with
    | .storage, some t => s!"{toHex t}@{it.deadline}"
    | .storage, none => "none@0"
    | _, some t => s!"{toHex it.sid}/{toHex t}@{it.deadline}"
    | _, none => s!"{toHex it.sid}/none@0"
  if items.isEmpty then "-" else "+".intercalate (sortStrings items)

def firedStr (r : Resp) : String :=
  let s := (if r.fg then "g" else "") ++ (if r.fs then "s" else "") ++ (if r.fd then "d" else "")
  if s.isEmpty then "-" else s

def renderResp (mem : Bool) (cfg : Cfg) (st : St) (r : Resp) : String :=
  s!"{if r.pass then 1 else 0},{r.status},{optTok r.ck},{match r.sc with | none => "none" | some v => toHex v}," ++
  s!"{plusList r.gens},{plusList r.sgens},{firedStr r},{if r.early then 1 else 0},{renderLive mem cfg st}"

def runModel (mem : Bool) (cfg : Cfg) : St → List Op → List String
  | _, [] => []
  | st, o :: os =>
    match o with
    | .adv d => "-" :: runModel mem cfg { st with now := st.now + d } os
    | .req q =>
      let (st', r) := handle cfg tokGen sidGen st q
      renderResp mem cfg st' r :: runModel mem cfg st' os

def parseLive (s : String) : Except String (Option (List LiveItem)) := do
  if s == "?" then return none
  if s == "-" then return some []
  let items ← (s.splitOn "+").mapM fun it => do
    match it.splitOn "@" with
    | [k, d] =>
      let dn := if d == "inf" then 1000000000 else d.toNat?.getD 0
      match k.splitOn "/" with
      | [tk] => pure ({ sid := [], tok := some (← hx tk), deadline := dn } : LiveItem)
      | [sid, tk] =>
        if tk == "none" || tk == "undecodable" then pure { sid := ← hx sid, tok := none, deadline := 0 }
        else pure { sid := ← hx sid, tok := some (← hx tk), deadline := dn }
      | _ => throw "bad live item"
    | _ => throw "bad live item"
  return some items

def parsePlus (s : String) : Except String (List Bytes) :=
  if s == "-" then pure [] else (s.splitOn "+").mapM hx

def parseObs (s : String) : Except String Obs := do
  match s.splitOn "," with
  | [p, st, ck, sc, g, sg, fr, ea, lv] =>
    let ckv ← (if ck == "none" then pure none else if ck == "exp" then pure (some []) else do pure (some (← hx ck)))
    let scv ← (if sc == "none" then pure none else do pure (some (← hx sc)))
    pure { pass := p == "1", status := st.toNat?.getD 0, ck := ckv, sc := scv, gens := ← parsePlus g,
           sgens := ← parsePlus sg, fired := fr != "-", early := ea == "1", live := ← parseLive lv }
  | _ => throw "bad observation"

def extOf : String → Option Ext
  | "header" => some .header | "form" => some .form | "query" => some .query
  | "param" => some .param | "cookie" => some .cookie | "custom" => some .custom | _ => none

def trustedCharOK (c : Nat) : Bool :=
  isAlpha c || isDigit c || c == 58 || c == 47 || c == 46 || c == 42 || c == 45 || c == 32 || c == 63 || c == 61

def handleCase (f : List String) : Except String Verdict := do
  match f with
  | [id, be, ext, single, idle, trusted, ops, impl] =>
    let some ext := extOf ext | throw "outside-domain: extractor"
    let (backend, mem) ← match be with
      | "st" => pure (Backend.storage, false) | "mem" => pure (Backend.storage, true)
      | "ss" => pure (Backend.sessStore, false) | "sm" => pure (Backend.sessMw, false)
      | _ => throw "outside-domain: backend"
    let some idle := idle.toNat? | throw "outside-domain: idle"
    if idle = 0 || idle > 3600 then throw "outside-domain: idle"
    let some raw := hexList trusted | throw "outside-domain: trusted"
    if !(raw.all fun o => o.all trustedCharOK) then throw "outside-domain: trusted origin alphabet"
    let opl ← (if ops == "-" then pure [] else (ops.splitOn ";").mapM (parseOp ext (be == "st" || be == "ss")))
    let total := opl.foldl (fun acc o => match o with | .adv d => acc + d | _ => acc) 0
    if total > 80000 then throw "outside-domain: history longer than the session lifetime"
    match buildLoop raw [] [] with
    | none =>
      pure { id := id, modelObs := "panic", implObs := impl, spec := none, tags := ["ctor-panic"] }
    | some (os, ss) =>
      let cfg : Cfg := { backend := backend, ext := ext, single := single == "1", idle := idle, origins := os, subs := ss }
      let mo := runModel mem cfg {} opl
      let modelObs := if mo.isEmpty then "-" else ";".intercalate mo
      let (spec, tags) ←
        if impl == "panic" then pure (some "constructor-panicked-on-valid-config", ([] : List String))
        else do
          let obsl ← (if impl == "-" then pure [] else (impl.splitOn ";").mapM fun s =>
            if s == "-" then pure none else if s == "panic" then pure (some panicObs) else (parseObs s).map some)
          -- assumption of the theorems on the URL-parser parameter: a scheme never contains ':'
          let badUrl := opl.any fun o => match o with
            | .req q => q.ourl.scheme.contains 58 || q.rurl.scheme.contains 58
            | _ => false
          if badUrl then pure (some "assumption-url-scheme-without-colon", [])
          else if obsl.length != opl.length then pure (some "observation-count", [])
          else pure (specRun (specConfig backend ext (single == "1") idle raw) specInit opl obsl, specTags cfg opl obsl)
      pure { id := id, modelObs := modelObs, implObs := impl, spec := spec, tags := [be, toString (repr ext)] ++ tags }
  | _ => throw s!"outside-domain: expected 8 fields, got {f.length}"

def main : IO Unit := run handleCase
