import FiberModel.DriverUtil
import FiberModel.C16.Spec
/-
Driver for C16. Case fields (after the id):
  backend(st|mem|ss|sm) extractor single(0/1) idle(secs) trusted(hexlist) front ops urlFacts obs
see harness/cmd/c16/main.go for the op and observation syntax. `urlFacts` and the (ok, scheme, host)
triples inside the ops are the answers of the real `net/url.Parse`; the driver compares each with the
transcription `C19.Url.parse` the model runs on (a difference is reported as a model difference).
-/
open B DriverUtil C16

/-- the harness' KeyGenerator: `t<n>`, padded with `x` to `kg` bytes -/
def tokGen (kg : Nat) (n : Nat) : Bytes :=
  let t := b "t" ++ natToDec (n + 1)
  t ++ List.replicate (kg - t.length) 120
def sidGen (n : Nat) : Bytes := b "s" ++ natToDec (n + 1)

def hx (s : String) : Except String Bytes :=
  match fromHex s with
  | some v => pure v
  | none => throw s!"outside-domain: bad hex {s}"

def isAscii (s : Bytes) : Bool := s.all (· < 128)
def tokenSafe (s : Bytes) : Bool := s.all fun c => isAlpha c || isDigit c || c == 95 || c == 45

def parseUrl (ok sch host : String) : Except String UrlInfo := do
  if ok != "0" && ok != "1" then throw "outside-domain: url ok flag"
  pure { ok := ok == "1", scheme := ← hx sch, host := ← hx host }

/-- header text: printable ASCII, tab, DEL (what the in-process request carries unchanged) -/
def headerSafe (s : Bytes) : Bool := s.all fun c => (32 ≤ c && c < 128) || c == 9

/-- an op, and (if any) the header on which the transcription of `url.Parse` disagrees with the
    answer of the real one that the harness shipped -/
def parseOp (ext : Ext) (faultsOK : Bool) (s : String) : Except String (Op × Option String) := do
  match s.splitOn ":" with
  | ["a", n] =>
    match n.toNat? with
    | some d => if d > 100000 then throw "outside-domain: advance" else pure (.adv d, none)
    | none => throw "outside-domain: advance"
  | ["r", m, ck, sc, hdr, qry, form, param, custom, og, ook, osch, ohost, rf, rok, rsch, rhost, host, https, del, faults, skip] =>
    let me := b m
    if !(["GET", "HEAD", "OPTIONS", "TRACE", "POST", "PUT", "DELETE", "PATCH"].contains m) then
      throw "outside-domain: method"
    let q : Req := {
      method := me, ck := ← hx ck, sc := ← hx sc, hdr := ← hx hdr, qry := ← hx qry, form := ← hx form,
      param := ← hx param, custom := ← hx custom, origin := ← hx og,
      referer := ← hx rf, host := ← hx host,
      https := https == "1", del := del == "1", skip := skip == "1",
      failGet := faults.contains 'g', failSet := faults.contains 's', failDel := faults.contains 'd' }
    if https != "0" && https != "1" then throw "outside-domain: https flag"
    if del != "0" && del != "1" then throw "outside-domain: del flag"
    if skip != "0" && skip != "1" then throw "outside-domain: skip flag"
    if !(faults == "-" || faults.all fun c => c == 'g' || c == 's' || c == 'd') then throw "outside-domain: faults"
    if faults != "-" && !faultsOK then throw "outside-domain: faults on this back-end"
    if q.host = [] then throw "outside-domain: empty Host"
    if !(headerSafe q.origin && headerSafe q.referer && isAscii q.host) then throw "outside-domain: non-ascii header"
    let ou ← parseUrl ook osch ohost
    let ru ← parseUrl rok rsch rhost
    let bad : Option String :=
      if q.ourl != ou then some s!"url-parse-differs:{toHexField (toLower q.origin)}"
      else if q.rurl != ru then some s!"url-parse-differs:{toHexField (toLower q.referer)}"
      else none
    if !(tokenSafe q.ck && tokenSafe q.sc && tokenSafe q.hdr && tokenSafe q.qry && tokenSafe q.form &&
         tokenSafe q.param && tokenSafe q.custom) then throw "outside-domain: token alphabet"
    if ext = .param && q.param = [] then throw "outside-domain: empty route parameter"
    pure (.req q, bad)
  | _ => throw "outside-domain: malformed op"

def optTok : Option Bytes → String
  | none => "none"
  | some [] => "exp"
  | some v => toHex v

def plusList (l : List Bytes) : String :=
  if l.isEmpty then "-" else "+".intercalate (l.map toHex)

def insertSorted (x : String) : List String → List String
  | [] => [x]
  | y :: ys => if x < y then x :: y :: ys else y :: insertSorted x ys

def sortStrings (l : List String) : List String := l.foldr insertSorted []

def renderLive (mem : Bool) (cfg : Cfg) (st : St) : String :=
  if mem then "?" else
  let items : List String := (probe cfg st).map fun it =>
    match cfg.backend, it.tok with
    | .storage, some t => s!"{toHex t}@{it.deadline}"
    | .storage, none => "none@0"
    | _, some t => s!"{toHex it.sid}/{toHex t}@{it.deadline}"
    | _, none => s!"{toHex it.sid}/none@0"
  if items.isEmpty then "-" else "+".intercalate (sortStrings items)

def firedStr (r : Resp) : String :=
  let s := (if r.fg then "g" else "") ++ (if r.fs then "s" else "") ++ (if r.fd then "d" else "")
  if s.isEmpty then "-" else s

def sameSiteStr : SameSite → String
  | .lax => "lax" | .strict => "strict" | .none => "none" | .disabled => "disabled"

def renderAttrs : Option CookieAttrs → String
  | none => "-"
  | some a =>
    s!"{toHexField a.domain}~{toHexField a.path}~{if a.secure then 1 else 0}{if a.httpOnly then 1 else 0}~" ++
    s!"{sameSiteStr a.sameSite}~{match a.expires with | none => "none" | some e => toString e}"

def renderResp (mem : Bool) (cfg : Cfg) (st : St) (r : Resp) : String :=
  s!"{if r.pass then 1 else 0},{r.status},{optTok r.ck},{match r.sc with | none => "none" | some v => toHex v}," ++
  s!"{plusList r.gens},{plusList r.sgens},{firedStr r},{if r.early then 1 else 0},{renderLive mem cfg st}," ++
  renderAttrs (respAttrs cfg st.now r)

def runModel (mem : Bool) (kg : Nat) (cfg : Cfg) : St → List Op → List String
  | _, [] => []
  | st, o :: os =>
    match o with
    | .adv d => "-" :: runModel mem kg cfg { st with now := st.now + d } os
    | .req q =>
      let (st', r) := handle cfg (tokGen kg) sidGen st q
      renderResp mem cfg st' r :: runModel mem kg cfg st' os

def parseLive (s : String) : Except String (Option (List LiveItem)) := do
  if s == "?" then return none
  if s == "-" then return some []
  let items ← (s.splitOn "+").mapM fun it => do
    match it.splitOn "@" with
    | [k, d] =>
      let dn := if d == "inf" then 1000000000 else d.toNat?.getD 0
      match k.splitOn "/" with
      | [tk] => pure ({ sid := [], tok := some (← hx tk), deadline := dn } : LiveItem)
      | [sid, tk] =>
        if tk == "none" || tk == "undecodable" then pure { sid := ← hx sid, tok := none, deadline := 0 }
        else pure { sid := ← hx sid, tok := some (← hx tk), deadline := dn }
      | _ => throw "bad live item"
    | _ => throw "bad live item"
  return some items

def parsePlus (s : String) : Except String (List Bytes) :=
  if s == "-" then pure [] else (s.splitOn "+").mapM hx

def parseAttrs (s : String) : Except String (Option CookieAttrs) := do
  if s == "-" then return none
  match s.splitOn "~" with
  | [d, p, fl, ss, ex] =>
    let some ssv := (match ss with
      | "lax" => some SameSite.lax | "strict" => some .strict | "none" => some .none | "disabled" => some .disabled
      | _ => none) | throw "bad attrs: samesite"
    let exv ← (if ex == "none" then pure none else match ex.toInt? with
      | some e => pure (some e) | none => throw "bad attrs: expires")
    pure (some { domain := ← hx d, path := ← hx p, secure := fl == "10" || fl == "11", httpOnly := fl == "01" || fl == "11",
                 sameSite := ssv, expires := exv })
  | _ => throw "bad attrs"

def parseObs (s : String) : Except String Obs := do
  match s.splitOn "," with
  | [p, st, ck, sc, g, sg, fr, ea, lv, atr] =>
    let ckv ← (if ck == "none" then pure none else if ck == "exp" then pure (some []) else do pure (some (← hx ck)))
    let scv ← (if sc == "none" then pure none else do pure (some (← hx sc)))
    pure { pass := p == "1", status := st.toNat?.getD 0, ck := ckv, sc := scv, gens := ← parsePlus g,
           sgens := ← parsePlus sg, fired := fr != "-", early := ea == "1", live := ← parseLive lv,
           attrs := ← parseAttrs atr }
  | _ => throw "bad observation"

def extOf : String → Option Ext
  | "header" => some .header | "form" => some .form | "query" => some .query
  | "param" => some .param | "cookie" => some .cookie | "custom" => some .custom | _ => none

/-- how the harness prints a `url.Parse` result -/
def renderURL : Option C19.Url.URL → String
  | none => "err"
  | some u => s!"{toHex u.scheme}|{toHex u.host}|{toHex u.path}|{toHex u.rawQuery}|{toHex u.fragment}"

/-- the recorded answers of the real `url.Parse`: (argument, rendered result) -/
def parseFacts (s : String) : Option (List (Bytes × String)) :=
  if s == "-" || s == "" then some [] else
  (s.splitOn ";").mapM fun p => match p.splitOn "=" with
    | [a, r] => (if a == "" then some [] else fromHexAux a.toList).map fun bs => (bs, r)
    | _ => none

/-- the strings `New` hands to `normalizeOrigin` -/
def normalizeArgs (raw : List Bytes) : List Bytes :=
  raw.map fun e =>
    let o := trim e 32
    match indexOf o (b "://*.") with
    | some i => o.take (i + 3) ++ o.drop (i + 4)
    | none => o

/-- the statuses of the harness' custom ErrorHandler -/
def ehCustom : Err → Nat
  | .originInvalid => 461 | .originNoMatch => 462 | .refererNotFound => 463 | .refererInvalid => 464
  | .refererNoMatch => 465 | .missing => 466 | .extractor => 467 | .tokenNotFound => 468 | .tokenInvalid => 469
  | .storage => 470

def cookieTextOK (s : Bytes) : Bool := s.all fun c => isAlpha c || isDigit c || c == 46 || c == 45
def cookiePathOK (s : Bytes) : Bool :=
  (s.all fun c => isAlpha c || isDigit c || c == 47) && (indexOf s (b "//")).isNone

/-- the front field: ErrorHandler mode, Next, cookie fields -/
def parseFront (s : String) : Except String ((Err → Nat) × Option (Req → Bool) × CookieCfg × String × Nat) := do
  let parts := (s.splitOn ";").map (·.splitOn "=")
  let (parts, kg) ← (match parts with
    | [a, b', c, ["kg", k]] =>
      (match k.toNat? with
       | some n => if n == 0 || n == 256 || n == 512 then pure ([a, b', c], n) else throw "outside-domain: token length"
       | none => throw "outside-domain: token length")
    | _ => pure (parts, 0))
  match parts with
  | [["eh", eh], ["next", nx], ["ck", ck]] =>
    let ehf : Err → Nat ← (match eh with
      | "d" => pure (fun (_ : Err) => (403 : Nat)) | "c" => pure ehCustom | "n" => pure (fun (_ : Err) => (200 : Nat))
      | _ => throw "outside-domain: error-handler mode")
    let nxf : Option (Req → Bool) ← (match nx with
      | "0" => pure none | "1" => pure (some fun (q : Req) => q.skip)
      | _ => throw "outside-domain: next flag")
    match ck.splitOn "," with
    | [fl, ss, dom, path] =>
      let flag (c : Char) : Except String Bool :=
        if c == '0' then pure false else if c == '1' then pure true else throw "outside-domain: cookie flags"
      match fl.toList with
      | [f1, f2, f3] =>
        let cc : CookieCfg := { secure := ← flag f1, httpOnly := ← flag f2, sessionOnly := ← flag f3,
                                sameSite := ← hx ss, domain := ← hx dom, path := ← hx path }
        if !(cookieTextOK cc.sameSite && cookieTextOK cc.domain && cookiePathOK cc.path) then
          throw "outside-domain: cookie field alphabet"
        pure (ehf, nxf, cc, eh, kg)
      | _ => throw "outside-domain: cookie flags"
    | _ => throw "outside-domain: cookie fields"
  | _ => throw "outside-domain: front field"

def handleCase (f : List String) : Except String Verdict := do
  match f with
  | [id, be, ext, single, idle, trusted, front, ops, uf, impl] =>
    let (ehf, nxf, cc, ehm, kg) ← parseFront front
    let some ext := extOf ext | throw "outside-domain: extractor"
    let (backend, mem) ← match be with
      | "st" => pure (Backend.storage, false) | "mem" => pure (Backend.storage, true)
      | "ss" => pure (Backend.sessStore, false) | "sm" => pure (Backend.sessMw, false)
      | _ => throw "outside-domain: backend"
    let some idle := idle.toNat? | throw "outside-domain: idle"
    if idle = 0 || idle > 3600 then throw "outside-domain: idle"
    let some raw := hexList trusted | throw "outside-domain: trusted"
    let some facts := parseFacts uf | throw "outside-domain: urlFacts"
    -- domain guard: `strings.ToLower` is modelled on ASCII text only
    let args := normalizeArgs raw
    if args.any (fun a => match C19.Url.parse a with | some u => !isAscii u.host | none => false) then
      throw "outside-domain: non-ASCII host in TrustedOrigins"
    let opb ← (if ops == "-" then pure [] else (ops.splitOn ";").mapM (parseOp ext (be == "st" || be == "ss")))
    let opl := opb.map (·.1)
    -- the transcription of net/url answers what the real `url.Parse` answered: on every recorded
    -- string, on every string the constructor model normalises, on every Origin / Referer
    let urlBad : Option String :=
      match facts.find? (fun (a, r) => renderURL (C19.Url.parse a) != r) with
      | some (a, _) => some s!"url-parse-differs:{toHexField a}:{renderURL (C19.Url.parse a)}"
      | none =>
        match args.find? (fun a => !(facts.any (·.1 == a))) with
        | some a => some s!"url-fact-missing:{toHexField a}"
        | none => opb.findSome? (·.2)
    let obsM (s : String) : String := match urlBad with | some e => e | none => s
    let total := opl.foldl (fun acc o => match o with | .adv d => acc + d | _ => acc) 0
    if total > 80000 then throw "outside-domain: history longer than the session lifetime"
    match buildLoop raw [] [] with
    | none =>
      -- the constructor model refuses the configuration; nothing is served and the property is silent.
      -- If the implementation served anyway, still judge what it served (entries that denote nothing
      -- admit nothing).
      let spec ← (if impl == "panic" then pure none else do
        let obsl ← (if impl == "-" then pure [] else (impl.splitOn ";").mapM fun s =>
          if s == "-" then pure none else if s == "panic" then pure (some panicObs) else (parseObs s).map some)
        if obsl.length != opl.length then pure (some "observation-count")
        else pure (specRun (specConfig backend ext (single == "1") idle raw nxf cc ehf) specInit opl obsl))
      pure { id := id, modelObs := obsM "panic", implObs := impl, spec := spec, tags := ["ctor-panic"] }
    | some (os, ss) =>
      let cfg : Cfg := { backend := backend, ext := ext, single := single == "1", idle := idle, origins := os, subs := ss,
                         eh := ehf, next := nxf, cookie := cc }
      let mo := runModel mem kg cfg {} opl
      let modelObs := if mo.isEmpty then "-" else ";".intercalate mo
      let (spec, tags) ←
        if impl == "panic" then pure (some "constructor-panicked-on-valid-config", ([] : List String))
        else do
          let obsl ← (if impl == "-" then pure [] else (impl.splitOn ";").mapM fun s =>
            if s == "-" then pure none else if s == "panic" then pure (some panicObs) else (parseObs s).map some)
          if obsl.length != opl.length then pure (some "observation-count", [])
          else pure (specRun (specConfig backend ext (single == "1") idle raw nxf cc ehf) specInit opl obsl, specTags cfg opl obsl)
      let ot := (if ss.isEmpty then [] else ["cfg-wildcard"]) ++ (if os.isEmpty then [] else ["cfg-exact"]) ++
        ["eh-" ++ ehm] ++ (if kg == 0 then [] else ["long-tokens"]) ++ (if nxf.isSome then ["next-set"] else []) ++ (if cc == {} then [] else ["cookie-fields"])
      pure { id := id, modelObs := obsM modelObs, implObs := impl, spec := spec, tags := [be, toString (repr ext)] ++ tags ++ ot }
  | _ => throw s!"outside-domain: expected 10 fields, got {f.length}"

def main : IO Unit := run handleCase
