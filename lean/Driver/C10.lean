import FiberModel.DriverUtil
import FiberModel.C10.Spec
/-
Driver for C10. Case fields (after the id):
  cfg(5 flags) proxies(hexlist) phdr peer tls host off rawA rawB | peerinfo pinfo nphdr viewA uhA viewB uhB | obs(A|B)
-/
open B DriverUtil C10

def pairs : List Bytes → Option (List (Bytes × Bytes))
  | [] => some []
  | [_] => none
  | k :: v :: rest => (pairs rest).map ((k, v) :: ·)

def kvGet (s : String) : String → Option String :=
  let kv := (s.splitOn ";").filterMap fun p => match p.splitOn "=" with
    | [k, v] => some (k, v) | _ => none
  fun k => (kv.find? (·.1 == k)).map (·.2)

/-- one `pinfo` entry: Go's `net.ParseIP` result (16 bytes, its `String()`) and `net.ParseCIDR` result -/
structure Parsed where
  ip16 : Option Bytes
  canon : Option Bytes
  cidr : Option (Bytes × Bytes)

def optHex (s : String) : Option (Option Bytes) := if s == "-" then some none else (fromHex s).map some

def parseProxy (s : String) : Option Parsed :=
  match s.splitOn ":" with
  | ["p", i, c, n, m] => do
    let i ← optHex i; let c ← optHex c; let n ← optHex n; let m ← optHex m
    if i.isSome != c.isSome || n.isSome != m.isSome then none
    else some { ip16 := i, canon := c, cidr := match n, m with | some n, some m => some (n, m) | _, _ => none }
  | _ => none

def bool01 (x : Bool) : String := if x then "1" else "0"

def renderOut (o : Out) : String :=
  s!"t={bool01 o.trusted};ip={toHexField o.ip};ips={hexListField o.ips};host={toHexField o.host};hn={toHexField o.hostname};" ++
  s!"sch={toHexField o.scheme};base={toHexField o.baseURL};sec={bool01 o.secure};sub={hexListField o.sub};" ++
  s!"subo={hexListField o.subo};proto={toHexField o.proto}"

def parseOut (s : String) : Option Out := do
  let g := kvGet s
  some { trusted := (← g "t") == "1", ip := ← (g "ip").bind fromHex, ips := ← (g "ips").bind hexList,
         host := ← (g "host").bind fromHex, hostname := ← (g "hn").bind fromHex, scheme := ← (g "sch").bind fromHex,
         baseURL := ← (g "base").bind fromHex, secure := (← g "sec") == "1", sub := ← (g "sub").bind hexList,
         subo := ← (g "subo").bind hexList, proto := ← (g "proto").bind fromHex }

def forwardingKeys (nphdr : Bytes) : List Bytes := [sXFF, sXFH, sXFProto, sXFProtocol, sXFSsl, sXUrlScheme, nphdr]

def handleCase (f : List String) : Except String Verdict := do
  match f with
  | [id, flags, proxies, phdr, peer, tls, hostH, off, rawA, rawB, peerinfo, pinfo, nphdr, viewA, uhA, viewB, uhB, impl] =>
    let fl := flags.splitOn ","
    if fl.length != 5 || fl.any (fun x => x != "0" && x != "1") then throw "outside-domain: flags"
    let some proxiesRaw := hexList proxies | throw "outside-domain: proxies"
    let some phdr := fromHex phdr | throw "outside-domain: phdr"
    let some nphdr := fromHex nphdr | throw "outside-domain: nphdr"
    let some _hostH := fromHex hostH | throw "outside-domain: host"
    let some off := off.toNat? | throw "outside-domain: offset"
    let some rawA := (hexList rawA).bind pairs | throw "outside-domain: rawA"
    let some rawB := (hexList rawB).bind pairs | throw "outside-domain: rawB"
    let some viewA := (hexList viewA).bind pairs | throw "outside-domain: viewA"
    let some viewB := (hexList viewB).bind pairs | throw "outside-domain: viewB"
    let some uhA := fromHex uhA | throw "outside-domain: uhA"
    let some uhB := fromHex uhB | throw "outside-domain: uhB"
    let pg := kvGet peerinfo
    let some rip := (pg "rip").bind fromHex | throw "outside-domain: peerinfo"
    let some ripStr := (pg "str").bind fromHex | throw "outside-domain: peerinfo"
    if rip.length != 4 && rip.length != 16 then throw "outside-domain: peer address length"
    -- the peer field: the judged peer, then the peers of the earlier requests of the history
    let (peer, earlier) := match peer.splitOn "/" with
      | p :: rest => (p, rest)
      | [] => (peer, [])
    if peer != "u" && !(peer.startsWith "t:") then throw "outside-domain: peer"
    if earlier.length > 3 then throw "outside-domain: history too long"
    let some earlierPeers := earlier.mapM fromHex | throw "outside-domain: history peer"
    if earlierPeers.any (fun p => p.length != 4 && p.length != 16) then throw "outside-domain: history peer length"
    let some parsed := (if pinfo == "-" then some [] else (pinfo.splitOn "|").mapM parseProxy) | throw "outside-domain: pinfo"
    if parsed.length != proxiesRaw.length then throw "outside-domain: pinfo length"
    -- `handleTrustedProxy` (range or address, canonical key) is the model's
    let ps := (proxiesRaw.zip parsed).map fun (raw, p) => fileProxy raw p.ip16 p.cidr
    let cfg : Cfg := { trustProxy := fl[0]! == "1", loopback := fl[1]! == "1", priv := fl[2]! == "1", linkLocal := fl[3]! == "1",
                       validate := fl[4]! == "1", proxies := ps, proxyHeader := phdr, normProxyHeader := nphdr }
    -- the pair must agree off the forwarding headers, and on the connection-derived host
    let fk := forwardingKeys nphdr
    let offFwd (v : Headers) := v.filter fun p => !fk.contains p.1
    if offFwd viewA != offFwd viewB then throw "outside-domain: requests differ outside the forwarding headers"
    if uhA != uhB then throw "outside-domain: requests differ in the Host header"
    if rawA.length > 64 || rawB.length > 64 then throw "outside-domain: too many headers"
    let (ia, ib) ← match impl.splitOn "|" with
      | [x, y] => pure (x, y)
      | _ => throw "outside-domain: observation"
    let some oa := parseOut ia | throw "outside-domain: observation A"
    let some ob := parseOut ib | throw "outside-domain: observation B"
    let cn : Conn := { rip := rip, ripStr := ripStr, tls := tls == "1", uriHost := uhA, proto := oa.proto }
    let ma := outputs cfg cn off viewA
    let mb := outputs cfg cn off viewB
    -- parameter checks: Go's classification of the peer against the model's
    let classOK := pg "lb" == some (bool01 (isLoopback rip)) && pg "pr" == some (bool01 (isPrivate rip)) &&
                   pg "ll" == some (bool01 (isLinkLocal rip))
    -- `net.IP.String()` is the transcribed formatter, for the peer and for every listed address
    -- (StringFaithful is then a theorem: `stringFaithful_of_format`)
    let strOK := ripStr == ipString rip && parsed.all fun p => match p.ip16, p.canon with
      | some i, some c => i.length == 16 && c == ipString i
      | _, _ => true
    -- every range `net.ParseCIDR` returned has a prefix mask of the network number's length
    -- (hypothesis of `cidrContains_v4` / `cidrContains_v6`: range membership = the first n bits agree)
    let maskOK := parsed.all fun p => match p.cidr with
      | some (n, m) => isPrefixMask m && n.length == m.length && (n.length == 4 || n.length == 16)
      | none => true
    let blocksOK := inLoopback rip == isLoopback rip && inPrivate rip == isPrivate rip && inLinkLocal rip == isLinkLocal rip
    let modelObs := if !classOK then "param-mismatch:class" else if !strOK then "param-mismatch:string"
                    else if !maskOK then "param-mismatch:mask"
                    else if !blocksOK then "param-mismatch:blocks" else renderOut ma ++ "|" ++ renderOut mb
    let spec := specViolation cfg cn off viewA viewB oa ob
    -- no open known finding (the former K1, an over-long IPv6 group passing validation, is repaired: F5)
    let longGroup := hasLongGroup cfg viewA || hasLongGroup cfg viewB
    let known : Option String := none
    let member := inSet cfg cn
    let fwdPresent := (viewA.any fun p => fk.contains p.1) || (viewB.any fun p => fk.contains p.1)
    let differ := viewA != viewB
    let how := if !cfg.trustProxy then "trust-off"
               else if !member then "outside-set"
               else if ps.any (fun | .ip _ ip16 => ip16 == to16 rip | _ => false) then "listed"
               else if ps.any (fun | .cidr n m => cidrContains n m rip | _ => false) then "in-cidr" else "in-class"
    let fam := if (to4 rip).isSome then (if rip.length == 4 then "v4" else "v4mapped") else "v6"
    let nt := if cfg.trustProxy && !member && fwdPresent && differ then ["nt-untrusted"]
              else if cfg.trustProxy && member && fwdPresent then ["nt-trusted"] else []
    -- which header decides the scheme of request A (for the distribution report)
    let isSchemeName (k : Bytes) := k == sXFProto || k == sXFProtocol || k == sXFSsl || k == sXUrlScheme
    let schNames := (viewA.filter fun p => isSchemeName p.1).map (·.1)
    let winner := match viewA.reverse.find? (fun p => (schemeOf p).isSome) with
      | none => "sch-none"
      | some p => if p.1 == sXFProto then "sch-proto" else if p.1 == sXFProtocol then "sch-protocol"
                  else if p.1 == sXFSsl then "sch-ssl" else "sch-url"
    let xfh := get viewA sXFH
    let schTags := if cfg.trustProxy && member && !cn.tls then
        [winner] ++ (if schNames.length ≥ 2 then ["sch-multi"] else []) ++
        (if schNames.eraseDups.length < schNames.length then ["sch-dup"] else []) ++
        (if schNames.eraseDups.length == 4 then ["sch-all-four"] else []) ++
        (if xfh.contains 58 then ["xfh-colon"] else []) ++ (if xfh.contains 91 then ["xfh-v6-literal"] else []) ++
        (if xfh.contains 44 then ["xfh-list"] else []) ++ (if uhA.contains 91 then ["host-v6-literal"] else [])
      else []
    -- histories: an earlier peer sharing the judged peer's leading / trailing four bytes or address
    let histTags := if earlierPeers.isEmpty then [] else
      ["history"] ++
      (if earlierPeers.any (fun p => p != rip && p.take 4 == rip.take 4) then ["hist-same-lead4"] else []) ++
      (if earlierPeers.any (fun p => p != rip && p.reverse.take 4 == rip.reverse.take 4) then ["hist-same-tail4"] else []) ++
      (if earlierPeers.any (fun p => p != rip && to16 p == to16 rip) then ["hist-same-address"] else []) ++
      (if earlierPeers.any (fun p => isProxyTrusted cfg { cn with rip := p, ripStr := ipString p } != ma.trusted) then ["hist-trust-alternates"] else [])
    let tags := [how, fam] ++ nt ++ schTags ++ histTags ++ (if cn.tls then ["tls"] else []) ++ (if cfg.validate then ["validate"] else []) ++
      (if phdr != [] then ["proxyheader"] else []) ++ (if ma.ip != ripStr then ["ip-forwarded"] else []) ++
      (if ma.scheme == sHTTPS && !cn.tls then ["https-forwarded"] else []) ++ (if longGroup then ["long-group"] else [])
    return { id := id, modelObs := modelObs, implObs := impl, spec := spec, known := known, tags := tags }
  | _ => throw s!"outside-domain: expected 18 fields, got {f.length}"

def main : IO Unit := run handleCase
