import FiberModel.DriverUtil
import FiberModel.C10.Spec
/-
Driver for C10. Case fields (after the id):
  cfg(5 flags) proxies(hexlist) phdr peer tls host off rawA rawB | peerinfo pinfo nphdr viewA uhA viewB uhB | obs(A|B)
-/
open B DriverUtil C10

def pairs : List Bytes → Option (List (Bytes × Bytes))
  | [] => some []
  | [_] => none
  | k :: v :: rest => (pairs rest).map ((k, v) :: ·)

def kvGet (s : String) : String → Option String :=
  let kv := (s.splitOn ";").filterMap fun p => match p.splitOn "=" with
    | [k, v] => some (k, v) | _ => none
  fun k => (kv.find? (·.1 == k)).map (·.2)

def parseProxy (s : String) : Option Proxy :=
  match s.splitOn ":" with
  | ["bad"] => some .bad
  | ["ip", c, i] => do some (.ip (← fromHex c) (← fromHex i))
  | ["cidr", n, m] => do some (.cidr (← fromHex n) (← fromHex m))
  | _ => none

def bool01 (x : Bool) : String := if x then "1" else "0"

def renderOut (o : Out) : String :=
  s!"t={bool01 o.trusted};ip={toHexField o.ip};ips={hexListField o.ips};host={toHexField o.host};hn={toHexField o.hostname};" ++
  s!"sch={toHexField o.scheme};base={toHexField o.baseURL};sec={bool01 o.secure};sub={hexListField o.sub};" ++
  s!"subo={hexListField o.subo};proto={toHexField o.proto}"

def parseOut (s : String) : Option Out := do
  let g := kvGet s
  some { trusted := (← g "t") == "1", ip := ← (g "ip").bind fromHex, ips := ← (g "ips").bind hexList,
         host := ← (g "host").bind fromHex, hostname := ← (g "hn").bind fromHex, scheme := ← (g "sch").bind fromHex,
         baseURL := ← (g "base").bind fromHex, secure := (← g "sec") == "1", sub := ← (g "sub").bind hexList,
         subo := ← (g "subo").bind hexList, proto := ← (g "proto").bind fromHex }

def forwardingKeys (nphdr : Bytes) : List Bytes := [sXFF, sXFH, sXFProto, sXFProtocol, sXFSsl, sXUrlScheme, nphdr]

def handleCase (f : List String) : Except String Verdict := do
  match f with
  | [id, flags, proxies, phdr, peer, tls, hostH, off, rawA, rawB, peerinfo, pinfo, nphdr, viewA, uhA, viewB, uhB, impl] =>
    let fl := flags.splitOn ","
    if fl.length != 5 || fl.any (fun x => x != "0" && x != "1") then throw "outside-domain: flags"
    let some proxiesRaw := hexList proxies | throw "outside-domain: proxies"
    let some phdr := fromHex phdr | throw "outside-domain: phdr"
    let some nphdr := fromHex nphdr | throw "outside-domain: nphdr"
    let some _hostH := fromHex hostH | throw "outside-domain: host"
    let some off := off.toNat? | throw "outside-domain: offset"
    let some rawA := (hexList rawA).bind pairs | throw "outside-domain: rawA"
    let some rawB := (hexList rawB).bind pairs | throw "outside-domain: rawB"
    let some viewA := (hexList viewA).bind pairs | throw "outside-domain: viewA"
    let some viewB := (hexList viewB).bind pairs | throw "outside-domain: viewB"
    let some uhA := fromHex uhA | throw "outside-domain: uhA"
    let some uhB := fromHex uhB | throw "outside-domain: uhB"
    let pg := kvGet peerinfo
    let some rip := (pg "rip").bind fromHex | throw "outside-domain: peerinfo"
    let some ripStr := (pg "str").bind fromHex | throw "outside-domain: peerinfo"
    if rip.length != 4 && rip.length != 16 then throw "outside-domain: peer address length"
    if peer != "u" && !(peer.startsWith "t:") then throw "outside-domain: peer"
    let some ps := (if pinfo == "-" then some [] else (pinfo.splitOn "|").mapM parseProxy) | throw "outside-domain: pinfo"
    if ps.length != proxiesRaw.length then throw "outside-domain: pinfo length"
    let cfg : Cfg := { trustProxy := fl[0]! == "1", loopback := fl[1]! == "1", priv := fl[2]! == "1", linkLocal := fl[3]! == "1",
                       validate := fl[4]! == "1", proxies := ps, proxyHeader := phdr, normProxyHeader := nphdr }
    -- the pair must agree off the forwarding headers, and on the connection-derived host
    let fk := forwardingKeys nphdr
    let offFwd (v : Headers) := v.filter fun p => !fk.contains p.1
    if offFwd viewA != offFwd viewB then throw "outside-domain: requests differ outside the forwarding headers"
    if uhA != uhB then throw "outside-domain: requests differ in the Host header"
    if rawA.length > 64 || rawB.length > 64 then throw "outside-domain: too many headers"
    let (ia, ib) ← match impl.splitOn "|" with
      | [x, y] => pure (x, y)
      | _ => throw "outside-domain: observation"
    let some oa := parseOut ia | throw "outside-domain: observation A"
    let some ob := parseOut ib | throw "outside-domain: observation B"
    let cn : Conn := { rip := rip, ripStr := ripStr, tls := tls == "1", uriHost := uhA, proto := oa.proto }
    let ma := outputs cfg cn off viewA
    let mb := outputs cfg cn off viewB
    -- parameter checks: Go's classification of the peer against the model's, and that String() is a
    -- function of the address (listed entry equal as address ⇔ equal canonical text)
    let classOK := pg "lb" == some (bool01 (isLoopback rip)) && pg "pr" == some (bool01 (isPrivate rip)) &&
                   pg "ll" == some (bool01 (isLinkLocal rip))
    let strOK := ps.all fun | .ip canon ip16 => (ip16 == to16 rip) == (canon == ripStr) | _ => true
    let blocksOK := inLoopback rip == isLoopback rip && inPrivate rip == isPrivate rip && inLinkLocal rip == isLinkLocal rip
    let modelObs := if !classOK then "param-mismatch:class" else if !strOK then "param-mismatch:string"
                    else if !blocksOK then "param-mismatch:blocks" else renderOut ma ++ "|" ++ renderOut mb
    let spec := specViolation cfg cn off viewA viewB oa ob
    let k1 := Known.K1 cfg viewA || Known.K1 cfg viewB
    let known := if spec.isSome && k1 && (spec == some "validated-ip-is-valid" || spec == some "trusted-documented-values ip") then some "K1" else none
    let member := inSet cfg cn
    let fwdPresent := (viewA.any fun p => fk.contains p.1) || (viewB.any fun p => fk.contains p.1)
    let differ := viewA != viewB
    let how := if !cfg.trustProxy then "trust-off"
               else if !member then "outside-set"
               else if ps.any (fun | .ip _ ip16 => ip16 == to16 rip | _ => false) then "listed"
               else if ps.any (fun | .cidr n m => cidrContains n m rip | _ => false) then "in-cidr" else "in-class"
    let fam := if (to4 rip).isSome then (if rip.length == 4 then "v4" else "v4mapped") else "v6"
    let nt := if cfg.trustProxy && !member && fwdPresent && differ then ["nt-untrusted"]
              else if cfg.trustProxy && member && fwdPresent then ["nt-trusted"] else []
    let tags := [how, fam] ++ nt ++ (if cn.tls then ["tls"] else []) ++ (if cfg.validate then ["validate"] else []) ++
      (if phdr != [] then ["proxyheader"] else []) ++ (if ma.ip != ripStr then ["ip-forwarded"] else []) ++
      (if ma.scheme == sHTTPS && !cn.tls then ["https-forwarded"] else []) ++ (if k1 then ["k1"] else [])
    return { id := id, modelObs := modelObs, implObs := impl, spec := spec, known := known, tags := tags }
  | _ => throw s!"outside-domain: expected 18 fields, got {f.length}"

def main : IO Unit := run handleCase
