import FiberModel.DriverUtil
import FiberModel.C20.Spec
import FiberModel.C20.CookieScan
/-
Driver for C20. Case fields (after the id):
  key(hex) except(hexlist) mode(codec[.next.recover]) okey(hex, harness only) steps(symbolic, harness only) aux obs
`aux` = facts derived by the harness with fasthttp's parsers and an independent AES-GCM open, `obs` =
what the implementation did (see harness/cmd/c20/main.go). The driver never computes AES: the model's
`Aead` is the finite table of (nonce, ciphertext‖tag, plaintext) triples behind the values the real
server issued in this very case.
-/
open B DriverUtil C20

/-- component: `_` = empty, else hex -/
def comp (s : String) : Except String Bytes :=
  if s == "_" then pure [] else
  match fromHexAux s.toList with
  | some b => pure b
  | none => throw s!"outside-domain: bad hex component '{s.take 20}'"

def hc (b : Bytes) : String := if b.isEmpty then "_" else toHex b

def listOf (s : String) : List String := if s == "-" then [] else s.splitOn ","

def parseJar (s : String) : Except String Jar :=
  (listOf s).mapM fun e => match e.splitOn ":" with
    | [k, v] => do pure (← comp k, ← comp v)
    | _ => throw s!"outside-domain: bad cookie entry '{e.take 30}'"

def renderJar (j : Jar) : String :=
  if j.isEmpty then "-" else ",".intercalate (j.map fun e => hc e.1 ++ ":" ++ hc e.2)

def parseBind (s : String) : Except String (List (Bytes × List Bytes)) :=
  (listOf s).mapM fun e => match e.splitOn ":" with
    | k :: vs => do pure (← comp k, ← vs.mapM comp)
    | _ => throw "outside-domain: bad bind entry"

def renderBind (b : List (Bytes × List Bytes)) : String :=
  if b.isEmpty then "-" else ",".intercalate (b.map fun e => ":".intercalate (hc e.1 :: e.2.map hc))

structure AuxStep where
  jar : Jar
  lookKeys : List Bytes
  pre : List RCookie
  midParse : List (Bytes × Bytes × Bytes)      -- pkey, pvalue, tail of each cookie where the middleware is left
  opens : List (Option Bytes)                  -- independent open of each of those values
  stored : List Bytes                          -- Cookie header values as fasthttp stored them
  direct : Jar                                 -- SetCookie calls made on top
  skip : Bool                                  -- Config.Next must say skip
  flow : Flow
  opre : List RCookie
  late : List Late
  wireParse : List (Bytes × Bytes × Bytes)
  midNameless : List Bool
  wireNameless : List Bool

def sect (tag : Char) (s : String) : Except String String :=
  match s.toList with
  | c :: r => if c == tag then pure (String.ofList r) else throw s!"outside-domain: expected section {tag}"
  | [] => throw s!"outside-domain: empty section {tag}"

def parseRCookies (s : String) : Except String (List RCookie) :=
  (listOf s).mapM fun e => match e.splitOn ":" with
    | [a, b, c, d, f] => do
      pure ({ key := ← comp a, raw := ← comp b, pkey := ← comp c, pvalue := ← comp d, tail := ← comp f } : RCookie)
    | _ => throw "outside-domain: bad cookie entry"

/-- parse of a Set-Cookie text (pkey, pvalue, tail). A 4th component `n` marks a text the harness read
    as a NAMELESS cookie although fasthttp's parser splits it at the base64 padding (`<b64>==`): for
    those the scanner model must read a (name, value) with name ++ "=" ++ value = the reported value. -/
def parseParses (s : String) : Except String (List (Bytes × Bytes × Bytes) × List Bool) := do
  let es ← (listOf s).mapM fun e => match e.splitOn ":" with
    | [a, b, c] => do pure ((← comp a, ← comp b, ← comp c), false)
    | [a, b, c, "n"] => do
      let a ← comp a
      if !a.isEmpty then throw "outside-domain: nameless with a name"
      pure ((a, ← comp b, ← comp c), true)
    | _ => throw "outside-domain: bad parse entry"
  pure (es.map (·.1), es.map (·.2))

/-- the scanner model agrees with how the harness read a Set-Cookie text -/
def scanAgrees (raw : Bytes) (pp : Bytes × Bytes × Bytes) (nameless : Bool) : Bool :=
  let r := scanSetCookie raw
  if nameless then r.1 ++ [61] ++ r.2 == pp.2.1 else r == (pp.1, pp.2.1)

def parseAuxStep (s : String) : Except String AuxStep := do
  match s.splitOn "/" with
  | [j, k, r, p, t, q, d, n, f, o, a, u] =>
    let jar ← parseJar (← sect 'J' j)
    let ks ← (listOf (← sect 'K' k)).mapM comp
    let pre ← parseRCookies (← sect 'R' r)
    let (pp, ppn) ← parseParses (← sect 'P' p)
    let ops ← (listOf (← sect 'T' t)).mapM fun e =>
      if e == "x" then pure none else do pure (some (← comp e))
    if pp.length != ops.length then throw "outside-domain: P/T length"
    let stored ← (listOf (← sect 'Q' q)).mapM comp
    let direct ← parseJar (← sect 'D' d)
    let skip ← match (← sect 'N' n) with
      | "0" => pure false
      | "1" => pure true
      | _ => throw "outside-domain: N"
    let flow ← match (← sect 'F' f) with
      | "o" => pure Flow.ok
      | "e" => pure Flow.err
      | "p" => pure Flow.panic
      | _ => throw "outside-domain: F"
    let opre ← parseRCookies (← sect 'O' o)
    let late ← (listOf (← sect 'A' a)).mapM fun e => match e.splitOn ":" with
      | [kd, a, b, c, d, f] => do
        let rep ← if kd == "r" then pure true else if kd == "a" then pure false else throw "outside-domain: late kind"
        pure ({ replace := rep,
                w := { key := ← comp a, raw := ← comp b, pkey := ← comp c, value := ← comp d, tail := ← comp f } } : Late)
      | _ => throw "outside-domain: bad A entry"
    let (up, upn) ← parseParses (← sect 'U' u)
    pure { jar := jar, lookKeys := ks, pre := pre, midParse := pp, opens := ops, stored := stored, direct := direct,
           skip := skip, flow := flow, opre := opre, late := late, wireParse := up,
           midNameless := ppn, wireNameless := upn }
  | _ => throw "outside-domain: aux step sections"

structure ObsStep where
  ran : Bool
  views : Views
  next : String
  mid : Jar
  wire : Option Jar        -- none = panic
  extra : String           -- anything unexpected the harness flagged

def parseObsStep (s : String) : Except String ObsStep := do
  match s.splitOn "/" with
  | [v, e, l, b, h, n, m, w] =>
    let ran ← match (← sect 'V' v) with
      | "0" => pure false
      | "1" => pure true
      | _ => throw "outside-domain: V"
    let wtxt ← sect 'W' w
    let (wcore, extra) := match wtxt.splitOn "!" with
      | [x] => (x, "")
      | x :: r => (x, "!".intercalate r)
      | [] => ("", "")
    let wire ← if wcore == "panic" then pure none else do pure (some (← parseJar wcore))
    let hs ← ((← sect 'H' h).splitOn ":").mapM comp
    let (h0, more) := match hs with
      | x :: r => (x, r)
      | [] => ([], [])
    pure { ran := ran,
           views := { enum := ← parseJar (← sect 'E' e), look := ← parseJar (← sect 'L' l),
                      bind := ← parseBind (← sect 'B' b), hdr := h0, more := more },
           next := ← sect 'N' n, mid := ← parseJar (← sect 'M' m), wire := wire, extra := extra }
  | _ => throw "outside-domain: obs step sections"

/-- table entry behind an issued value -/
structure Entry where
  nonce : Bytes
  body : Bytes
  plain : Bytes

def tableAead (t : List Entry) : Aead :=
  { sealWith := fun _ n p => match t.find? fun e => e.nonce == n && e.plain == p with
      | some e => e.body
      | none => b "?not-sealed-by-the-server?",
    openWith := fun _ n c => (t.find? fun e => e.nonce == n && e.body == c).map (·.plain) }

def wireOf (mode : Nat) : WireCodec := if mode ≥ 2 then wrapWire else stdWire

/-- (wire text, plaintext) pairs and table entries a step issued: the values, read where the middleware
    is left, at the positions of the handlers' non-excepted cookies of a step that is not skipped, with
    the plaintext an independent open gives -/
def stepIssued (wc : WireCodec) (ex : List Bytes) (a : AuxStep) : Issued × List Entry :=
  let pairs := if a.skip then [] else
    (a.pre.zip (a.midParse.zip a.opens)).filterMap fun (c, pp, o) =>
      if isDisabled c.key ex then none else o.map fun p => (pp.2.1, p)
  let ents := pairs.filterMap fun (c, p) =>
    (wc.canon c).map fun bs => { nonce := bs.take nonceSize, body := bs.drop nonceSize, plain := p : Entry }
  (pairs, ents)

def renderViews (v : Views) : String :=
  s!"E{renderJar v.enum}/L{renderJar v.look}/B{renderBind v.bind}/H{":".intercalate ((v.hdr :: v.more).map hc)}"

def renderW (ws : List WCookie) : String := renderJar (ws.map fun (x : WCookie) => (x.key, x.raw))

def zipW (j : Jar) (pp : List (Bytes × Bytes × Bytes)) : List WCookie :=
  (j.zip pp).map fun (kr, p) => { key := kr.1, raw := kr.2, pkey := p.1, value := p.2.1, tail := p.2.2 : WCookie }

def modeParts (s : String) : Except String (Nat × Nat × Bool) :=
  match s.splitOn "." with
  | [c] => match c.toNat? with
    | some c => if c ≤ 3 then pure (c, 0, false) else throw "outside-domain: mode"
    | none => throw "outside-domain: mode"
  | [c, n, r] => match c.toNat?, n.toNat?, r.toNat? with
    | some c, some n, some r =>
      if c ≤ 3 && n ≤ 3 && r ≤ 1 then pure (c, n, r == 1) else throw "outside-domain: mode"
    | _, _, _ => throw "outside-domain: mode"
  | _ => throw "outside-domain: mode"

def handleCase (f : List String) : Except String Verdict := do
  match f with
  | [id, key, ex, mode, _okey, _steps, aux, impl] =>
    let some key := fromHex key | throw "outside-domain: key"
    let some ex := hexList ex | throw "outside-domain: except"
    let (mode, nextMode, recoverFront) ← modeParts mode
    if ctorPanics key then
      return { id := id, modelObs := "ctorpanic", implObs := impl, spec := none, tags := ["ctorpanic"] }
    if impl == "ctorpanic" then
      -- the constructor refused a non-empty key: nothing is served; model disagrees
      return { id := id, modelObs := "served", implObs := impl, spec := none, tags := ["ctorpanic-unexpected"] }
    let auxs ← (aux.splitOn ";").mapM parseAuxStep
    let obss ← (impl.splitOn ";").mapM parseObsStep
    if auxs.length != obss.length then throw "outside-domain: aux/obs step count"
    let wc := wireOf mode
    let keyValid := match decode key with
      | some kd => validKeyLen kd.length
      | none => false
    let allEnts := (auxs.map fun a => (stepIssued wc ex a).2).flatten
    let A := tableAead allEnts
    let m : Mw :=
      if mode == 3 then { codec := faultyCodec (stdCodec A key), decPanics := faultyDecPanics, except := ex }
      else if mode == 2 then { codec := wrapCodec (stdCodec A key), decPanics := fun _ => false, except := ex }
      else stdMw A key ex
    let C := m.codec
    let told : Told :=
      { keyValid := keyValid, encFails := if mode == 3 then faultyEnc else fun _ => false,
        decPanics := if mode == 3 then faultyDecPanics else fun _ => false }
    let mut modelParts : List String := []
    let mut spec : Option String := none
    let mut iss : Issued := []
    let mut tags : List String := []
    for (a, o) in auxs.zip obss do
      -- the Config.Next decision is an input (which header the request carries, which Next is
      -- configured); a next mode that can never skip must not be told to
      if a.skip && nextMode != 2 && nextMode != 3 then throw "outside-domain: skip without Next"
      if nextMode == 3 && !a.skip then throw "outside-domain: Next always skips"
      if o.mid.length != a.midParse.length then throw "outside-domain: M/P length"
      if let some ws := o.wire then
        if ws.length != a.wireParse.length then throw "outside-domain: W/U length"
      -- the randomness each encryption drew: read off the value at the same position where the
      -- middleware is left; a dummy where the implementation stopped (the model decides itself)
      let nonces := ((a.pre.zip (List.range a.pre.length)).filterMap fun (c, i) =>
        if isDisabled c.key ex then none
        else match a.midParse[i]? with
          | some pp => some (((wc.canon pp.2.1).map (·.take nonceSize)).getD [])
          | none => some (List.replicate nonceSize 0))
      let x : Exchange :=
        { skip := a.skip, jar := a.jar, ks := a.lookKeys, opre := a.opre, cookies := a.pre, flow := a.flow,
          nonces := nonces, recover := recoverFront, late := a.late }
      let out := serve m x
      let vtxt := match out.views with
        | some v => "V1/" ++ renderViews v
        | none => "V0/E-/L-/B-/H_"
      let ntxt := if nextMode == 0 then "-" else if a.skip then "1.1" else "1.0"
      let wtxt := match out.wire with
        | none => "panic"
        | some ws => renderW ws
      let mtxt := s!"{vtxt}/N{ntxt}/M{renderW out.mid}/W{wtxt}"
      -- the cookie scanner model must reproduce fasthttp's view of the request and of every Set-Cookie
      let scanOK := parseCookieHeaders a.stored a.direct == a.jar &&
        (a.pre.all fun c => scanSetCookie c.raw == (c.pkey, c.pvalue)) &&
        ((o.mid.zip (a.midParse.zip a.midNameless)).all fun (kr, pp, nl) => scanAgrees kr.2 pp nl) &&
        (match o.wire with
         | none => true
         | some ws => (ws.zip (a.wireParse.zip a.wireNameless)).all fun (kr, pp, nl) => scanAgrees kr.2 pp nl)
      modelParts := modelParts ++ [if scanOK then mtxt else "scanner-model-mismatch:" ++ mtxt]
      -- spec oracle on the implementation's observation
      let (pairs, _) := stepIssued wc ex a
      let issAfter := iss ++ pairs
      if spec.isNone then
        let seen : Outcome :=
          { views := if o.ran then some o.views else none,
            mid := zipW o.mid a.midParse,
            wire := o.wire.map fun ws => zipW ws a.wireParse }
        spec := exchangeViolation wc ex told iss issAfter x seen
      iss := issAfter
      if spec.isNone && !noncesOK wc iss then spec := some "nonce-reused"
      if spec.isNone && o.extra != "" then spec := some s!"harness-flag:{o.extra}"
      -- branch tags
      let nonEx := a.jar.filter fun kv => !isDisabled kv.1 ex
      if !a.skip then
        if nonEx.any fun kv => (C.dec kv.2).isSome then tags := tags ++ ["nt-authentic-in"]
        if nonEx.any fun kv => kv.2 != [] && (C.dec kv.2).isNone then tags := tags ++ ["nt-rejected-in"]
        if nonEx.any fun kv => (C.dec kv.2).isSome && !(iss.any fun p => p.1 == kv.2) then
          tags := tags ++ ["nt-noncanonical-accepted"]
        if a.pre.any fun c => !isDisabled c.key ex then tags := tags ++ ["nt-encrypted-out"]
      if (distinctKeys a.jar).length != a.jar.length then tags := tags ++ ["nt-dup-request-names"]
      if (a.pre.map (·.key)).eraseDups.length != a.pre.length then tags := tags ++ ["nt-dup-response-names"]
      if a.jar.any fun kv => isDisabled kv.1 ex then tags := tags ++ ["except-in"]
      if a.pre.any fun c => isDisabled c.key ex then tags := tags ++ ["except-out"]
      if !a.skip && (out.views.map (·.enum.length)) != some a.jar.length then tags := tags ++ ["dedup-applied"]
      if a.skip then
        tags := tags ++ (if a.jar.isEmpty && a.pre.isEmpty then ["next-skip"] else ["nt-next-skip"])
      if a.flow == Flow.err then tags := tags ++ ["nt-handler-error"]
      if a.flow == Flow.panic then tags := tags ++ ["nt-handler-panic"]
      if !a.late.isEmpty then tags := tags ++ ["nt-late-writes"]
      if a.late.any fun l => l.replace && out.mid.any fun w => w.key == l.w.key then
        tags := tags ++ ["nt-late-replace"]
      if !a.opre.isEmpty then tags := tags ++ ["nt-cookies-set-in-front"]
      if out.views.isNone then tags := tags ++ ["nt-decryptor-panic"]
      if !a.skip && out.views.isSome && out.mid.length < a.pre.length then tags := tags ++ ["nt-encryptor-stopped"]
      if o.wire.isNone then tags := tags ++ ["panic"]
    let tagsOut := tags.eraseDups ++ (if keyValid then [] else ["invalid-key"]) ++
      (if mode == 3 then ["faulty-codec"] else if mode == 2 then ["custom-codec"] else if mode == 1 then ["explicit-codec"] else []) ++
      (if nextMode != 0 then [s!"next-mode-{nextMode}"] else []) ++ (if recoverFront then ["recover-in-front"] else [])
    pure { id := id, modelObs := ";".intercalate modelParts, implObs := impl, spec := spec, tags := tagsOut }
  | _ => throw s!"outside-domain: expected 8 fields, got {f.length}"

def main : IO Unit := run handleCase
