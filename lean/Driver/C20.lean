import FiberModel.DriverUtil
import FiberModel.C20.Spec
import FiberModel.C20.CookieScan
/-
Driver for C20. Case fields (after the id):
  key(hex) except(hexlist) mode(0|1|2) okey(hex, harness only) steps(symbolic, harness only) aux obs
`aux` = facts derived by the harness with fasthttp's parsers and an independent AES-GCM open, `obs` =
what the implementation did (see harness/cmd/c20/main.go). The driver never computes AES: the model's
`Aead` is the finite table of (nonce, ciphertext‖tag, plaintext) triples behind the values the real
server issued in this very case.
-/
open B DriverUtil C20

/-- component: `_` = empty, else hex -/
def comp (s : String) : Except String Bytes :=
  if s == "_" then pure [] else
  match fromHexAux s.toList with
  | some b => pure b
  | none => throw s!"outside-domain: bad hex component '{s.take 20}'"

def hc (b : Bytes) : String := if b.isEmpty then "_" else toHex b

def listOf (s : String) : List String := if s == "-" then [] else s.splitOn ","

def parseJar (s : String) : Except String Jar :=
  (listOf s).mapM fun e => match e.splitOn ":" with
    | [k, v] => do pure (← comp k, ← comp v)
    | _ => throw s!"outside-domain: bad cookie entry '{e.take 30}'"

def renderJar (j : Jar) : String :=
  if j.isEmpty then "-" else ",".intercalate (j.map fun e => hc e.1 ++ ":" ++ hc e.2)

def parseBind (s : String) : Except String (List (Bytes × List Bytes)) :=
  (listOf s).mapM fun e => match e.splitOn ":" with
    | k :: vs => do pure (← comp k, ← vs.mapM comp)
    | _ => throw "outside-domain: bad bind entry"

def renderBind (b : List (Bytes × List Bytes)) : String :=
  if b.isEmpty then "-" else ",".intercalate (b.map fun e => ":".intercalate (hc e.1 :: e.2.map hc))

structure AuxStep where
  jar : Jar
  lookKeys : List Bytes
  pre : List RCookie
  postParse : List (Bytes × Bytes × Bytes)     -- pkey, pvalue, tail of each cookie after the middleware
  opens : List (Option Bytes)                  -- independent open of each value after the middleware
  stored : List Bytes                          -- Cookie header values as fasthttp stored them
  direct : Jar                                 -- SetCookie calls made on top

def sect (tag : Char) (s : String) : Except String String :=
  match s.toList with
  | c :: r => if c == tag then pure (String.ofList r) else throw s!"outside-domain: expected section {tag}"
  | [] => throw s!"outside-domain: empty section {tag}"

def parseAuxStep (s : String) : Except String AuxStep := do
  match s.splitOn "/" with
  | [j, k, r, p, t, q, d] =>
    let jar ← parseJar (← sect 'J' j)
    let ks ← (listOf (← sect 'K' k)).mapM comp
    let pre ← (listOf (← sect 'R' r)).mapM fun e => match e.splitOn ":" with
      | [a, b, c, d, f] => do
        pure ({ key := ← comp a, raw := ← comp b, pkey := ← comp c, pvalue := ← comp d, tail := ← comp f } : RCookie)
      | _ => throw "outside-domain: bad R entry"
    let pp ← (listOf (← sect 'P' p)).mapM fun e => match e.splitOn ":" with
      | [a, b, c] => do pure (← comp a, ← comp b, ← comp c)
      | _ => throw "outside-domain: bad P entry"
    let ops ← (listOf (← sect 'T' t)).mapM fun e =>
      if e == "x" then pure none else do pure (some (← comp e))
    if pp.length != ops.length then throw "outside-domain: P/T length"
    let stored ← (listOf (← sect 'Q' q)).mapM comp
    let direct ← parseJar (← sect 'D' d)
    pure { jar := jar, lookKeys := ks, pre := pre, postParse := pp, opens := ops, stored := stored, direct := direct }
  | _ => throw "outside-domain: aux step sections"

structure ObsStep where
  views : Views
  wire : Option Jar        -- none = panic
  extra : String           -- anything unexpected the harness flagged

def parseObsStep (s : String) : Except String ObsStep := do
  match s.splitOn "/" with
  | [e, l, b, h, w] =>
    let wtxt ← sect 'W' w
    let (wcore, extra) := match wtxt.splitOn "!" with
      | [x] => (x, "")
      | x :: r => (x, "!".intercalate r)
      | [] => ("", "")
    let wire ← if wcore == "panic" then pure none else do pure (some (← parseJar wcore))
    pure { views := { enum := ← parseJar (← sect 'E' e), look := ← parseJar (← sect 'L' l),
                      bind := ← parseBind (← sect 'B' b), hdr := ← comp (← sect 'H' h) },
           wire := wire, extra := extra }
  | _ => throw "outside-domain: obs step sections"

/-- table entry behind an issued value -/
structure Entry where
  nonce : Bytes
  body : Bytes
  plain : Bytes

def tableAead (t : List Entry) : Aead :=
  { sealWith := fun _ n p => match t.find? fun e => e.nonce == n && e.plain == p with
      | some e => e.body
      | none => b "?not-sealed-by-the-server?",
    openWith := fun _ n c => (t.find? fun e => e.nonce == n && e.body == c).map (·.plain) }

def wireOf (mode : Nat) : WireCodec := if mode == 2 then wrapWire else stdWire

/-- (wire text, plaintext) pairs and table entries a step issued -/
def stepIssued (wc : WireCodec) (a : AuxStep) : Issued × List Entry :=
  let pairs := (a.postParse.zip a.opens).filterMap fun (pp, o) => o.map fun p => (pp.2.1, p)
  let ents := pairs.filterMap fun (c, p) =>
    (wc.canon c).map fun bs => { nonce := bs.take nonceSize, body := bs.drop nonceSize, plain := p : Entry }
  (pairs, ents)

def renderStep (ex : List Bytes) (C : Codec) (wc : WireCodec) (a : AuxStep) : String × Option (List WCookie) × Jar :=
  let v := modelViews C ex a.jar a.lookKeys
  let e := v.enum
  -- the randomness each encryption drew: read off the value at the same position after the middleware
  let nonces := (a.pre.zip a.postParse).filterMap fun (c, pp) =>
    if isDisabled c.key ex then none
    else some (((wc.canon pp.2.1).map (·.take nonceSize)).getD [])
  let w := encryptJar C ex nonces a.pre
  let wtxt := match w with
    | none => "panic"
    | some ws => renderJar (ws.map fun (x : WCookie) => (x.key, x.raw))
  (s!"E{renderJar v.enum}/L{renderJar v.look}/B{renderBind v.bind}/H{hc v.hdr}/W{wtxt}", w, e)

def handleCase (f : List String) : Except String Verdict := do
  match f with
  | [id, key, ex, mode, _okey, _steps, aux, impl] =>
    let some key := fromHex key | throw "outside-domain: key"
    let some ex := hexList ex | throw "outside-domain: except"
    let some mode := mode.toNat? | throw "outside-domain: mode"
    if mode > 2 then throw "outside-domain: mode"
    if ctorPanics key then
      return { id := id, modelObs := "ctorpanic", implObs := impl, spec := none, tags := ["ctorpanic"] }
    if impl == "ctorpanic" then
      -- the constructor refused a non-empty key: nothing is served; model disagrees
      return { id := id, modelObs := "served", implObs := impl, spec := none, tags := ["ctorpanic-unexpected"] }
    let auxs ← (aux.splitOn ";").mapM parseAuxStep
    let obss ← (impl.splitOn ";").mapM parseObsStep
    if auxs.length != obss.length then throw "outside-domain: aux/obs step count"
    let wc := wireOf mode
    let keyValid := match decode key with
      | some kd => validKeyLen kd.length
      | none => false
    let allEnts := (auxs.map fun a => (stepIssued wc a).2).flatten
    let A := tableAead allEnts
    let C := if mode == 2 then wrapCodec (stdCodec A key) else stdCodec A key
    let mut modelParts : List String := []
    let mut spec : Option String := none
    let mut iss : Issued := []
    let mut tags : List String := []
    for (a, o) in auxs.zip obss do
      let (mtxt, _, e) := renderStep ex C wc a
      -- the cookie scanner model must reproduce fasthttp's view of the request and of every Set-Cookie
      let scanOK := parseCookieHeaders a.stored a.direct == a.jar &&
        (a.pre.all fun c => scanSetCookie c.raw == (c.pkey, c.pvalue)) &&
        (match o.wire with
         | none => true
         | some ws => (ws.zip a.postParse).all fun (kr, pp) => scanSetCookie kr.2 == (pp.1, pp.2.1))
      modelParts := modelParts ++ [if scanOK then mtxt else "scanner-model-mismatch:" ++ mtxt]
      -- spec oracle on the implementation's observation
      if spec.isNone then
        spec := reqViolation wc ex iss a.jar o.views
      let (pairs, _) := stepIssued wc a
      iss := iss ++ pairs
      if spec.isNone then
        let post : Option (List WCookie) := o.wire.map fun ws =>
          (ws.zip a.postParse).map fun (kr, pp) =>
            { key := kr.1, raw := kr.2, pkey := pp.1, value := pp.2.1, tail := pp.2.2 : WCookie }
        if let some ws := o.wire then
          if ws.length != a.postParse.length then throw "outside-domain: W/P length"
        spec := respViolation wc ex keyValid iss a.pre post
      if spec.isNone && o.extra != "" then spec := some s!"harness-flag:{o.extra}"
      -- branch tags
      let nonEx := a.jar.filter fun kv => !isDisabled kv.1 ex
      if nonEx.any fun kv => (C.dec kv.2).isSome then tags := tags ++ ["nt-authentic-in"]
      if nonEx.any fun kv => kv.2 != [] && (C.dec kv.2).isNone then tags := tags ++ ["nt-rejected-in"]
      if nonEx.any fun kv => (C.dec kv.2).isSome && !(iss.any fun p => p.1 == kv.2) then
        tags := tags ++ ["nt-noncanonical-accepted"]
      if (distinctKeys a.jar).length != a.jar.length then tags := tags ++ ["nt-dup-request-names"]
      if (a.pre.map (·.key)).eraseDups.length != a.pre.length then tags := tags ++ ["nt-dup-response-names"]
      if a.pre.any fun c => !isDisabled c.key ex then tags := tags ++ ["nt-encrypted-out"]
      if a.jar.any fun kv => isDisabled kv.1 ex then tags := tags ++ ["except-in"]
      if a.pre.any fun c => isDisabled c.key ex then tags := tags ++ ["except-out"]
      if e.length != a.jar.length then tags := tags ++ ["dedup-applied"]
      if o.wire.isNone then tags := tags ++ ["panic"]
    let tagsOut := tags.eraseDups ++ (if keyValid then [] else ["invalid-key"]) ++
      (if mode == 2 then ["custom-codec"] else if mode == 1 then ["explicit-codec"] else [])
    pure { id := id, modelObs := ";".intercalate modelParts, implObs := impl, spec := spec, tags := tagsOut }
  | _ => throw s!"outside-domain: expected 8 fields, got {f.length}"

def main : IO Unit := run handleCase
