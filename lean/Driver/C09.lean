import FiberModel.DriverUtil
import FiberModel.C09.Spec
/-
Driver for C09. Case fields (after the id):
  kind(a|c|e|l|f|p)  ast  header(hex)  offers(hexlist)  mimes(hexlist pairs)  qtab(hexlist pairs)  implObs
-/
open B DriverUtil C09

/-! ### decoding -/

def hexStr (s : String) : Option Bytes := if s == "" then none else fromHex s

def decodeParam (s : String) : Option Param :=
  match s.splitOn "+" with
  | [o1, o2, n, k, v] => do
    let o1 ← hexStr o1; let o2 ← hexStr o2; let n ← hexStr n; let v ← hexStr v
    if k == "t" then some { ows1 := o1, ows2 := o2, name := n, quoted := false, value := v }
    else if k == "q" then some { ows1 := o1, ows2 := o2, name := n, quoted := true, value := v }
    else none
  | _ => none

def decodeElem (s : String) : Option Elem :=
  match s.splitOn ":" with
  | [l, r, ps, t] => do
    let l ← hexStr l; let r ← hexStr r; let t ← hexStr t
    let ps ← if ps == "-" then some [] else (ps.splitOn "/").mapM decodeParam
    some { lead := l, rng := r, params := ps, trail := t }
  | _ => none

def decodeAST (s : String) : Option (List Elem) :=
  if s == "e" then some [] else (s.splitOn "|").mapM decodeElem

def pairs : List Bytes → Option (List (Bytes × Bytes))
  | [] => some []
  | [_] => none
  | k :: v :: rest => (pairs rest).map ((k, v) :: ·)

/-- decimal text of a float64 as printed by `strconv.FormatFloat(q, 'f', -1, 64)` -/
def decimalVerdict (s : Bytes) : Option Qual :=
  let s := if s.head? == some 45 then s.drop 1 else s
  let ip := s.takeWhile isDigit
  match s.drop ip.length with
  | [] => if ip.isEmpty then none else some (.fin (digitsVal ip) 0)
  | 46 :: fr => if fr.all isDigit && !fr.isEmpty then some (.fin (digitsVal (ip ++ fr)) fr.length) else none
  | _ => none

def verdict (v : Bytes) : Option (Option Qual) :=
  if v == b "err" then some none
  else if v == b "inf" then some (some .inf)
  else if v == b "nan" then some (some .nan)
  else (decimalVerdict v).map some

/-! ### which texts the model will hand to `ParseUfloat` (to detect a table miss) -/

def elemQueries (accept : Bytes) : List Bytes :=
  match splitSemi accept with
  | none => []
  | some (_, rest) =>
    if hasPrefix rest (b ";q=") && !(rest.drop 3).contains 59 then [trimRightOWS (rest.drop 3)]
    else match (scanParams rest).find? (fun p => isQKey p.1) with
      | some p => [p.2]
      | none => []

def queries (header : Bytes) : List Bytes := (mediaRanges header).flatMap elemQueries

/-! ### observations -/

def renderFormat (o : FormatObs) : String :=
  let h := match o.handler with | some i => toString i | none => "-1"
  s!"h={h};st={o.status};ct={toHexField o.ctype};vary={toHexField o.vary};err={if o.err then 1 else 0}"

def parseFormat (s : String) : Option FormatObs := do
  let kv := (s.splitOn ";").filterMap fun p => match p.splitOn "=" with
    | [k, v] => some (k, v) | _ => none
  let get (k : String) : Option String := (kv.find? (·.1 == k)).map (·.2)
  let h ← (get "h").bind String.toInt?
  let st ← (get "st").bind String.toNat?
  let ct ← (get "ct").bind fromHex
  let vary ← (get "vary").bind fromHex
  let err ← get "err"
  if h < -1 then none   -- more than one handler ran
  else some { handler := if h < 0 then none else some h.toNat, status := st, ctype := ct, vary := vary, err := err == "1" }

def tcharTable : Bytes := (List.range 256).map fun c => if tchar c then 49 else 48

def bool01 (x : Bool) : String := if x then "1" else "0"

def handleCase (f : List String) : Except String Verdict := do
  match f with
  | [id, kind, ast, header, offers, mimes, qtab, impl] =>
    let some header := fromHex header | throw "outside-domain: header"
    if kind == "p" then
      -- probe: fasthttp's token-byte table against the model's `tchar`
      return { id := id, modelObs := if header == tcharTable then "probe" else "probe-tchar-differs", implObs := impl,
               spec := none, tags := ["probe"] }
    let some offers := hexList offers | throw "outside-domain: offers"
    let some mimes := (hexList mimes).bind pairs | throw "outside-domain: mimes"
    let some qtabL := (hexList qtab).bind pairs | throw "outside-domain: qtab"
    let some qtabV := qtabL.mapM (fun (k, v) => (verdict v).map fun x => (k, x)) | throw "outside-domain: qtab verdict"
    let ast ← if ast == "-" then pure none else match decodeAST ast with
      | some es => pure (some es)
      | none => throw "outside-domain: ast"
    if let some es := ast then
      if render es != header then throw "outside-domain: header is not the rendering of the ast"
    if header.any (fun c => c == 10 || c == 13 || c == 0 || c > 255) then throw "outside-domain: CR/LF/NUL in header"
    if offers.any (fun o => o.any fun c => c == 10 || c == 13 || c == 0 || c > 255) then throw "outside-domain: CR/LF/NUL in an offer"
    let isMedia := kind == "a" || kind == "f"
    if !(kind == "a" || kind == "c" || kind == "e" || kind == "l" || kind == "f") then throw "outside-domain: kind"
    let mime : Bytes → Bytes := fun e => match mimes.find? (·.1 == e) with
      | some p => p.2
      | none => if e == [] then [] else b "application/octet-stream"
    if isMedia then
      for o in offers do
        let m := (splitOffer o).1
        if !m.contains 47 && o != [] && (mimes.find? (·.1 == m)).isNone then throw "outside-domain: extension offer without MIME entry"
        if !offerOK mime o then throw "outside-domain: offer without a media type (acceptsOfferType panics)"
    let tab : Bytes → Option Qual := fun s => match qtabV.find? (·.1 == s) with
      | some p => p.2
      | none => none
    let miss := (queries header).any fun s => (parseSimple s).isNone && (qtabV.find? (·.1 == s)).isNone
    -- tags
    let wfAst := match ast with | some es => wf es | none => false
    let hasTab := match ast with
      | some es => es.any fun e => e.lead.contains 9 || e.trail.contains 9 || e.params.any fun p => p.ows1.contains 9 || p.ows2.contains 9
      | none => false
    let hasEmptyPar := match ast with
      | some es => es.any fun e => e.params.any (·.name == [])
      | none => false
    let hasDup : Bool := match ast with
      | some es => es.any fun e =>
          let ns := (mediaParams e.params).map fun p => toLower p.name
          ns.length != ns.eraseDups.length
      | none => false
    let astForSpec := if wfAst then ast else none
    let ranges := parseRanges tab header
    let shape := if header == [] then "absent" else if ast.isNone then "raw" else if !wfAst then "nonwf"
                 else if hasDup then "wf-duppar"
                 else if hasTab && hasEmptyPar then "wf-htab-emptypar" else if hasTab then "wf-htab"
                 else if hasEmptyPar then "wf-emptypar" else "wf-plain"
    let nRanges := if ranges.length ≥ 3 then "ranges3+" else s!"ranges{ranges.length}"
    let hasQ0 := (mediaRanges header).length > ranges.length
    let tie := ranges.any fun r => ranges.any fun r' => r.order < r'.order && r.q.eq r'.q
    let withParams := ranges.any fun r => r.params != []
    let quoted := header.contains 34
    if kind == "f" then
      let m := format tab mime header offers
      let implO := if impl == "panic" then none else parseFormat impl
      if impl != "panic" && implO.isNone then throw "outside-domain: unparsable format observation"
      let spec := specViolationFormat mime astForSpec header offers implO
      let nt := if wfAst && header != [] && offers.length ≥ 2 && ranges.length ≥ 2 then ["nt-format"] else []
      let tags := ["format", shape, nRanges] ++ nt ++ (if m.status == 406 then ["f406"] else []) ++
        (if miss then ["outside-model"] else [])
      return { id := id, modelObs := if miss then impl else renderFormat m, implObs := impl, spec := spec,
               tags := tags }
    else
      let k : Kind := if isMedia then .accept else .token
      let acc : Bytes → Bytes → Params → Bool := if isMedia then acceptsOfferType mime else acceptsOffer
      let m := getOffer tab acc header offers
      let implR : Option Bytes ← if impl == "panic" then pure none
        else if impl.startsWith "r=" then match fromHex (impl.drop 2).toString with
          | some r => pure (some r)
          | none => throw "outside-domain: unparsable observation"
        else throw "outside-domain: unparsable observation"
      let spec := specViolationAccepts mime k astForSpec header offers implR
      let nt := if wfAst && header != [] && offers.length ≥ 2 && ranges.length ≥ 2 then
                  [if tie then "nt-tie" else "nt-multi"] else []
      let tags := [if isMedia then "accept" else "token", shape, nRanges] ++ nt ++
        (if hasQ0 then ["q0"] else []) ++ (if withParams then ["params"] else []) ++ (if quoted then ["quoted"] else []) ++
        (if m == [] then ["none"] else ["some"]) ++ (if miss then ["outside-model"] else [])
      return { id := id, modelObs := if miss then impl else s!"r={toHexField m}", implObs := impl, spec := spec,
               tags := tags }
  | _ => throw s!"outside-domain: expected 8 fields, got {f.length}"

def main : IO Unit := run handleCase
