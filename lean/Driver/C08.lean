import FiberModel.DriverUtil
import FiberModel.C08.Known
/-
Driver for C08. Case fields (after the id):   tree  req  mode  err  |  outcomes
(formats: see harness/cmd/c08/main.go).

The error funnel's input — the error the chain returned, or what fasthttp handed to the server's
ErrorHandler together with the path the broken request's context carries — is read from the
observation (`chain=`, recorded by the outermost middleware; `srv=`/`path=`, recorded by a wrapper
around `app.Server().ErrorHandler`); routing itself is C01's. modelObs = the single outcome the
model's funnel produces for that input; implObs = the set of distinct outcomes the real code
produced over all evaluations of the case (so any order dependence is an M=DIFF *and* an S=FAIL).
Domain (rejected otherwise): prefixes from letters, digits, `/ - _ .` and whole-segment parameters
`:name`; appList keys pairwise different as the router tells mounts apart (`normKey`).
K=K1 exactly when the case lies in `Known.K1` (the designated app sits under a parameterised prefix
the path does not spell out) and the failing clause is the scope clause.
-/
open B DriverUtil C04 C08

def parseOwn (s : String) : Except String (Option Own) :=
  if s == "-" then pure none
  else
    let body := (s.dropEnd 1).toString
    match body.toNat? with
    | some id =>
      if s.endsWith "o" then pure (some ⟨id, false⟩)
      else if s.endsWith "f" then pure (some ⟨id, true⟩)
      else throw "outside-domain: own"
    | none => throw "outside-domain: own"

def parseGroup (x : String) : Except String Bytes :=
  if x == "_" then .ok []
  else match fromHex x with
    | some y => if y.isEmpty then .error "outside-domain: group prefix" else .ok y
    | none => .error "outside-domain: group prefix"

def parseGroups (g : String) : Except String (List Bytes) :=
  if g == "~" then .ok [] else (g.splitOn ".").mapM parseGroup

partial def parseNodes (toks : List String) (depth : Nat) : Except String (List Node × List String) :=
  match toks with
  | [] => if depth == 0 then pure ([], []) else throw "outside-domain: missing E"
  | t :: rest =>
    if t == "E" then (if depth == 0 then throw "outside-domain: unbalanced E" else pure ([], rest))
    else match t.splitOn ":" with
      | ["A", g, p, o, late] => do
        let gp ← parseGroups g
        let some p := fromHex p | throw "outside-domain: prefix"
        let own ← parseOwn o
        if late != "0" && late != "1" then throw "outside-domain: late"
        let (ch, r) ← parseNodes rest (depth + 1)
        let (more, r') ← parseNodes r depth
        pure (Node.mk gp p own ch :: more, r')
      | _ => throw s!"outside-domain: token {t}"

def plainByte (c : Nat) : Bool :=
  isLower c || isUpper c || isDigit c || c == 47 || c == 45 || c == 95 || c == 46

/-- a prefix of the spec's pattern language: plain bytes, and `:` only at the start of a segment,
followed by a non-empty name -/
def patternOk : Bool → Bytes → Bool
  | _, [] => true
  | atStart, c :: t =>
    if c == 58 then atStart && (match t with | [] => false | d :: _ => d != 47 && plainByte d) && patternOk false t
    else plainByte c && patternOk (c == 47) t

mutual
partial def nodeLiteral : Node → Bool
  | .mk gps p _ ch => patternOk true p && gps.all (patternOk true) && ch.all nodeLiteral
end

def parseErr (s : String) : Option Err :=
  match s.splitOn ":" with
  | ["E", c, m] => do let c ← c.toNat?; let m ← fromHex m; pure (.fiber c m)
  | ["P", m] => do let m ← fromHex m; pure (.plain m)
  | _ => none

def kvOf (s : String) : List (String × String) :=
  (s.splitOn ";").filterMap fun p => match p.splitOn "=" with
    | [k, v] => some (k, v) | _ => none

def parseCalls (calls : String) : Option (List (Nat × Nat)) :=
  let parseCall (c : String) : Option (Nat × Nat) :=
    match c.splitOn "x" with
    | [i, n] => do let i ← i.toNat?; let n ← n.toNat?; pure (i, n)
    | _ => none
  if calls == "-" then some [] else (calls.splitOn ".").mapM parseCall

/-- one evaluation of a chain mode -/
def parseSeen (s : String) : Option Seen := do
  let kv := kvOf s
  let get (k : String) : Option String := (kv.find? (·.1 == k)).map (·.2)
  let ch ← get "chain"
  let calls ← parseCalls (← get "calls")
  if ch == "none" then
    pure ⟨none, calls, 0, []⟩
  else
    let e ← parseErr ch
    let st ← (← get "status").toNat?
    let body ← fromHex (← get "body")
    pure ⟨some e, calls, st, body⟩

def parseSrvErr (s : String) : Option SrvErr :=
  match s.splitOn ":" with
  | [bits, m] => do
    let m ← fromHex m
    match bits.toList with
    | [a, c, d, f, g] =>
      if [a, c, d, f, g].all (fun x => x == '0' || x == '1') then
        pure ⟨a == '1', c == '1', d == '1', f == '1', g == '1', m⟩
      else none
    | _ => none
  | _ => none

/-- one evaluation of a server mode: (what fasthttp handed over, the context's path, the rest) -/
def parseSrvSeen (s : String) : Option (Option (SrvErr × Bytes) × Seen) := do
  let kv := kvOf s
  let get (k : String) : Option String := (kv.find? (·.1 == k)).map (·.2)
  let sv ← get "srv"
  let calls ← parseCalls (← get "calls")
  if sv == "none" then
    pure (none, ⟨none, calls, 0, []⟩)
  else
    let e ← parseSrvErr sv
    let p ← fromHex (← get "path")
    let st ← (← get "status").toNat?
    let body ← fromHex (← get "body")
    pure (some (e, p), ⟨some (specServerErr e), calls, st, body⟩)

def renderErr : Err → String
  | .fiber c m => s!"E:{c}:{toHexField m}"
  | .plain m => s!"P:{toHexField m}"

def renderCalls (o : Outcome) : String :=
  let cs := customCalls o
  if cs.isEmpty then "-" else ".".intercalate (cs.map fun (i, n) => s!"{i}x{n}")

def renderOutcome (chain : Option Err) (o : Option Outcome) : String :=
  match chain, o with
  | some e, some o => s!"chain={renderErr e};calls={renderCalls o};status={o.status};body={toHexField o.body}"
  | _, _ => "chain=none;calls=-"

def bit (x : Bool) : String := if x then "1" else "0"

def renderSrvOutcome (e : Option (SrvErr × Bytes)) (o : Option Outcome) : String :=
  match e, o with
  | some (e, p), some o =>
    s!"srv={bit e.smallBuffer}{bit e.opTimeout}{bit e.netError}{bit e.bodyTooLarge}{bit e.getOnly}:{toHexField e.msg};path={toHexField p};calls={renderCalls o};status={o.status};body={toHexField o.body}"
  | _, _ => "srv=none;calls=-"

structure Mode where
  base : String
  custom : Bool
  cs : Bool
  strict : Bool

def parseMode (s : String) : Except String Mode := do
  match s.splitOn "+" with
  | [] => throw "outside-domain: mode"
  | base :: fl =>
    let isNum (x : String) : Bool := !x.isEmpty && x.all Char.isDigit
    let okBase := ["mw", "chain", "srv"].contains base ||
      ((base.startsWith "sub" || base.startsWith "net") && isNum ((base.drop 3).toString))
    if !okBase then throw "outside-domain: mode"
    if !(fl.all fun x => ["custom", "cs", "strict", "subcs"].contains x) then throw "outside-domain: mode flag"
    if fl.eraseDups.length != fl.length then throw "outside-domain: mode flag twice"
    let kind := if base.startsWith "sub" then "sub" else if base.startsWith "net" then "net" else base
    pure ⟨kind, fl.contains "custom", fl.contains "cs", fl.contains "strict"⟩

def handleCase (f : List String) : Except String Verdict := do
  match f with
  | [id, tree, req, mode, err, outcomes] =>
    let toks := tree.splitOn ","
    let rootOwn ← parseOwn (toks.headD "?")
    let (nodes, rest) ← parseNodes toks.tail 0
    if !rest.isEmpty then throw "outside-domain: trailing tokens"
    if !(nodes.all nodeLiteral) then throw "outside-domain: prefix outside the pattern language"
    let reqPath ← match req.splitOn ":" with
      | [_, p] => match fromHex p with
        | some p => pure p | none => throw "outside-domain: path"
      | _ => throw "outside-domain: req"
    if reqPath.head? != some 47 || (reqPath.drop 1).head? == some 47 ||
        !(reqPath.all fun c => plainByte c || c == 58) then throw "outside-domain: path"
    let md ← parseMode mode
    let server := md.base == "srv" || md.base == "net"
    if (err.startsWith "S:") != (md.base == "srv") then throw "outside-domain: err kind does not fit the mode"
    let cfg : Cfg := ⟨md.cs, md.strict⟩
    let l := appList rootOwn nodes
    let keys := l.map fun m => normKey cfg m.pre
    if keys.eraseDups.length != keys.length then throw "outside-domain: two apps at the same mount point"
    let outs := outcomes.splitOn "|"
    if outs.contains "panic" then
      return { id := id, modelObs := "no-panic", implObs := outcomes,
               spec := some "panic: the error funnel panicked", tags := [mode, "panic"] }
    -- the funnel's input, the model's outcome for it, the evaluations as the oracle sees them
    let (path, modelObs, seen, inTag) ←
      if server then do
        let seen := outs.filterMap parseSrvSeen
        if seen.length != outs.length then throw "outside-domain: unparsable outcome"
        let first := (seen.head?).bind (·.1)
        let path := match first with | some (_, p) => p | none => reqPath
        if md.base == "srv" && path != reqPath then throw "outside-domain: context path differs from the request path"
        let model := match first with
          | some (e, p) => renderSrvOutcome first (serverFunnel cfg l rootOwn p e)
          | none => renderSrvOutcome none none
        let tag := match first with
          | some (e, _) => (match mapServerErr e with | .fiber c _ => s!"srv-{c}" | .plain _ => "srv-plain")
          | none => "srv-none"
        pure (path, model, seen.map (·.2), tag)
      else do
        let seen := outs.filterMap parseSeen
        if seen.length != outs.length then throw "outside-domain: unparsable outcome"
        let chain := (seen.head?).bind (·.chain)
        let tag := match chain with | none => "no-error" | some (.fiber c _) => s!"fiber-{c}" | some (.plain _) => "plain-error"
        pure (reqPath, renderOutcome chain (funnel cfg l rootOwn reqPath chain), seen, tag)
    let spec := specViolation cfg l rootOwn path seen
    let inK1 := Known.K1 cfg l path
    let known := match spec with
      | some c => if inK1 && c.startsWith "scope/exactly-once:" then some "K1" else none
      | none => none
    let cands := candidates cfg l path
    let lits := cands.filter fun m => contains cfg m.pre path
    let hpOnly := l.filter fun m => !m.pre.isEmpty &&
      (fold cfg (mountedAt m.pre)).isPrefixOf (fold cfg path) && !contains cfg m.pre path
    let chosen := selectSpec cfg l path
    let foldOnly := lits.filter fun m => !contains ⟨true, false⟩ m.pre path
    let tags := [md.base, inTag] ++
      (if md.custom then ["custom-ctx"] else []) ++ (if md.cs then ["case-sensitive"] else []) ++
      (if cands.length ≥ 2 then ["nt-several-candidates"] else if cands.length == 1 then ["one-candidate"] else ["no-candidate"]) ++
      (if !hpOnly.isEmpty then ["nt-string-prefix-not-boundary"] else []) ++
      (if (l.filter fun m => !m.pre.isEmpty && m.own.isNone && contains cfg m.pre path).isEmpty then [] else ["nt-unconfigured-on-path"]) ++
      (if !foldOnly.isEmpty then ["nt-candidate-by-case-folding"] else []) ++
      (if (lits.filter fun m => m.pre.head? != some 47).isEmpty then [] else ["nt-candidate-key-without-slash"]) ++
      (if (lits.filter fun m => m.pre == [47]).isEmpty then [] else ["nt-mount-at-root-candidate"]) ++
      (if cands.length > lits.length then ["nt-parameterised-candidate"] else []) ++
      (if inK1 then ["K1-region"] else []) ++
      (match chosen, rootOwn with
        | some o, _ => if o.fails then ["mounted-handler-fails"] else ["mounted-handler"]
        | none, some _ => ["root-handler"]
        | none, none => ["default-handler"])
    pure { id := id, modelObs := modelObs, implObs := outcomes, spec := spec, known := known, tags := tags }
  | _ => throw s!"outside-domain: expected 6 fields, got {f.length}"

def main : IO Unit := run handleCase
