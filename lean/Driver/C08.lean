import FiberModel.DriverUtil
import FiberModel.C08.Known
import FiberModel.C08.Fragment
/-
Driver for C08. Case fields (after the id):   tree  req  mode  err  |  outcomes
(formats: see harness/cmd/c08/main.go).

The error funnel's input — the error the chain returned, or what fasthttp handed to the server's
ErrorHandler together with the path the broken request's context carries — is read from the
observation (`chain=`, recorded by the outermost middleware; `srv=`/`path=`, recorded by a wrapper
around `app.Server().ErrorHandler`); routing itself is C01's. modelObs = the single outcome the
model's funnel produces for that input; implObs = the set of distinct outcomes the real code
produced over all evaluations of the case (so any order dependence is an M=DIFF *and* an S=FAIL).
Domain (rejected otherwise): prefixes from letters, digits, `/ - _ .` and the characters of fiber's
route syntax (`: * + ? \ < > ( ) , ;`); a prefix that is a route pattern must parse (`parseKey`) and
its constraints must be ones the C02 model decides itself, or one of the three regular expressions /
the datetime layout of `abs0` (their verdict depends on letter case; no custom constraints); appList
keys pairwise different once the leading slash is added (`slashKey`).
Reading of pattern prefixes in the oracle: when every pattern key of the table lies in the tokens
fragment (`TokenKey`, Fragment.lean: whole-segment `:name`, no trailing slash — the executable test
that is the hypothesis of `Props.select_eq_spec`) the oracle uses the tokens reading `coversPat`
(written from scratch in Spec) and the router's reading `coversRouter` must designate the same
handler (else S=FAIL `reading:`); otherwise the router's reading (fiber's RoutePatternMatch, the C02
model of it).
No known finding is open: K is never set.
-/
open B DriverUtil C04 C08

def parseOwn (s : String) : Except String (Option Own) :=
  if s == "-" then pure none
  else
    let body := (s.dropEnd 1).toString
    match body.toNat? with
    | some id =>
      if s.endsWith "o" then pure (some ⟨id, false⟩)
      else if s.endsWith "f" then pure (some ⟨id, true⟩)
      else throw "outside-domain: own"
    | none => throw "outside-domain: own"

def parseGroup (x : String) : Except String Bytes :=
  if x == "_" then .ok []
  else match fromHex x with
    | some y => if y.isEmpty then .error "outside-domain: group prefix" else .ok y
    | none => .error "outside-domain: group prefix"

def parseGroups (g : String) : Except String (List Bytes) :=
  if g == "~" then .ok [] else (g.splitOn ".").mapM parseGroup

partial def parseNodes (toks : List String) (depth : Nat) : Except String (List Node × List String) :=
  match toks with
  | [] => if depth == 0 then pure ([], []) else throw "outside-domain: missing E"
  | t :: rest =>
    if t == "E" then (if depth == 0 then throw "outside-domain: unbalanced E" else pure ([], rest))
    else match t.splitOn ":" with
      | ["A", g, p, o, late] => do
        let gp ← parseGroups g
        let some p := fromHex p | throw "outside-domain: prefix"
        let own ← parseOwn o
        if late != "0" && late != "1" then throw "outside-domain: late"
        let (ch, r) ← parseNodes rest (depth + 1)
        let (more, r') ← parseNodes r depth
        pure (Node.mk gp p own ch :: more, r')
      | _ => throw s!"outside-domain: token {t}"

def plainByte (c : Nat) : Bool :=
  isLower c || isUpper c || isDigit c || c == 47 || c == 45 || c == 95 || c == 46

def syntaxByte (c : Nat) : Bool :=
  plainByte c || [58, 42, 43, 63, 92, 60, 62, 40, 41, 44, 59, 94, 36, 91, 93].contains c

/-- the regular expressions the generator puts into mount prefixes (their verdict depends on letter
case), decided here; that these three predicates are what Go's regexp says is validated by the
correspondence run -/
def knownRegex : List Bytes := [b "^[A-Z]+$", b "^[a-z]+$", b "^[A-Z][a-z]*$"]

def twoDigits (v : Bytes) (i : Nat) : Option Nat :=
  match v[i]?, v[i + 1]? with
  | some x, some y => if isDigit x && isDigit y then some ((x - 48) * 10 + (y - 48)) else none
  | _, _ => none

/-- `time.Parse("2006-01-02T15", v)` succeeds: four-digit year, two-digit month and day (fixed
width), `T`, hour of one or two digits (`getnum(value, false)`), day within the month -/
def dateHourOk (v : Bytes) : Bool :=
  (v.length == 13 || v.length == 12) && v[4]? == some 45 && v[7]? == some 45 && v[10]? == some 84 &&
  match twoDigits v 0, twoDigits v 2, twoDigits v 5, twoDigits v 8 with
  | some c, some y, some m, some d =>
    let hour : Option Nat :=
      if v.length == 13 then twoDigits v 11
      else match v[11]? with | some x => if isDigit x then some (x - 48) else none | none => none
    let year := c * 100 + y
    let leap := year % 4 == 0 && (year % 100 != 0 || year % 400 == 0)
    let dim := if m == 2 then (if leap then 29 else 28) else if [4, 6, 9, 11].contains m then 30 else 31
    1 ≤ m && m ≤ 12 && 1 ≤ d && d ≤ dim && (match hour with | some h => h ≤ 23 | none => false)
  | _, _, _, _ => false

/-- the abstract part of `CheckConstraint` (regex, datetime) for the constraints of the domain -/
def abs0 : C02.Constraint → Bytes → Bool := fun c v =>
  match c.id, c.data with
  | .regex, [r] =>
    if r == b "^[A-Z]+$" then !v.isEmpty && v.all isUpper
    else if r == b "^[a-z]+$" then !v.isEmpty && v.all isLower
    else if r == b "^[A-Z][a-z]*$" then (match v with | c0 :: t => isUpper c0 && t.all isLower | [] => false)
    else true
  | .datetime, [l] => if l == b "2006-01-02T15" then dateHourOk v else true
  | _, _ => true

/-- path.go CheckConstraint as getMatch calls it: on the parameter value cut from the path AS SENT -/
def chk0 : C02.Constraint → Bytes → Bool := C02.checkConstraint [] abs0

/-- a key of the modelled domain -/
def keyOk (cfg : Cfg) (k : Bytes) : Bool :=
  k.all syntaxByte &&
  (!isPatternKey k ||
    match parseKey cfg k with
    | none => false
    | some segs =>
      (segs.all fun sg => sg.constraints.all fun c =>
        c.id != .noC &&
        (c.id != .regex || (match c.data with | [r] => knownRegex.contains r | _ => false)) &&
        (c.id != .datetime || c.data == [b "2006-01-02T15"])) &&
      -- a key that only escapes characters (declares no parameter) must not end in a slash: fiber's
      -- RoutePatternMatch compares such a pattern literally, the mount's parser lets the slash be optional
      (segs.any (·.isParam) || (mountedAt k).getLast? != some 47))

def parseErr (s : String) : Option Err :=
  match s.splitOn ":" with
  | ["E", c, m] => do let c ← c.toNat?; let m ← fromHex m; pure (.fiber c m)
  | ["P", m] => do let m ← fromHex m; pure (.plain m)
  | _ => none

def kvOf (s : String) : List (String × String) :=
  (s.splitOn ";").filterMap fun p => match p.splitOn "=" with
    | [k, v] => some (k, v) | _ => none

def parseCalls (calls : String) : Option (List (Nat × Nat)) :=
  let parseCall (c : String) : Option (Nat × Nat) :=
    match c.splitOn "x" with
    | [i, n] => do let i ← i.toNat?; let n ← n.toNat?; pure (i, n)
    | _ => none
  if calls == "-" then some [] else (calls.splitOn ".").mapM parseCall

/-- what came back to a logger: who, the error, c.Path() -/
structure HopSeen where
  who : String
  err : Option Err
  path : Bytes

def parseHop (s : String) : Option HopSeen :=
  match s.splitOn "~" with
  | [w, e, p] => do
    let p ← fromHex p
    if e == "none" then pure ⟨w, none, p⟩ else pure ⟨w, some (← parseErr e), p⟩
  | _ => none

/-- one evaluation of a chain mode: (c.Path() when the chain came back to the outermost middleware,
what came back to the loggers (innermost first), the rest — `chain` = what came back to the
outermost middleware) -/
def xpreOf (s : String) : Option String := ((kvOf s).find? (·.1 == "xpre")).map (·.2)

def parseSeen (s : String) : Option (Option Bytes × List HopSeen × Seen) := do
  let kv := kvOf s
  let get (k : String) : Option String := (kv.find? (·.1 == k)).map (·.2)
  let ch ← get "chain"
  let calls ← parseCalls (← get "calls")
  let hops ← match get "hops" with
    | none => pure []
    | some h => (h.splitOn "/").mapM parseHop
  if ch == "none" && hops.all (·.err.isNone) then
    pure (none, hops, ⟨none, calls, 0, []⟩)
  else
    let e ← if ch == "none" then pure none else (parseErr ch).map some
    let fp ← fromHex (← get "fpath")
    let st ← (← get "status").toNat?
    let body ← fromHex (← get "body")
    pure (some fp, hops, ⟨e, calls, st, body⟩)

def parseSrvErr (s : String) : Option SrvErr :=
  match s.splitOn ":" with
  | [bits, m] => do
    let m ← fromHex m
    match bits.toList with
    | [a, c, d, f, g] =>
      if [a, c, d, f, g].all (fun x => x == '0' || x == '1') then
        pure ⟨a == '1', c == '1', d == '1', f == '1', g == '1', m⟩
      else none
    | _ => none
  | _ => none

/-- one evaluation of a server mode: (what fasthttp handed over, the context's path, the rest) -/
def parseSrvSeen (s : String) : Option (Option (SrvErr × Bytes) × Seen) := do
  let kv := kvOf s
  let get (k : String) : Option String := (kv.find? (·.1 == k)).map (·.2)
  let sv ← get "srv"
  let calls ← parseCalls (← get "calls")
  if sv == "none" then
    pure (none, ⟨none, calls, 0, []⟩)
  else
    let e ← parseSrvErr sv
    let p ← fromHex (← get "path")
    let st ← (← get "status").toNat?
    let body ← fromHex (← get "body")
    pure (some (e, p), ⟨some (specServerErr e), calls, st, body⟩)

def renderErr : Err → String
  | .fiber c m => s!"E:{c}:{toHexField m}"
  | .plain m => s!"P:{toHexField m}"

def renderCalls (o : Outcome) : String :=
  let cs := customCalls o
  if cs.isEmpty then "-" else ".".intercalate (cs.map fun (i, n) => s!"{i}x{n}")

def renderHops (hops : List (String × Option Err × Bytes)) : String :=
  if hops.isEmpty then "" else
    ";hops=" ++ "/".intercalate (hops.map fun (w, e, p) =>
      s!"{w}~{match e with | some e => renderErr e | none => "none"}~{toHexField p}")

def renderOutcome (chain : Option Err) (fpath : Bytes) (hops : List (String × Option Err × Bytes)) (o : Option Outcome) : String :=
  match o with
  | some o => s!"chain={match chain with | some e => renderErr e | none => "none"};fpath={toHexField fpath}{renderHops hops};calls={renderCalls o};status={o.status};body={toHexField o.body}"
  | none => s!"chain=none{renderHops hops};calls=-"

def bit (x : Bool) : String := if x then "1" else "0"

def renderSrvOutcome (e : Option (SrvErr × Bytes)) (o : Option Outcome) : String :=
  match e, o with
  | some (e, p), some o =>
    s!"srv={bit e.smallBuffer}{bit e.opTimeout}{bit e.netError}{bit e.bodyTooLarge}{bit e.getOnly}:{toHexField e.msg};path={toHexField p};calls={renderCalls o};status={o.status};body={toHexField o.body}"
  | _, _ => "srv=none;calls=-"

structure Mode where
  base : String
  custom : Bool
  cs : Bool
  strict : Bool
  unesc : Bool
  ov : Option Bytes
  pb : Bool      -- the raising handler writes X-Pre and the body "pre" before it fails
  fb : Bool      -- every failing error handler writes the body "part" before it fails
  prewrites : Bool  -- any of +st +pb +fh +fb

def parseMode (s : String) : Except String Mode := do
  match s.splitOn "+" with
  | [] => throw "outside-domain: mode"
  | base :: fl =>
    let isNum (x : String) : Bool := !x.isEmpty && x.all Char.isDigit
    let okBase := ["mw", "chain", "srv"].contains base ||
      ((base.startsWith "sub" || base.startsWith "net") && isNum ((base.drop 3).toString))
    if !okBase then throw "outside-domain: mode"
    let ovs := fl.filter (·.startsWith "ov")
    let isCode (x : String) : Bool := x.length == 5 && (x.startsWith "st" || x.startsWith "fh") &&
      (match (x.drop 2).toString.toNat? with | some c => 200 ≤ c && c ≤ 599 | none => false)
    let codes := fl.filter isCode
    let fl' := fl.filter fun x => !x.startsWith "ov" && !isCode x
    if !(fl'.all fun x => ["custom", "cs", "strict", "subcs", "unesc", "log", "logskip", "sublog", "sublogskip", "pb", "fb"].contains x) then
      throw "outside-domain: mode flag"
    if (fl.contains "log" && fl.contains "logskip") || (fl.contains "sublog" && fl.contains "sublogskip") then
      throw "outside-domain: two loggers at one place"
    if fl.eraseDups.length != fl.length || ovs.length > 1 then throw "outside-domain: mode flag twice"
    let kind := if base.startsWith "sub" then "sub" else if base.startsWith "net" then "net" else base
    let ov ← match ovs with
      | [] => pure none
      | o :: _ => match fromHex (o.drop 2).toString with
        | some p => if p.head? == some 47 then pure (some p) else throw "outside-domain: override"
        | none => throw "outside-domain: override"
    if ov.isSome && (kind == "srv" || kind == "net") then throw "outside-domain: override in a server mode"
    let pre := !codes.isEmpty || fl.contains "pb" || fl.contains "fb"
    if pre && (kind == "srv" || kind == "net" || fl.any (fun x => ["log", "logskip", "sublog", "sublogskip"].contains x)) then
      throw "outside-domain: response written before the failure in a server / logger mode"
    if (codes.filter (·.startsWith "st")).length > 1 || (codes.filter (·.startsWith "fh")).length > 1 then
      throw "outside-domain: mode flag twice"
    pure ⟨kind, fl.contains "custom", fl.contains "cs", fl.contains "strict", fl.contains "unesc", ov,
          fl.contains "pb", fl.contains "fb", pre⟩

def handleCase (f : List String) : Except String Verdict := do
  match f with
  | [id, tree, req, mode, err, outcomes] =>
    let toks := tree.splitOn ","
    let rootOwn ← parseOwn (toks.headD "?")
    let (nodes, rest) ← parseNodes toks.tail 0
    if !rest.isEmpty then throw "outside-domain: trailing tokens"
    let reqPath ← match req.splitOn ":" with
      | [_, p] => match fromHex p with
        | some p => pure p | none => throw "outside-domain: path"
      | _ => throw "outside-domain: req"
    let pathByte (c : Nat) : Bool := plainByte c || c == 58 || c == 42 || c == 43 || c == 32
    let md ← parseMode mode
    if reqPath.head? != some 47 || (reqPath.drop 1).head? == some 47 ||
        !(reqPath.all fun c => pathByte c || (md.unesc && c == 37)) then throw "outside-domain: path"
    -- ctx.go configDependentPaths: ctx.Path() of a fresh context
    let ctxPath (raw : Bytes) : Bytes := if md.unesc then C02.unquote raw else raw
    if (ctxPath reqPath).head? != some 47 || !((ctxPath reqPath).all pathByte) then throw "outside-domain: decoded path"
    if !((md.ov.getD []).all pathByte) || !((ctxPath (md.ov.getD [47])).all pathByte) || (ctxPath (md.ov.getD [47])).head? != some 47 then
      throw "outside-domain: override"
    let server := md.base == "srv" || md.base == "net"
    if (err.startsWith "S:") != (md.base == "srv") then throw "outside-domain: err kind does not fit the mode"
    let cfg : Cfg := ⟨md.cs, md.strict⟩
    let l := appList rootOwn nodes
    let keys := l.map fun m => slashKey m.pre
    if keys.eraseDups.length != keys.length then throw "outside-domain: two apps registered under the same route"
    if !(l.all fun m => keyOk cfg m.pre) then throw "outside-domain: prefix outside the modelled pattern language"
    let pats := l.filter fun m => isPattern m.pre
    let tokens := pats.all fun m => TokenKey cfg m.pre
    let cov : Cover := if tokens then coversPat cfg else coversRouter chk0 cfg
    let outs := outcomes.splitOn "|"
    if outs.contains "panic" then
      return { id := id, modelObs := "no-panic", implObs := outcomes,
               spec := some "panic: the error funnel panicked", tags := [mode, "panic"] }
    -- the funnel's input, the model's outcome for it, the evaluations as the oracle sees them
    let (path, modelObs, seen, inTag, left) ←
      if server then do
        let seen := outs.filterMap parseSrvSeen
        if seen.length != outs.length then throw "outside-domain: unparsable outcome"
        let first := (seen.head?).bind (·.1)
        let rawPath := match first with | some (_, p) => p | none => reqPath
        if md.base == "srv" && rawPath != reqPath then throw "outside-domain: context path differs from the request path"
        let path := ctxPath rawPath
        if path.head? != some 47 || !(path.all pathByte) then throw "outside-domain: context path"
        let model := match first with
          | some (e, _) => renderSrvOutcome first (serverFunnel chk0 cfg l rootOwn path e)
          | none => renderSrvOutcome none none
        let tag := match first with
          | some (e, _) => (match mapServerErr e with | .fiber c _ => s!"srv-{c}" | .plain _ => "srv-plain")
          | none => "srv-none"
        pure (path, model, seen.map (·.2), tag, ([] : Bytes))
      else do
        let seen := outs.filterMap parseSeen
        if seen.length != outs.length then throw "outside-domain: unparsable outcome"
        let chain := (seen.head?).bind (·.2.2.chain)
        let hops := match seen.head? with | some x => x.2.1 | none => []
        -- the path the funnel judges: ctx.Path() of the request, or the override if the failing
        -- handler made it (whether that handler ran is routing, read from the observation like `chain`)
        let seenPath := (seen.head?).bind (·.1)
        -- ctx.go Path(override): `c.pathOriginal = override; c.configDependentPaths()` - the override is
        -- percent-decoded like a request path
        let path := match md.ov, seenPath with
          | some o, some f => if f == ctxPath o then ctxPath o else ctxPath reqPath
          | _, _ => ctxPath reqPath
        let tag := match chain with | none => "no-error" | some (.fiber c _) => s!"fiber-{c}" | some (.plain _) => "plain-error"
        let tag := if md.ov.isSome && seenPath == md.ov.map ctxPath && path != ctxPath reqPath then tag ++ ",nt-path-overridden" else tag
        -- where the error first shows: at a logger (it delivers and swallows) or at the outermost middleware
        let lead := hops.takeWhile (·.err.isNone)
        let rest := hops.drop lead.length
        let origin := match rest with | h :: _ => h.err | [] => chain
        -- what is on the response when a failing error handler gives up: its own body, else the body
        -- of the handler that raised the error (whether that one ran is read from the header it set)
        let xpre := (outs.head?).bind xpreOf
        let left : Bytes := if md.fb then b "part" else if md.pb && xpre == some "1" then b "pre" else []
        let outcome := if hops.isEmpty then funnel chk0 cfg l rootOwn path origin left
          else request chk0 cfg l rootOwn (rest.map fun _ => path) path origin
        let hopsM : List (String × Option Err × Bytes) :=
          lead.map (fun h => (h.who, none, path)) ++
          (match rest with
           | h :: t => (h.who, origin, path) :: t.map (fun x => (x.who, none, path))
           | [] => [])
        let chainM := if rest.isEmpty then chain else none
        let tag := if !rest.isEmpty then tag ++ ",nt-delivered-by-logger" else if !hops.isEmpty then tag ++ ",logger-in-chain" else tag
        let tag := match origin, chain with
          | some (.fiber c _), none => tag ++ s!",fiber-{c}"
          | some (.plain _), none => tag ++ ",plain-error"
          | _, _ => tag
        let tag := if md.prewrites then tag ++ ",response-written-before" else tag
        let xs := match outcome, xpre with | some _, some x => s!";xpre={x}" | _, _ => ""
        pure (path, renderOutcome chainM path hopsM outcome ++ xs, seen.map (fun x => { x.2.2 with chain := origin }), tag, left)
    let spec := match specViolation cfg cov l rootOwn path seen left with
      | some c => some c
      | none =>
        if tokens && !pats.isEmpty && selectSpec cfg (coversRouter chk0 cfg) l path != selectSpec cfg cov l path then
          some "reading: the tokens reading and the router's reading of the mount prefixes designate different handlers"
        else none
    let inK1 := Known.K1 cfg cov l path
    let known : Option String := none
    let cands := candidates cfg cov l path
    let lits := cands.filter fun m => !isPattern m.pre
    let hpOnly := l.filter fun m => !m.pre.isEmpty &&
      (fold cfg (mountedAt m.pre)).isPrefixOf (fold cfg path) && !contains cfg m.pre path
    let chosen := selectSpec cfg cov l path
    let top : List Mounted := match innermost cfg cov path cands with
      | some x => cands.filter fun m => reach cfg cov path m == reach cfg cov path x
      | none => []
    let foldOnly := lits.filter fun m => !contains ⟨true, false⟩ m.pre path
    let tags := [md.base, inTag] ++
      (if md.custom then ["custom-ctx"] else []) ++ (if md.cs then ["case-sensitive"] else []) ++
      (if md.unesc then (if path != (match md.ov with | some o => if path == ctxPath o then o else reqPath | none => reqPath) then ["nt-unescaped-path"] else ["unescape-on"]) else []) ++
      (if cands.length ≥ 2 then ["nt-several-candidates"] else if cands.length == 1 then ["one-candidate"] else ["no-candidate"]) ++
      (if !hpOnly.isEmpty then ["nt-string-prefix-not-boundary"] else []) ++
      (if (l.filter fun m => !m.pre.isEmpty && m.own.isNone && contains cfg m.pre path).isEmpty then [] else ["nt-unconfigured-on-path"]) ++
      (if !foldOnly.isEmpty then ["nt-candidate-by-case-folding"] else []) ++
      (if (lits.filter fun m => m.pre.head? != some 47).isEmpty then [] else ["nt-candidate-key-without-slash"]) ++
      (if (lits.filter fun m => m.pre == [47]).isEmpty then [] else ["nt-mount-at-root-candidate"]) ++
      (if cands.length > lits.length then ["nt-pattern-candidate"] else []) ++
      (if top.length ≥ 2 then ["nt-tie-decided-by-prefix-order"] else []) ++
      (if pats.isEmpty then [] else if tokens then ["reading-tokens"] else ["reading-router"]) ++
      (if inK1 then ["former-K1-region"] else []) ++
      (if md.prewrites && (match chosen, rootOwn with | some o, _ => o.fails | none, some o => o.fails | none, none => false)
        then ["nt-failing-handler-on-written-response"] else []) ++
      (match chosen, rootOwn with
        | some o, _ => if o.fails then ["mounted-handler-fails"] else ["mounted-handler"]
        | none, some _ => ["root-handler"]
        | none, none => ["default-handler"])
    pure { id := id, modelObs := modelObs, implObs := outcomes, spec := spec, known := known, tags := tags }
  | _ => throw s!"outside-domain: expected 6 fields, got {f.length}"

def main : IO Unit := run handleCase
