import FiberModel.DriverUtil
import FiberModel.C08.Spec
/-
Driver for C08. Case fields (after the id):   tree  req  mode  err  |  outcomes
(formats: see harness/cmd/c08/main.go).

The error funnel's input — the error the chain returned — is read from the observation (`chain=`,
recorded by the outermost middleware); routing itself is C01's. modelObs = the single outcome the
model's funnel produces for that chain result; implObs = the set of distinct outcomes the real code
produced over all evaluations of the case (so any order dependence is an M=DIFF *and* an S=FAIL).
Domain (rejected otherwise): literal lower-case prefixes, pairwise different appList keys.
-/
open B DriverUtil C04 C08

def parseOwn (s : String) : Except String (Option Own) :=
  if s == "-" then pure none
  else
    let body := (s.dropEnd 1).toString
    match body.toNat? with
    | some id =>
      if s.endsWith "o" then pure (some ⟨id, false⟩)
      else if s.endsWith "f" then pure (some ⟨id, true⟩)
      else throw "outside-domain: own"
    | none => throw "outside-domain: own"

partial def parseNodes (toks : List String) (depth : Nat) : Except String (List Node × List String) :=
  match toks with
  | [] => if depth == 0 then pure ([], []) else throw "outside-domain: missing E"
  | t :: rest =>
    if t == "E" then (if depth == 0 then throw "outside-domain: unbalanced E" else pure ([], rest))
    else match t.splitOn ":" with
      | ["A", g, p, o, late] => do
        let gp ← if g == "~" then pure none else match fromHex g with
          | some x => pure (some x) | none => throw "outside-domain: group prefix"
        let some p := fromHex p | throw "outside-domain: prefix"
        let own ← parseOwn o
        if late != "0" && late != "1" then throw "outside-domain: late"
        let (ch, r) ← parseNodes rest (depth + 1)
        let (more, r') ← parseNodes r depth
        pure (Node.mk gp p own ch :: more, r')
      | _ => throw s!"outside-domain: token {t}"

def literalByte (c : Nat) : Bool := isLower c || isDigit c || c == 47 || c == 45 || c == 95 || c == 46

mutual
partial def nodeLiteral : Node → Bool
  | .mk gp p _ ch => p.all literalByte && (match gp with | none => true | some g => g.all literalByte) && ch.all nodeLiteral
end

def parseErr (s : String) : Option Err :=
  match s.splitOn ":" with
  | ["E", c, m] => do let c ← c.toNat?; let m ← fromHex m; pure (.fiber c m)
  | ["P", m] => do let m ← fromHex m; pure (.plain m)
  | _ => none

def parseSeen (s : String) : Option Seen := do
  let kv := (s.splitOn ";").filterMap fun p => match p.splitOn "=" with
    | [k, v] => some (k, v) | _ => none
  let get (k : String) : Option String := (kv.find? (·.1 == k)).map (·.2)
  let ch ← get "chain"
  let calls ← get "calls"
  let parseCall (c : String) : Option (Nat × Nat) :=
    match c.splitOn "x" with
    | [i, n] => do let i ← i.toNat?; let n ← n.toNat?; pure (i, n)
    | _ => none
  let calls ← if calls == "-" then some [] else (calls.splitOn ".").mapM parseCall
  if ch == "none" then
    pure ⟨none, calls, 0, []⟩
  else
    let e ← parseErr ch
    let st ← (← get "status").toNat?
    let body ← fromHex (← get "body")
    pure ⟨some e, calls, st, body⟩

def renderErr : Err → String
  | .fiber c m => s!"E:{c}:{toHexField m}"
  | .plain m => s!"P:{toHexField m}"

def renderOutcome (chain : Option Err) (o : Option Outcome) : String :=
  match chain, o with
  | some e, some o =>
    let cs := customCalls o
    let c := if cs.isEmpty then "-" else ".".intercalate (cs.map fun (i, n) => s!"{i}x{n}")
    s!"chain={renderErr e};calls={c};status={o.status};body={toHexField o.body}"
  | _, _ => "chain=none;calls=-"

def handleCase (f : List String) : Except String Verdict := do
  match f with
  | [id, tree, req, mode, _err, outcomes] =>
    let toks := tree.splitOn ","
    let rootOwn ← parseOwn (toks.headD "?")
    let (nodes, rest) ← parseNodes toks.tail 0
    if !rest.isEmpty then throw "outside-domain: trailing tokens"
    if !(nodes.all nodeLiteral) then throw "outside-domain: non-literal prefix"
    let path ← match req.splitOn ":" with
      | [_, p] => match fromHex p with
        | some p => pure p | none => throw "outside-domain: path"
      | _ => throw "outside-domain: req"
    if path.head? != some 47 || !(path.all literalByte) then throw "outside-domain: path"
    if !["mw", "chain", "mw+custom", "chain+custom"].contains mode then throw "outside-domain: mode"
    let l := appList rootOwn nodes
    let keys := l.map (·.pre)
    if keys.eraseDups.length != keys.length then throw "outside-domain: two apps at the same appList key"
    let outs := outcomes.splitOn "|"
    if outs.contains "panic" then
      return { id := id, modelObs := "no-panic", implObs := outcomes,
               spec := some "panic: the error funnel panicked", tags := [mode, "panic"] }
    let seen := outs.filterMap parseSeen
    if seen.length != outs.length then throw "outside-domain: unparsable outcome"
    let chain := (seen.head?).bind (·.chain)
    let modelObs := renderOutcome chain (funnel l rootOwn path chain)
    let spec := specViolation l rootOwn path seen
    let cands := candidates l path
    let hpOnly := l.filter fun m => !m.pre.isEmpty && m.pre.isPrefixOf path && !contains m.pre path
    let chosen := selectSpec l path
    let tags := [mode] ++
      (match chain with | none => ["no-error"] | some (.fiber c _) => [s!"fiber-{c}"] | some (.plain _) => ["plain-error"]) ++
      (if cands.length ≥ 2 then ["nt-several-candidates"] else if cands.length == 1 then ["one-candidate"] else ["no-candidate"]) ++
      (if !hpOnly.isEmpty then ["nt-string-prefix-not-boundary"] else []) ++
      (if (l.filter fun m => !m.pre.isEmpty && m.own.isNone && contains m.pre path).isEmpty then [] else ["nt-unconfigured-on-path"]) ++
      (match chosen, rootOwn with
        | some o, _ => if o.fails then ["mounted-handler-fails"] else ["mounted-handler"]
        | none, some _ => ["root-handler"]
        | none, none => ["default-handler"])
    pure { id := id, modelObs := modelObs, implObs := outcomes, spec := spec, tags := tags }
  | _ => throw s!"outside-domain: expected 6 fields, got {f.length}"

def main : IO Unit := run handleCase
