import FiberModel.DriverUtil
import FiberModel.C03.Spec
/-
Driver for C03. Case fields (after the id):
  cfg(3 bits)  toks(`;`-separated L<hex> | N<hex> | O<hex> | S | P)  vals(hexlist)  path(hex)  implObs
implObs = C02 dispatch observation ++ ";rpm=0|1|panic".
-/
open B DriverUtil C02 C03

namespace C03Driver

def parseTok (s : String) : Option Tok :=
  match s.toList with
  | ['S'] => some .star
  | ['P'] => some .plus
  | k :: rest =>
    match fromHexAux rest with
    | some t => if t.isEmpty then none
                else if k == 'L' then some (.lit t) else if k == 'N' then some (.named t false)
                else if k == 'O' then some (.named t true) else none
    | none => none
  | [] => none

def parseToks (s : String) : Option Pat := (s.splitOn ";").mapM parseTok

def renderObs (o : Obs) : String :=
  if o.panic then "panic"
  else if o.ran == 0 then s!"ran=0;st={o.status}"
  else s!"ran={o.ran};st={o.status};path={toHexField o.path};rpath={toHexField o.rpath};" ++
       s!"names={hexListField o.names};vals={hexListField o.vals}"

def renderRpm : Option Bool → String
  | none => "panic" | some true => "1" | some false => "0"

def parseObs3 (s : String) : Option Obs3 :=
  let kv := (s.splitOn ";").filterMap fun p => match p.splitOn "=" with
    | [k, v] => some (k, v) | _ => none
  let get (k : String) : Option String := (kv.find? (·.1 == k)).map (·.2)
  do
    let rpm ← match ← get "rpm" with
      | "1" => some (some true) | "0" => some (some false) | "panic" => some none | _ => none
    if s.startsWith "panic" then pure { disp := { panic := true }, rpm := rpm }
    else
      let ran ← (← get "ran").toNat?
      let st ← (← get "st").toNat?
      if ran == 0 then pure { disp := { ran := 0, status := st }, rpm := rpm }
      else pure { disp := { ran := ran, status := st, path := ← (get "path").bind fromHex,
                            rpath := ← (get "rpath").bind fromHex, names := ← (get "names").bind hexList,
                            vals := ← (get "vals").bind hexList }, rpm := rpm }

def serve (cfg : Config) (pattern reqPath : Bytes) : Obs :=
  match register cfg false pattern with
  | none => { panic := true }
  | some r =>
    let (path, det) := configDependentPaths cfg reqPath
    match dispatch1 (fun _ _ => true) r det path with
    | none => { ran := 0, status := 404 }
    | some vals =>
      { ran := 1, status := 200, path := path, rpath := r.pathRaw, names := r.params,
        vals := r.params.map (paramsLookup cfg r.params vals) }

def parseCfg (s : String) : Option Config :=
  match s.toList with
  | [a, b, c] =>
    if [a, b, c].all (fun x => x == '0' || x == '1') then
      some { caseSensitive := a == '1', strictRouting := b == '1', unescapePath := c == '1' }
    else none
  | _ => none

/-- does the pattern carry a constraint the model cannot evaluate without a verdict table? -/
def hasAbstract (segs : List Seg) : Bool :=
  segs.any fun s => s.constraints.any fun c =>
    c.id == .float || c.id == .guid || ((c.id == .datetime || c.id == .regex) && !c.data.isEmpty)

/-- run-time validation of the two parser hypotheses of `rpm_eq_single_route_dispatch`: the pattern
    as written and the routed pattern agree on having parameters; a root pattern declares none -/
def hypViolated (cfg : Config) (pattern : Bytes) : Bool :=
  match register cfg false pattern with
  | some r => ((r.params.length > 0) != (r.parser.params.length > 0)) || (r.root && r.parser.params.length > 0)
  | none => false

/-- raw-pattern stream: arbitrary pattern text (C02's grammar); only the clause
    "RoutePatternMatch answers exactly as dispatching to an app holding only that route". -/
def handleRaw (id : String) (cfg : Config) (patHex path impl : String) : Except String Verdict := do
  let some pat := fromHexAux patHex.toList | throw "outside-domain: raw pattern"
  let some path := fromHex path | throw "outside-domain: path"
  unless path.headD 0 == SLASH && !(path.take 2 == [SLASH, SLASH]) && !path.contains 63 && !path.contains 35 do
    throw "outside-domain: request path must start with one '/', no query/fragment"
  let some io := parseObs3 impl | throw "outside-domain: observation"
  let chk := checkConstraint [] (fun _ _ => false)
  let routed := (parseRoute (prettyPattern cfg pat)).map (·.segs)
  let nonAscii := path.any (· ≥ 128)
  let outside : Bool := match routed with
    | some segs => hasAbstract segs || (nonAscii && segs.any fun s => s.constraints.any (·.id == .alpha))
    | none => false
  let mo : Obs := match register cfg false pat with
    | none => { panic := true }
    | some r =>
      let (upath, det) := configDependentPaths cfg path
      match dispatch1 chk r det upath with
      | none => { ran := 0, status := 404 }
      | some vals => { ran := 1, status := 200, path := upath, rpath := r.pathRaw, names := r.params,
                       vals := r.params.map (paramsLookup cfg r.params vals) }
  let mrpm := routePatternMatch chk cfg path pat
  let modelObs := renderObs mo ++ ";rpm=" ++ renderRpm mrpm
  let spec : Option String :=
    if io.disp.panic then (if io.rpm == none then none else some "rpm-eq-dispatch (registration panics, RoutePatternMatch answers)")
    else if io.rpm != some (io.disp.ran == 1) then some "rpm-eq-dispatch" else none
  let hv := hypViolated cfg pat
  pure { id := id, modelObs := if hv then "hyp-violated:" ++ modelObs else if outside then impl else modelObs,
         implObs := impl, spec := spec,
         tags := ["raw", if io.disp.ran == 1 then "ran" else "notran"] ++
                 (if io.disp.ran == 1 then ["nt-raw-match"] else []) ++ (if outside then ["outside-model"] else []) }

def handleCase (f : List String) : Except String Verdict := do
  match f with
  | [id, cfg, toks, vals, path, impl] =>
    let some cfg := parseCfg cfg | throw "outside-domain: cfg"
    if toks.startsWith "X" then return ← handleRaw id cfg ((toks.drop 1).toString) path impl
    let some p := parseToks toks | throw "outside-domain: toks"
    let some vals := hexList vals | throw "outside-domain: vals"
    let some path := fromHex path | throw "outside-domain: path"
    unless path.headD 0 == SLASH && !(path.take 2 == [SLASH, SLASH]) && !path.contains 63 && !path.contains 35 do
      throw "outside-domain: request path must start with one '/', no query/fragment"
    -- the token list must be the structured form of its own text (no special bytes in literals,
    -- alphanumeric names, no adjacent literals, leading '/')
    unless WFPat p do throw "outside-domain: token list is not a well-formed pattern"
    let names := p.filterMap fun t => match t with | .named n _ => some n | _ => none
    unless (names.map toLower).eraseDups.length == names.length do throw "outside-domain: duplicate names"
    unless vals.length == (p.filter (·.isParam)).length do throw "outside-domain: one value per parameter"
    let some io := parseObs3 impl | throw "outside-domain: observation"
    let pattern := patText p
    -- fiber's maxParams: the model has no bound on the number of parameters; what the real code does
    -- with a pattern that declares more than 30 (register panics, getMatch – hence RoutePatternMatch –
    -- matches nothing) is rendered here, outside the model, and so held to the observation
    let np := nparams p
    let over := np > maxParams
    let mo : Obs := if over then { panic := true } else serve cfg pattern path
    let mrpm := if over then some false else routePatternMatch (fun _ _ => true) cfg path pattern
    let modelObs := renderObs mo ++ ";rpm=" ++ renderRpm mrpm
    -- correspondence of the structured view with the parser: segsOf (token list) = parseRoute (text)
    -- (proved for WFPat: C03.parseRoute_patText; kept as a run-time cross-check of the transcription)
    let structOK := match segsOf p, parseRoute pattern with
      | some a, some b => a == b.segs
      | none, none => true
      | _, _ => false
    let spec := specViolation cfg p vals path io
    -- a pattern over the limit is refused at registration: nothing is demanded, not counted as complete
    let applies := completenessApplies cfg p vals path && !over
    -- the region of former known finding K1 (repaired in fiber): clean for the literals, not clean for
    -- the literals minus their trailing slashes; no longer exempt, only counted
    let fullConstRegion := applies && !cleanFillWith cmpOfConst (foldPat cfg p) (foldVals cfg vals)
    let greedyMid := (foldPat cfg p).zip ((foldPat cfg p).drop 1) |>.any fun (a, b) => a.isGreedy && !b.isParam
    let tags := [if Delimited p then "delimited" else "not-delimited",
                 if io.disp.ran == 1 then "ran" else "notran"] ++
                (if applies then ["nt-complete"] else []) ++
                (if applies && greedyMid then ["nt-greedy-mid"] else []) ++
                (if applies && !greedyOnce (fun l => l) (foldPat cfg p) (foldVals cfg vals) then ["nt-greedy-iib"] else []) ++
                (if fullConstRegion then ["nt-full-const"] else []) ++
                (if !applies && io.disp.ran == 1 then ["nt-rpm-match"] else []) ++
                (if np ≥ 28 then [s!"params-{np}"] else []) ++
                (if np ≥ 28 && applies then [s!"nt-complete-params-{np}"] else []) ++
                (if over && io.disp.panic then ["over-limit-refused"] else []) ++
                (if structOK then [] else ["struct-mismatch"])
    pure { id := id, modelObs := if hypViolated cfg pattern then "hyp-violated:" ++ modelObs
                                 else if structOK then modelObs else "struct-mismatch:" ++ modelObs, implObs := impl,
           spec := spec, tags := tags }
  | _ => throw s!"outside-domain: expected 6 fields, got {f.length}"

end C03Driver

def main : IO Unit := run C03Driver.handleCase
