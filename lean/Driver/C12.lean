import FiberModel.DriverUtil
import FiberModel.C12.Known
/-
Driver for C12. Case fields after the id (see harness/cmd/c12/main.go):
  rtc keys vals levels oldKeys oldVals [wi<positions>] | issued c2 seen2 c3 seen3
  rtt keys vals levels oldKeys oldVals [wi<positions>] | issued st2 seen2 exp2 st3 seen3
  ish keys vals levels oldKeys oldVals wi ends ('|'-joined, one entry per step) | status/issued per step
  rff keys vals levels mode | issued st2 relaySeen issued2 exp2 st3 seen3 exp3 st4 seen4
  dec cookies | steps allocs
-/
open B DriverUtil C12

def optHex : Option Bytes → String
  | none => "none"
  | some v => toHexField v

def parseOpt (s : String) : Option (Option Bytes) :=
  if s == "none" then some none else (fromHex s).map some

def parseLevels (s : String) : Option (List Nat) :=
  if s == "-" then some [] else (s.splitOn ",").mapM fun x => x.toNat?.bind fun n => if n < 256 then some n else none

def zip3 : List Bytes → List Bytes → List Nat → Option (List (Bytes × Bytes × Nat))
  | [], [], [] => some []
  | k :: ks, v :: vs, l :: ls => (zip3 ks vs ls).map ((k, v, l) :: ·)
  | _, _, _ => none

def zip2 : List Bytes → List Bytes → Option (List (Bytes × Bytes))
  | [], [] => some []
  | k :: ks, v :: vs => (zip2 ks vs).map ((k, v) :: ·)
  | _, _ => none

/-- all permutations (old-input lists have at most a few elements) -/
def perms : List α → List (List α)
  | [] => [[]]
  | x :: xs => (perms xs).flatMap fun p => (List.range (p.length + 1)).map fun i => p.take i ++ [x] ++ p.drop i

structure Script where
  calls : List (Bytes × Bytes × Nat)
  inputs : List (Bytes × Bytes)
  /-- one `WithInput()` call per entry `p`: after the first `p` `With` calls (non-decreasing) -/
  wipos : List Nat

def fact : Nat → Nat
  | 0 => 1
  | n + 1 => (n + 1) * fact n

/-- `wi<p1>.<p2>…` = positions of the `WithInput()` calls, `wi-` = never called; a line without the
    field (older corpus / witness lines) means one call after all `With` calls -/
def parseWi (w : Option String) (ncalls : Nat) : Except String (List Nat) :=
  match w with
  | none => pure [ncalls]
  | some w =>
    if !w.startsWith "wi" then throw "outside-domain: WithInput positions" else
    let rest := (w.drop 2).toString
    if rest == "-" then pure [] else
    match (rest.splitOn ".").mapM (·.toNat?) with
    | none => throw "outside-domain: WithInput positions"
    | some ps =>
      let rec sorted : Nat → List Nat → Bool
        | _, [] => true
        | lo, p :: r => lo ≤ p && p ≤ ncalls && sorted p r
      if sorted 0 ps then pure ps else throw "outside-domain: WithInput positions not sorted / beyond the chain"

def parseScript (ks vs ls oks ovs : String) (wi : Option String := none) : Except String Script := do
  let some ks := hexList ks | throw "outside-domain: keys"
  let some vs := hexList vs | throw "outside-domain: values"
  let some ls := parseLevels ls | throw "outside-domain: levels"
  let some oks := hexList oks | throw "outside-domain: old keys"
  let some ovs := hexList ovs | throw "outside-domain: old values"
  let some calls := zip3 ks vs ls | throw "outside-domain: ragged flash lists"
  let some inputs := zip2 oks ovs | throw "outside-domain: ragged input lists"
  if inputs.length > 4 then throw "outside-domain: too many old inputs"
  if (inputs.map (·.1)).eraseDups.length ≠ inputs.length then throw "outside-domain: duplicate old-input key"
  let wipos ← parseWi wi calls.length
  -- the model tries every combination of map orders (one per WithInput() call)
  if (fact inputs.length) ^ wipos.length > 600 then throw "outside-domain: too many WithInput() calls for this many inputs"
  pure ⟨calls, inputs, wipos⟩

/-- every choice of one map order per `WithInput()` call -/
def orderChoices (inputs : List (Bytes × Bytes)) : Nat → List (List (List (Bytes × Bytes)))
  | 0 => [[]]
  | k + 1 => (perms inputs).flatMap fun p => (orderChoices inputs k).map (p :: ·)

/-- model: `C12.runOps` on the chain of builder calls of the case line (`C12.interleave`), each
    `WithInput()` in the map order the implementation happened to use (recovered from the issued
    bytes; any permutation is legal, independently per call) -/
def modelMsgs (s : Script) (issued : Option Bytes) : List Msg :=
  let cands := (orderChoices s.inputs s.wipos.length).map fun orders => runOps (interleave s.calls s.wipos orders)
  match cands.find? (fun ms => issueOnWire ms = issued) with
  | some ms => ms
  | none => cands.headD []

/-- distribution tags: how the script exercises the `With` / `WithInput` rules -/
def scriptTags (s : Script) : List String :=
  let keys := s.calls.map (·.1)
  (if keys.eraseDups.length < keys.length then ["dupkey"] else []) ++
  (if s.inputs ≠ [] ∧ s.wipos.length ≥ 2 then ["withinput-repeated"] else []) ++
  (if s.inputs ≠ [] ∧ s.wipos = [] then ["input-not-attached"] else []) ++
  (if s.inputs ≠ [] ∧ s.wipos.any (· < s.calls.length) then ["withinput-early"] else []) ++
  (if s.wipos ≠ [] ∧ s.inputs.any (fun kv => keys.contains kv.1) then ["key-collides-with-input"] else [])

/-- what the /show handler answers for the messages `ms` it holds: list readers, then keyed readers
    (model: `messageOf` / `oldInputOf`) for the queried keys -/
def renderObs (scriptKeys : List Bytes) (ms : List Msg) : String :=
  renderSeen ms ++ "~" ++ renderKeyed (queryKeys scriptKeys ms) (messageOf ms) (oldInputOf ms)

/-- split an observed "<messages>~<keyed>" ("nohandler" has no keyed part) -/
def splitSeen (s : String) : String × String :=
  match s.splitOn "~" with
  | [m, k] => (m, k)
  | _ => (s, "")

def Script.keys (s : Script) : List Bytes := s.calls.map (·.1) ++ s.inputs.map (·.1)

def bit (b : Bool) : String := if b then "1" else "0"

def handleRtc (id : String) (s : Script) (issued c2 seen2 c3 seen3 : String) : Except String Verdict := do
  let some iss := parseOpt issued | throw "outside-domain: issued"
  let some c2v := parseOpt c2 | throw "outside-domain: c2"
  let some c3v := parseOpt c3 | throw "outside-domain: c3"
  let ms := modelMsgs s iss
  -- model of the exchange with a conforming client (accepts exactly cookie-octet values)
  let wire := issueOnWire ms
  let jar1 : Jar := Jar.apply wireSafe none (wire.map some)
  let (m2, pool2, sc2) := serve Slice.empty (jar1.getD []) []
  let jar2 := Jar.apply wireSafe jar1 sc2
  let (m3, _, _) := serve pool2 (jar2.getD []) []
  let modelObs := s!"{optHex wire};{optHex jar1};{renderObs s.keys m2};{optHex jar2};{renderObs s.keys m3}"
  let implObs := s!"{issued};{c2};{seen2};{c3};{seen3}"
  let flash := expectedFlash s.calls
  let old := expectedOldN s.wipos.length s.inputs
  let (s2, k2) := splitSeen seen2
  let (s3, k3) := splitSeen seen3
  let spec := specConforming flash old { issued := iss, c2 := c2v, seen2 := s2, c3 := c3v, seen3 := s3, keyed2 := k2, keyed3 := k3 } s.keys
  let known := if Known.K1for spec false (flash ++ old) then some "K1" else none
  let tags := ["rtc", if ms = [] then "nomsgs" else "msgs"] ++ (if ms ≠ [] then ["nt-rtc"] else []) ++ scriptTags s
  pure { id := id, modelObs := modelObs, implObs := implObs, spec := spec, known := known, tags := tags }

def handleRtt (id : String) (s : Script) (issued st2 seen2 exp2 st3 seen3 : String) : Except String Verdict := do
  let some iss := parseOpt issued | throw "outside-domain: issued"
  let some st2n := st2.toNat? | throw "outside-domain: st2"
  let some st3n := st3.toNat? | throw "outside-domain: st3"
  let ms := modelMsgs s iss
  let wire := issueOnWire ms
  let implObs := s!"{issued};{st2};{seen2};{exp2};{st3};{seen3}"
  let flash := expectedFlash s.calls
  let old := expectedOldN s.wipos.length s.inputs
  let (s2, k2) := splitSeen seen2
  let (s3, k3) := splitSeen seen3
  let spec := specTransparent flash old { issued := iss, st2 := st2n, seen2 := s2, exp2 := exp2 == "1", st3 := st3n, seen3 := s3, keyed2 := k2, keyed3 := k3 } s.keys
  let known := if Known.K1for spec true (flash ++ old) then some "K1" else none
  -- model of the exchange with a verbatim-copying client
  let (modelObs, tags) : String × List String :=
    match wire with
    | none =>
      let (m2, pool2, _) := serve Slice.empty [] []
      let (m3, _, _) := serve pool2 [] []
      (s!"none;200;{renderObs s.keys m2};0;200;{renderObs s.keys m3}", ["nocookie"])
    | some v =>
      if !v.all validHeaderValueByte then
        -- fasthttp refuses the request header: 400 both times, nothing expires the cookie
        (s!"{toHexField v};400;nohandler;0;400;nohandler", ["rejected-by-server"])
      else if !transparentSafe v then
        -- `;`, edge spaces or quotes: fasthttp's cookie scanner alters the value (not modelled)
        (implObs, ["outside-model"])
      else
        let (m2, pool2, sc2) := serve Slice.empty v []
        let jar2 := Jar.apply (fun _ => true) (some v) sc2
        let (m3, _, _) := serve pool2 (jar2.getD []) []
        (s!"{toHexField v};200;{renderObs s.keys m2};{bit (sc2 == some none)};200;{renderObs s.keys m3}",
         ["delivered", "nt-rtt-delivered"])
  pure { id := id, modelObs := modelObs, implObs := implObs, spec := spec, known := known, tags := "rtt" :: (tags ++ scriptTags s) }

/-- a flash message and an old input under the same key: which kind comes first for that key -/
def collisionTags (ms : List Msg) : List String :=
  let both := ms.filter fun m => ms.any fun m' => m'.key = m.key && m'.old != m.old
  match both with
  | [] => []
  | m :: _ => [if m.old then "nt-keyed-old-first" else "nt-keyed-flash-first"]

/-- the finishers that complete the redirect (`To`, `Back` with a Referer or a fallback, `Route` without /
with params / with queries): the model issues the cookie for every one of them alike -/
def completing (e : String) : Bool :=
  e == "to" || e == "backref" || e == "backfb" || e == "route" || e == "routep" || e == "routeq"

/-- issuing history on one app: the pooled `Redirect` is threaded through the steps (`Pooled`) -/
def handleIsh (id : String) (cols : List String) (ends obs : String) : Except String Verdict := do
  let colsS := cols.map (·.splitOn "|")
  let endsS := ends.splitOn "|"
  let obsS := obs.splitOn "|"
  let n := endsS.length
  if colsS.any (·.length ≠ n) ∨ obsS.length ≠ n ∨ cols.length ≠ 6 then throw "outside-domain: ragged history"
  if endsS.any (fun e => !completing e ∧ e ≠ "ok" ∧ e ≠ "back") then throw "outside-domain: ending"
  let rec go (i : Nat) (pool : Pooled) (fuel : Nat) : Except String (List String × List (Option String) × List (Option String) × List String) :=
    match fuel with
    | 0 => pure ([], [], [], [])
    | fuel + 1 =>
      if i ≥ n then pure ([], [], [], []) else do
        let f := colsS.map (·.getD i "")
        let s ← match f with
          | [ks, vs, ls, oks, ovs, wi] => parseScript ks vs ls oks ovs (some wi)
          | _ => throw "outside-domain: columns"
        let e := endsS.getD i ""
        let (stS, issS) ← match (obsS.getD i "").splitOn "/" with
          | [a, b] => pure (a, b)
          | _ => throw "outside-domain: step observation"
        let some st := stS.toNat? | throw "outside-domain: status"
        let some iss := parseOpt issS | throw "outside-domain: issued"
        -- model: run the chain on the pooled Redirect, in the map orders the implementation used
        let cands := (orderChoices s.inputs s.wipos.length).map fun orders => pool.run (interleave s.calls s.wipos orders)
        let pick := fun (p : Pooled) => if completing e then issueOnWire p.visible = iss else true
        let p' := (cands.find? pick).getD (cands.headD pool)
        let mIss := if completing e then issueOnWire p'.visible else none
        let mSt := if completing e then 302 else if e = "ok" then 200 else 500
        let flash := expectedFlash s.calls
        let old := expectedOldN s.wipos.length s.inputs
        let spec := specIssue flash old { completes := completing e, status := st, issued := iss }
        let known := if Known.K1for spec true (flash ++ old) then some "K1" else none
        let (mo, sp, kn, tg) ← go (i + 1) p'.release fuel
        pure (s!"{mSt}/{optHex mIss}" :: mo, spec :: sp, known :: kn, ("end-" ++ e) :: (scriptTags s ++ tg))
  let (mo, specs, knowns, tags) ← go 0 ⟨[], []⟩ (n + 1)
  let failing := (specs.zip knowns).find? (·.1.isSome)
  let incomplete := (endsS.take (n - 1)).any (!completing ·)
  pure { id := id, modelObs := "|".intercalate mo, implObs := obs, spec := failing.bind (·.1), known := failing.bind (·.2),
         tags := "ish" :: ((if incomplete ∧ (endsS.getLast?.map completing).getD false then ["nt-ish-after-incomplete"] else []) ++ tags.eraseDups) }

def parseMode : String → Option RelayMode
  | "same" => some .same
  | "rev" => some .rev
  | "chg" => some .chg
  | _ => none

/-- re-flash exchange (verbatim client): /go, /relay (consumes + redirects again), /show, /show -/
def handleRff (id : String) (s : Script) (mode : RelayMode)
    (issued st2 seen2 issued2 exp2 st3 seen3 exp3 st4 seen4 : String) : Except String Verdict := do
  let some iss := parseOpt issued | throw "outside-domain: issued"
  let some iss2 := parseOpt issued2 | throw "outside-domain: issued2"
  let some st2n := st2.toNat? | throw "outside-domain: st2"
  let some st3n := st3.toNat? | throw "outside-domain: st3"
  let some st4n := st4.toNat? | throw "outside-domain: st4"
  let implObs := s!"{issued};{st2};{seen2};{issued2};{exp2};{st3};{seen3};{exp3};{st4};{seen4}"
  let flash := expectedFlash s.calls
  let (s2, k2) := splitSeen seen2
  let (s3, k3) := splitSeen seen3
  let (s4, k4) := splitSeen seen4
  let spec := specRelay flash mode { issued := iss, st2 := st2n, seen2 := s2, keyed2 := k2, issued2 := iss2, exp2 := exp2 == "1", st3 := st3n, seen3 := s3, keyed3 := k3, exp3 := exp3 == "1", st4 := st4n, seen4 := s4, keyed4 := k4 } s.keys
  let known := if Known.K1for spec true flash then some "K1" else none
  let ms := runOps (interleave s.calls [] [])
  let wire := issueOnWire ms
  -- one hop of a verbatim client carrying `jar` to a /show handler
  let hop (pool : Slice) (jar : Jar) : String × Slice × Jar × Bool :=
    match jar with
    | some v =>
      if !v.all validHeaderValueByte then ("400;nohandler", pool, jar, false)
      else
        let (m, pool', sc) := serve pool v []
        (s!"200;{renderObs s.keys m}", pool', Jar.apply (fun _ => true) jar sc, sc == some none)
    | none =>
      let (m, pool', sc) := serve pool [] []
      (s!"200;{renderObs s.keys m}", pool', jar, sc == some none)
  let (modelObs, tags) : String × List String :=
    match wire with
    | some v =>
      if !v.all validHeaderValueByte then
        (s!"{toHexField v};400;nohandler;none;0;400;nohandler;0;400;nohandler", ["rejected-by-server"])
      else if !transparentSafe v then (implObs, ["outside-model"])
      else
        let (m2, pool2, sc2) := serveRelay Slice.empty v mode
        let issued2 : Option Bytes := match sc2 with | some (some v2) => some (sanitize v2) | _ => none
        let jar2 : Jar := match issued2 with | some v2 => some v2 | none => Jar.apply (fun _ => true) (some v) sc2
        if (issued2.map transparentSafe) == some false ∧ (issued2.map (·.all validHeaderValueByte)) == some true then (implObs, ["outside-model"])
        else
          let (o3, pool3, jar3, e3) := hop pool2 jar2
          let (o4, _, _, _) := hop pool3 jar3
          (s!"{toHexField v};302;{renderObs s.keys m2};{optHex issued2};{bit (sc2 == some none)};{o3};{bit e3};{o4}",
           ["relayed", "nt-rff-" ++ toString (repr mode)])
    | none =>
      let (m2, pool2, sc2) := serveRelay Slice.empty [] mode
      let (o3, pool3, jar3, e3) := hop pool2 none
      let (o4, _, _, _) := hop pool3 jar3
      (s!"none;302;{renderObs s.keys m2};none;{bit (sc2 == some none)};{o3};{bit e3};{o4}", ["nocookie"])
  pure { id := id, modelObs := modelObs, implObs := implObs, spec := spec, known := known, tags := "rff" :: (tags ++ scriptTags s) }

structure Step where
  status : Nat
  seen : String
  msgs : String
  exp : String

def parseStep (s : String) : Option Step :=
  match s.splitOn "/" with
  | [st, ck, ms, e] => st.toNat?.map fun n => ⟨n, ck, ms, e⟩
  | _ => none

def firstSome : List (Option String) → Option String
  | [] => none
  | some x :: _ => some x
  | none :: r => firstSome r

def handleDec (id : String) (cookies steps allocs : String) : Except String Verdict := do
  let some cks := hexList cookies | throw "outside-domain: cookies"
  if cks.any (fun c => c.contains 10 || c.contains 13) then throw "outside-domain: CR/LF inside a cookie value ends the header line"
  let stepObs := steps.splitOn "|"
  let allocObs := allocs.splitOn ","
  if stepObs.length ≠ cks.length ∨ allocObs.length ≠ cks.length then throw "outside-domain: step count"
  let some sts := stepObs.mapM parseStep | throw "outside-domain: step observation"
  let some als := allocObs.mapM (·.toNat?) | throw "outside-domain: alloc observation"
  -- model: thread the pooled slice through the requests
  let rec go : Slice → List Bytes → List Step → List String × List String
    | _, [], _ => ([], [])
    | _, _, [] => ([], [])
    | pool, ck :: cs, st :: ss =>
      if !ck.all validHeaderValueByte then
        let (o, t) := go pool cs ss
        ("400/none/nohandler/0" :: o, "rejected-by-server" :: t)
      else
        -- the value fiber's cookie scanner hands to the handler: the sent bytes when they pass the
        -- scanner unchanged, otherwise taken from the implementation (fasthttp is a parameter)
        let seen : Bytes := if transparentSafe ck then ck else ((fromHex st.seen).getD [])
        let r := parseAndClear pool seen
        let (o, t) := go r.slice.release cs ss
        let tag := if !transparentSafe ck then "seen-from-impl"
                   else if (parse seen).isNone then "malformed" else if r.messages = [] then "wellformed-empty" else "nt-decoded"
        (s!"200/{toHexField seen}/{renderObs [] r.messages}/{bit r.expire}" :: o, tag :: (collisionTags r.messages ++ t))
  let (mo, tags) := go Slice.empty cks sts
  let implObs := steps
  let spec := firstSome ((cks.zip (sts.zip als)).map fun (ck, st, al) =>
    specStep ck { status := st.status, seen := if st.seen == "none" then none else fromHex st.seen,
                  msgs := (splitSeen st.msgs).1, exp := st.exp == "1", alloc := al, keyed := (splitSeen st.msgs).2 })
  pure { id := id, modelObs := "|".intercalate mo, implObs := implObs, spec := spec, tags := "dec" :: tags.eraseDups }

def handleCase (f : List String) : Except String Verdict := do
  match f with
  | [id, "rtc", ks, vs, ls, oks, ovs, issued, c2, seen2, c3, seen3] =>
    handleRtc id (← parseScript ks vs ls oks ovs) issued c2 seen2 c3 seen3
  | [id, "rtt", ks, vs, ls, oks, ovs, issued, st2, seen2, exp2, st3, seen3] =>
    handleRtt id (← parseScript ks vs ls oks ovs) issued st2 seen2 exp2 st3 seen3
  | [id, "rtc", ks, vs, ls, oks, ovs, wi, issued, c2, seen2, c3, seen3] =>
    handleRtc id (← parseScript ks vs ls oks ovs (some wi)) issued c2 seen2 c3 seen3
  | [id, "rtt", ks, vs, ls, oks, ovs, wi, issued, st2, seen2, exp2, st3, seen3] =>
    handleRtt id (← parseScript ks vs ls oks ovs (some wi)) issued st2 seen2 exp2 st3 seen3
  | [id, "ish", ks, vs, ls, oks, ovs, wi, ends, obs] => handleIsh id [ks, vs, ls, oks, ovs, wi] ends obs
  | [id, "rff", ks, vs, ls, mode, issued, st2, seen2, issued2, exp2, st3, seen3, exp3, st4, seen4] =>
    let some m := parseMode mode | throw "outside-domain: relay mode"
    handleRff id (← parseScript ks vs ls "-" "-" (some "wi-")) m issued st2 seen2 issued2 exp2 st3 seen3 exp3 st4 seen4
  | [id, "dec", cookies, steps, allocs] => handleDec id cookies steps allocs
  | _ => throw s!"outside-domain: unrecognised case shape ({f.length} fields)"

def main : IO Unit := run handleCase
