import FiberModel.DriverUtil
import FiberModel.C05.Spec
import FiberModel.C05.Facts
import FiberModel.C05.Sched
import FiberModel.C05.Store
import FiberModel.C05.Known
/-
Driver for C05. Case fields (after the id):
  mode(0..4)  hist(`;`-separated requests or `-`)  probe  freshObs  fullDiff(`,`-list or `-`)  implObs
request := method|path|query|flash|bad|script|host
  query: `hexk=hexv,…` or `-`; flash: `n` or `c:<hex>`; bad: 0|1|2; script: `op:hexarg:…,…` or `-` (sf:<six config digits>:<request header 0|1|2>)
-/
open B DriverUtil C05

def parsePairs (s : String) : Option (List (Bytes × Bytes)) :=
  if s == "-" then some [] else
  (s.splitOn ",").mapM fun p =>
    match p.splitOn "=" with
    | [k, v] => do some (← fromHex k, ← fromHex v)
    | _ => none

def isWord (s : Bytes) : Bool := !s.isEmpty && s.length ≤ 24 && s.all fun c => isLower c || isDigit c

def parseAct (s : String) : Option Act :=
  match s.splitOn ":" with
  | ["vb", k, v] => do
    let k ← fromHex k; let v ← fromHex v
    if isWord k && isWord v then some (.vb k v) else none
  | ["lo", k, v] => do
    let k ← fromHex k; let v ← fromHex v
    if isWord k && isWord v then some (.lo k v) else none
  | ["wi", k, v, l] => do
    let k ← fromHex k; let v ← fromHex v; let l ← (← fromHex l) |> decToNat?
    if isWord k && isWord v && l ≤ 255 then some (.wi k v l) else none
  | ["in"] => some .inp
  | ["rs", n] => do
    let n ← (← fromHex n) |> decToNat?
    if [301, 302, 303, 307, 308].contains n then some (.rs n) else none
  | ["to", p] => do
    let p ← fromHex p
    if (classify p).isSome then some (.to p) else none
  | ["ba"] => some .ba
  | ["bq"] => some .bq
  | ["sh", k, v] => do
    let k ← fromHex k; let v ← fromHex v
    if (k == b "X-A" || k == b "X-B") && isWord v then some (.sh k v) else none
  | ["bu"] => some .bu
  | ["er", n] => do
    let n ← (← fromHex n) |> decToNat?
    if [400, 403, 404, 500, 503].contains n then some (.er n) else none
  | ["ob"] => some .ob
  | ["sf", code, hdr] => do
    let code ← fromHex code; let hdr ← (← fromHex hdr) |> decToNat?
    match code with
    | [f, c, r, d, k, m] =>
      let dig (x : Nat) (max : Nat) : Option Nat := if 48 ≤ x && x ≤ 48 + max then some (x - 48) else none
      let f ← dig f 2; let c ← dig c 1; let r ← dig r 1; let d ← dig d 1; let k ← dig k 2; let m ← dig m 2
      if hdr > 2 then none
      some (.sf { fs := f, compress := c == 1, byteRange := r == 1, download := d == 1, cacheDur := k,
                  maxAge := [0, 60, 3600].getD m 0 } hdr)
    | _ => none
  | _ => none

def parseReq (s : String) : Option Req :=
  match s.splitOn "|" with
  | [m, p, q, fl, bad, sc, host] => do
    let m ← fromHex m
    let p ← fromHex p
    let host ← fromHex host
    if host.isEmpty || host.length > 40 || !((splitOn host 46).all isWord) then none
    let q ← parsePairs q
    let fl ← if fl == "n" then some none
             else if fl.startsWith "c:" then (fromHex (fl.drop 2).toString).map some else none
    let bad ← bad.toNat?
    let sc ← if sc == "-" then some [] else (sc.splitOn ",").mapM parseAct
    -- domain guard: the modelled vocabulary
    if !([b "GET", b "POST", b "PUT", b "FOO"].contains m) then none
    if (classify p).isNone || bad > 3 then none
    if !(q.all fun kv => isWord kv.1 && isWord kv.2) then none
    -- `n` values the int binder sees: decimal words short enough not to overflow
    if !(q.all fun kv => kv.1 != b "n" || !allDigits kv.2 || kv.2.length ≤ 18) then none
    if (sc.filter (· == .ob)).length > 1 then none
    if (sc.filter fun a => match a with | .sf .. => true | _ => false).length > 1 then none
    some { method := m, path := p, host := host, query := q, flash := fl, bad := bad, script := sc }
  | _ => none

def hx (s : Bytes) : String := toHexField s

def fmtMsg (m : Msg) : String := s!"{hx m.key}.{hx m.value}.{m.level}.{if m.old then 1 else 0}"

def insertStr (s : String) : List String → List String
  | [] => [s]
  | x :: xs => if s < x then s :: x :: xs else x :: insertStr s xs

def sortStrs (l : List String) : List String := l.foldl (fun acc s => insertStr s acc) []

def listField (l : List String) : String := if l.isEmpty then "-" else ",".intercalate l

def renderObs (o : Obs) : String :=
  let r := o.resp
  let sc := match r.setFlash with
    | .none => "none"
    | .expire => "expire"
    | .msgs ms => "m:" ++ listField (sortStrs (ms.map fmtMsg))
  let xh := (if r.mw then [b "X-Mw=1"] else []) ++ (match r.xa with | some v => [b "X-A=" ++ v] | none => []) ++
            (match r.xb with | some v => [b "X-B=" ++ v] | none => [])
  let (ob, params, msgs, old, view, locals, base) := match o.seen with
    | some s => ("1", hexListField s.params, listField (s.msgs.map fmtMsg), listField (sortStrs (s.old.map fun (m : Msg) => fmtMsg { m with level := 0 })),
                 hexListField (s.view.flatMap fun (p : Bytes × Bytes) => [p.1, p.2]), hexListField s.locals, hx s.base)
    | none => ("0", "-", "-", "-", "-", "-", "-")
  s!"st={r.status};ct={hx r.ctype};loc={hx r.location};sc={sc};xh={hexListField xh};al={hx r.allow};" ++
  s!"cc={hx r.cacheControl};cd={hx r.disposition};ce={hx r.encoding};cr={hx r.contentRange};body={hx r.body};" ++
  s!"ob={ob};params={params};msgs={msgs};old={old};view={view};locals={locals};base={base}"

def facts : RFacts := theFacts

/-- one worker of the concurrent mix: serves `reqs` one after the other (ids `base`, `base+1`, …); every
    `Get` of worker `w` asks for pooled object number `w` (so the workers make different pool choices) -/
def workerEvents (base w : Nat) (reqs : List Req) : List Ev :=
  (reqs.zipIdx).flatMap fun (r, i) => soloEvents (base + i) r ⟨w, w⟩

/-- round-robin interleaving of the workers' steps -/
def roundRobin : Nat → List (List Ev) → List Ev
  | 0, _ => []
  | fuel + 1, ls =>
    let ls := ls.filter (!·.isEmpty)
    if ls.isEmpty then [] else ls.filterMap List.head? ++ roundRobin fuel (ls.map List.tail)

/-- mode 2: the model is the schedule semantics (`Sched.lean`) on a round-robin interleaving of four workers;
    every worker's probe must have observed the same -/
def mixObs (hs : List Req) (p : Req) : String :=
  let reqs := hs ++ [p]
  let ws := List.range 4
  let evss := ws.map fun w => workerEvents (1000 * (w + 1)) w reqs
  let evs := roundRobin ((evss.map List.length).foldl (· + ·) 0 + 1) evss
  -- the store-threaded schedule semantics (`Store.lean`): the four workers share one `App.sendfiles`
  let fin := (runSchedS facts CWorldS.empty (evs.map EvS.ev)).c
  let obs := ws.map fun w => match obsOf fin (1000 * (w + 1) + hs.length) with
    | some o => renderObs o
    | none => "noresponse"
  match obs with
  | o :: rest => if rest.all (· == o) then o else "schedule-dependent:" ++ ";;".intercalate obs
  | [] => "noresponse"

/-- the ops of a request's script, read off the case line (extended application: modes 5-7) -/
def opsOf (req : String) : Option (String × List String) :=
  match req.splitOn "|" with
  | [_, _, _, _, bad, sc, _] => some (bad, if sc == "-" then [] else (sc.splitOn ",").map fun a => (a.splitOn ":").headD "")
  | _ => none

/-- Modes 5-7: the extended application (recover middleware, catch-alls `/+` and `/*`, RestartRouting / Next /
    path override / panic / failing error handler, streamed bodies, HEAD, the response-side helpers). It is
    OUTSIDE the Lean model: no model observation is computed (`modelObs := implObs`, tag `outside-model`);
    the oracle - modelled vector, full vector and raw reply after the history vs on a fresh app - is the same
    as for every other case. The harness has validated the vocabulary (`invalid` otherwise). -/
def handleExt (id mode hist probe fresh diff impl : String) : Except String Verdict := do
  let hs ← if hist == "-" then pure [] else
    match (hist.splitOn ";").mapM opsOf with
    | some l => pure l
    | none => throw "outside-domain: history"
  if hs.length > 12 then throw "outside-domain: history too long"
  let some p := opsOf probe | throw "outside-domain: probe"
  if p.1 != "0" then throw "outside-domain: malformed probe"
  let diffs := if diff == "-" then [] else diff.splitOn ","
  let served := hs.filter (·.1 == "0")
  let feature (tag : String) (ops : List String) : List String :=
    (if served.any (fun r => r.2.any ops.contains) then [s!"hist-{tag}"] else []) ++
    (if p.2.any ops.contains then [s!"probe-{tag}"] else [])
  let tags := ["outside-model", "ext-app", s!"hist{min hs.length 8}",
      if mode == "5" then "ext-conn-per-request" else if mode == "6" then "ext-keepalive" else "ext-custom-ctx-keepalive"] ++
    feature "restart" ["rr"] ++ feature "next" ["nx"] ++ feature "path-override" ["pa"] ++ feature "panic" ["pn"] ++
    feature "errorhandler-fails" ["ee"] ++ feature "stream" ["ss", "su", "sw"] ++
    feature "resp-helpers" ["st", "ty", "ap", "va", "li", "fm", "ck", "js", "at", "lc"] ++
    (if !served.isEmpty then ["nt"] else [])
  -- known finding K1 (Known.lean): inside its region AND only the parameter entries differ
  let dropParams (o : String) : List String := (o.splitOn ";").filter fun f => !f.startsWith "params="
  let onlyParams := dropParams fresh == dropParams impl &&
    diffs.all fun d => d.startsWith "Params(" || d == "Bind.URI"
  let spec := specViolation fresh impl diffs
  let known := if spec.isSome && Known.K1 p.2 && onlyParams && !hs.isEmpty then some "K1" else none
  pure { id := id, modelObs := impl, implObs := impl, spec := spec, known := known, tags := tags }

def handleCase (f : List String) : Except String Verdict := do
  match f with
  | [id, mode, hist, probe, fresh, diff, impl] =>
    if impl == "invalid" then throw "outside-domain: request outside the structured vocabulary"
    if ["5", "6", "7"].contains mode then return ← handleExt id mode hist probe fresh diff impl
    if !(["0", "1", "2", "3", "4"].contains mode) then throw "outside-domain: mode"
    let hs ← if hist == "-" then pure [] else
      match (hist.splitOn ";").mapM parseReq with
      | some l => pure l
      | none => throw "outside-domain: history"
    if hs.length > 12 then throw "outside-domain: history too long"
    let some p := parseReq probe | throw "outside-domain: probe"
    if p.bad != 0 then throw "outside-domain: malformed probe"
    let diffs := if diff == "-" then [] else diff.splitOn ","
    -- model: one worker, so sync.Pool hands back the most recently released object
    let lifo : Pick := ⟨0, 0⟩
    let mo := if mode == "2" then mixObs hs p else
      -- store-threaded semantics (`Store.lean`): the probe's SendFile looks its configuration up among the
      -- entries the history's SendFile calls left in `App.sendfiles`
      match probeAfterS facts (hs.map fun r => (r, lifo)) p lifo with
      | some o => renderObs o
      | none => "noresponse"
    let served := hs.filter (·.bad == 0)
    let tags :=
      [s!"hist{min hs.length 8}", if mode == "1" then "keepalive" else if mode == "2" then "concurrent-mix"
        else if mode == "3" then "custom-ctx" else if mode == "4" then "custom-ctx-keepalive" else "conn-per-request"] ++
      (if p.flash.isSome then ["probe-flash"] else []) ++
      (if served.any (·.flash.isSome) then ["hist-flash"] else []) ++
      (if hs.any (·.bad != 0) then ["hist-malformed"] else []) ++
      (if served.any (fun r => r.script.any fun a => match a with | .wi .. | .inp | .rs _ => true | _ => false) then ["hist-redirect-state"] else []) ++
      (if served.any (fun r => r.script.any fun a => match a with | .vb .. | .lo .. | .ba | .bu => true | _ => false) then ["hist-ctx-state"] else []) ++
      (if served.any (fun r => r.script.any fun a => match a with | .sf .. => true | _ => false) then ["hist-sendfile"] else []) ++
      (if p.script.any (fun a => match a with | .sf .. => true | _ => false) then ["probe-sendfile"] else []) ++
      (if !served.isEmpty then ["nt"] else [])
    pure { id := id, modelObs := mo, implObs := impl, spec := specViolation fresh impl diffs, tags := tags }
  | _ => throw s!"outside-domain: expected 7 fields, got {f.length}"

def main : IO Unit := run handleCase
