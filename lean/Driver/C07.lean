import FiberModel.DriverUtil
import FiberModel.C07.Known
import FiberModel.C07.DriverCases
/-
Driver for C07. Case fields after the id: see harness/cmd/c07/main.go.
-/
open B DriverUtil C07

def splitObs (s : String) : List String := s.splitOn "|"

def parseReply (s : String) : Option Obs :=
  if s.startsWith "panic" then some .panic
  else if s == "noreply" then some .noreply
  else if s.startsWith "unparsable" then some .unparsable
  else
    match s.splitOn "|" with
    | st :: rest =>
      match st.toNat?, rest.getLast? with
      | some n, some bodyF =>
        if !bodyF.startsWith "body=" then none
        else
          let hs := rest.dropLast.mapM fun h =>
            match h.splitOn ":" with
            | [k, v] => (fromHex v).map fun v' => (b k, v')
            | _ => none
          match hs, fromHex ((bodyF.drop 5).toString) with
          | some hs, some body => some (.reply ⟨n, hs, body⟩)
          | _, _ => none
      | _, _ => none
    | [] => none

def parseInts (s : String) : Option (List Int) :=
  if s == "-" || s == "" then some [] else (s.splitOn ",").mapM (·.toInt?)

def printable (bs : Bytes) : Bool := bs.all fun c => c = 9 || c = 10 || c = 13 || (32 ≤ c && c ≠ 127 && c < 256)

def pairs : List Bytes → List (Bytes × Bytes)
  | k :: v :: rest => (k, v) :: pairs rest
  | _ => []

/-- decode helper + argument lists into a `Call`, rejecting everything outside the modelled domain -/
def parseCall (helper : String) (a : List Bytes) (n : List Int) : Except String Call := do
  if !a.all printable then throw "outside-domain: control byte (other than CR/LF/TAB) in an argument"
  match helper, a with
  | "set", [k, v] => if headerVocab.contains k then pure (.set k v) else throw "outside-domain: header name"
  | "append", f :: vs => if headerVocab.contains f then pure (.append f vs) else throw "outside-domain: header name"
  | "vary", fs => pure (.vary fs)
  | "location", [p] => pure (.location p)
  | "redirect", loc :: kv =>
    if kv.length % 2 ≠ 0 ∨ n.length ≠ kv.length / 2 then throw "outside-domain: redirect arity"
    else if n.any (fun l => l < 0 ∨ l > 255) then throw "outside-domain: level"
    else pure (.redirectTo loc ((pairs kv).zip n |>.map fun (kv, l) => (kv.1, kv.2, l.toNat)))
  | "cookie", [nm, v, p, d, ss] =>
    match n with
    | [ma, se, ho, pa, so] =>
      if !(pathInDomain p) then throw "outside-domain: cookie path"
      else if p ≠ [] ∧ p.head? ≠ some 47 then throw "outside-domain: cookie path"
      else pure (.cookie ⟨nm, v, p, d, ma, se == 1, ho == 1, pa == 1, so == 1, ss⟩)
    | _ => throw "outside-domain: cookie ints"
  | "clearcookie", keys =>
    if keys = [] ∨ keys.any (· = []) then throw "outside-domain: empty cookie name"
    else if (keys.map sanitize).eraseDups.length ≠ keys.length then throw "outside-domain: duplicate cookie names"
    else pure (.clearCookie keys)
  | "links", ls => pure (.links ls)
  | "attachment", [f] =>
    if f = [] ∨ f.contains 47 ∨ f.contains 92 ∨ f = b "." ∨ f = b ".." then throw "outside-domain: file name"
    else pure (.attachment f)
  | "type", [e, cs] => pure (.type e cs)
  | "format", [mt] => if mt = [] then throw "outside-domain: empty media type" else pure (.format mt)
  | "json", [ct] => if ct = [] then throw "outside-domain: empty content type" else pure (.json ct)
  | "jsonp", [cb] => pure (.jsonp cb)
  | _, _ => throw s!"outside-domain: helper {helper} / arity"

/-- optional whitespace around a field value is not part of it (the strict parser strips it) -/
def trimOWS (v : Bytes) : Bytes :=
  let f := fun (l : Bytes) => l.dropWhile fun c => c == 32 || c == 9
  (f (f v).reverse).reverse

def renderLines (ls : List (Bytes × Bytes)) : String :=
  let xs := sortB (ls.map fun (k, v) => k ++ [58] ++ trimOWS v)
  ",".intercalate (xs.map toHexField)

def renderResp (status : Nat) (lines : List (Bytes × Bytes)) (ct : Option Bytes) (body : Bytes) : String :=
  s!"{status};{renderLines lines};ct={match ct with | none => "*" | some v => toHexField (trimOWS v)};body={toHexField body}"

def canonReply (o : Obs) (ctModelled : Bool) (raw : String) : String :=
  match o with
  | .reply r =>
    let ls := r.headers.filter fun h => h.1 ≠ hDate ∧ h.1 ≠ hCT ∧ h.1 ≠ hCL
    let ct := if ctModelled then (r.headers.find? (·.1 = hCT)).map (·.2) else none
    renderResp r.status ls (if ctModelled then some (ct.getD []) else none) r.body
  | _ => (raw.take 40).toString

def callTag : Call → String
  | .set .. => "set" | .append .. => "append" | .vary .. => "vary" | .location .. => "location"
  | .redirectTo .. => "redirect" | .cookie .. => "cookie" | .clearCookie .. => "clearcookie" | .links .. => "links"
  | .attachment .. => "attachment" | .type .. => "type" | .format .. => "format" | .json .. => "json" | .jsonp .. => "jsonp"

def handleEmit (id helper args ints obs : String) : Except String Verdict := do
  let some a := hexList args | throw "outside-domain: args"
  let some n := parseInts ints | throw "outside-domain: ints"
  let call ← parseCall helper a n
  let some o := parseReply obs | throw "outside-domain: unreadable observation"
  let m := emit call
  let modelObs := renderResp m.status m.lines m.ctype m.body
  let implObs := canonReply o m.ctype.isSome obs
  let crlf := a.any fun x => x.contains 13 || x.contains 10
  let tags := ["emit", "emit-" ++ callTag call] ++ (if crlf then ["nt-emit-crlf"] else [])
  pure { id := id, modelObs := modelObs, implObs := implObs, spec := specEmit call o,
         known := if Known.K1 call then some "K1" else none, tags := tags }

def pRender (r : P String) : String :=
  match r with
  | .ok s => s
  | .error e => s!"panic({repr e})"

def intS (i : Int) : String := toString i

def handleRange (id hdr size obs : String) : Except String Verdict := do
  let some sz := size.toInt? | throw "outside-domain: size"
  if sz < 0 ∨ sz ≥ 4611686018427387904 then throw "outside-domain: size"
  let _ := hdr
  match splitObs obs with
  | [res, seen] =>
    let some h := fromHex seen | throw "outside-domain: seen header"
    let model : P String := (range h sz).map fun r =>
      match r with
      | .malformed => "err:malformed"
      | .unsatisfiable => "err:unsat"
      | .ok t rs => s!"ok:{toHexField t}:{",".intercalate (rs.map fun (a, e) => s!"{a}-{e}")}"
    -- the implementation's ranges, for the sanity clause of the spec
    let implRanges : List (Int × Int) :=
      match res.splitOn ":" with
      | ["ok", _, rs] => (rs.splitOn ",").filterMap fun x =>
          match x.splitOn "-" with
          | [a, e] => match a.toInt?, e.toInt? with | some a, some e => some (a, e) | _, _ => none
          | _ => none
      | _ => []
    let tag := if res.startsWith "ok" then "nt-range-ok" else if res == "err:unsat" then "range-unsat" else "range-malformed"
    pure { id := id, modelObs := pRender model, implObs := res, spec := specRange sz res implRanges, tags := ["range", tag] }
  | _ =>
    pure { id := id, modelObs := "?", implObs := obs, spec := specNoPanic obs, tags := ["range", "range-noparse"] }

def parseVerdicts (s : String) : Option (List (Bytes × Nat)) :=
  if s == "-" then some [] else (s.splitOn ",").mapM fun e =>
    match e.splitOn ":" with
    | [h, v] => do
      let k ← (if h == "_" then some [] else fromHexAux h.toList)
      let n ← v.toNat?
      pure (k, n)
    | _ => none

def handleIPs (id cfg hdr verdicts obs : String) : Except String Verdict := do
  let _ := hdr
  let some vt := parseVerdicts verdicts | throw "outside-domain: verdict table"
  match splitObs obs with
  | [res, seen] =>
    let some h := fromHex seen | throw "outside-domain: seen header"
    let look (bit : Nat) (s : Bytes) : Bool := match vt.find? (·.1 = s) with | some (_, v) => v / bit % 2 = 1 | none => false
    let cfgM : IPCfg := { validate := cfg == "v", isV4 := look 1, isV6 := look 2 }
    let ips := extractIPs cfgM h
    let ip : P Bytes := if cfg == "v" then (extractIP cfgM h).map fun l => l.headD (b "127.0.0.1") else .ok (b "127.0.0.1")
    let model : P String := do
      let l ← ips
      let one ← ip
      pure s!"ips={hexListField l};ip={toHexField one}"
    -- every candidate the model asked about must be in the verdict table (else the case is outside the tabulated domain)
    let asked : List Bytes := match extractIPs { cfgM with validate := false } h with | .ok l => l | .error _ => []
    if cfg == "v" ∧ asked.any (fun s => (vt.find? (·.1 = s)).isNone) then throw "outside-domain: segment without verdict"
    let n := match ips with | .ok l => l.length | .error _ => 0
    pure { id := id, modelObs := pRender model, implObs := res, spec := specNoPanic res,
           tags := ["ips", if cfg == "v" then "ips-validate" else "ips-plain"] ++ (if n > 0 then ["nt-ips"] else []) }
  | _ => pure { id := id, modelObs := "?", implObs := obs, spec := specNoPanic obs, tags := ["ips", "ips-noparse"] }

def handleSubd (id off obs : String) : Except String Verdict := do
  let some o := off.toNat? | throw "outside-domain: offset"
  match splitObs obs with
  | [host, res, hn] =>
    let some h := fromHex host | throw "outside-domain: host"
    let model : P String := do
      let l ← subdomains h o
      let (hname, _) ← parseAddr h
      pure s!"{hexListField l}|{toHexField hname}"
    pure { id := id, modelObs := pRender model, implObs := s!"{res}|{hn}", spec := specNoPanic obs, tags := ["subd", "nt-subd"] }
  | _ => pure { id := id, modelObs := "?", implObs := obs, spec := specNoPanic obs, tags := ["subd", "subd-noparse"] }

def handleFresh (id obs : String) : Except String Verdict := do
  match splitObs obs with
  | [cc, nm, et, res] =>
    let some cc := fromHex cc | throw "outside-domain: cc"
    let some nm := fromHex nm | throw "outside-domain: nm"
    let some et := fromHex et | throw "outside-domain: etag"
    let model : P String := (fresh cc nm et).map fun v => if v then "1" else "0"
    pure { id := id, modelObs := pRender model, implObs := res, spec := specNoPanic obs,
           tags := ["fresh"] ++ (if nm ≠ [] then ["nt-fresh"] else []) }
  | _ => pure { id := id, modelObs := "?", implObs := obs, spec := specNoPanic obs, tags := ["fresh", "fresh-noparse"] }

def handleEnc (id obs : String) : Except String Verdict := do
  match splitObs obs with
  | [seen, cls] =>
    let some ce := fromHex seen | throw "outside-domain: content-encoding"
    pure { id := id, modelObs := pRender (bodyClass ce), implObs := cls, spec := specNoPanic obs, tags := ["enc", "nt-enc"] }
  | _ => pure { id := id, modelObs := "?", implObs := obs, spec := specNoPanic obs, tags := ["enc", "enc-noparse"] }

def handleAcc (id offers obs : String) : Except String Verdict := do
  let some os := hexList offers | throw "outside-domain: offers"
  match splitObs obs with
  | [seen, res] =>
    let some h := fromHex seen | throw "outside-domain: header"
    -- parameters in Accept-Charset: the selection is C09's territory; the no-panic oracle still applies
    if h.contains 59 then
      return { id := id, modelObs := res, implObs := res, spec := specNoPanic obs, tags := ["acc", "outside-model"] }
    let model : P String := (acceptsCharsets h os).map toHexField
    pure { id := id, modelObs := pRender model, implObs := res, spec := specNoPanic obs,
           tags := ["acc"] ++ (if h.contains 34 then ["nt-acc-quoted"] else ["nt-acc"]) }
  | _ => pure { id := id, modelObs := "?", implObs := obs, spec := specNoPanic obs, tags := ["acc", "acc-noparse"] }

def handleOffer (id offer obs : String) : Except String Verdict := do
  let some of := fromHex offer | throw "outside-domain: offer"
  if of = [] ∨ of.contains 59 then throw "outside-domain: offer must be an extension or a MIME type"
  match splitObs obs with
  | [seen, res] =>
    let some h := fromHex seen | throw "outside-domain: header"
    -- several ranges / parameters: the selection is C09's territory; the no-panic oracle still applies
    if h.contains 59 ∨ h.contains 44 ∨ h.contains 34 then
      return { id := id, modelObs := res, implObs := res, spec := specNoPanic obs, tags := ["offer", "outside-model"] }
    let spec := trim h 32
    let mimetype := if of.contains 47 then of else (mimeOf of).getD (b "application/octet-stream")
    let model : P String :=
      if h = [] then .ok "1"
      else if spec = b "*/*" then .ok "1"
      else (acceptsOfferTypeSlices spec mimetype).map fun v => if v then "1" else "0"
    pure { id := id, modelObs := pRender model, implObs := res, spec := specNoPanic obs, tags := ["offer", "nt-offer"] }
  | _ => pure { id := id, modelObs := "?", implObs := obs, spec := specNoPanic obs, tags := ["offer", "offer-noparse"] }

def customMethods : List Bytes := [b "GET", b "BREW", b "POST", b "PROPFIND"]

def methodToken (m : Bytes) : Bool :=
  m ≠ [] && m.all fun c => isAlpha c || isDigit c || c = 45 || c = 95

def handleMethod (id cfg m obs : String) : Except String Verdict := do
  let some m := fromHex m | throw "outside-domain: method"
  if !methodToken m then throw "outside-domain: not a method token"
  let custom := if cfg == "m" then some customMethods else none
  let model := match unknownMethodStatus custom m with | some s => s | none => "200"
  let configured := if cfg == "m" then customMethods else defaultMethods
  pure { id := id, modelObs := model, implObs := obs, spec := specMethod configured m obs,
         tags := ["method", if configured.contains m then "method-known" else "nt-method-unknown"] }

def errOfLabel (s : String) : Option ServerErr :=
  [ServerErr.smallBuffer, .netTimeout, .netOther, .bodyTooLarge, .getOnly, .textTimeout, .other].find? (·.label == s)

def handleSrvErr (id cls obs : String) : Except String Verdict := do
  let some e := errOfLabel cls | throw "outside-domain: error class"
  pure { id := id, modelObs := serverErrorStatus e, implObs := obs, spec := specSrvErr cls obs, tags := ["srverr", "nt-srverr-" ++ cls] }

def handleWire (id req obs alloc : String) : Except String Verdict := do
  let some r := fromHex req | throw "outside-domain: request"
  let some al := alloc.toNat? | throw "outside-domain: alloc"
  -- validation run (not proof): no model of fasthttp's request parser; the oracles are in the spec
  let lo := toLower r
  let has (s : String) : Bool := (indexOf lo (b s)).isSome
  let crlfs := (r.zip (r.drop 1)).countP fun (x, y) => x = 13 ∧ y = 10
  let shape :=
    (if has "transfer-encoding" then ["wire-chunked"] else []) ++ (if has "expect:" then ["wire-expect"] else []) ++
    (if has "multipart/" then ["wire-multipart"] else []) ++ (if crlfs > 50 then ["wire-manyhdr"] else []) ++
    (if (splitOn r 10).countP (fun l => hasSuffix l (b " HTTP/1.1\r")) > 1 then ["wire-pipelined"] else []) ++
    (if obs.startsWith "ok:100" then ["wire-100-continue"] else [])
  pure { id := id, modelObs := obs, implObs := obs, spec := specWire r obs al,
         tags := ["wire", if obs.startsWith "ok" then "wire-answered" else "wire-" ++ (obs.take 7).toString] ++ shape }

def handleCase (f : List String) : Except String Verdict := do
  if let some r := C07.Cases.handle f then return ← r
  match f with
  | [id, "emit", _, helper, args, ints, obs] => handleEmit id helper args ints obs
  | [id, "range", _, hdr, size, obs] => handleRange id hdr size obs
  | [id, "ips", cfg, hdr, verdicts, obs] => handleIPs id cfg hdr verdicts obs
  | [id, "subd", _, _, off, obs] => handleSubd id off obs
  | [id, "fresh", _, _, _, _, obs] => handleFresh id obs
  | [id, "enc", _, _, obs] => handleEnc id obs
  | [id, "acc", _, _, offers, obs] => handleAcc id offers obs
  | [id, "offer", _, _, offer, obs] => handleOffer id offer obs
  | [id, "method", cfg, m, obs] => handleMethod id cfg m obs
  | [id, "srverr", _, cls, _, obs] => handleSrvErr id cls obs
  | [id, "wire", _, req, obs, alloc] => handleWire id req obs alloc
  | _ => throw s!"outside-domain: unrecognised case shape ({f.length} fields)"

def main : IO Unit := run handleCase
