import FiberModel.DriverUtil
import FiberModel.C01.Spec
import FiberModel.C01.Known
import FiberModel.Generated.C01Facts
/-
Driver for C01. Case fields (after the id):  cfg  regs  paths  method  obs
(see harness/cmd/c01/main.go for the grammar). The single-route decisions `mb` shipped in the
observation instantiate `Env.M`; everything else (normalisation, tree key, index, cursor, merge,
404/405/Allow) is computed by the model. The spec oracle evaluates `linear` with the same decisions
and compares it with what the real dispatcher did.
-/
open B DriverUtil C01

/-- `DefaultMethods` and `maxDetectionPaths` as re-extracted from /repo by translator/c01 -/
def defaultMethods : List String := C01.Facts.methods

def maxDet : Nat := C01.Facts.maxDetectionPaths

/-- helpers.go `methodInt`: the index in `Config.RequestMethods` (`names` is the configured list, the
default methods when none is configured — there the fast switch returns the same index, `facts_methodInt`) -/
def methodInt (names : List String) (s : String) : Option Nat := names.idxOf? s

/-- a method name of the harness' alphabet -/
def validName (s : String) : Bool := !s.isEmpty && s.length ≤ 12 && s.toList.all fun c => 'A' ≤ c && c ≤ 'Z'

def dotHex (s : String) : Option (List Bytes) :=
  if s == "-" then some []
  else (s.splitOn ".").mapM fun e => if e == "_" then some [] else fromHexAux e.toList

def hexDot (l : List Bytes) : String :=
  if l.isEmpty then "-" else ".".intercalate (l.map fun e => if e.isEmpty then "_" else toHex e)

def parseScript (names : List String) (npaths : Nat) (s : String) : Option (Script Nat) :=
  match s.toList with
  | ['n'] => some .next
  | ['s'] => some .stop
  | 'f' :: r => (String.ofList r).toNat?.bind fun c => if 400 ≤ c ∧ c ≤ 599 then some (.fail c) else none
  | 'p' :: r => (String.ofList r).toNat?.bind fun i => if 1 ≤ i ∧ i < npaths then some (.setPath i) else none
  | 'm' :: r =>
    -- ctx.go `Method(override)`: a name outside `RequestMethods` overrides nothing
    match methodInt names (String.ofList r) with
    | some i => some (.setMethod i)
    | none => if validName (String.ofList r) then some .next else none
  | _ => none

def parseHandler (names : List String) (npaths : Nat) (s : String) : Option (Handler Nat) :=
  match s.splitOn "~" with
  | [h, sc] => do
    let hid ← h.toNat?
    let sc ← parseScript names npaths sc
    pure { hid := hid, script := sc }
  | _ => none

structure RegIn where
  kind : String
  reg : Reg Nat


def parseReg (names : List String) (cfg : Cfg) (npaths : Nat) (s : String) : Option RegIn :=
  match s.splitOn ":" with
  | [k, ms, ch, p, hs] => do
    let chain ← dotHex ch
    let path ← fromHex p
    let handlers ← (hs.splitOn ".").mapM (parseHandler names npaths)
    if handlers.isEmpty then none
    let methods ← (if k == "A" || (k == "R" && ms != "-") then
                     (if ms == "-" then none else (ms.splitOn ".").mapM (methodInt names))
                   else if ms == "-" then some (List.range names.length) else none)
    if methods.isEmpty || methods.eraseDups.length != methods.length then none
    let joined ← (match k with
      | "G" | "R" => if chain.isEmpty then none else some (groupPrefix chain)
      | "U" | "A" | "L" => some (if chain.isEmpty then path else getGroupPath (groupPrefix chain) path)
      | _ => none)
    let raw := rawPath joined
    -- register.go: `Registering.All` registers with methodUse
    let use := k == "U" || k == "G" || (k == "R" && ms == "-")
    pure { kind := k, reg := { methods := methods, use := use, raw := raw,
                               key := treeKey maxDet (prettyPath cfg raw), handlers := handlers,
                               eo := joined.isEmpty } }
  | _ => none

def parseCfg0 (s : String) : Option (Cfg × Bool) :=
  match s.toList with
  | ['c', a, 's', b, 'u', c, 'x', d] =>
    if [a, b, c, d].all (fun x => x == '0' || x == '1') then
      some ({ caseSensitive := a == '1', strict := b == '1', unescape := c == '1' }, d == '1')
    else none
  | _ => none

/-- `c…s…u…x…` optionally followed by `@M1.M2…` = `Config.RequestMethods` -/
def parseCfg (s : String) : Option (Cfg × Bool × List String) :=
  match s.splitOn "@" with
  | [c] => (parseCfg0 c).map fun x => (x.1, x.2, defaultMethods)
  | [c, ms] =>
    let names := ms.splitOn "."
    if names.all validName && names.eraseDups.length == names.length then
      (parseCfg0 c).map fun x => (x.1, x.2, names)
    else none
  | _ => none

structure ObsIn where
  t : String
  s : String
  a : String
  ps : String
  ph : String
  rp : String
  tr : String
  mb : List (List Bool)
  ab : List (List Bool)
  mbRaw : String

def parseBits (s : String) : List (List Bool) := (s.splitOn ".").map fun r => r.toList.map (· == '1')

def parseObs (s : String) : Option ObsIn := do
  let kv := (s.splitOn ";").filterMap fun p => match p.splitOn "=" with
    | [k, v] => some (k, v) | _ => none
  let get (k : String) : Option String := (kv.find? (·.1 == k)).map (·.2)
  pure { t := ← get "t", s := ← get "s", a := ← get "a", ps := ← get "ps", ph := ← get "ph", rp := ← get "rp", tr := ← get "tr",
         mb := parseBits (← get "mb"), ab := parseBits (← get "ab"), mbRaw := ← get "mb" }

def pathOK (p : Bytes) : Bool :=
  p.head? == some 47 && !(p.take 2 == [47, 47]) && p.all fun c => c > 32 && c != 63 && c != 35 && c < 127

def renderTrace (t : List Nat) : String :=
  if t.isEmpty then "-" else ".".intercalate (t.map toString)

def renderEnd (methodNames : List String) (e : End) : String × String :=
  match e with
  | .stop => ("200", "-")
  | .fail c => (toString c, "-")
  | .notFound => ("404", "-")
  | .notAllowed al =>
    let names := (al.map fun i => methodNames.getD i "?").toArray.qsort (· < ·) |>.toList
    ("405", ".".intercalate names)
  | .outOfFuel => ("loop", "-")

def renderTree (t : List (Nat × List (Route Nat))) : String :=
  let sorted := t.toArray.qsort (fun a b => a.1 < b.1) |>.toList
  if sorted.isEmpty then "-"
  else "/".intercalate (sorted.map fun (k, rs) => s!"{k}:{".".intercalate (rs.map fun r => toString r.pos)}")

def renderBits (b : List (List Bool)) : String :=
  ".".intercalate (b.map fun r => String.ofList (r.map fun x => if x then '1' else '0'))


/-! ### histories: several requests, run-time registrations and rebuilds on one app -/

inductive HOp where
  | req (method : String) (path : Bytes)
  | reg (r : RegIn)
  | rebuild

def parseOp (names : List String) (cfg : Cfg) (npaths : Nat) (s : String) : Option HOp :=
  if s == "B" then some .rebuild
  else if s.startsWith "Q=" then
    match (String.ofList (s.toList.drop 2)).splitOn "=" with
    | [m, p] => do
      let path ← fromHex p
      if validName m && pathOK path then some (.req m path) else none
    | _ => none
  else if s.startsWith "R=" then (parseReg names cfg npaths (String.ofList (s.toList.drop 2))).map .reg
  else none

/-- scripts of a history: no path overrides (there are no override targets) -/
def noSetPath (g : Reg Nat) : Bool :=
  g.handlers.all fun h => match h.script with | .setPath _ => false | _ => true

/-- One history. The real dispatcher serves what `buildTree` saw last (startup or `RebuildTree()`): a
request is judged against the registrations made up to the last rebuild — model and specification
are the single-request ones on that prefix of the registration list; nothing else of the history
(earlier requests, the pooled context, later registrations) may matter. -/
def handleHistory (id cfgS regsS opsS implObs : String) : Except String Verdict := do
  let some (cfg, _custom, methodNames) := parseCfg cfgS | throw "outside-domain: cfg"
  if regsS.isEmpty || regsS == "-" then throw "outside-domain: empty table"
  let opStrs := opsS.splitOn "|"
  let nq := opStrs.countP (·.startsWith "Q=")
  if nq == 0 then throw "outside-domain: history without request"
  let some regs0 := (regsS.splitOn ";").mapM (parseReg methodNames cfg (nq + 1)) | throw "outside-domain: regs"
  let some ops := opStrs.mapM (parseOp methodNames cfg (nq + 1)) | throw "outside-domain: ops"
  if implObs == "panic" then throw "outside-domain: harness reported a panic"
  let kv := (implObs.splitOn ";").filterMap fun p => match p.splitOn "=" with
    | [k, v] => some (k, v) | _ => none
  let get (k : String) : Option String := (kv.find? (·.1 == k)).map (·.2)
  let some rS := get "r" | throw "unparsable observation"
  let some rpS := get "rp" | throw "unparsable observation"
  let some mbS := get "mb" | throw "unparsable observation"
  let results := rS.splitOn "/"
  if results.length != nq then throw "observation: result count"
  let regsAll : List (Reg Nat) := regs0.map (·.reg) ++ ops.filterMap fun o => match o with | .reg r => some r.reg | _ => none
  if !(regsAll.all noSetPath) then throw "outside-domain: path override in a history"
  -- run-time registrations must not merge into an existing route (they would be served before the rebuild)
  let rawsOK := (List.range regsAll.length).all fun i =>
    i < regs0.length || !((regsAll.take i).any fun g => some g.raw == (regsAll[i]?).map (·.raw))
  if !rawsOK then throw "outside-domain: run-time registration repeats a path"
  let some realRaw := dotHex rpS | throw "observation: rp"
  if realRaw.length != regsAll.length then throw "observation: rp length"
  let mb := parseBits mbS
  if mb.length != regsAll.length || !(mb.all (·.length == nq)) then throw "observation: bit matrix shape"
  let regsSpecAll : List (Reg Nat) := (regsAll.zip realRaw).map fun x => { x.1 with raw := x.2 }
  let rows := regsSpecAll.zip mb
  let M (raw : Bytes) (use : Bool) (p : Nat) : Bool :=
    match rows.find? (fun x => x.1.raw == raw && x.1.use == use) with
    | some x => x.2.getD p false
    | none => false
  let consistent := rows.all fun x => rows.all fun y => !(x.1.raw == y.1.raw && x.1.use == y.1.use) || x.2 == y.2
  let reqPaths : List Bytes := ops.filterMap fun o => match o with | .req _ p => some p | _ => none
  let pathBytes (i : Nat) : Bytes := ctxPath cfg (reqPaths.getD i [])
  let E : Env Nat Nat :=
    { M := M
      pkey := fun p => pathHash maxDet (detectionPath cfg (pathBytes p))
      setp := fun _ _ => none
      nMethods := methodNames.length }
  -- walk the history
  let step (st : Nat × Nat × Nat × List String × Option String × Option String × List String) (o : HOp) :=
    let (nreg, visible, qi, outs, spec, known, tags) := st
    match o with
    | .reg _ => (nreg + 1, visible, qi, outs, spec, known, tags)
    | .rebuild => (nreg, nreg, qi, outs, spec, known, if visible < nreg then "rebuild-new" :: tags else tags)
    | .req methodS _ =>
      let regs := regsAll.take visible
      let regsSpec := regsSpecAll.take visible
      let impl := results.getD qi ""
      match methodInt methodNames methodS with
      | none =>
        let out := "-,501,-"
        (nreg, visible, qi + 1, outs ++ [out],
          (if spec.isNone && impl != out then some s!"history-request {qi} want {out}" else spec), known, tags)
      | some m =>
        let S := build true regs
        let mo := match dispatchS E S false 4000 m qi with
          | .ok ob => ob
          | .error _ => { trace := [], fin := .outOfFuel }
        let looped := mo.fin == .outOfFuel || mo.trace.length ≥ 1000
        let (ms, ma) := renderEnd methodNames mo.fin
        let out := if looped then "loop,loop,-" else s!"{renderTrace mo.trace},{ms},{ma}"
        let want := linear E regsSpec m qi
        let (ws, wa) := renderEnd methodNames want.fin
        let wantS := s!"{renderTrace want.trace},{ws},{wa}"
        let bad := impl != wantS
        let k : Option String :=
          if Known.K1 E regs m qi then some "K1" else if Known.K2 E regs m qi then some "K2" else none
        let tags := (if visible < nreg then "pending-reg" :: tags else tags)
        let tags := if !want.trace.isEmpty then "ran" :: tags else tags
        if spec.isNone && bad then
          (nreg, visible, qi + 1, outs ++ [out], some s!"first-match history-request {qi} want {wantS}", k, tags)
        else (nreg, visible, qi + 1, outs ++ [out], spec, known, tags)
  let (_, _, _, outs, spec, known, tags) :=
    ops.foldl step (regs0.length, regs0.length, 0, [], none, none, [])
  let spec := if !consistent then some "match-depends-on-context" else spec
  let modelObs := s!"r={"/".intercalate outs};rp={hexDot (regsAll.map (·.raw))};mb={mbS}"
  let tags := (["history", "nt-history"] ++ tags.eraseDups ++
    (if methodNames != defaultMethods then ["custom-methods"] else []))
  pure { id := id, modelObs := modelObs, implObs := implObs, spec := spec, known := known, tags := tags }

def handleCase (f : List String) : Except String Verdict := do
  match f with
  | [id, cfgS, regsS, opsS, implObs] => handleHistory id cfgS regsS opsS implObs
  | [id, cfgS, regsS, pathsS, methodS, implObs] =>
    let some (cfg, _custom, methodNames) := parseCfg cfgS | throw "outside-domain: cfg"
    let some paths := hexList pathsS | throw "outside-domain: paths"
    if paths.isEmpty then throw "outside-domain: no request path"
    if !(paths.all pathOK) then throw "outside-domain: path outside the harness' request alphabet"
    if !validName methodS then throw "outside-domain: method"
    -- a method outside `RequestMethods` is answered 501 before routing; slot 0 stands in for the unused `m`
    let mOpt := methodInt methodNames methodS
    let m := mOpt.getD 0
    if regsS.isEmpty || regsS == "-" then throw "outside-domain: empty table"
    let some regsIn := (regsS.splitOn ";").mapM (parseReg methodNames cfg paths.length) | throw "outside-domain: regs"
    let regs := regsIn.map (·.reg)
    if implObs == "panic" then throw "outside-domain: harness reported a panic"
    let some o := parseObs implObs | throw "unparsable observation"
    let np := paths.length
    if o.mb.length != regs.length || o.ab.length != regs.length ||
        !(o.mb.all (·.length == np)) || !(o.ab.all (·.length == np)) then
      throw "observation: bit matrix shape"
    let pathBytes (i : Nat) : Bytes := ctxPath cfg (paths.getD i [])
    -- the real Route.Path of every registration (public field): the spec oracle and the matcher table are
    -- keyed by it, the model by its own `rawPath`/`getGroupPath`; a difference shows as M=DIFF
    let some realRaw := dotHex o.rp | throw "observation: rp"
    if realRaw.length != regs.length then throw "observation: rp length"
    let regsSpec : List (Reg Nat) := (regs.zip realRaw).map fun x => { x.1 with raw := x.2 }
    -- single-route decisions of the real matcher, keyed by (Route.Path, use)
    let rows := regsSpec.zip o.mb
    let M (raw : Bytes) (use : Bool) (p : Nat) : Bool :=
      match rows.find? (fun x => x.1.raw == raw && x.1.use == use) with
      | some x => x.2.getD p false
      | none => false
    let E : Env Nat Nat :=
      { M := M
        pkey := fun p => pathHash maxDet (detectionPath cfg (pathBytes p))
        setp := fun cur o => if pathBytes cur == paths.getD o [] then none else some o
        nMethods := methodNames.length }
    -- the matcher must be a function of (Route.Path, use, path): identical registrations agree
    let consistent := rows.all fun x => rows.all fun y =>
      !(x.1.raw == y.1.raw && x.1.use == y.1.use) || x.2 == y.2
    -- model
    let S := build true regs
    let fuel := 4000
    let mo := match dispatchS E S false fuel m 0 with
      | .ok ob => ob
      | .error _ => { trace := [], fin := .outOfFuel }
    let looped := mo.fin == .outOfFuel || mo.trace.length ≥ 1000
    let (ms, ma) := renderEnd methodNames mo.fin
    let modelAb := regs.map fun g =>
      let g1 : Reg Nat := { g with handlers := [{ hid := 1, script := .stop }] }
      let S1 := build true [g1]
      (List.range np).map fun j =>
        match dispatchS E S1 false 8 (g.methods.headD 0) j with
        | .ok ob => !ob.trace.isEmpty
        | .error _ => false
    let modelPs := hexDot ((List.range np).map pathBytes)
    let modelPh := ".".intercalate ((List.range np).map fun j => toString (E.pkey j))
    let unlisted := mOpt.isNone
    let modelObs :=
      if unlisted then s!"t=-;s=501;a=-;ps={modelPs};ph={modelPh};rp={hexDot (regs.map (·.raw))};tr=-;mb={o.mbRaw};ab={renderBits modelAb}"
      else if looped then s!"t=loop;s=loop;a=-;ps={modelPs};ph={modelPh};rp={hexDot (regs.map (·.raw))};tr={renderTree (S.tree m)};mb={o.mbRaw};ab={renderBits modelAb}"
      else s!"t={renderTrace mo.trace};s={ms};a={ma};ps={modelPs};ph={modelPh};rp={hexDot (regs.map (·.raw))};tr={renderTree (S.tree m)};mb={o.mbRaw};ab={renderBits modelAb}"
    -- spec oracle on the implementation's observation
    let want := linear E regsSpec m 0
    -- "a method outside Config.RequestMethods is not routed": 501, no handler
    let (ws, wa) := if unlisted then ("501", "-") else renderEnd methodNames want.fin
    let wantT := if unlisted then "-" else renderTrace want.trace
    let aloneBad : Option String :=
      ((List.range regs.length).flatMap fun i => (List.range np).map fun j => (i, j)).findSome? fun (i, j) =>
        if (o.ab.getD i []).getD j false != (o.mb.getD i []).getD j false then
          some s!"alone-match reg={i} path={j} alone={(o.ab.getD i []).getD j false} match={(o.mb.getD i []).getD j false}"
        else none
    let spec : Option String :=
      if !consistent then some "match-depends-on-context"
      else if o.t == "loop" then some s!"terminates want t={wantT} s={ws}"
      else if o.t != wantT then some s!"first-match want t={wantT} s={ws}"
      else if o.s != ws then some s!"status want s={ws}"
      else if o.a != wa then some s!"allow want a={wa}"
      else aloneBad
    -- known-finding regions: the instrumented run reaches the recorded situation AND the model of the
    -- unchanged code itself deviates from the property on this input (Known.lean)
    let reach : Option String := if unlisted then none else match dispatchS E S true fuel m 0 with
      | .error .k1 => some "K1"
      | .error .k2 => some "K2"
      | .ok _ => none
    let known : Option String :=
      if unlisted then none
      else if Known.K1 E regs m 0 then some "K1" else if Known.K2 E regs m 0 then some "K2" else none
    -- tags
    let nmatch := (regs.zip o.mb).countP fun x => x.1.methods.contains m && x.2.headD false
    let det := detectionPath cfg (pathBytes 0)
    let cand := candidates E S m 0
    let allH := (List.range methodNames.length).flatMap fun i => (S.stack i).flatMap (·.handlers)
    let tags : List String :=
      [s!"s{ws}"] ++
      (if methodNames != defaultMethods then ["custom-methods"] else []) ++
      (if nmatch ≥ 2 then ["nt-multi"] else []) ++
      (if cand.length < (S.stack m).length then ["nt-index-prunes"] else []) ++
      (if det.length < maxDet then ["short-path"] else []) ++
      (if (S.stack m).any (fun r => r.handlers.any (·.seam)) then ["merged"] else []) ++
      (if regs.any (fun g => g.handlers.any fun h => match h.script with | .setPath _ => true | _ => false)
        then ["has-setpath"] else []) ++
      (if regs.any (fun g => g.handlers.any fun h => match h.script with | .setMethod _ => true | _ => false)
        then ["has-setmethod"] else []) ++
      (if ws == "405" then ["nt-405"] else []) ++
      (if !want.trace.isEmpty then ["ran"] else ["empty-trace"]) ++
      (let ran := allH.filter fun h => mo.trace.contains h.hid
       (if ran.any (fun h => match h.script with | .setPath _ => true | _ => false) then ["nt-setpath-run"] else []) ++
       (if ran.any (fun h => match h.script with | .setMethod _ => true | _ => false) then ["setmethod-run"] else []) ++
       (if ran.any (·.seam) then ["nt-merged-run"] else [])) ++
      (if looped then ["loop"] else []) ++
      (match reach with | some k => [s!"reach-{k}"] | none => []) ++
      (match known with | some k => [s!"region-{k}"] | none => [])
    pure { id := id, modelObs := modelObs, implObs := implObs, spec := spec, known := known, tags := tags }
  | _ => throw s!"outside-domain: expected 6 fields, got {f.length}"

def main : IO Unit := run handleCase
