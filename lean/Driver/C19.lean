import FiberModel.DriverUtil
import FiberModel.C19.Spec
import FiberModel.Generated.C19Facts
/-
Driver for C19. Case fields (after the id):
  allowOrigins(hexlist) funcSet(0/1) funcAllows(hexlist) allowMethods allowHeaders expose(hexlists)
  maxAge(int) credentials(0/1) privateNetwork(0/1)
  method origin acrMethod acrHeaders acrPrivate (hex) skip(0/1)   implObs
-/
open B DriverUtil C19

def optHex : Option Bytes → String
  | none => "none"
  | some v => toHexField v

def bytesLe : Bytes → Bytes → Bool
  | [], _ => true
  | _ :: _, [] => false
  | x :: xs, y :: ys => x < y || (x == y && bytesLe xs ys)

/-- Vary is compared as a sorted set: the property only speaks about membership. -/
def canonVary (v : List Bytes) : List Bytes := (v.mergeSort bytesLe).eraseDups

def renderResp (r : Response) : String :=
  s!"next={if r.next then 1 else 0};s204={if r.status204 then 1 else 0};acao={optHex r.acao};" ++
  s!"acac={if r.acac then 1 else 0};vary={hexListField (canonVary r.vary)};am={optHex r.allowMethods};" ++
  s!"ah={optHex r.allowHeaders};ma={optHex r.maxAge};ex={optHex r.expose};pn={if r.privateNet then 1 else 0}"

def parseOpt (s : String) : Option (Option Bytes) :=
  if s == "none" then some none else (fromHex s).map some

def parseResp (s : String) : Option Response := do
  let kv := (s.splitOn ";").filterMap fun p => match p.splitOn "=" with
    | [k, v] => some (k, v) | _ => none
  let get (k : String) : Option String := (kv.find? (·.1 == k)).map (·.2)
  let flag (k : String) : Option Bool := (get k).map (· == "1")
  some { next := ← flag "next", status204 := ← flag "s204", acao := ← (get "acao").bind parseOpt,
         acac := ← flag "acac", vary := ← (get "vary").bind hexList,
         allowMethods := ← (get "am").bind parseOpt, allowHeaders := ← (get "ah").bind parseOpt,
         maxAge := ← (get "ma").bind parseOpt, expose := ← (get "ex").bind parseOpt,
         privateNet := ← flag "pn" }

/-- `ConfigDefault.AllowMethods`, regenerated from /repo on every run. -/
def defaultMethods : List Bytes := C19.Facts.defaultAllowMethods

def handleCase (f : List String) : Except String Verdict := do
  match f with
  | [id, ao, fs, fa, am, ah, ex, ma, cr, pn, me, og, acrm, acrh, acrpn, sk, impl] =>
    let some ao := hexList ao | throw "allowOrigins"
    let some fa := hexList fa | throw "funcAllows"
    let some am := hexList am | throw "allowMethods"
    let some ah := hexList ah | throw "allowHeaders"
    let some ex := hexList ex | throw "expose"
    let some ma := ma.toInt? | throw "maxAge"
    let some me := fromHex me | throw "method"
    -- domain guard (keeps the shrinker inside the modelled domain): fiber answers unknown methods
    -- with 501 before any middleware runs
    if !([b "GET", b "POST", b "OPTIONS", b "DELETE", b "PUT", b "HEAD", b "PATCH"].contains me) then
      throw "outside-domain: method"
    let some og := fromHex og | throw "origin"
    let some acrm := fromHex acrm | throw "acrm"
    let some acrh := fromHex acrh | throw "acrh"
    let some acrpn := fromHex acrpn | throw "acrpn"
    let cfg : Config := { allowOrigins := ao, allowFunc := if fs == "1" then some (fun o => fa.contains o) else none,
                          allowMethods := am, allowHeaders := ah, exposeHeaders := ex, maxAge := ma,
                          credentials := cr == "1", privateNetwork := pn == "1" }
    let q : Request := { method := me, origin := og, acrMethod := acrm, acrHeaders := acrh, acrPrivate := acrpn, skip := sk == "1" }
    match build cfg defaultMethods with
    | none =>
      -- the constructor refuses the configuration; nothing is served, the property is silent.
      -- If the implementation served anyway, still judge what it served.
      let cfgd := if cfg.allowMethods.isEmpty then { cfg with allowMethods := defaultMethods } else cfg
      let spec : Option String :=
        if impl == "panic" then none
        else match buildLax cfgd, parseResp impl with
          | some bt, some ri => specViolation bt q ri
          | _, _ => none
      pure { id := id, modelObs := "panic", implObs := impl, spec := spec, tags := ["panic"] }
    | some bt =>
      let r := handle bt q
      let spec : Option String :=
        if impl == "panic" then none
        else match parseResp impl with
          | none => some "unparsable-observation"
          | some ri => specViolation bt q ri
      let o := toLower og
      let branch := if q.skip then "skipped" else if o = [] then "noorigin" else if me = OPTIONS ∧ acrm = [] then "options-nonpreflight"
                    else if me ≠ OPTIONS then "simple" else "preflight"
      let dec := if o = [] then "na" else if bt.allowAll then "all" else if permitted bt o then "allowed" else "denied"
      let nt := if o ≠ [] && !bt.allowAll && !q.skip then ["nt"] else []
      pure { id := id, modelObs := renderResp r, implObs := impl, spec := spec, tags := [branch, dec] ++ nt }
  | _ => throw s!"expected 17 fields, got {f.length}"

def main : IO Unit := run handleCase
