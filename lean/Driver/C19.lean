import FiberModel.DriverUtil
import FiberModel.C19.Spec
import FiberModel.Generated.C19Facts
/-
Driver for C19. Case fields (after the id):
  allowOrigins(hexlist) nextSet(0/1) funcSet(0/1) funcAllows(hexlist) funcPanics(hexlist)
  allowMethods allowHeaders expose(hexlists) maxAge(int) credentials(0/1) privateNetwork(0/1)
  method origin acrMethod acrHeaders acrPrivate (hex) skip(0/1) priorVary(hex) afterVary(hexlist)
  history (`-` or `;`-joined `method:origin:acrm:acrh:acrpn:skip:priorVary:afterVary(+-joined)`, hex):
    the requests served before this one on the same app and the same reused request context
  urlFacts (`hex(arg)=err|scheme|host|path|rawquery|fragment` joined by `;`, from the real net/url)
  implObs
-/
open B DriverUtil C19

def optHex : Option Bytes → String
  | none => "none"
  | some v => toHexField v

def renderResp (r : Response) : String :=
  if r.panicked then "reqpanic" else
  s!"next={if r.next then 1 else 0};s204={if r.status204 then 1 else 0};acao={optHex r.acao};" ++
  s!"acac={if r.acac then 1 else 0};vary={toHexField r.vary};am={optHex r.allowMethods};" ++
  s!"ah={optHex r.allowHeaders};ma={optHex r.maxAge};ex={optHex r.expose};pn={if r.privateNet then 1 else 0}"

def parseOpt (s : String) : Option (Option Bytes) :=
  if s == "none" then some none else (fromHex s).map some

def parseResp (s : String) : Option Response :=
  if s == "reqpanic" then some { next := false, status204 := false, panicked := true } else do
  let kv := (s.splitOn ";").filterMap fun p => match p.splitOn "=" with
    | [k, v] => some (k, v) | _ => none
  let get (k : String) : Option String := (kv.find? (·.1 == k)).map (·.2)
  let flag (k : String) : Option Bool := (get k).map (· == "1")
  some { next := ← flag "next", status204 := ← flag "s204", acao := ← (get "acao").bind parseOpt,
         acac := ← flag "acac", vary := ← (get "vary").bind fromHex,
         allowMethods := ← (get "am").bind parseOpt, allowHeaders := ← (get "ah").bind parseOpt,
         maxAge := ← (get "ma").bind parseOpt, expose := ← (get "ex").bind parseOpt,
         privateNet := ← flag "pn" }

/-- `ConfigDefault.AllowMethods`, regenerated from /repo on every run. -/
def defaultMethods : List Bytes := C19.Facts.defaultAllowMethods

/-- how the harness prints a `url.Parse` result -/
def renderURL : Option Url.URL → String
  | none => "err"
  | some u => s!"{toHex u.scheme}|{toHex u.host}|{toHex u.path}|{toHex u.rawQuery}|{toHex u.fragment}"

/-- the recorded answers of the real `url.Parse`: (argument, rendered result) -/
def parseFacts (s : String) : Option (List (Bytes × String)) :=
  if s == "" then some [] else
  (s.splitOn ";").mapM fun p => match p.splitOn "=" with
    | [a, r] => (if a == "" then some [] else fromHexAux a.toList).map fun bs => (bs, r)
    | _ => none

/-- the strings `New` hands to `normalizeOrigin` (entries up to the first `*`) -/
def normalizeArgs : List Bytes → List Bytes
  | [] => []
  | o :: rest =>
    if o = b "*" then []
    else match indexOf o (b "://*.") with
      | some i => trim (o.take (i + 3) ++ o.drop (i + 4)) 32 :: normalizeArgs rest
      | none => trim o 32 :: normalizeArgs rest

/-- one request of the history field -/
def parseHistReq (s : String) : Option Request :=
  match s.splitOn ":" with
  | [me, og, acrm, acrh, acrpn, sk, pv, av] => do
    let av ← if av == "-" then some [] else (av.splitOn "+").mapM fromHex
    some { method := ← fromHex me, origin := ← fromHex og, acrMethod := ← fromHex acrm, acrHeaders := ← fromHex acrh,
           acrPrivate := ← fromHex acrpn, skip := sk == "1", priorVary := ← fromHex pv, afterVary := av }
  | _ => none

def parseHistory (s : String) : Option (List Request) :=
  if s == "-" then some [] else (s.splitOn ";").mapM parseHistReq

def handleCase (f : List String) : Except String Verdict := do
  match f with
  | [id, ao, ns, fs, fa, fp, am, ah, ex, ma, cr, pn, me, og, acrm, acrh, acrpn, sk, pv, av, hi, uf, impl] =>
    let some ao := hexList ao | throw "allowOrigins"
    let some fa := hexList fa | throw "funcAllows"
    let some fp := hexList fp | throw "funcPanics"
    let some am := hexList am | throw "allowMethods"
    let some ah := hexList ah | throw "allowHeaders"
    let some ex := hexList ex | throw "expose"
    let some ma := ma.toInt? | throw "maxAge"
    let some me := fromHex me | throw "method"
    -- domain guard (keeps the shrinker inside the modelled domain): fiber answers unknown methods
    -- with 501 before any middleware runs
    if !([b "GET", b "POST", b "OPTIONS", b "DELETE", b "PUT", b "HEAD", b "PATCH"].contains me) then
      throw "outside-domain: method"
    let some og := fromHex og | throw "origin"
    let some acrm := fromHex acrm | throw "acrm"
    let some acrh := fromHex acrh | throw "acrh"
    let some acrpn := fromHex acrpn | throw "acrpn"
    let some pv := fromHex pv | throw "priorVary"
    let some av := hexList av | throw "afterVary"
    -- domain guard: a mangled history (shrinker) is not judged
    let some pre := parseHistory hi | throw "outside-domain: history"
    let some facts := parseFacts uf | throw "urlFacts"
    -- domain guard: `strings.ToLower` is modelled on ASCII text only
    if !isASCII og then throw "outside-domain: non-ASCII Origin"
    let args := normalizeArgs ao
    if args.any (fun a => match Url.parse a with | some u => !isASCII u.host | none => false) then
      throw "outside-domain: non-ASCII host in AllowOrigins"
    -- the hypothesis about net/url, checked on this case: the transcription answers what the real
    -- `url.Parse` answered, on every recorded string, and every string the constructor model
    -- normalises is among them
    let urlBad : Option String :=
      match facts.find? (fun (a, r) => renderURL (Url.parse a) != r) with
      | some (a, _) => some s!"url-parse-differs:{toHexField a}:{renderURL (Url.parse a)}"
      | none =>
        match args.find? (fun a => !(facts.any (·.1 == a))) with
        | some a => some s!"url-fact-missing:{toHexField a}"
        | none => none
    let cfg : Config :=
      { next := if ns == "1" then some (fun q => q.skip) else none,
        allowOrigins := ao,
        allowFunc := if fs == "1" then some (fun o => if fp.contains o then none else some (fa.contains o)) else none,
        allowMethods := am, allowHeaders := ah, exposeHeaders := ex, maxAge := ma,
        credentials := cr == "1", privateNetwork := pn == "1" }
    let q : Request := { method := me, origin := og, acrMethod := acrm, acrHeaders := acrh, acrPrivate := acrpn,
                         skip := sk == "1", priorVary := pv, afterVary := av }
    let obs (s : String) : String := match urlBad with | some e => e | none => s
    match build cfg defaultMethods with
    | none =>
      -- the constructor refuses the configuration; nothing is served, the property is silent.
      -- If the implementation served anyway, still judge what it served.
      let cfgd := if cfg.allowMethods.isEmpty then { cfg with allowMethods := defaultMethods } else cfg
      let spec : Option String :=
        if impl == "panic" then none
        else match ctorViolation cfgd true with
          | some c => some c
          | none =>
            match parseResp impl with
            | some ri => specViolation cfgd q ri
            | none => some "unparsable-observation"
      pure { id := id, modelObs := obs "panic", implObs := impl, spec := spec, tags := ["panic"] }
    | some bt =>
      let r := replyAfter bt pre q
      let spec : Option String :=
        if impl == "panic" then none
        else match parseResp impl with
          | none => some "unparsable-observation"
          | some ri => specViolation bt.cfg q ri
      let o := toLower og
      let sk := skipped cfg q
      let branch := if sk then "skipped" else if o = [] then "noorigin" else if me = OPTIONS ∧ acrm = [] then "options-nonpreflight"
                    else if r.panicked then "func-panic" else if me ≠ OPTIONS then "simple" else "preflight"
      let dec := if o = [] then "na" else if bt.allowAll then "all"
                 else if bt.origins.contains o then "allowed-exact"
                 else if bt.subs.any (·.match o) then "allowed-wildcard"
                 else if permitted bt o then "allowed-func" else "denied"
      let vt := (if pv = [] then [] else if varyWF pv then ["vary-prior"] else ["vary-prior-malformed"]) ++
                (if av = [] then [] else ["vary-after"])
      let ct := (if bt.subs.isEmpty then [] else ["cfg-wildcard"]) ++ (if ns == "1" then [] else ["next-nil"]) ++
                (if pre.isEmpty then [] else ["history"])
      let nt := if o ≠ [] && !bt.allowAll && !sk then ["nt"] else []
      pure { id := id, modelObs := obs (renderResp r), implObs := impl, spec := spec, tags := [branch, dec] ++ vt ++ ct ++ nt }
  | _ => throw s!"expected 23 fields, got {f.length}"

def main : IO Unit := run handleCase
