import FiberModel.DriverUtil
import FiberModel.C15.ConcSpec
import FiberModel.C15.Corrupt
/-
Driver for C15. Case fields (after the id):
  source(cookie|header|query|default) storage(mem|inj|memN|injN; N = built by session.New with an explicit Store) idle abs ops obs
see harness/cmd/c15/main.go for the op, script and observation syntax.
-/
open B DriverUtil C15

def hx (s : String) : Except String Bytes :=
  match fromHex s with
  | some v => pure v
  | none => throw s!"outside-domain: bad hex {s}"

def idSafe (s : Bytes) : Bool := s.all fun c => isAlpha c || isDigit c || c == 95 || c == 45

def hxSafe (s : String) : Except String Bytes := do
  let v ← hx s
  if v = [] || !idSafe v then throw "outside-domain: identifier alphabet"
  pure v

def parseAct (s : String) : Except String Act := do
  if s.isEmpty then throw "outside-domain: empty action"
  let arg := (s.drop 1).toString
  match s.front with
  | 'G' => if arg.isEmpty then pure .storeGet else throw "outside-domain: action"
  | 'I' => if arg.isEmpty then pure .info else throw "outside-domain: action"
  | 'K' => if arg.isEmpty then pure .keys else throw "outside-domain: action"
  | 'D' => if arg.isEmpty then pure .destroy else throw "outside-domain: action"
  | 'R' => if arg.isEmpty then pure .regenerate else throw "outside-domain: action"
  | 'X' => if arg.isEmpty then pure .reset else throw "outside-domain: action"
  | 'S' => if arg.isEmpty then pure .save else throw "outside-domain: action"
  | 'L' => if arg.isEmpty then pure .release else throw "outside-domain: action"
  | 'W' => if arg.isEmpty then pure .storeReset else throw "outside-domain: action"
  | 'B' => if arg == "-" then pure (.byID []) else do pure (.byID (← hxSafe arg))
  | 'Z' => if arg == "-" then pure (.storeDelete []) else do pure (.storeDelete (← hxSafe arg))
  | 'g' => do pure (.get (← hxSafe arg))
  | 'd' => do pure (.del (← hxSafe arg))
  | 's' =>
    match arg.splitOn "=" with
    | [k, v] => do pure (.set (← hxSafe k) (← if v == "-" then pure [] else hxSafe v))
    | _ => throw "outside-domain: set action"
  | 'T' =>
    match arg.toInt? with
    | some n => if n < -5 || n > 100000 then throw "outside-domain: idle timeout" else pure (.idle n)
    | none => throw "outside-domain: idle timeout"
  | _ => throw "outside-domain: unknown action"

def parseOp (s : String) : Except String Op := do
  match s.splitOn ":" with
  | ["a", n] =>
    match n.toNat? with
    | some d => if d > 100000 then throw "outside-domain: advance" else pure (.adv d)
    | none => throw "outside-domain: advance"
  | ["r", api, ck, hd, qr, script] =>
    if api != "m" && api != "s" then throw "outside-domain: api"
    let ck ← hx ck; let hd ← hx hd; let qr ← hx qr
    if !(idSafe ck && idSafe hd && idSafe qr) then throw "outside-domain: identifier alphabet"
    let acts ← (if script == "-" then pure [] else (script.splitOn ".").mapM parseAct)
    pure (.req { viaMw := api == "m", ck := ck, hd := hd, qr := qr, script := acts })
  | _ => throw "outside-domain: malformed op"

def insertSorted (x : String) : List String → List String
  | [] => [x]
  | y :: ys => if x < y then x :: y :: ys else y :: insertSorted x ys

def sortStrings (l : List String) : List String := l.foldr insertSorted []

def plusList (l : List Bytes) : String :=
  if l.isEmpty then "-" else "+".intercalate (l.map toHexField)

def renderAObs : AObs → String
  | .dash => "-"
  | .bang => "!"
  | .ok => "ok"
  | .err .empty => "empty"
  | .err .notFound => "notfound"
  | .err .loaded => "loaded"
  | .info id fr => s!"i{toHexField id}/{if fr then 1 else 0}"
  | .val none => "vnil"
  | .val (some v) => s!"v{toHexField v}"
  | .keys ks a => "k" ++ "+".intercalate (sortStrings (ks.map toHexField)) ++ (if a then "#" else "")

def renderKeys (r : Resp) : String :=
  let ks := r.keys.map toHexField
  if ks.isEmpty then "-" else "+".intercalate (sortStrings ks)

def renderResp (r : Resp) : String :=
  let acts := if r.acts.isEmpty then "noacts" else ".".intercalate (r.acts.map renderAObs)
  let ck := match r.outCk with | none => "cnone" | some none => "cexp" | some (some v) => "c" ++ toHexField v
  let hd := match r.outHd with | none => "hnone" | some v => "h" ++ toHexField v
  s!"{acts},{ck},{hd},{plusList r.gens},{renderKeys r}"

def runModel (cfg : Cfg) : St → List Op → List String
  | _, [] => []
  | st, o :: os =>
    match o with
    | .adv d => "-" :: runModel cfg { st with now := st.now + d } os
    | .req q =>
      let (st', r) := handle cfg idGen st q
      renderResp r :: runModel cfg st' os

/-- distribution tags computed along the model run: a request presents a live id past its absolute
    deadline / an idle-expired id / a forged (never stored) id / a live id -/
def loadTags (cfg : Cfg) : St → List Op → List String
  | _, [] => []
  | st, o :: os =>
    match o with
    | .adv d => loadTags cfg { st with now := st.now + d } os
    | .req q =>
      let p := presentedId cfg q.pres
      let t := match st.get p with
        | some blob => if absExpired st.now blob then ["nt-load-abs-expired"] else ["load-live"]
        | none => if p = [] then ["load-none"] else if (lookup st.store p).isSome then ["load-idle-expired"] else ["load-unknown-id"]
      let byid := q.script.filterMap fun a => match a with
        | .byID x => (match st.get x with
            | some blob => if cfg.abs > 0 && absExpired st.now blob then some "byid-abs-expired" else some "byid-live"
            | none => some "byid-miss")
        | _ => none
      t ++ byid ++ loadTags cfg (handle cfg idGen st q).1 os

def dedup (l : List String) : List String := l.foldl (fun acc x => if acc.contains x then acc else acc ++ [x]) []

def parseAObs (s : String) : Except String AObs := do
  if s == "-" then return .dash
  if s == "!" then return .bang
  if s == "ok" then return .ok
  if s == "empty" then return .err .empty
  if s == "notfound" then return .err .notFound
  if s == "loaded" then return .err .loaded
  if s == "vnil" then return .val none
  match s.front with
  | 'v' => do pure (.val (some (← hx (s.drop 1).toString)))
  | 'i' =>
    match ((s.drop 1).toString).splitOn "/" with
    | [id, fr] => do pure (.info (← hx id) (fr == "1"))
    | _ => throw "bad info observation"
  | 'k' =>
    let body := (s.drop 1).toString
    let (body, a) := if body.endsWith "#" then ((body.dropEnd 1).toString, true) else (body, false)
    let ks ← (if body.isEmpty then pure [] else (body.splitOn "+").mapM hx)
    pure (.keys ks a)
  | _ => throw s!"bad action observation {s}"

def parsePlus (s : String) : Except String (List Bytes) :=
  if s == "-" then pure [] else (s.splitOn "+").mapM hx

def parseObs (s : String) : Except String Obs := do
  match s.splitOn "," with
  | [acts, ck, hd, gens, keys] =>
    let (acts, status) := match acts.splitOn "~" with
      | [a, st] => (a, st.toNat?.getD 0)
      | _ => (acts, 200)
    let al ← (if acts == "noacts" then pure [] else (acts.splitOn ".").mapM parseAObs)
    let ckv ← (if ck == "cnone" then pure none else if ck == "cexp" then pure (some none)
               else do pure (some (some (← hx (ck.drop 1).toString))))
    let hdv ← (if hd == "hnone" then pure none else do pure (some (← hx (hd.drop 1).toString)))
    pure { acts := al, outCk := ckv, outHd := hdv, gens := ← parsePlus gens, keys := ← parsePlus keys, status := status }
  | _ => throw "bad observation"

def panicObs : Obs := { acts := [], outCk := none, outHd := none, gens := [], keys := [], status := 0 }

def sourceOf : String → Option Source
  | "cookie" => some .cookie | "header" => some .header | "query" => some .query
  | "default" => some .cookie     -- `session.Config` without KeyLookup / IdleTimeout: cookie:session_id, 30 min
  | _ => none

def opTags (ops : List Op) : List String :=
  let reqs := ops.filterMap fun o => match o with | .req q => some q | _ => none
  let has (p : Act → Bool) := reqs.any fun q => q.script.any p
  (if reqs.any (·.viaMw) then ["mw"] else []) ++ (if reqs.any (!·.viaMw) then ["store-api"] else []) ++
  (if has (· == .destroy) then ["destroy"] else []) ++ (if has (· == .regenerate) then ["regenerate"] else []) ++
  (if has (· == .reset) then ["reset"] else []) ++
  (if reqs.any (fun q => !q.viaMw && (q.script.filter (· == .storeGet)).length ≥ 2) then ["nt-multi-get"] else []) ++
  (if ops.any (fun o => match o with | .adv _ => true | _ => false) then ["advance"] else [])

/-! ### schedules (overlapping requests): ops `b:<rid>:…`, `s:<rid>`, `e:<rid>`, `a:<secs>` -/

def parseRid (s : String) : Except String Nat :=
  match s.toNat? with
  | some n => if n > 99 then throw "outside-domain: rid" else pure n
  | none => throw "outside-domain: rid"

def parseEv (s : String) : Except String Ev := do
  match s.splitOn ":" with
  | ["a", n] =>
    match n.toNat? with
    | some d => if d > 100000 then throw "outside-domain: advance" else pure (.adv d)
    | none => throw "outside-domain: advance"
  | ["s", rid] => do pure (.step (← parseRid rid))
  | ["e", rid] => do pure (.finish (← parseRid rid))
  | ["b", rid, api, ck, hd, qr, script] => do
    let rid ← parseRid rid
    match ← parseOp (":".intercalate ["r", api, ck, hd, qr, script]) with
    | .req q => pure (.start rid q)
    | _ => throw "outside-domain: malformed op"
  | _ => throw "outside-domain: malformed op"

def renderCObs : CObs → String
  | .none => "-"
  | .started g => s!"S,{plusList g}"
  | .stepped o g => s!"T,{renderAObs o},{plusList g}"
  | .finished ck hd keys =>
    let ck := match ck with | none => "cnone" | some none => "cexp" | some (some v) => "c" ++ toHexField v
    let hd := match hd with | none => "hnone" | some v => "h" ++ toHexField v
    let ks := keys.map toHexField
    s!"F,{ck},{hd},{if ks.isEmpty then "-" else "+".intercalate (sortStrings ks)}"

/-- `none` = the event failed on the implementation (handler did not run to the expected point, status ≠ 200) -/
def parseCObs (s : String) : Except String (Option CObs) := do
  if s == "-" then return some .none
  match s.splitOn "," with
  | ["S", g] => do pure (some (.started (← parsePlus g)))
  | ["T", a, g] => do pure (some (.stepped (← parseAObs a) (← parsePlus g)))
  | ["F", ck, hd, keys] => do
    let ckv ← (if ck == "cnone" then pure none else if ck == "cexp" then pure (some none)
               else do pure (some (some (← hx (ck.drop 1).toString))))
    let hdv ← (if hd == "hnone" then pure none else do pure (some (← hx (hd.drop 1).toString)))
    pure (some (.finished ckv hdv (← parsePlus keys)))
  | _ => pure none

def scheduleTags (evs : List Ev) : List String :=
  -- how many requests are in flight at most; do two requests in flight present the same id?
  let step (acc : List (Nat × Req) × Nat × Bool) (e : Ev) : List (Nat × Req) × Nat × Bool :=
    match e with
    | .start rid q =>
      if acc.1.any (·.1 == rid) then acc else
      let same := acc.1.any fun p => (p.2.ck ≠ [] && p.2.ck == q.ck) || (p.2.hd ≠ [] && p.2.hd == q.hd) || (p.2.qr ≠ [] && p.2.qr == q.qr)
      let fl := (rid, q) :: acc.1
      (fl, max acc.2.1 fl.length, acc.2.2 || same)
    | .finish rid => (acc.1.filter (·.1 != rid), acc.2.1, acc.2.2)
    | _ => acc
  let r := evs.foldl step ([], 0, false)
  let multi := evs.any fun e => match e with
    | .start _ q => !q.viaMw && (q.script.filter (· == .storeGet)).length ≥ 2
    | _ => false
  ["schedule", s!"inflight-{r.2.1}"] ++ (if r.2.1 ≥ 2 then ["nt-overlap"] else []) ++
    (if multi then ["nt-multi-get"] else []) ++
    (if r.2.2 then ["nt-overlap-same-id"] else [])

def handleSchedule (id src sto : String) (cfg : Cfg) (absT : Nat) (ops impl : String) : Except String Verdict := do
  let evs ← (ops.splitOn ";").mapM parseEv
  evs.forM fun e => if Ev.inDomain e then pure () else throw "outside-domain: script"
  let mo := (crun cfg idGen {} evs).2.map renderCObs
  let modelObs := ";".intercalate mo
  let implL := impl.splitOn ";"
  let parsed ← implL.mapM parseCObs
  let spec :=
    if implL.length != evs.length then some "observation-count"
    else if parsed.any (·.isNone) then some "request-failed"
    else cspecRun cfg {} evs (parsed.filterMap fun x => x)
  match spec with
  | some e => if e.startsWith "outside-domain" then throw e
  | none => pure ()
  let sawData := parsed.any fun o => match o with
    | some (.stepped (.val (some _)) _) => true
    | _ => false
  pure { id := id, modelObs := modelObs, implObs := impl, spec := spec,
         tags := [src, sto, if absT > 0 then "abs" else "noabs"] ++ scheduleTags evs ++
                 (if sawData then ["nt-saw-saved-data"] else []) }

/-! ### histories with a damaged stored blob: op `c:<id>:<kind>:<n>` (FiberModel/C15/Corrupt.lean) -/

def parseXOp (s : String) : Except String XOp := do
  match s.splitOn ":" with
  | ["c", id, kind, n] =>
    if kind != "p" && kind != "t" && kind != "g" then throw "outside-domain: corrupt kind"
    match n.toNat? with
    | some k => if k > 999 then throw "outside-domain: corrupt offset" else pure ()
    | none => throw "outside-domain: corrupt offset"
    let v ← hx id
    if !idSafe v then throw "outside-domain: identifier alphabet"
    pure (.corrupt v)
  | _ => do pure (.base (← parseOp s))

def renderXA : XAObs → String
  | .plain o => renderAObs o
  | .decodeErr => "err"

def renderXOut : XOut → String
  | .none => "-"
  | .corrupted hit => if hit then "c1" else "c0"
  | .resp r =>
    if r.panicked then "panic" else
    let acts := if r.acts.isEmpty then "noacts" else ".".intercalate (r.acts.map renderXA)
    let ck := match r.outCk with | none => "cnone" | some none => "cexp" | some (some v) => "c" ++ toHexField v
    let hd := match r.outHd with | none => "hnone" | some v => "h" ++ toHexField v
    let ks := r.keys.map toHexField
    s!"{acts},{ck},{hd},{plusList r.gens},{if ks.isEmpty then "-" else "+".intercalate (sortStrings ks)}"

def parseXAObs (s : String) : Except String XAObs :=
  if s == "err" then pure .decodeErr else do pure (.plain (← parseAObs s))

def parseXSeen (s : String) : Except String (Option XSeen) := do
  if s == "-" then return none
  if s == "c0" then return some (.corrupted false)
  if s == "c1" then return some (.corrupted true)
  if s == "panic" then return some (.obs { panicked := true })
  match s.splitOn "," with
  | [acts, ck, hd, gens, keys] =>
    let (acts, status) := match acts.splitOn "~" with
      | [a, st] => (a, st.toNat?.getD 0)
      | _ => (acts, 200)
    let al ← (if acts == "noacts" then pure [] else (acts.splitOn ".").mapM parseXAObs)
    let ckv ← (if ck == "cnone" then pure none else if ck == "cexp" then pure (some none)
               else do pure (some (some (← hx (ck.drop 1).toString))))
    let hdv ← (if hd == "hnone" then pure none else do pure (some (← hx (hd.drop 1).toString)))
    pure (some (.obs { acts := al, outCk := ckv, outHd := hdv, gens := ← parsePlus gens, keys := ← parsePlus keys, status := status }))
  | _ => throw "bad observation"

/-- tags along the model run: a load failed on a damaged blob; afterwards a request gets a fresh session /
    presents another live session -/
def xTags (cfg : Cfg) : XSt → Bool → List XOp → List String
  | _, _, [] => []
  | x, failed, o :: os =>
    let (x', out) := xstep cfg idGen x o
    let here := match o, out with
      | .base (.req q), .resp r =>
        let hit := r.panicked || r.acts.any (· == .decodeErr)
        let p := presentedId cfg q.pres
        (if hit then ["nt-corrupt-load-refused"] else []) ++
        (if r.panicked then ["corrupt-mw-panic"] else []) ++
        (if failed && !hit then
          (if (x.st.get p).isNone then ["nt-after-corrupt-fresh"] else ["nt-after-corrupt-other"]) else [])
      | .corrupt _, .corrupted hit => [if hit then "corrupt-hit" else "corrupt-miss"]
      | _, _ => []
    let failed' := failed || (match out with | .resp r => r.panicked || r.acts.any (· == .decodeErr) | _ => false)
    here ++ xTags cfg x' failed' os

def handleCorrupt (id src sto : String) (cfg : Cfg) (absT : Nat) (ops impl : String) : Except String Verdict := do
  if sto != "inj" && sto != "injN" then throw "outside-domain: corrupt ops need the injected storage"
  let xops ← (ops.splitOn ";").mapM parseXOp
  xops.forM fun o => match o with
    | .base b => if Op.inDomain b then pure () else throw "outside-domain: script"
    | _ => pure ()
  let mo := (xrun cfg idGen {} xops).2.map renderXOut
  let modelObs := ";".intercalate mo
  let implL := impl.splitOn ";"
  let seen ← implL.mapM parseXSeen
  let spec := if implL.length != xops.length then some "observation-count" else xspecRun cfg {} xops seen
  match spec with
  | some e => if e.startsWith "outside-domain" then throw e
  | none => pure ()
  pure { id := id, modelObs := modelObs, implObs := impl, spec := spec,
         tags := [src, sto, if absT > 0 then "abs" else "noabs", "corrupt"] ++ dedup (xTags cfg {} false xops) }

def handleCase (f : List String) : Except String Verdict := do
  match f with
  | [id, src, sto, idle, abs, ops, impl] =>
    let some source := sourceOf src | throw "outside-domain: source"
    if sto != "mem" && sto != "inj" && sto != "memN" && sto != "injN" then throw "outside-domain: storage"
    let some idle := idle.toNat? | throw "outside-domain: idle"
    let some abs := abs.toNat? | throw "outside-domain: abs"
    if idle = 0 || idle > 3600 || abs > 100000 || (abs > 0 && abs < idle) then throw "outside-domain: timeouts"
    if src == "default" && idle != 1800 then throw "outside-domain: the default idle timeout is 30 minutes"
    let cfg : Cfg := { source := source, idle := idle, abs := abs }
    if (ops.splitOn ";").any (fun o => o.startsWith "b:" || o.startsWith "s:" || o.startsWith "e:") then
      if impl == "panic" then
        return { id := id, modelObs := "-", implObs := impl, spec := some "constructor-panicked", tags := [src, sto] }
      return ← handleSchedule id src sto cfg abs ops impl
    if (ops.splitOn ";").any (fun o => o.startsWith "c:") then
      if impl == "panic" then
        return { id := id, modelObs := "-", implObs := impl, spec := some "constructor-panicked", tags := [src, sto] }
      return ← handleCorrupt id src sto cfg abs ops impl
    let opl ← (if ops == "-" then pure [] else (ops.splitOn ";").mapM parseOp)
    let mo := runModel cfg {} opl
    let modelObs := if mo.isEmpty then "-" else ";".intercalate mo
    if impl == "panic" then
      return { id := id, modelObs := modelObs, implObs := impl, spec := some "constructor-panicked", tags := [src, sto] }
    let obsl ← (if impl == "-" then pure [] else (impl.splitOn ";").mapM fun s =>
      if s == "-" then pure none else if s == "panic" then pure (some panicObs) else (parseObs s).map some)
    let spec := if obsl.length != opl.length then some "observation-count" else specRun cfg specInit opl obsl
    match spec with
    | some e => if e.startsWith "outside-domain" then throw e
    | none => pure ()
    let sawData := obsl.any fun o => match o with
      | some o => o.acts.any fun a => match a with | .val (some _) => true | _ => false
      | none => false
    pure { id := id, modelObs := modelObs, implObs := impl, spec := spec,
           tags := [src, sto, if abs > 0 then "abs" else "noabs"] ++ opTags opl ++ dedup (loadTags cfg {} opl) ++
                   (if sawData then ["nt-saw-saved-data"] else []) }
  | _ => throw s!"outside-domain: expected 7 fields, got {f.length}"

def main : IO Unit := run handleCase
