import FiberModel.DriverUtil
import FiberModel.C14.Spec
import FiberModel.C14.Known
/-
Driver for C14. Case fields (after the id):
  cfg      ext;sttl;maxBytes;expiration;storeHeaders;cacheControl;kg;eg;iv;nx;sy
  methods  hex list ("-" = default)
  ops      op|op|…   op = grp;dt;method;keyMat;cc;inv;skip;expGen;status;body;ctype;cenc;headers;hdelay;err;f1;f2
                     (err = 1: the origin handler returns fiber.NewError(status, body); f1 / f2: outcomes of the
                      storage calls of the first / second critical section, o = ok, e = error, g = garbled entry,
                      "-" = none; 15 fields = fault-free)
  scheds   "-" or grp:t.t.t/grp:t.t
  obs      o|o|…     o  = x;status;body;ctype;cenc;headers;ran;held;snap | panic | deadlock | skipped
                     (snap: `_body` keys of the injected storage with sizes, hexkey=size+…, sorted)
The model is run with the same `step` function the theorems are about: sequential ops run their
thread to completion, concurrent groups release threads in the scheduled order (a release runs the
thread from one yield point – KeyGenerator, [with `sy`: the end of the entry Get inside the first
critical section and, with an injected storage, the START of the `_body` Get of a hit,] origin
handler – to the next, or until it blocks on `mux`; a blocked thread goes on by itself, first come
first served, as soon as the holder unlocks).
-/
open B DriverUtil C14

abbrev E := Except String

def dom (msg : String) : E α := throw s!"outside-domain: {msg}"

def pNat (s : String) (what : String) : E Nat :=
  match s.toNat? with | some n => pure n | none => dom what
def pInt (s : String) (what : String) : E Int :=
  match s.toInt? with | some n => pure n | none => dom what
def pBit (s : String) (what : String) : E Bool :=
  if s == "1" then pure true else if s == "0" then pure false else dom what
def pHex (s : String) (what : String) : E Bytes :=
  match fromHex s with
  | some v => if v.all (· < 256) then pure v else dom what
  | none => dom what

structure DCfg where
  cfg : Config
  kg : Bool
  eg : Bool
  iv : Bool
  nx : Bool
  sy : Bool

structure DOp where
  grp : Nat
  dt : Nat
  hdelay : Nat
  req : Req
deriving Inhabited

def hdrVocab : List Bytes := [b "X-A", b "X-B", b "Etag", b "Vary", b "Last-Modified", b "Cache-Control", b "Keep-Alive",
  b "Upgrade", b "Te", b "Trailers", b "Proxy-Authenticate"]
def okMethods : List Bytes := [b "GET", b "HEAD", b "POST", b "PUT"]

def parseCfg (s methods : String) : E DCfg := do
  match s.splitOn ";" with
  | [ext, sttl, mb, exp, sh, cc, kg, eg, iv, nx, sy] =>
    let ms ← match hexList methods with | some l => pure l | none => dom "methods"
    if !ms.all okMethods.contains then dom "method"
    let cfg : Config := { ext := ← pBit ext "ext", stTTL := ← pBit sttl "sttl", maxBytes := ← pNat mb "maxBytes",
                          expiration := ← pInt exp "expiration", storeHeaders := ← pBit sh "sh",
                          cacheControl := ← pBit cc "cc", methods := ms }
    if cfg.maxBytes ≥ 2 ^ 62 then dom "maxBytes too large"
    let sy ← pBit sy "sy"
    pure { cfg := cfg, kg := ← pBit kg "kg", eg := ← pBit eg "eg", iv := ← pBit iv "iv", nx := ← pBit nx "nx", sy := sy }
  | _ => dom "cfg fields"

def parseHdrs (s : String) : E (List (Bytes × Bytes)) :=
  if s == "-" then pure []
  else (s.splitOn "+").mapM fun kv =>
    match kv.splitOn "=" with
    | [k, v] => do pure (← pHex k "header name", ← pHex v "header value")
    | _ => dom "header pair"

def hasCRLF (v : Bytes) : Bool := v.any fun c => c == 13 || c == 10
def trimmed (v : Bytes) : Bool := v.head? != some 32 && v.getLast? != some 32 && v.head? != some 9 && v.getLast? != some 9

def pFaults (s : String) : E (List Fault) :=
  if s == "-" then pure []
  else if s.length == 0 || s.length > 16 then dom "faults"
  else s.toList.mapM fun c =>
    if c == 'o' then pure Fault.ok else if c == 'e' then pure Fault.err else if c == 'g' then pure Fault.garbled
    else dom "fault"

def parseOp (d : DCfg) (s : String) : E DOp := do
  let fields := s.splitOn ";"
  let (fields, f1s, f2s) ← match fields with
    | [a1, a2, a3, a4, a5, a6, a7, a8, a9, a10, a11, a12, a13, a14, a15, f1, f2] =>
      pure ([a1, a2, a3, a4, a5, a6, a7, a8, a9, a10, a11, a12, a13, a14, a15], f1, f2)
    | _ => pure (fields, "-", "-")
  let f1 ← pFaults f1s
  let f2 ← pFaults f2s
  if !d.cfg.ext && (!f1.isEmpty || !f2.isEmpty) then dom "faults need an injected storage"
  match fields with
  | [grp, dt, me, km, cc, inv, skip, eg, st, body, ct, ce, hs, hd, er] =>
    let method ← pHex me "method"
    if !okMethods.contains method then dom "method"
    let keyMat ← pHex km "keyMat"
    if keyMat.isEmpty || keyMat.any (fun c => c == 63 || c == 35 || c == 32 || c == 13 || c == 10) then dom "keyMat"
    if !d.kg && keyMat.head? != some 47 then dom "keyMat must be a path"
    let cc ← pHex cc "cc"
    let ct ← pHex ct "ctype"
    let ce ← pHex ce "cenc"
    if hasCRLF cc || hasCRLF ct || hasCRLF ce || !trimmed ct then dom "header value"
    let inv ← pBit inv "inv"
    let skip ← pBit skip "skip"
    let expGen ← if eg == "n" then pure none else (some <$> pNat eg "expGen")
    if d.eg != expGen.isSome || (!d.iv && inv) || (!d.nx && skip) then dom "callback flags"
    let status ← pNat st "status"
    let dt ← pNat dt "dt"
    let hd ← pNat hd "hdelay"
    if dt > 100 || hd > 10 || status < 100 || status > 599 then dom "op range"
    let hs ← parseHdrs hs
    if !hs.all (fun p => hdrVocab.contains p.1 && !hasCRLF p.2 && !p.2.isEmpty && trimmed p.2) then dom "header"
    if !(hs.map (·.1)).eraseDups.length == hs.length then dom "duplicate header"
    let grp ← pNat grp "grp"
    if grp != 0 && (!d.kg || hd != 0) then dom "concurrent op"
    let body ← pHex body "body"
    let er ← pBit er "err"
    -- a failing handler sets nothing itself: fiber's default ErrorHandler writes status, message, text/plain
    if er && (!ct.isEmpty || !ce.isEmpty || !hs.isEmpty || body.isEmpty || status < 400) then dom "error op"
    pure { grp := grp, dt := dt, hdelay := hd,
           req := { method := method, keyMat := keyMat, cc := cc, inv := inv, skip := skip, expGen := expGen,
                    resp := { status := status, body := body, ctype := ct, cenc := ce, headers := hs }, err := er,
                    f1 := f1, f2 := f2 } }
  | _ => dom "op fields"

def parseScheds (s : String) : E (List (Nat × List Nat)) :=
  if s == "-" then pure []
  else (s.splitOn "/").mapM fun e =>
    match e.splitOn ":" with
    | [g, ts] => do pure (← pNat g "sched group", ← if ts == "" then pure [] else (ts.splitOn ".").mapM (pNat · "sched tid"))
    | _ => dom "sched"

/-- groups must be contiguous, ≤ 4 threads, `dt = 0` inside; schedules refer to existing threads -/
def checkGroups (ops : List DOp) (scheds : List (Nat × List Nat)) : E Unit := do
  let rec go (last : Nat) (seen : List Nat) : List DOp → E Unit
    | [] => pure ()
    | o :: rest =>
      if o.grp != 0 && o.grp != last && seen.contains o.grp then dom "group not contiguous"
      else if o.grp != 0 && o.grp == last && o.dt != 0 then dom "dt inside group"
      else go o.grp (if o.grp != 0 then o.grp :: seen else seen) rest
  go 0 [] ops
  for (g, ts) in scheds do
    let n := (ops.filter (·.grp == g)).length
    if g == 0 || n == 0 || ts.length > 64 || !ts.all (· < n) then dom "sched"
  if !((scheds.map (·.1)).eraseDups.length == scheds.length) then dom "duplicate sched"
  for o in ops do
    if o.grp != 0 && (ops.filter (·.grp == o.grp)).length > 4 then dom "group size"

/-! ### observation rendering / parsing -/

def xStr : XCache → String
  | .absent => "n" | .hit => "h" | .miss => "m" | .unreachable => "u"

def hdrsField (hs : List (Bytes × Bytes)) : String :=
  if hs.isEmpty then "-" else "+".intercalate ((sortHdrs hs).map fun p => toHexField p.1 ++ "=" ++ toHexField p.2)

def sortSnap (s : Snap) : Snap := s.mergeSort fun p q => compareOfLessAndEq p.1 q.1 != .gt

def snapField : Option Snap → String
  | none => "-"
  | some s => if s.isEmpty then "-" else "+".intercalate ((sortSnap s).map fun p => toHexField p.1 ++ "=" ++ toString p.2)

def renderOut (o : Out) (ran : Bool) (held : Option Nat) (snap : Option Snap) : String :=
  ";".intercalate [xStr o.xcache, toString o.status, toHexField o.body, toHexField o.ctype, toHexField o.cenc,
    hdrsField o.headers, if ran then "1" else "0", match held with | some h => toString h | none => "-", snapField snap]

def parseSnap (s : String) : Option Snap :=
  if s == "-" then some []
  else (s.splitOn "+").mapM fun kv =>
    match kv.splitOn "=" with
    | [k, v] => do pure (← fromHex k, ← v.toNat?)
    | _ => none

def parseObs (s : String) : Option Obs :=
  if s == "panic" then some .panic
  else if s == "deadlock" then some .deadlock
  else if s == "skipped" then some .skipped
  else match s.splitOn ";" with
    | [x, st, body, ct, ce, hs, ran, held, snap] => do
      let xc ← match x with
        | "n" => some XCache.absent | "h" => some .hit | "m" => some .miss | "u" => some .unreachable | _ => none
      let hs ← match parseHdrs hs with | .ok v => some v | .error _ => none
      let snap ← if held == "-" then some none else (parseSnap snap).map some
      let held ← if held == "-" then some none else held.toNat?.map some
      some (.resp { xcache := xc, status := ← st.toNat?, body := ← fromHex body, ctype := ← fromHex ct,
                    cenc := ← fromHex ce, headers := hs } (ran == "1") held snap)
    | _ => none

/-! ### running the model -/

def T0 : Nat := 1257894000     -- faketime's epoch (2009-11-10 23:00:00 UTC); only differences matter

def tick (g : G) (d : Nat) : G := { g with ts := g.ts + d, uts := g.uts + d }

def pcOf (g : G) (t : Nat) : Pc := match g.threads[t]? with | some th => th.pc | none => .done

/-- program points at which a thread of a concurrent group is parked by the harness (`sy`: also
    inside the first critical section, at the end of `manager.get` → `Storage.Get`) -/
def parked (sy : Bool) : Pc → Bool
  | .wantLock1 | .bypass _ | .next | .done | .panicked => true
  | .sec1 => sy
  | _ => false

/-- step thread `t` until `stop` holds for its pc or it cannot move (fuel 10 ≥ the 8 steps of a thread) -/
def stepUntil (cfg : Config) (stop : Pc → Bool) : Nat → G → Nat → G
  | 0, g, _ => g
  | f + 1, g, t =>
    match step cfg g t with
    | none => g
    | some g' => if stop (pcOf g' t) then g' else stepUntil cfg stop f g' t

/-- scheduler state of a concurrent group: the model state, the threads blocked on `mux` (first come
    first served) and the threads parked at the START of the `_body` Get of a hit (inside the first
    critical section, mutex held: the model's `sec1` step has not been taken yet) -/
structure Sch where
  g : G
  q : List Nat := []
  atB : List Nat := []

/-- does thread `t` stand inside the first section right before a hit (the next thing the code does is
    `manager.getRaw(key + "_body")`)? -/
def hitNext (cfg : Config) (g : G) (t : Nat) : Bool :=
  match g.threads[t]? with
  | some th =>
    -- the body Get happens (and is a yield point) also when its scheduled outcome is an error: judge the
    -- first section with that outcome replaced by `ok`
    let q := { th.req with f1 := [faultAt th.req.f1 0] }
    th.pc == .sec1 &&
      (match sec1 cfg g.sh g.ts g.uts q (mkKey th.req) with
       | .hit _ => true
       | _ => false)
  | none => false

/-- run thread `t` until it is parked, finished, or blocked on `mux` (then it joins the wait queue).
    `sy` with an injected storage: a hit also parks before its body Get. -/
def advance (cfg : Config) (sy : Bool) : Nat → Sch → Nat → Sch
  | 0, s, _ => s
  | f + 1, s, t =>
    if sy && cfg.ext && !s.atB.contains t && hitNext cfg s.g t then { s with atB := t :: s.atB }
    else
      match step cfg s.g t with
      | none => if pcOf s.g t == .wantLock1 || pcOf s.g t == .wantLock2 then { s with q := s.q ++ [t] } else s
      | some g' => if parked sy (pcOf g' t) then { s with g := g' } else advance cfg sy f { s with g := g' } t

/-- hand the free mutex to the waiting threads, first come first served -/
def settle (cfg : Config) (sy : Bool) : Nat → Sch → Sch
  | 0, s => s
  | f + 1, s =>
    match s.g.mux, s.q with
    | none, u :: rest => settle cfg sy f (advance cfg sy 10 { s with q := rest } u)
    | _, _ => s

/-- one release of a thread by the scheduler: run from one yield point to the next; a thread that is
    blocked on `mux` is not parked, releasing it does nothing -/
def release (cfg : Config) (sy : Bool) (s : Sch) (t : Nat) : Sch :=
  if s.q.contains t then s else settle cfg sy 16 (advance cfg sy 10 s t)

def finished (g : G) (t : Nat) : Bool := pcOf g t == .done || pcOf g t == .panicked

def heldOf (cfg : Config) (g : G) : Option Nat := if cfg.ext then some (g.sh.bodies.held g.uts) else none
def snapOf (cfg : Config) (g : G) : Option Snap :=
  if cfg.ext then some ((g.sh.bodies.filter fun p => !p.2.expired g.uts).map fun p => (p.1, p.2.body.length)) else none

def obsOf (cfg : Config) (g : G) (t : Nat) : String :=
  match g.threads[t]? with
  | none => "skipped"
  | some th =>
    match th.pc, th.out with
    | .panicked, _ => "panic"
    | .done, some o => renderOut o th.ran (heldOf cfg g) (snapOf cfg g)
    | _, _ => "deadlock"

/-- branch tags of one sequential op, from the model states before (after the clock tick) and after it -/
def opTags (cfg : Config) (pre post : G) (q : Req) : List String :=
  let key := mkKey q
  let looks := !cfg.disabled && !hasDirective q.cc Facts.noStore && cfg.effMethods.contains q.method
  let found := pre.sh.store.get key pre.uts
  (match found with
   | some e => if !looks then [] else if q.inv then ["invalidated"] else if e.exp ≤ pre.ts then ["cache-expired"]
               else if hasDirective q.cc Facts.noCache then ["nocache-refresh"] else []
   | none => []) ++
  (match pre.sh.store.lookup key with
   | some sl => if looks && sl.expired pre.uts then ["storage-expired"] else []
   | none => []) ++
  (if pre.sh.store.any (fun p => p.1 != key && (post.sh.store.lookup p.1).isNone) then ["evicted"] else []) ++
  (if (klookup pre.sh.heap.keys key).isSome && post.sh.store.lookup key != pre.sh.store.lookup key &&
      (post.sh.store.lookup key).isSome then ["replaced-tracked"] else []) ++
  (if post.sh.heap.live.length != post.sh.store.length && cfg.maxBytes > 0 then ["heap-store-mismatch"] else []) ++
  (if !post.sh.heap.dead.isEmpty then ["index-parked"] else [])

/-- run the history; returns the model's observation per op and the branch tags seen -/
def runModel (cfg : Config) (sy : Bool) (ops : List DOp) (scheds : List (Nat × List Nat)) :
    List String × List String × List (String → Bool) := Id.run do
  let mut g := G.init T0 T0 (ops.map (·.req))
  let mut out : Array String := #[]
  let mut k1 : Array (String → Bool) := #[]
  let mut tags : List String := []
  let mut dead := false
  let arr := ops.toArray
  let mut i := 0
  while i < arr.size do
    let o := arr[i]!
    if dead then
      out := out.push "skipped"; k1 := k1.push (fun _ => false); i := i + 1
    else
      g := tick g o.dt
      if o.grp == 0 then
        let pre := g
        g := stepUntil cfg (fun pc => pc == .afterNext || pc == .done || pc == .panicked) 10 g i
        -- the origin handler sleeps `hdelay` seconds (only when it is invoked)
        if (g.threads[i]?.map (·.ran)).getD false then g := tick g o.hdelay
        if pcOf g i == .afterNext then
          g := stepUntil cfg (fun pc => pc == .done || pc == .panicked) 10 g i
        for tg in opTags cfg pre g o.req do
          if !tags.contains tg then tags := tg :: tags
        let s := obsOf cfg g i
        if s == "deadlock" then dead := true
        out := out.push s
        k1 := k1.push (Known.K1 pre g i)
        if Known.K1any pre g i && !tags.contains "k1-region" then tags := "k1-region" :: tags
        i := i + 1
      else
        let n := ((arr.toList.drop i).takeWhile (·.grp == o.grp)).length
        let sched := ((scheds.find? (·.1 == o.grp)).map (·.2)).getD []
        let pre := g
        let mut gq : Sch := { g := g }
        for t in sched do
          gq := release cfg sy gq (i + t)
          if !gq.q.isEmpty && !tags.contains "mutex-wait" then tags := "mutex-wait" :: tags
          if !gq.q.isEmpty && !gq.atB.isEmpty && !tags.contains "wait-behind-body-get" then tags := "wait-behind-body-get" :: tags
        -- drain: the lowest thread that can be released (unfinished and not blocked on `mux`)
        for _ in [0:5 * n + 4] do
          match (List.range n).find? (fun t => !finished gq.g (i + t) && !gq.q.contains (i + t)) with
          | some t => gq := release cfg sy gq (i + t)
          | none => pure ()
        if !gq.atB.isEmpty && !tags.contains "body-get-yield" then tags := "body-get-yield" :: tags
        g := gq.g
        if g.sh.heap.live.length != g.sh.store.length && cfg.maxBytes > 0 && !tags.contains "heap-store-mismatch" then
          tags := "heap-store-mismatch" :: tags
        for t in [0:n] do
          let s := obsOf cfg g (i + t)
          if s == "deadlock" then dead := true
          out := out.push s
          k1 := k1.push (Known.K1 pre g (i + t))
          if Known.K1any pre g (i + t) && !tags.contains "k1-region" then tags := "k1-region" :: tags
        i := i + n
  return (out.toList, tags, k1.toList)

def mkRecs (ops : List DOp) (obs : List Obs) : List OpRec := Id.run do
  let mut t := T0
  let mut recs : Array OpRec := #[]
  let mut lastGrp := 0
  let mut idx := 0
  for (o, ob) in ops.zip obs do
    if o.grp == 0 || o.grp != lastGrp then t := t + o.dt
    let ran := match ob with | .resp _ r _ _ => r | _ => false
    let hd := if ran then o.hdelay else 0      -- the handler's delay only passes when it is invoked
    recs := recs.push { idx := idx, req := o.req, grp := o.grp, t0 := t, t1 := t + hd, obs := ob }
    t := t + hd
    lastGrp := o.grp
    idx := idx + 1
  return recs.toList

def handleCase (f : List String) : Except String Verdict := do
  match f with
  | [id, cfgS, methods, opsS, schedS, impl] =>
    let d ← parseCfg cfgS methods
    let ops ← (opsS.splitOn "|").mapM (parseOp d)
    if ops.isEmpty || ops.length > 40 then dom "ops"
    let scheds ← parseScheds schedS
    checkGroups ops scheds
    let cfg := d.cfg
    let (mo, mtags, k1s) := runModel cfg d.sy ops scheds
    let modelObs := "|".intercalate mo
    let implParts := impl.splitOn "|"
    let specAt : Option (Nat × String) :=
      if implParts.length != ops.length then some (0, "unparsable-observation")
      else match implParts.mapM parseObs with
        | none => some (0, "unparsable-observation")
        | some obs => specViolationAt cfg (mkRecs ops obs)
    let spec := specAt.map (·.2)
    -- the known finding K1 is claimed for the failing request only when the model places it in K1's region
    let known : Option String := match specAt with
      | some (i, c) => if (k1s.getD i fun _ => false) c then some "K1" else none
      | none => none
    -- branch tags from the model's run
    let has (p : String → Bool) := mo.any p
    let tags :=
      (if ops.any (·.grp != 0) then ["conc"] else ["seq"]) ++
      (if cfg.ext then ["ext"] else ["mem"]) ++
      (if has (·.startsWith "h;") then ["hit"] else []) ++
      (if has (·.startsWith "m;") then ["miss"] else []) ++
      (if has (·.startsWith "u;") then ["unreachable"] else []) ++
      (if has (·.startsWith "n;") then ["bypass"] else []) ++
      (if cfg.maxBytes > 0 then ["maxbytes"] else []) ++
      (if d.sy then ["storage-yield"] else []) ++
      (if ops.any (fun o => !o.req.f1.isEmpty || !o.req.f2.isEmpty) then ["storage-faults"] else []) ++
      mtags ++
      (if has (·.startsWith "h;") && has (·.startsWith "m;") then ["nt"] else [])
    pure { id := id, modelObs := modelObs, implObs := impl, spec := spec, known := known, tags := tags }
  | _ => dom s!"expected 6 fields, got {f.length}"

def main : IO Unit := run handleCase
