import FiberModel.DriverUtil
import FiberModel.C11.Spec
import FiberModel.C11.Float
/-
Driver for C11. Case fields (after the id):
  rt  source split auto schema  v₁ … vₙ (one hex list of texts per schema entry)            implObs
  raw source split auto target schema ctype(hex) payload(hex) headers(hex list "Name: value") mp implObs
mp  = what fasthttp's multipart reader finds in the body (a parameter of the model, shipped by the
      harness): `-` (not the multipart branch) | `err` | `ok:` entries `hex(name)=hexlist(values)` and
      `f:hex(name)` (file parts) joined by `/`.
schema = entries `calias:salias:qalias:goName:kind:bits:slice` (hex names) joined by `|`.
implObs = `wire=…;dec=…;err=…;code=…;status=…;codec=…` | `senderr=…` | `notrun;status=…` | `panic=…`.
-/
open B DriverUtil C11

def parseKind (k : String) (bits : Nat) : Option Kind :=
  match k with
  | "str" => some .str
  | "int" => some (.int bits)
  | "uint" => some (.uint bits)
  | "bool" => some .bool
  | "float" => some (.float bits)
  | _ => none

def parseSpec (e : String) : Option FieldSpec :=
  match e.splitOn ":" with
  | [c, s, q, g, k, bits, sl] => do
    let bits ← bits.toNat?
    let kind ← parseKind k bits
    if sl != "0" && sl != "1" then none
    some { calias := ← fromHex c, salias := ← fromHex s, qalias := ← fromHex q, goName := ← fromHex g,
           kind := kind, isSlice := sl == "1" }
  | _ => none

def parseSchema (s : String) : Option (List FieldSpec) := (s.splitOn "|").mapM parseSpec

/-- text → value of a kind, for *reading* protocol fields (client values, decoded observations) -/
def readVal (k : Kind) (t : Bytes) : Option Val :=
  match k with
  | .float _ => some (.float t)
  | .bool => if t = b "true" then some (.bool true) else if t = b "false" then some (.bool false) else none
  | .int bits => match parseInt bits t with
    | some i => if formatInt i = t then some (.int i) else none
    | none => none
  | .uint bits => match parseUint bits t with
    | some n => if formatNat n = t then some (.uint n) else none
    | none => none
  | .str => some (.str t)

def readField (sp : FieldSpec) (s : String) : Option Field := do
  let ts ← hexList s
  let vs ← ts.mapM (readVal sp.kind)
  let f : Field := { spec := sp, vals := vs }
  if f.wellTyped then some f else none

def readStruct : List FieldSpec → List String → Option Struct
  | [], [] => some []
  | sp :: sps, s :: ss => do
    let f ← readField sp s
    let r ← readStruct sps ss
    some (f :: r)
  | _, _ => none

def renderDec (vals : List (List Val)) : String :=
  "/".intercalate (vals.map fun vs => hexListField (vs.map textOf))

def bytesLe : Bytes → Bytes → Bool
  | [], _ => true
  | _ :: _, [] => false
  | x :: xs, y :: ys => if x < y then true else if y < x then false else bytesLe xs ys

def sortBytes (l : List Bytes) : List Bytes := l.mergeSort bytesLe

def renderMap (m : List (Bytes × List Bytes)) : String :=
  if m.isEmpty then "-" else
  let keys := sortBytes (m.map (·.1))
  "/".intercalate (keys.map fun k => toHexField k ++ "=" ++ hexListField ((m.find? (·.1 = k)).map (·.2) |>.getD []))

def kvOf (s : String) : List (String × String) :=
  (s.splitOn ";").filterMap fun p => match p.splitOn "=" with
    | k :: v :: rest => some (k, "=".intercalate (v :: rest))
    | _ => none

structure ImplObs where
  kind : String            -- "obs" | "senderr" | "notrun" | "panic"
  wire : String := "-"
  dec : String := "-"
  err : Bool := false
  code : Nat := 0
  status : Nat := 0
  codec : String := "-"

def parseImpl (s : String) : Option ImplObs :=
  if s.startsWith "senderr=" then some { kind := "senderr" }
  else if s.startsWith "panic=" then some { kind := "panic" }
  else if s.startsWith "notrun;" then
    match (kvOf s).find? (·.1 == "status") with
    | some (_, v) => v.toNat?.map fun st => { kind := "notrun", status := st }
    | none => none
  else
    let kv := kvOf s
    let get (k : String) : Option String := (kv.find? (·.1 == k)).map (·.2)
    do
      let wire ← get "wire"
      let dec ← get "dec"
      let err ← get "err"
      let code ← (← get "code").toNat?
      let status ← (← get "status").toNat?
      let codec ← get "codec"
      if err != "0" && err != "1" then none
      some { kind := "obs", wire := wire, dec := dec, err := err == "1", code := code, status := status, codec := codec }

def renderObs (wire dec : String) (err : Bool) (code status : Nat) (codec : String) : String :=
  s!"wire={wire};dec={dec};err={if err then 1 else 0};code={code};status={status};codec={codec}"

def transportOf (s : String) : Option Transport :=
  match s with
  | "query" => some .query | "form" => some .form | "multipart" => some .multipart
  | "header" => some .header | "cookie" => some .cookie | "json" => some .json
  | "xml" => some .xml | "cbor" => some .cbor | _ => none

/-- decoded observation → typed values -/
def readDec (specs : List FieldSpec) (dec : String) : Option (List (List Val)) :=
  let parts := dec.splitOn "/"
  if parts.length != specs.length then none
  else (specs.zip parts).mapM fun (sp, p) => do
    let ts ← hexList p
    ts.mapM (readVal sp.kind)

/-- the float converter of the model (Float.lean); a text outside the modelled grammar (underscores,
    hexadecimal mantissas) is never passed: the callers check `floatUnsupported` first -/
def mFloat : Nat → Bytes → Option Bytes := fun bits t =>
  match floatConvX bits t with
  | some r => r
  | none => some t

/-- some float text of the case is outside the modelled grammar, or is one the model cannot format -/
def floatTextUnsupported (bits : Nat) (t : Bytes) : Bool :=
  !t.isEmpty &&
  match floatConvX bits t with
  | none => true
  | some (some _) => false
  | some none => t.contains 44 && (splitOn t 44).any fun p => !p.isEmpty && (floatConvX bits p).isNone

/-- data keys that would make gofiber/schema's result depend on Go's map order, or that fold to an
    alias only under Unicode case folding (U+017F, U+212A) -/
def ambiguous (specs : List FieldSpec) (data : List (Bytes × List Bytes)) : Bool :=
  specs.any (fun f => decide ((data.filter fun kv => !kv.1.contains 46 && toLower kv.1 == toLower f.salias).length > 1)) ||
  data.any fun kv => (indexOf kv.1 [197, 191]).isSome || (indexOf kv.1 [226, 132, 170]).isSome

def floatUnsupported (specs : List FieldSpec) (data : List (Bytes × List Bytes)) : Bool :=
  specs.any fun f => match f.kind with
    | .float bits => match lookupField data f.salias with
      | some ts => ts.any (floatTextUnsupported bits)
      | none => false
    | _ => false

def floatTouched (specs : List FieldSpec) (data : List (Bytes × List Bytes)) : Bool :=
  specs.any fun f => match f.kind with
    | .float _ => match lookupField data f.salias with
      | some ts => ts.any (!·.isEmpty)
      | none => false
    | _ => false

def isZeroStruct (st : Struct) : Bool :=
  st.all fun f => f.vals.all fun v => v == zeroOf (b "0") f.spec.kind

def sourceOf : Transport → Option Source
  | .query => some .query | .form => some .form | .header => some .header | .cookie => some .cookie
  | _ => none

def cookieItems (ps : List (Bytes × Bytes)) : Bytes :=
  join (sortBytes (ps.map fun kv => if kv.1.isEmpty then kv.2 else kv.1 ++ [61] ++ kv.2)) [59, 32]

def handleRT (id : String) (src split auto schema : String) (vals : List String) (impl : String) :
    Except String Verdict := do
  let some t := transportOf src | throw "outside-domain: source"
  if (split != "0" && split != "1") || (auto != "0" && auto != "1") then throw "outside-domain: flags"
  let split := split == "1"
  let auto := auto == "1"
  let some specs := parseSchema schema | throw "outside-domain: schema"
  if !specsOK specs then throw "outside-domain: schema aliases"
  let some st := readStruct specs vals | throw "outside-domain: struct value"
  let some io := parseImpl impl | throw "unparsable-observation"
  let wf := wfStruct t st
  -- ---- model ----
  let body (codec : String) (ct : Bytes) : String :=
    renderObs (toHexField ct) (renderDec (structVals st)) false 0 200 codec
  let viaPairs (s : Source) (wire : String) (pairs : List (Bytes × Bytes)) : String :=
    let r := bindPairs mFloat (b "0") specs s split pairs
    renderObs wire (renderDec (structVals r.value)) r.err (codeOf auto r.err) (statusOf auto r.err false) "-"
  -- `none` = the case is outside the modelled domain of its transport (prediction = observation)
  let hasCRLF := st.any fun f => f.vals.any fun v => match v with
    | .str s => s.contains 10 || s.contains 13
    | _ => false
  let modelObs? : Option String :=
    match t with
    | .header =>
      -- fasthttp's header writer + scanner are modelled for every LF/CR-free value, inside `wfVal` or not
      if hasCRLF then none
      else match headerTransport (clientPairs st) with
        | .ok ps _ =>
          -- the harness lists the `X-…` lines only (the others are the client's own headers)
          let xs := ps.filter fun kv => decide (kv.1.length > 2) && kv.1.take 2 == b "X-"
          some (viaPairs .header (hexListField (xs.map fun kv => kv.1 ++ b ": " ++ kv.2)) ps)
        | .bad => some "notrun;status=400"
        | .unsupported => none
    | .cookie =>
      let ps := cookiePairs st
      if wf then some (viaPairs .cookie (toHexField (cookieItems ps)) (parseCookies (renderCookies ps)))
      else
        -- outside `wfVal`: the Cookie header is one header line (scanner + byte check), then the cookie
        -- scanner. Not predicted when the outcome depends on the Go map order of the client's store
        -- (a ';' inside a value makes new pairs, a trailing blank is stripped only at the end of the line).
        let orderDependent := st.any fun f => f.vals.any fun v => match v with
          | .str s => s.contains 59 || s.getLast? == some 9 || s.getLast? == some 32
          | _ => false
        if hasCRLF || orderDependent then none
        else
          let h := renderCookies ps
          if !h.all headerValueByte then some "notrun;status=400"
          else
            -- the wire observation is the header as received (quotes still in place)
            some (viaPairs .cookie (toHexField (cookieItems ps)) (parseCookies h))
    | _ =>
      if !wf then none
      else match t with
      | .query => let w := renderArgs (clientPairs st); some (viaPairs .query (toHexField w) (parseArgs w))
      | .form => let w := renderArgs (clientPairs st); some (viaPairs .form (toHexField w) (parseArgs w))
      | .header => none
      | .cookie => none
      | .multipart =>
        -- wire = content type ':' length '.' checksum of the body. The boundary is drawn at random by the client: the model takes
        -- it from the observed content type (a parameter), writes the body (`parserRequestBodyFile`),
        -- reads it back (mime/multipart reader on that shape) and binds the values found
        -- (`FormBinding.bindMultipart` runs the same `formatBindData` as the urlencoded form).
        match io.wire.splitOn ":" with
        | [cth, _] =>
          match (fromHex cth).bind (cutAtPat (b "boundary=")) with
          | some (_, bd) =>
            let body := writeMultipart bd (clientPairs st) [(b "file1", b "f.txt", b "file-content")]
            -- the observation carries length and a rolling checksum of the body the client wrote
            let h := body.foldl (fun h c => (h * 257 + c + 1) % 1000000007) 0
            let w := toHexField (b "multipart/form-data; boundary=" ++ bd) ++ s!":{body.length}.{h}"
            match readMultipart bd body with
            | some ps => some (viaPairs .form w ps)
            | none => none      -- some value contains CRLF "--" boundary: outside the reader model
          | none => some (viaPairs .form "?" (clientPairs st))
        | _ => some (viaPairs .form "?" (clientPairs st))
      | .json => some (body "json" (b "application/json"))
      | .xml => some (body "xml" (b "application/xml"))
      | .cbor => some (body "cbor" (b "application/cbor"))
  -- the claim behind `floatOK_exact`: a value whose full decimal expansion has at most 15 significant
  -- digits is sent as that expansion. Checked on every float of every round trip.
  let floatTexts : List (Nat × Bytes) := st.flatMap fun f => match f.spec.kind with
    | .float bits => f.vals.filterMap fun v => match v with
      | .float t => some (bits, t)
      | _ => none
    | _ => []
  let shortExact (bt : Nat × Bytes) : Option Bool :=   -- some ok = in the exact class
    match parseFloat bt.1 bt.2 with
    | some (some (.fin neg m e)) => if isShortExact m e then some (exactText neg m e == bt.2) else none
    | _ => none
  let exactBroken := floatTexts.any fun bt => shortExact bt == some false
  let modelObs : String := if exactBroken then "model-claim-broken: short float not sent as its exact expansion"
                           else modelObs?.getD impl
  -- ---- spec on the implementation's observation ----
  let obs : Option Obs :=
    match io.kind with
    | "panic" => some { panicked := true, ran := true, sendErr := false, dec := [], err := false, code := 0, status := 0 }
    | "senderr" => some { panicked := false, ran := false, sendErr := true, dec := [], err := false, code := 0, status := 0 }
    | "notrun" => some { panicked := false, ran := false, sendErr := false, dec := [], err := false, code := 0, status := io.status }
    | _ => (readDec specs io.dec).map fun d =>
        { panicked := false, ran := true, sendErr := false, dec := d, err := io.err, code := io.code, status := io.status }
  let spec : Option String := match obs with
    | none => some "unparsable-observation"
    | some o => specRoundTrip t split auto st o
  -- K1 is claimed only for exactly the recorded defect: cookie source, some slice with ≥ 2 elements,
  -- and the server received the struct with every slice cut to its last element, without error.
  -- Any other deviation in that region stays an unexcused failure.
  let k1region := t == .cookie && multiValuedSlice st
  let k1 := k1region && io.kind == "obs" && !io.err && io.status == 200 &&
            (readDec specs io.dec) == some (structVals (lastOnly st))
  let tags := [s!"rt-{src}", if wf then "wf" else "not-wf"] ++ (if modelObs?.isNone then ["outside-model"] else []) ++ [
               if split && !noCommas st then "split-with-commas" else if split then "split-no-commas" else "nosplit"] ++
              (if floatTexts.any (fun bt => (shortExact bt).isSome && bt.2 != b "0") then ["float-exact"] else []) ++
              (if floatTexts.any (fun bt => (shortExact bt).isNone) then ["float-shortest"] else []) ++
              (if k1region then ["k1-region"] else []) ++ (if k1 then ["k1-exact"] else []) ++
              (if wf && !isZeroStruct st then [s!"nt-rt-{src}"] else [])
  pure { id := id, modelObs := modelObs, implObs := impl, spec := spec,
         known := if k1 && spec == some "roundtrip-equal-value" then some "K1" else none, tags := tags }

def specialHeader (k : Bytes) : Bool :=
  [b "host", b "content-type", b "content-length", b "user-agent", b "cookie", b "connection",
   b "transfer-encoding", b "trailer"].contains (toLower k)

def cutHeader (h : Bytes) : Option (Bytes × Bytes) :=
  match indexOf h (b ": ") with
  | some i => some (h.take i, h.drop (i + 2))
  | none => none

inductive MpInfo where
  | na
  | err
  | ok (values : List (Bytes × List Bytes)) (files : List Bytes)

def parseMp (s : String) : Option MpInfo :=
  if s == "-" then some .na
  else if s == "err" then some .err
  else if s.startsWith "ok:" then
    let body := (s.drop 3).toString
    if body.isEmpty then some (.ok [] []) else
    let step (acc : Option (List (Bytes × List Bytes) × List Bytes)) (e : String) :=
      match acc with
      | none => none
      | some (vs, fs) =>
        if e.startsWith "f:" then (fromHex (e.drop 2).toString).map fun k => (vs, fs ++ [k])
        else match e.splitOn "=" with
          | [k, l] => do
            let k ← fromHex k
            let l ← hexList l
            some (vs ++ [(k, l)], fs)
          | _ => none
    ((body.splitOn "/").foldl step (some ([], []))).map fun r => .ok r.1 r.2
  else none

def handleRaw (id : String) (src split auto target schema ctype payload hdrs mp impl : String) :
    Except String Verdict := do
  let some mp := parseMp mp | throw "outside-domain: multipart info"
  if (split != "0" && split != "1") || (auto != "0" && auto != "1") then throw "outside-domain: flags"
  if target != "struct" && target != "map" then throw "outside-domain: target"
  let split := split == "1"
  let auto := auto == "1"
  let some specs := parseSchema schema | throw "outside-domain: schema"
  if !specsOK specs then throw "outside-domain: schema aliases"
  let some ctype := fromHex ctype | throw "outside-domain: ctype"
  let some payload := fromHex payload | throw "outside-domain: payload"
  let some hdrs := hexList hdrs | throw "outside-domain: headers"
  let some io := parseImpl impl | throw "unparsable-observation"
  if io.kind == "senderr" || io.kind == "notrun" then throw "outside-domain: raw case did not run"
  -- pairs as the binder's VisitAll yields them, and the wire observation
  let (s, pairs, wire, codec, opq, noCodec) ←
    (match src with
     | "query" =>
       -- a request target with control bytes, '#', ' ' or "://" does not reach the handler as given
       if payload.any (fun c => c < 33 || c == 127 || c == 35) || (indexOf payload (b "://")).isSome then
         throw "outside-domain: query bytes the URI parser rejects or rewrites"
       else pure (Source.query, parseArgs payload, toHexField payload, "-", false, false)
     | "cookie" =>
       let ps := parseCookies payload
       pure (Source.cookie, ps, toHexField (cookieItems ps), "-", false, false)
     | "header" =>
       match hdrs.mapM cutHeader with
       | none => throw "outside-domain: header line"
       | some ps =>
         if ps.any (fun kv => specialHeader kv.1 || kv.1.isEmpty || normalizeHeaderKey kv.1 != kv.1) then
           throw "outside-domain: header name"
         else
           let xs := ps.filter fun kv => decide (kv.1.length > 2) && kv.1.take 2 == b "X-"
           pure (Source.header, ps, hexListField (xs.map fun kv => kv.1 ++ b ": " ++ kv.2), "-", false, false)
     | "body" =>
       let w := toHexField ctype
       match dispatch ctype with
       | .none => pure (Source.form, [], w, "-", false, true)
       | .json => pure (Source.form, [], w, "json", true, false)
       | .xml => pure (Source.form, [], w, "xml", true, false)
       | .cbor => pure (Source.form, [], w, "cbor", true, false)
       | .form =>
         if formIsMultipart ctype then
           -- `FormBinding.bindMultipart`: the multipart reader is a parameter (`mp`); the binder walks
           -- a Go map, so the order of the *names* is arbitrary: inputs whose result would depend on
           -- it (two names that normalise to one key) are outside the domain.
           match mp with
           | .na => throw "outside-domain: multipart info missing"
           | .err => pure (Source.form, [(b "[", [])], w, "-", false, false)   -- any error: same outcome as a bracket error
           | .ok vals files =>
             if files.any (·.contains 91) then throw "outside-domain: bracketed file part name"
             else
               let norm := vals.map fun kv => if kv.1.contains 91 then parseParamSquareBrackets kv.1 else some kv.1
               if !nodupB (norm.filterMap fun x => x) then
                 pure (Source.form, [], w, "-", true, false)   -- order-dependent: value taken from the observation
               else pure (Source.form, vals.flatMap (fun kv => kv.2.map fun v => (kv.1, v)), w, "-", false, false)
         else
           match mp with
           | .na => pure (Source.form, postArgs ctype payload, w, "-", false, false)
           | _ => throw "outside-domain: multipart info for a non-multipart body"
     | _ => throw "outside-domain: source" : Except String (Source × List (Bytes × Bytes) × String × String × Bool × Bool))
  let zeroDec := if target == "map" then "-" else renderDec (structVals (zeroStruct (b "0") specs))
  let mut outside := false
  let modelObs ←
    (if noCodec then pure (renderObs wire zeroDec true 422 422 "-")
     else if opq then
       -- codec internals are parameters of the model: decoded value and success are taken from the
       -- observation; selection, error code and status are predicted
       if io.kind == "panic" then pure impl
       else pure (renderObs wire io.dec io.err (codeOf auto io.err) (statusOf auto io.err false) codec)
     else if target == "map" then
       match bindPairsMap s split pairs with
       | none => pure (renderObs wire "-" true (codeOf auto true) (statusOf auto true false) "-")
       | some m => pure (renderObs wire (renderMap m) false 0 200 "-")
     else
       match collect (equalFieldType specs) split s.brackets pairs [] with
       | none => pure (renderObs wire zeroDec true (codeOf auto true) (statusOf auto true false) "-")
       | some data =>
         if ambiguous specs data then pure "FLOAT"   -- Go map order decides: not predicted
         else if floatUnsupported specs data then pure "FLOAT"
         else
           let r := decodeFields mFloat (b "0") specs data
           pure (renderObs wire (renderDec (structVals r.1)) r.2 (codeOf auto r.2)
                   (statusOf auto r.2 false) "-") : Except String String)
  if modelObs == "FLOAT" then outside := true
  let modelObs := if modelObs == "FLOAT" then impl else modelObs
  if modelObs == impl && opq then outside := true
  let obs : Obs :=
    { panicked := io.kind == "panic", ran := true, sendErr := false, dec := [], err := io.err, code := io.code, status := io.status }
  -- 422 is the documented outcome only for a body whose content type selects no decoder
  -- inputs that cannot be bound must be refused (only where the pairs the binder sees are known:
  -- not for the opaque body codecs, not when no decoder is selected)
  let refuse := if opq || noCodec then none else mustFail specs s.brackets (target == "struct") pairs
  let spec := specTotal auto (src == "body" && dispatch ctype == Codec.none) obs refuse
  let floatTag : List String :=
    if target == "struct" && !opq && !noCodec then
      match collect (equalFieldType specs) split s.brackets pairs [] with
      | some data =>
        if floatTouched specs data then [if floatUnsupported specs data then "float-unsupported" else "float-modelled"] else []
      | none => []
    else []
  let tags := [s!"raw-{src}", s!"to-{target}", if io.err then "err" else "ok"] ++ floatTag ++
              (if opq then ["codec-opaque"] else []) ++ (if noCodec then ["no-codec"] else []) ++
              (if outside then ["outside-model"] else []) ++
              (match refuse with | some c => [s!"must-{c}"] | none => []) ++
              (match mp with | .ok _ _ => ["multipart-parsed"] | .err => ["multipart-unreadable"] | .na => []) ++
              (if src == "body" then [s!"dispatch-{codec}"] else []) ++
              (if !payload.isEmpty || !hdrs.isEmpty then [s!"nt-raw-{src}"] else [])
  pure { id := id, modelObs := modelObs, implObs := impl, spec := spec, tags := tags }

def handleCase (f : List String) : Except String Verdict := do
  match f with
  | id :: "rt" :: src :: split :: auto :: schema :: rest =>
    match rest.reverse with
    | impl :: valsRev => handleRT id src split auto schema valsRev.reverse impl
    | [] => throw "outside-domain: fields"
  | [id, "raw", src, split, auto, target, schema, ctype, payload, hdrs, mp, impl] =>
    handleRaw id src split auto target schema ctype payload hdrs mp impl
  | _ => throw s!"outside-domain: unknown case shape ({f.length} fields)"

def main : IO Unit := run handleCase
