import FiberModel.DriverUtil
import FiberModel.C11.Spec
import FiberModel.C18.Spec
import FiberModel.C18.Pool
import FiberModel.C18.History
import FiberModel.C18.Malformed
/-
Driver for C18. Case shapes (after the id):
  asm   base url method cH rH cQ rQ cC rC cP rP jarC cUA rUA cRef rRef cTO rTO bodyKind body form files delay  implObs
  jar   ops                                                                                                       implObs
  sched acts                                                                                                      implObs
  stress workers perWorker delayMs timeoutMs                                                                      implObs
Entry lists are `p1:p2[:p3]` items (hex parts, `_` = empty) joined by ',' (`-` = none).
-/
open B DriverUtil C18

def unPart (s : String) : Option Bytes := if s == "_" || s == "-" then some [] else fromHexAux s.toList

def entries (s : String) (arity : Nat) : Option (List (List Bytes)) :=
  if s == "-" then some []
  else (s.splitOn ",").mapM fun it =>
    let ps := it.splitOn ":"
    if ps.length != arity then none else ps.mapM unPart

def opsOf (es : List (List Bytes)) : Option (List Op) :=
  es.mapM fun e => match e with
    | [o, k, v] => if o = b "a" then some (.add k v) else if o = b "s" then some (.set k v) else none
    | _ => none

def kvOf (es : List (List Bytes)) : Option (List KV) :=
  es.mapM fun e => match e with
    | [k, v] => some (k, v)
    | _ => none

/-- a `set` that hits a key holding two or more values is store-implementation territory -/
def opsUnambiguous (ops : List Op) : Bool :=
  (ops.foldl (fun (acc : List KV × Bool) o => match o with
    | .add k v => (storeAdd acc.1 k v, acc.2)
    | .set k v => (storeSet (storeDel acc.1 k) k v, acc.2 && decide ((valuesOf acc.1 k).length ≤ 1))) ([], true)).2

def tokenOK (s : Bytes) : Bool := !s.isEmpty && s.all fun c => isAlpha c || isDigit c || c == 45 || c == 95

def hexKV (kv : KV) : String := toHexField kv.1 ++ ":" ++ toHexField kv.2

def joinOr (xs : List String) : String := if xs.isEmpty then "-" else ",".intercalate xs

def strLe (a c : String) : Bool := !bytesLt (c.toList.map Char.toNat) (a.toList.map Char.toNat)

def sortStrings (l : List String) : List String := l.mergeSort strLe

def sortBytesList (l : List Bytes) : List Bytes := l.mergeSort fun a c => !bytesLt c a

/-- multipart form fields as the harness lists them: names sorted, values in order -/
def groupByName (fs : List KV) : List KV :=
  (sortBytesList ((fs.map (·.1)).eraseDups)).flatMap fun k => (valuesOf fs k).map fun v => (k, v)

def renderAsm (a : Assembled) : String :=
  let q := (parseArgsNV a.rawQuery).map fun x => hexKV (x.key, x.value)
  let h := (a.headers.filter fun kv => decide (kv.1.length > 2) && kv.1.take 2 == b "X-").map hexKV
  let ck := sortStrings (a.cookies.map hexKV)
  let (body, ff, files) : String × String × String := match a.body with
    | .none => ("-", "-", "-")
    | .raw bs => (toHexField bs, "-", "-")
    | .form fs => (toHexField (C11.renderArgs fs), "-", "-")
    | .files fs fl =>
      let named := fileFieldNames fl
      let names := sortBytesList ((named.map (·.1)).eraseDups)
      let fl' := names.flatMap fun n => named.filter (·.1 = n)
      ("mp", joinOr ((groupByName fs).map hexKV),
       joinOr (fl'.map fun f => toHexField f.1 ++ ":" ++ toHexField f.2.1 ++ ":" ++ toHexField f.2.2))
  s!"m={toHexField a.method};host={toHexField a.host};path={toHexField (collapseSlashes a.path)};rq={toHexField a.rawQuery};" ++
  s!"q={joinOr q};h={joinOr h};ua={toHexField a.userAgent};ref={toHexField a.referer};ck={joinOr ck};" ++
  s!"ct={toHexField a.contentType};body={body};ff={ff};files={files};po={toHexField a.path}"

def kvPairs (s : String) : Option (List KV) :=
  if s == "-" then some [] else (s.splitOn ",").mapM fun it => match it.splitOn ":" with
    | [k, v] => do some ((← unPart k), (← unPart v))
    | _ => none

def triples (s : String) : Option (List (Bytes × Bytes × Bytes)) :=
  if s == "-" then some [] else (s.splitOn ",").mapM fun it => match it.splitOn ":" with
    | [a, c, d] => do some ((← unPart a), (← unPart c), (← unPart d))
    | _ => none

/-- the path the client put into the request URI (before fasthttp's normalisation) -/
def sentPathOf (s : String) : Option Bytes :=
  ((s.splitOn ";").filterMap fun p => match p.splitOn "=" with
    | ["po", v] => fromHex v
    | _ => none).head?

def parseAsmObs (s : String) : Option AsmObs := do
  let kv := (s.splitOn ";").filterMap fun p => match p.splitOn "=" with
    | [k, v] => some (k, v)
    | _ => none
  let get (k : String) : Option String := (kv.find? (·.1 == k)).map (·.2)
  let body ← get "body"
  let bo : BodyObs ← (if body == "mp" then do
      some (BodyObs.multipart (← (← get "ff") |> kvPairs) (← (← get "files") |> triples))
    else if body == "mperr" then some BodyObs.broken
    else (fromHex body).map BodyObs.bytes)
  some { method := ← (← get "m") |> fromHex, host := ← (← get "host") |> fromHex, path := ← (← get "path") |> fromHex,
         query := ← (← get "q") |> kvPairs, headers := ← (← get "h") |> kvPairs,
         userAgent := ← (← get "ua") |> fromHex, referer := ← (← get "ref") |> fromHex,
         cookies := ← (← get "ck") |> kvPairs, contentType := ← (← get "ct") |> fromHex, body := bo }

def methodsOK : List Bytes := [b "GET", b "POST", b "PUT", b "DELETE", b "PATCH", b "OPTIONS", b "HEAD"]

def urlBytesOK (u : Bytes) : Bool := u.all fun c => 32 < c && c < 127

def handleAsm (id : String) (f : List String) (impl : String) : Except String Verdict := do
  match f with
  | [base, url, method, cH, rH, cQ, rQ, cC, rC, cP, rP, jarC, cUA, rUA, cRef, rRef, cTO, rTO, bodyKind, body, form, files, delay] =>
    let bad (what : String) : Except String Verdict := throw s!"outside-domain: {what}"
    let some base := fromHex base | bad "base"
    let some url := fromHex url | bad "url"
    let some method := fromHex method | bad "method"
    let some cH := (entries cH 3).bind opsOf | bad "cH"
    let some rH := (entries rH 3).bind opsOf | bad "rH"
    let some cQ := (entries cQ 3).bind opsOf | bad "cQ"
    let some rQ := (entries rQ 3).bind opsOf | bad "rQ"
    let some cC := (entries cC 2).bind kvOf | bad "cC"
    let some rC := (entries rC 2).bind kvOf | bad "rC"
    let some cP := (entries cP 2).bind kvOf | bad "cP"
    let some rP := (entries rP 2).bind kvOf | bad "rP"
    let some jarC := (entries jarC 2).bind kvOf | bad "jarC"
    let some cUA := fromHex cUA | bad "cUA"
    let some rUA := fromHex rUA | bad "rUA"
    let some cRef := fromHex cRef | bad "cRef"
    let some rRef := fromHex rRef | bad "rRef"
    let some cTO := cTO.toNat? | bad "cTO"
    let some rTO := rTO.toNat? | bad "rTO"
    let some delay := delay.toNat? | bad "delay"
    let some bodyB := fromHex body | bad "body"
    let some formOps := (entries form 3).bind opsOf | bad "form"
    let some fileL := (entries files 3) | bad "files"
    let fileT : List (Bytes × Bytes × Bytes) := fileL.filterMap fun e => match e with
      | [a, c, d] => some (a, c, d) | _ => none
    -- domain guards
    if !methodsOK.contains method then bad "method" else
    if !(base.isEmpty || (hasProtocol base && urlBytesOK base && !base.contains 63 && !base.contains 35)) then bad "base url" else
    if !urlBytesOK url then bad "url bytes" else
    if !([cH, rH, cQ, rQ, formOps].all opsUnambiguous) then bad "set on a multi-valued key" else
    if !((cH ++ rH).all fun o => match o with
          | .add k v | .set k v => tokenOK k && decide (k.length > 2) && k.take 2 == b "X-" &&
              C11.headerValueOK v && (match C11.utf8Decode k with | some _ => true | none => false)) then bad "header name/value" else
    if !((cC ++ rC ++ jarC).all fun kv => tokenOK kv.1 && C11.cookieValueOK kv.2) then bad "cookie name/value" else
    if !([cUA, rUA, cRef, rRef].all C11.headerValueOK) then bad "user agent / referer value" else
    if !((cP ++ rP).all fun kv => !kv.1.isEmpty && kv.1.all nameByte) then bad "path parameter name" else
    if !(fileT.all fun t => (t.1.isEmpty || tokenOK t.1) && !t.2.1.isEmpty && t.2.1.all (fun c => tokenOK [c] || c == 46 || c == 32)) then bad "file names" else
    if !(["none", "raw", "form", "files"].contains bodyKind) then bad "body kind" else
    let eff := if rTO > 0 then rTO else cTO
    if delay > 0 && eff > 0 && !(eff * 4 ≤ delay || delay * 4 ≤ eff) then bad "timeout too close to the delay" else
    -- the request object comes from the pool: an earlier user (the harness' pollution round) configured it,
    -- sent it and released it; the case's setters are applied to what `Reset` left
    let setOps (add set : Bytes → Bytes → Setter) (ops : List Op) : List Setter :=
      ops.map fun o => match o with
        | .add k v => add k v
        | .set k v => set k v
    let pollution : List Setter :=
      [.setClient 1, .addHeader (b "X-Leak") (b "h"), .setHeader (b "X-Leak2") (b "h2"), .addParam (b "leak") (b "p"),
       .setParam (b "x") (b "leak"), .setCookie (b "leakc") (b "v"), .setCookie (b "c1") (b "leak"),
       .setPathParam (b "id") (b "LEAK"), .setPathParam (b "missing") (b "LEAK"), .setPathParam (b "a") (b "LEAK"),
       .setUserAgent (b "leak-agent"), .setReferer (b "http://leak/"), .setTimeout 7000, .setMaxRedirects 3, .setContext,
       .addFormData (b "leakf") (b "v"), .addFile (b "leakfile") (b "leak.txt") (b "leak"),
       .setURL (b "http://leak.test/leak/:missing?lq=1"), .setMethod (b "POST")]
    let caseSetters : List Setter :=
      [.setClient 0] ++ setOps .addHeader .setHeader rH ++ setOps .addParam .setParam rQ ++
      rC.map (fun kv => .setCookie kv.1 kv.2) ++ rP.map (fun kv => .setPathParam kv.1 kv.2) ++
      (if rUA.isEmpty then [] else [.setUserAgent rUA]) ++ (if rRef.isEmpty then [] else [.setReferer rRef]) ++
      (if rTO > 0 then [.setTimeout rTO] else []) ++
      (match bodyKind with
        | "raw" => [.setRawBody bodyB]
        | "form" => setOps .addFormData .setFormData formOps
        | "files" => setOps .addFormData .setFormData formOps ++ fileT.map fun t => .addFile t.1 t.2.1 t.2.2
        | _ => []) ++ [.setURL url, .setMethod method]
    let reqObj := configure caseSetters (resetReq (configure pollution newReq))
    let cfg : Config := {
      baseURL := base, url := reqObj.url, method := reqObj.method,
      client := { headers := applyOps cH, params := applyOps cQ, cookies := mapOf cC, pathParams := mapOf cP,
                  userAgent := cUA, referer := cRef, timeout := cTO },
      request := levelOf reqObj,
      jar := mapOf jarC,
      body := bodyOf reqObj }
    let sp := split2 url 63
    let uri0 := if hasProtocol sp.1 then sp.1 else base ++ sp.1
    let urlArgs := (parseArgsNV (split2 sp.2 35).1).map fun a => (a.key, a.value)
    let keys := cfg.request.pathParams.map (·.1) ++ cfg.client.pathParams.map (·.1)
    let tOK := templateOK uri0 keys
    let k2 := unsafePathValue uri0 cfg.request.pathParams cfg.client.pathParams
    let willTimeout := delay > 0 && eff > 0 && eff < delay
    let detOf (s : String) : Option (String × Bool) :=
      if s.endsWith ";det=1" then some ((s.dropEnd 6).toString, true)
      else if s.endsWith ";det=0" then some ((s.dropEnd 6).toString, false) else none
    let some (implCore0, det) := detOf impl | throw "unparsable-observation"
    let poolOf (s : String) : Option (String × Bool) :=
      if s.endsWith ";pool=1" then some ((s.dropEnd 7).toString, true)
      else if s.endsWith ";pool=0" then some ((s.dropEnd 7).toString, false) else none
    let some (implCore1, pool) := poolOf implCore0 | throw "unparsable-observation"
    -- the client-level configuration (path parameters, headers, query parameters, cookies under every key of the
    -- history, base URL) read before the first and after the last request of the case's history: equal?
    let ccfgOf (s : String) : Option (String × Bool) :=
      if s.endsWith ";ccfg=1" then some ((s.dropEnd 7).toString, true)
      else if s.endsWith ";ccfg=0" then some ((s.dropEnd 7).toString, false) else none
    let some (implCore, ccfg) := ccfgOf implCore1 | throw "unparsable-observation"
    -- model
    let modelCore : String := match assemble cfg with
      | none => "err=" ++ toHexField (b "the URL is incorrect")
      | some a => if willTimeout then "timeout" else renderAsm a
    -- fasthttp resolves dot segments: such paths are outside the modelled domain ("//" is modelled: collapseSlashes)
    let dotSeg (p : Bytes) : Bool := (indexOf p (b "/./")).isSome || (indexOf p (b "/../")).isSome ||
      hasSuffix p (b "/.") || hasSuffix p (b "/..")
    let needsNorm := match assemble cfg with
      | some a => dotSeg a.path || a.host.isEmpty ||
                  a.host.any (fun c => !(isAlpha c || isDigit c || c == 46 || c == 45 || c == 58))
      | none => false
    if needsNorm && !k2 then throw "outside-domain: URL that the server normalises" else
    -- an ambiguous template leaves the *property* without an expectation for the path; the model of the code is valid there
    let outside := (assemble cfg).isSome && !willTimeout && k2
    let modelObs := if outside then impl else modelCore ++ ";ccfg=" ++ (if (runHistory cfg.client (List.replicate 4 (cfg.request, cfg.body))
        cfg.baseURL cfg.url cfg.method cfg.jar).2 == cfg.client then "1" else "0") ++ ";pool=1;det=1"
    -- spec
    let spec : Option String :=
      if !det then some "deterministic-function-of-configuration"
      else if !pool then some "nothing-leaks-through-pooled-request-response"
      else if !ccfg then some "requests-leave-the-client-configuration-alone"
      else match assemble cfg with
        | none => if implCore.startsWith "err=" then none else some "invalid-url-is-an-error"
        | some _ =>
          if implCore == "timeout" then
            (if delay > 0 && eff > 0 && eff < delay then none else some "timeout(request-over-client)")
          else if willTimeout then some "timeout(request-over-client)"
          else match parseAsmObs implCore with
            | none => some "request-arrives"
            | some o =>
              -- every other clause first: the URL clauses (where K2 lives) hide nothing
              match specAsmRest cfg urlArgs o with
              | some cl => some cl
              | none =>
                -- where the expected path has an empty segment the server's view is ambiguous ("//" collapses on
                -- the way): the path clause is judged on the path the client put into the request URI
                let want := (specHostPath (expectedURI (split2 uri0 35).1 cfg.request.pathParams cfg.client.pathParams)).2
                let o' := if (indexOf want (b "//")).isSome then
                    (match sentPathOf implCore with | some p => { o with path := p } | none => o) else o
                match specAsmURL cfg uri0 o' with
                | some cl => if !tOK && !k2 then none else some cl
                | none => none
    let known := if k2 && spec == some "path-parameter-arrives(request-over-client)" then some "K2" else none
    let levels := (if !cfg.client.pathParams.isEmpty && !cfg.request.pathParams.isEmpty then ["both-path-levels"] else []) ++
                  (if !cfg.client.headers.isEmpty && !cfg.request.headers.isEmpty then ["both-header-levels"] else []) ++
                  (if !cfg.client.cookies.isEmpty && !cfg.request.cookies.isEmpty then ["both-cookie-levels"] else [])
    pure { id := id, modelObs := modelObs, implObs := impl, spec := spec, known := known,
           tags := ["asm"] ++ (if outside then ["outside-model"] else []) ++ (if k2 then ["k2-region"] else []) ++
                   (if !tOK then ["ambiguous-template"] else []) ++ (if delay > 0 then ["asm-timeout"] else []) ++ levels ++
                   (if !outside && (assemble cfg).isSome then ["nt-asm"] else []) }
  | _ => throw s!"outside-domain: asm field count {f.length}"

/-! ### jar -/

def nowT : Nat := 1000000

/-- a `W` of the harness moves the clock past the life of the `s` cookies -/
def waitStep : Nat := 1000

/-- one tick of a ticked history in model time (the whole history stays far below the hour of `f` / `p`) -/
def tickStep : Nat := 10

def expOf (s : String) : Option (Option Nat) :=
  match s with
  | "n" => some none | "p" => some (some (nowT - 3600)) | "f" => some (some (nowT + 3600))
  | "s" => some (some (nowT + waitStep / 2))
  | "t1" => some (some (nowT + 1 * tickStep)) | "t2" => some (some (nowT + 2 * tickStep))
  | "t3" => some (some (nowT + 3 * tickStep)) | "t4" => some (some (nowT + 4 * tickStep))
  | "t5" => some (some (nowT + 5 * tickStep)) | "t6" => some (some (nowT + 6 * tickStep))
  | "t7" => some (some (nowT + 7 * tickStep)) | "t8" => some (some (nowT + 8 * tickStep))
  | "t9" => some (some (nowT + 9 * tickStep))
  | _ => none

/-- `T:k` of the harness: the clock stands in the middle of tick `k` (a `t<k>` cookie expires at the start of tick `k`) -/
def tickOp (s : String) : Option Nat :=
  match s.splitOn ":" with
  | ["T", k] => match k.toNat? with
    | some n => if 1 ≤ n && n ≤ 12 && toString n == k then some n else none
    | none => none
  | _ => none

def isWaitOp (s : String) : Bool := s == "W" || (tickOp s).isSome
def waitObs (s : String) : String := if s == "W" then "w" else "t"

def plainOK (s : Bytes) : Bool := s.all fun c => isAlpha c || isDigit c
def hostOK (s : Bytes) : Bool :=
  !s.isEmpty && (s.all fun c => isAlpha c || isDigit c || c == 46 || c == 58 || c == 45) &&
  decide ((s.filter (· == 58)).length ≤ 1)
def pathOK (s : Bytes) : Bool := s.all fun c => isAlpha c || isDigit c || c == 47

/-- `name~value~path~exp[~mal]`: `mal` = e0 e1 e2 (the unparsable attribute stands directly behind `name=value`) or
    l0 l1 l2 (at the end of the line); the digit picks the attribute (`Max-Age=abc`, `Max-Age=-1`, `Expires=notadate` —
    `Cookie.ParseBytes` fails on all three alike) -/
def malOf (s : String) : Option Mal :=
  if s == "e0" || s == "e1" || s == "e2" then some .early
  else if s == "l0" || s == "l1" || s == "l2" then some .late else none

def parseSetCookie (s : String) : Option SetItem := do
  let (n, v, p, e, m) ← match s.splitOn "~" with
    | [n, v, p, e] => some (n, v, p, e, Mal.none)
    | [n, v, p, e, m] => (malOf m).map fun m => (n, v, p, e, m)
    | _ => none
  let n ← unPart n; let v ← unPart v; let p ← unPart p; let e ← expOf e
  if n.isEmpty || !plainOK n || !plainOK v || !pathOK p then none
  some { cookie := { name := n, value := v, path := p, expiry := e }, mal := m }

/-- the `Set-Cookie` lines of an `R` op string (`[]` for every other op) -/
def respItemsOf (s : String) : List SetItem :=
  match s.splitOn ":" with
  | ["R", _, _, cs] => if cs == "-" then [] else ((cs.splitOn "+").mapM parseSetCookie).getD []
  | _ => []

def parseJarOp (s : String) : Option JarOp :=
  match s.splitOn ":" with
  | ["S", h, n, v, p, e] => do
    let h ← unPart h; let n ← unPart n; let v ← unPart v; let p ← unPart p; let e ← expOf e
    if !hostOK h || n.isEmpty || !plainOK n || !plainOK v || !pathOK p then none
    some (.set h { name := n, value := v, path := p, expiry := e })
  | ["K", h, n, v] => do
    let h ← unPart h; let n ← unPart n; let v ← unPart v
    if !hostOK h || n.isEmpty || !plainOK n || !plainOK v then none
    some (.setKV h n v)
  | ["R", h, p, cs] => do
    let h ← unPart h; let p ← unPart p
    if !hostOK h || !pathOK p || p.head? != some 47 then none
    let items ← if cs == "-" then some [] else (cs.splitOn "+").mapM parseSetCookie
    -- hooks.go parserResponseCookie + cookiejar.go parseCookiesFromResp on unparsable lines: Malformed.lean
    some (respOf h p items)
  | ["G", h, p] => do
    let h ← unPart h; let p ← unPart p
    if !hostOK h || !pathOK p || p.head? != some 47 then none
    some (.get h p)
  | ["X", h, p] => do
    let h ← unPart h; let p ← unPart p
    if !hostOK h || !pathOK p || p.head? != some 47 then none
    some (.getRelease h p)
  | ["L"] => some .releaseJar
  | _ => none

def hxs (s : Bytes) : String := if s.isEmpty then "_" else toHex s

def renderCookies (cs : List Cookie) : String :=
  if cs.isEmpty then "-" else "+".intercalate (cs.map fun c => hxs c.name ++ "~" ++ hxs c.value ++ "~" ++ hxs c.path)

/-- `failed`: the request came back with an error though the server answered (`re=`): the response hook could not
    parse the last `Set-Cookie` -/
def renderJarObs (failed : Bool) : JarOp → JarObs → String
  | .set .., _ => "s"
  | .setKV .., _ => "k"
  | .releaseJar, _ => "l"
  | _, .cookies cs => "g=" ++ renderCookies cs
  | _, .header h => (if failed then "re=" else "r=") ++ hxs h
  | _, .done => "?"

def parseCookieList (s : String) : Option (List Cookie) :=
  if s == "-" then some [] else (s.splitOn "+").mapM fun it => match it.splitOn "~" with
    | [n, v, p] => do some { name := ← unPart n, value := ← unPart v, path := ← unPart p, expiry := none }
    | _ => none

/-- observations carry no expiry: compare on (name, value, path) -/
def stripExp (o : JarObs) : JarObs :=
  match o with
  | .cookies cs => .cookies (cs.map fun c => { c with expiry := none })
  | o => o

def parseJarObs (op : JarOp) (s : String) : Option JarObs :=
  match op with
  | .set .. => if s == "s" then some .done else none
  | .setKV .. => if s == "k" then some .done else none
  | .releaseJar => if s == "l" then some .done else none
  | .resp .. => if s.startsWith "r=" then (unPart ((s.drop 2).toString)).map .header
                else if s.startsWith "re=" then (unPart ((s.drop 3).toString)).map .header else none
  | _ => if s.startsWith "g=" then (parseCookieList ((s.drop 2).toString)).map .cookies else none

/-- the sentence fixes WHICH cookies a lookup returns / a request carries, not their order: `Get` results are
    compared as multisets; a Cookie header must carry exactly one pair per name among the matching cookies, with the
    value of one of them (two matching cookies of one name and different paths share a header slot) -/
def cookieKey (c : Cookie) : Bytes := c.name ++ [0] ++ c.path ++ [0] ++ c.value

def sortCookies (xs : List Cookie) : List Cookie := xs.mergeSort fun p q => !bytesLt (cookieKey q) (cookieKey p)

def headerPairs (h : Bytes) : List (Bytes × Bytes) :=
  if h.isEmpty then [] else (splitOn h 59).map fun seg => C11.cutEq (trimLeft seg 32)

def headerOK (h : Bytes) (m : List Cookie) : Bool :=
  let ps := headerPairs h
  let names := (m.map (·.name)).eraseDups
  ps.length == names.length && ps.all (fun p => names.contains p.1) &&
  names.all fun n => match ps.find? (·.1 = n) with
    | some p => m.any fun c => c.name == n && c.value == p.2
    | none => false

/-- does the observation show exactly the cookies `want` (what the lookup of this operation must yield)? -/
def obsShows (op : JarOp) (o : JarObs) (want : List Cookie) : Bool :=
  match op, o with
  | .get .., .cookies xs => sortCookies xs == sortCookies (want.map fun c => { c with expiry := none })
  | .getRelease .., .cookies xs => sortCookies xs == sortCookies (want.map fun c => { c with expiry := none })
  | .resp .., .header h => headerOK h want
  | .set .., .done => true
  | .setKV .., .done => true
  | .releaseJar, .done => true
  | _, _ => false

/-- the oracle over the whole history: the first failure that is NOT what the reversed path test
    yields (a violation), and whether some step failed in exactly the K1 way -/
def specJarAll : AbsJar → List (Nat × JarOp) → List JarObs → Option String × Bool
  | _, [], [] => (none, false)
  | j, (now, op) :: ops, o :: os =>
    let rest := specJarAll (absStep now j op) ops os
    let (want, wantImpl) : List Cookie × List Cookie := match lookupOf op with
      | some (host, path) => (specGet j host path now, implGet j host path now)
      | none => ([], [])
    if obsShows op o want then rest
    else if obsShows op o wantImpl then (rest.1, true)
    else (some (match op with
        | .resp .. => "jar-sends-exactly-the-matching-cookies"
        | _ => "jar-returns-exactly-the-matching-cookies"), rest.2)
  | _, _, _ => (some "observation-count", false)

/-- ops and observations as a timed history: `W` advances the clock, its observation is dropped -/
def timedOf (t : Nat) : List String → List String → Option (List (Nat × JarOp) × List String)
  | [], [] => some ([], [])
  | "W" :: ops, "w" :: os => timedOf (t + waitStep) ops os
  | op :: ops, o :: os => do
    if op == "W" then none
    if let some k := tickOp op then
      -- the clock only moves forward
      if o != "t" || nowT + k * tickStep + tickStep / 2 ≤ t then none
      return ← timedOf (nowT + k * tickStep + tickStep / 2) ops os
    let x ← parseJarOp op
    let r ← timedOf t ops os
    some ((t, x) :: r.1, o :: r.2)
  | _, _ => none

/-- some stored cookie's expiry lies between the times of two operations of the history -/
def expiredBetween (hist : List (Nat × JarOp)) : Bool :=
  let exps := hist.flatMap fun e => match e.2 with
    | .set _ c => c.expiry.toList
    | _ => []
  let times := hist.map (·.1)
  exps.any fun x => times.any (· < x) && times.any (x < ·)

/-- after a response with a malformed `Set-Cookie` from host key A: a store for ANOTHER host key, then a lookup -/
def afterMalformedOtherHost : List String → Bool
  | [] => false
  | op :: rest =>
    (match (respItemsOf op).any (·.malformed), (parseJarOp op).bind opKey with
     | true, some a =>
       let rec go : List String → Bool
         | [] => false
         | o :: os =>
           (match parseJarOp o with
            | some x => (match x, opKey x with
              | .set .., some k => k != a
              | .setKV .., some k => k != a
              | .resp _ _ (_ :: _), some k => k != a
              | _, _ => false) && os.any (fun l => match parseJarOp l with
                  | some y => (lookupOf y).isSome
                  | none => false)
            | none => false) || go os
       go rest
     | _, _ => false) || afterMalformedOtherHost rest

def handleJar (id opsS impl : String) : Except String Verdict := do
  let opStrs := if opsS == "-" then [] else opsS.splitOn ";"
  if impl == "slow" then
    pure { id := id, modelObs := impl, implObs := impl, spec := none, tags := ["jar", "outside-model", "jar-slow"] }
  else
  let implParts := if impl == "-" then [] else impl.splitOn "|"
  if implParts.length != opStrs.length then throw "outside-domain: jar ops / observations" else
  -- the op list alone fixes the times; observations are aligned with it
  let some (hist, _) := timedOf nowT opStrs (opStrs.map fun o => if isWaitOp o then waitObs o else "") | throw "outside-domain: jar ops"
  let timed := opStrs.any (· == "W")
  let ticked := opStrs.any fun o => (tickOp o).isSome
  if (opStrs.filter (· == "W")).length > 1 then throw "outside-domain: more than one wait" else
  if timed && ticked then throw "outside-domain: W and T in one history" else
  let modelObs := runJarT lifo hist JarState.init
  let rec weave : List String → List JarObs → List (Nat × JarOp) → List String
    | "W" :: ops, os, h => "w" :: weave ops os h
    | op :: ops, os, h =>
      if (tickOp op).isSome then "t" :: weave ops os h
      else match os, h with
        | o :: os, e :: h => renderJarObs (hookFails (respItemsOf op)) e.2 o :: weave ops os h
        | _, _ => []
    | _, _, _ => []
  let modelS := if opStrs.isEmpty then "-" else "|".intercalate (weave opStrs modelObs hist)
  let implObs : Option (List JarObs) :=
    match timedOf nowT opStrs implParts with
    | some (h, os) => (h.zip os).mapM fun (e, s) => parseJarObs e.2 s
    | none => none
  let (spec, k1) : Option String × Bool := match implObs with
    | none => (some "unparsable-observation", false)
    | some os => specJarAll [] hist os
  let inRegion := Known.K1 [] hist
  let known := if spec.isNone && k1 then some "K1" else none
  let spec := match spec with
    | some cl => some cl
    | none => if k1 then some "jar-returns-exactly-the-matching-cookies" else none
  let nontriv := modelObs.any fun o => match o with
    | .cookies (_ :: _) => true
    | .header (_ :: _) => true
    | _ => false
  pure { id := id, modelObs := modelS, implObs := impl, spec := spec, known := known,
         tags := ["jar"] ++ (if nontriv then ["nt-jar"] else []) ++ (if k1 then ["k1-seen"] else []) ++
                 (if inRegion then ["k1-region"] else ["k1-free"]) ++ (if timed then ["nt-jar-timed"] else []) ++ (if ticked then ["nt-jar-ticked"] else []) ++
                 -- a ticked history in which a lookup found a cookie that a later lookup of the same host no longer finds
                 (if ticked && expiredBetween hist then ["jar-expired-between-ops"] else []) ++
                 -- responses with an unparsable Set-Cookie (Malformed.lean)
                 (if opStrs.any (fun o => (respItemsOf o).any (·.malformed)) then ["setcookie-malformed"] else []) ++
                 (if opStrs.any (fun o => (respItemsOf o).any (·.malformed) && !hookFails (respItemsOf o)) then ["malformed-then-wellformed"] else []) ++
                 (if opStrs.any (fun o => hookFails (respItemsOf o)) then ["malformed-last-request-fails"] else []) ++
                 (if afterMalformedOtherHost opStrs then ["after-malformed-other-host"] else []) }

/-! ### schedules -/

def firstFree (owner : Nat → Option Nat) (n : Nat) : Nat :=
  ((List.range (n + 1)).find? fun r => (owner r).isNone).getD n

/-- the schedule the harness drives for one action (repaired code), as model actions -/
def schedFor (g : G) (i : Nat) (act : String) : List Action :=
  let r := firstFree g.rOwner (i + 1)
  let c := firstFree g.cOwner (i + 1)
  match act with
  | "ok" => [.start i r c, .worker i, .worker i, .worker i, .worker i, .recv i, .close i]
  | "cb" => [.start i r c, .timeout i, .main i, .main i, .worker i, .worker i]
  | _ => [.start i r c, .worker i, .worker i, .timeout i, .main i, .main i, .worker i, .worker i, .main i, .main i]

def handleSched (id actsS impl : String) : Except String Verdict := do
  let acts := if actsS == "-" then [] else actsS.splitOn ";"
  if !(acts.all fun a => a == "ok" || a == "cb" || a == "ca") || acts.length > 12 then throw "outside-domain: schedule"
  let g := (List.range acts.length).zip acts |>.foldl (fun g (i, a) => run true g (schedFor g i a)) G.init
  let modelParts := (List.range acts.length).map fun i => match (g.reqs i).result with
    | some (.response (some j)) => s!"Rq{j}"
    | some (.response none) => "R"
    | some .timeout => "T"
    | some .failed => "E"
    | none => "?"
  let modelS := if acts.isEmpty then "-" else "|".intercalate modelParts
  let implParts := if impl == "-" then [] else impl.splitOn "|"
  let spec : Option String :=
    if implParts.length != acts.length then some "unparsable-observation"
    else if g.bad then some "model-bad"
    else specSched (((List.range acts.length).zip acts).zip implParts |>.map fun ((i, a), s) =>
      (a, (s!"q{i}").toList.map Char.toNat,
       if s == "T" then ExecObs.timeout
       else if s.startsWith "R" then ExecObs.response ((s.drop 1).toString.toList.map Char.toNat)
       else ExecObs.error))
  pure { id := id, modelObs := modelS, implObs := impl, spec := spec,
         tags := ["sched"] ++ (if acts.any (· == "ca") then ["nt-sched-cancel-after-completion"] else []) ++
                 (if acts.any (· == "cb") then ["nt-sched-cancel-before-completion"] else []) }

def handleStress (id : String) (ps : List String) (impl : String) : Except String Verdict := do
  let some ns := ps.mapM String.toNat? | throw "outside-domain: stress parameters"
  if ns.length != 4 then throw "outside-domain: stress parameters"
  let spec := if impl == "bad=0" then none else if impl.startsWith "bad=" then some "response-belongs-to-request" else some "unparsable-observation"
  pure { id := id, modelObs := "bad=0", implObs := impl, spec := spec, tags := ["stress", "nt-stress"] }

def handleCase' (f : List String) : Except String Verdict := do
  match f with
  | id :: "asm" :: rest =>
    match rest.reverse with
    | impl :: r => handleAsm id r.reverse impl
    | [] => throw "outside-domain: fields"
  | [id, "jar", ops, impl] => handleJar id ops impl
  | [id, "sched", acts, impl] => handleSched id acts impl
  | [id, "stress", a, c, d, e, impl] => handleStress id [a, c, d, e] impl
  | _ => throw s!"outside-domain: unknown case shape ({f.length} fields)"

/-- a panic inside the client code (the harness recovers it) is a failure of whatever was asked for -/
def handleCase (f : List String) : Except String Verdict :=
  match f, f.getLast? with
  | id :: _ :: _, some impl =>
    if impl.startsWith "panic=" then
      pure { id := id, modelObs := "no-panic", implObs := impl, spec := some "client-operation-panics", tags := ["panic"] }
    else handleCase' f
  | _, _ => handleCase' f

def main : IO Unit := run handleCase
