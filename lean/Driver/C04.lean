import FiberModel.DriverUtil
import FiberModel.C04.Known
import FiberModel.C04.Refuse
/-
Driver for C04. Case fields (after the id):
  cfg(2 flags: caseSensitive, strict)  tree  ptable  reqs  |  stackMount stackGroup resMount resGroup
(formats: see harness/cmd/c04/main.go). `Route(path)` blocks (`T:`) are read as a group with
prefix `path` whose registrations all have the empty path — exactly what register.go's
`Registering{path}` does (`Add` → `app.register(methods, r.path, …)`, `All` → `register([USE], r.path, …)`,
`Route(p)` → `Registering{getGroupPath(r.path, p)}`).

modelObs = model table of the mounted composition # model table of the group composition
implObs  = Stack() of the mounted composition      # Stack() of the group composition
           (either one is `startup-panic` when that composition panicked while it was registered or
           started; the model says so when its table would hold a Path whose independent plain
           registration is refused — the `=!` entries of ptable, C04.refused)
spec     = the two real compositions are refused together or start together (C04.startupViolation,
           clause mount-equals-group), and when they start they answer every request identically and
           their tables agree on what the matcher reads (C04.specViolation), evaluated on the
           implementation's observation only.
-/
open B DriverUtil C04

def parseNats (s : String) (dropSuffix : Bool) : Option (List Nat) :=
  if s == "-" then some [] else
  (s.splitOn ".").mapM fun p =>
    let q := if dropSuffix then (p.dropEnd 1).toString else p
    if dropSuffix && !(p.endsWith "n" || p.endsWith "s" || p.endsWith "e") then none else q.toNat?

def flag (c : Char) : Option Bool := if c == '1' then some true else if c == '0' then some false else none

/-- tokens → items; returns the rest after the matching `E` (depth > 0) -/
partial def parseItems (toks : List String) (depth : Nat) (inReg : Bool) (prev : Option (Cfg × List Item) := none) :
    Except String (List Item × List String) :=
  match toks with
  | [] => if depth == 0 then pure ([], []) else throw "outside-domain: missing E"
  | t :: rest =>
    if t == "E" then
      if depth == 0 then throw "outside-domain: unbalanced E" else pure ([], rest)
    else do
      let f := t.splitOn ":"
      let (item, rest') ← (match f with
        | ["R", ms, p, hs] => do
          if inReg then throw "outside-domain: R inside Route()"
          let some ms := parseNats ms false | throw "outside-domain: methods"
          let some p := fromHex p | throw "outside-domain: path"
          let some hs := parseNats hs true | throw "outside-domain: handlers"
          if ms.isEmpty || hs.isEmpty || ms.any (· ≥ nMethods) then throw "outside-domain: route needs methods < 9 and a handler"
          pure (Item.route ms p hs, rest)
        | ["A", ms, hs] => do
          if !inReg then throw "outside-domain: A outside Route()"
          let some ms := parseNats ms false | throw "outside-domain: methods"
          let some hs := parseNats hs true | throw "outside-domain: handlers"
          if ms.isEmpty || hs.isEmpty || ms.any (· ≥ nMethods) then throw "outside-domain: route needs methods < 9 and a handler"
          pure (Item.route ms [] hs, rest)
        | ["U", p, hs] => do
          if inReg then throw "outside-domain: U inside Route()"
          let some p := fromHex p | throw "outside-domain: path"
          let some hs := parseNats hs true | throw "outside-domain: handlers"
          if hs.isEmpty then throw "outside-domain: Use needs a handler"
          pure (Item.use p hs, rest)
        | ["L", hs] => do
          if !inReg then throw "outside-domain: L outside Route()"
          let some hs := parseNats hs true | throw "outside-domain: handlers"
          if hs.isEmpty then throw "outside-domain: All needs a handler"
          pure (Item.use [] hs, rest)
        | ["G", p, hs] => do
          if inReg then throw "outside-domain: G inside Route()"
          let some p := fromHex p | throw "outside-domain: path"
          let some hs := parseNats hs true | throw "outside-domain: handlers"
          let (inner, r) ← parseItems rest (depth + 1) false
          pure (Item.group p hs inner, r)
        | ["T", p] => do
          let some p := fromHex p | throw "outside-domain: path"
          let (inner, r) ← parseItems rest (depth + 1) true
          pure (Item.group p [] inner, r)
        | ["M", p, fl] => do
          if inReg then throw "outside-domain: M inside Route()"
          let some p := fromHex p | throw "outside-domain: path"
          match fl.toList with
          | [a, b, c] =>
            let some cs := flag a | throw "outside-domain: flags"
            let some st := flag b | throw "outside-domain: flags"
            let some _ := flag c | throw "outside-domain: flags"
            let (inner, r) ← parseItems rest (depth + 1) false
            pure (Item.mount p ⟨cs, st⟩ inner, r)
          | _ => throw "outside-domain: flags"
        | ["D", p] => do
          -- the same app object as the preceding mount, mounted once more at `p`
          if inReg then throw "outside-domain: D inside Route()"
          let some p := fromHex p | throw "outside-domain: path"
          match prev with
          | some (scfg, sub) => pure (Item.mount p scfg sub, rest)
          | none => throw "outside-domain: D without a preceding mount"
        | _ => throw s!"outside-domain: token {t}")
      let prev' := match item with
        | .mount _ scfg sub => some (scfg, sub)
        | _ => none
      let (more, rest'') ← parseItems rest' depth inReg prev'
      pure (item :: more, rest'')

def parseTree (s : String) : Except String (List Item) := do
  if s == "-" then return []
  let (items, rest) ← parseItems (s.splitOn ",") 0 false
  if !rest.isEmpty then throw "outside-domain: trailing tokens"
  pure items

/-- `hexpath=hexname.hexname` (Params of an independent plain registration of the path) or
`hexpath=!` (that registration is refused): `none` in the second component -/
def parseTable (s : String) : Option (List (Bytes × Option (List Bytes))) :=
  if s == "-" then some [] else
  (s.splitOn ",").mapM fun e =>
    match e.splitOn "=" with
    | [k, v] => do
      let k ← fromHex k
      if v == "!" then pure (k, none) else
      let v ← if v == "" then some [] else (v.splitOn ".").mapM fun x => fromHex x
      pure (k, some v)
    | _ => none

def lookupParams (tbl : List (Bytes × Option (List Bytes))) (p : Bytes) : List Bytes :=
  match tbl.find? (·.1 == p) with
  | some (_, some ps) => ps
  | some (_, none) => [[33]]    -- "!": refused path; the composition holding it is `startup-panic`
  | none => [[63, 63]]          -- "??": a path the harness never saw — shows up as M=DIFF

def lookupRefused (tbl : List (Bytes × Option (List Bytes))) (p : Bytes) : Bool :=
  match tbl.find? (·.1 == p) with
  | some (_, none) => true
  | _ => false

def startupPanic : String := "startup-panic"

def maxRowParams (t : List (List Row)) : Nat :=
  t.foldl (fun a rows => rows.foldl (fun a r => max a r.params.length) a) 0

def renderStack (l : List Route) : String :=
  if l.isEmpty then "-" else
  ",".intercalate (l.map fun r =>
    let ps := if r.params.isEmpty then "-" else ".".intercalate (r.params.map toHexField)
    s!"{toHexField r.raw}:{ps}:{r.handlers.length}")

def renderTable (f : Nat → List Route) : String :=
  ";".intercalate ((List.range nMethods).map fun k => renderStack (f k))

def parseRow (s : String) : Option Row :=
  match s.splitOn ":" with
  | [p, ps, n] => do
    let p ← fromHex p
    let ps ← if ps == "-" then some [] else (ps.splitOn ".").mapM fun x => fromHex x
    let n ← n.toNat?
    pure ⟨p, ps, n⟩
  | _ => none

def parseStacks (s : String) : Option (List (List Row)) :=
  (s.splitOn ";").mapM fun m => if m == "-" then some [] else (m.splitOn ",").mapM parseRow

mutual
partial def hasMount : List Item → Bool
  | [] => false
  | .mount _ _ _ :: _ => true
  | .group _ _ is :: t => hasMount is || hasMount t
  | _ :: t => hasMount t
end

partial def mountTags (depthM : Nat) (inGroup : Bool) : List Item → List String
  | [] => []
  | .mount p _ sub :: t =>
    (if depthM > 0 then ["nested"] else []) ++ (if inGroup then ["from-group"] else []) ++
    (if p.contains 58 then ["param-prefix"] else []) ++ (if p.contains 42 || p.contains 43 then ["wildcard-prefix"] else []) ++ (if p.contains 92 then ["escaped-prefix"] else []) ++
    (if p != toLower p then ["upper-prefix"] else []) ++
    (if trimRight p 47 == [] then ["root-prefix"] else []) ++
    (match t with | .mount _ _ _ :: _ => ["mount-follows-mount"] | _ => []) ++
    mountTags (depthM + 1) false sub ++ mountTags depthM inGroup t
  | .group _ _ is :: t => mountTags depthM true is ++ mountTags depthM inGroup t
  | _ :: t => mountTags depthM inGroup t

def handleCase (f : List String) : Except String Verdict := do
  match f with
  | [id, cfgS, tree, ptable, reqs, stackM, stackG, resM, resG] =>
    let cfg ← match cfgS.toList with
      | [a, b] => match flag a, flag b with
        | some cs, some st => pure (Cfg.mk cs st)
        | _, _ => throw "outside-domain: cfg"
      | _ => throw "outside-domain: cfg"
    let items ← parseTree tree
    let some tbl := parseTable ptable | throw "outside-domain: ptable"
    let po := lookupParams tbl
    let rf := lookupRefused tbl
    let implObs := stackM ++ "#" ++ stackG
    let fm := flatten cfg po items
    let fg := flattenSpec cfg po items
    let modelObs := (if refused rf fm then startupPanic else renderTable fm) ++ "#" ++
      (if refused rf fg then startupPanic else renderTable fg)
    let refM := stackM == startupPanic
    let refG := stackG == startupPanic
    let rm := if resM == "-" then [] else resM.splitOn ","
    let rg := if resG == "-" then [] else resG.splitOn ","
    let nreq := if reqs == "-" then 0 else (reqs.splitOn ",").length
    if rm.length != nreq || rg.length != nreq then throw "outside-domain: answers do not line up with requests"
    if (refM && rm.any (· != startupPanic)) || (refG && rg.any (· != startupPanic)) then
      throw "outside-domain: a refused composition answers nothing"
    let tmO := if refM then some [] else parseStacks stackM
    let tgO := if refG then some [] else parseStacks stackG
    let spec : Option String :=
      match startupViolation refM refG with
      | some v => some v
      | none =>
        if refM then none        -- both refused: equal outcomes
        else match tmO, tgO with
        | some tm, some tg => specViolation cfg tm tg rm rg
        | _, _ => some "unparsable-observation"
    let maxP := max (maxRowParams (tmO.getD [])) (maxRowParams (tgO.getD []))
    -- the inputs of the repaired finding F5 (formerly known finding K1): tagged, no longer excused
    let f5 := Known.F5region cfg items
    let known : Option String := none
    let mounted := hasMount items
    let hit := !refM && rm.any fun r => !(r.startsWith "|")
    let tags := (if mounted then ["mount"] else ["no-mount"]) ++ (mountTags 0 false items).eraseDups ++
      (if cfg.strict then ["strict"] else []) ++ (if cfg.caseSensitive then ["case-sensitive"] else []) ++
      (if f5 then ["f5-region"] else []) ++
      (if refM && refG then ["startup-refused-both"] else if refM || refG then ["startup-refused-one-sided"] else []) ++
      (if !refM && !refG && maxP ≥ 28 then [s!"params-served-{maxP}"] else []) ++ (if hit then ["served"] else ["nothing-served"]) ++
      (if mounted && hit then ["nt"] else [])
    pure { id := id, modelObs := modelObs, implObs := implObs, spec := spec, known := known, tags := tags }
  | _ => throw s!"outside-domain: expected 9 fields, got {f.length}"

def main : IO Unit := run handleCase
