import FiberModel.DriverUtil
import FiberModel.C02.Known
/-
Driver for C02. Case fields (after the id):
  cfg(3 bits CaseSensitive StrictRouting UnescapePath)  use(0/1)  pattern(hex)  path(hex)
  customs(hexlist)  vtf  vts  implObs
vtf / vts: `hex(key)=hexlist(values with verdict true)` joined by `;` (`-` = none): verdicts of the
abstractly modelled constraints over the '/'-free substrings of the user-visible path, vtf from the
real code (feeds the model), vts from the standard library (feeds the spec oracle).
-/
open B DriverUtil C02

namespace C02Driver

abbrev Table := List (Bytes × List Bytes)

def parseTable (s : String) : Option Table :=
  if s == "-" then some []
  else (s.splitOn ";").mapM fun e =>
    match e.splitOn "=" with
    | [k, v] => do
      let k ← fromHex k
      let v ← hexList v
      pure (k, v)
    | _ => none

def Constraint.key (c : Constraint) : Bytes := c.name ++ [LPAR] ++ join c.data [COMMA] ++ [RPAR]

def absOf (t : Table) (c : Constraint) (v : Bytes) : Bool :=
  match t.find? (·.1 == Constraint.key c) with
  | some e => e.2.contains v
  | none => false

/-- abstract constraints of a segment list whose key is missing from the table -/
def missingKeys (custom : List Bytes) (t : Table) (segs : List Seg) : Bool :=
  segs.any fun s => s.constraints.any fun c =>
    (custom.contains c.name || c.id == .float || c.id == .guid || c.id == .datetime || c.id == .regex) &&
    !(c.data.isEmpty && (c.id == .datetime || c.id == .regex) && !custom.contains c.name) &&
    (t.find? (·.1 == Constraint.key c)).isNone

def renderObs (o : Obs) : String :=
  if o.panic then "panic"
  else if o.ran == 0 then s!"ran=0;st={o.status}"
  else s!"ran={o.ran};st={o.status};path={toHexField o.path};rpath={toHexField o.rpath};" ++
       s!"names={hexListField o.names};vals={hexListField o.vals}"

def parseObs (s : String) : Option Obs :=
  if s == "panic" then some { panic := true }
  else do
    let kv := (s.splitOn ";").filterMap fun p => match p.splitOn "=" with
      | [k, v] => some (k, v) | _ => none
    let get (k : String) : Option String := (kv.find? (·.1 == k)).map (·.2)
    let ran ← (← get "ran").toNat?
    let st ← (← get "st").toNat?
    if ran == 0 then pure { ran := 0, status := st }
    else pure { ran := ran, status := st, path := ← (get "path").bind fromHex, rpath := ← (get "rpath").bind fromHex,
                names := ← (get "names").bind hexList, vals := ← (get "vals").bind hexList }

/-- the model of one request against a single-route app -/
def serve (custom : List Bytes) (abs : Constraint → Bytes → Bool) (cfg : Config) (use : Bool)
    (pattern reqPath : Bytes) : Obs :=
  match register cfg use pattern with
  | none => { panic := true }
  | some r =>
    let (path, det) := configDependentPaths cfg reqPath
    match dispatch1 (checkConstraint custom abs) r det path with
    | none => { ran := 0, status := 404 }
    | some vals =>
      { ran := 1, status := 200, path := path, rpath := r.pathRaw, names := r.params,
        vals := r.params.map (paramsLookup cfg r.params vals) }

def parseCfg (s : String) : Option Config :=
  match s.toList with
  | [a, b, c] =>
    if [a, b, c].all (fun x => x == '0' || x == '1') then
      some { caseSensitive := a == '1', strictRouting := b == '1', unescapePath := c == '1' }
    else none
  | _ => none

def handleCase (f : List String) : Except String Verdict := do
  match f with
  | [id, cfg, use, pat, path, customs, vtf, vts, impl] =>
    let some cfg := parseCfg cfg | throw "outside-domain: cfg"
    unless use == "0" || use == "1" do throw "outside-domain: use"
    let use := use == "1"
    let some pat := fromHex pat | throw "outside-domain: pattern"
    let some path := fromHex path | throw "outside-domain: path"
    let some customs := hexList customs | throw "outside-domain: customs"
    let some vtf := parseTable vtf | throw "outside-domain: vtf"
    let some vts := parseTable vts | throw "outside-domain: vts"
    unless path.headD 0 == SLASH && !(path.take 2 == [SLASH, SLASH]) && !path.contains 63 && !path.contains 35 do
      throw "outside-domain: request path must start with one '/', no query/fragment"
    let some io := parseObs impl | throw "outside-domain: observation"
    let mo := serve customs (absOf vtf) cfg use pat path
    let declared := (parseRoute (rawPattern pat)).map (·.segs)
    let routed := (parseRoute (prettyPattern cfg pat)).map (·.segs)
    match declared, routed with
    | some declared, some routed =>
      let outside := missingKeys customs vtf routed || missingKeys customs vts declared
      let chkDecl := checkConstraint customs (absOf vts)
      -- duplicate parameter names (case-insensitively unless CaseSensitive): Params(name) cannot
      -- report the positional values, the substitution clause is not evaluable (documented assumption)
      let declNames := (paramSegs declared).map (fun s => if cfg.caseSensitive then s.paramName else toLower s.paramName)
      let dup := declNames.eraseDups.length != declNames.length
      let spec := if outside || dup then none else specViolation cfg use declared routed chkDecl io
      -- known finding K1 only explains a `constraints` failure on a fold-sensitive constraint
      let known : Option String :=
        if spec == some "constraints" && Known.K1 cfg customs declared &&
           (match constraintViolation chkDecl (paramSegs declared) io.vals with
            | some (_, c) => Known.foldSensitive customs c | none => false)
        then some "K1" else none
      let kind := if (paramSegs routed).isEmpty then "literal"
                  else if (paramSegs routed).any (·.isGreedy) then "greedy" else "named"
      let hasC := (paramSegs routed).any (!·.constraints.isEmpty)
      let nt := if io.ran == 1 && !(paramSegs routed).isEmpty then ["nt-match"]
                else if io.ran == 0 && hasC then ["nt-reject-constrained"] else []
      let tags := [if use then "use" else "get", kind, if io.ran == 1 then "ran" else "notran"] ++
                  (if hasC then ["constrained"] else []) ++ nt ++ (if outside then ["outside-model"] else []) ++ (if dup then ["dup-names"] else [])
      pure { id := id, modelObs := if outside then impl else renderObs mo, implObs := impl, spec := spec,
             known := known, tags := tags }
    | _, _ =>
      -- the model says registration panics: nothing is served, the property is silent
      pure { id := id, modelObs := renderObs mo, implObs := impl, spec := none, tags := ["reg-panic"] }
  | _ => throw s!"outside-domain: expected 9 fields, got {f.length}"

end C02Driver

def main : IO Unit := run C02Driver.handleCase
