import FiberModel.DriverUtil
import FiberModel.C02.Known
/-
Driver for C02. Case fields (after the id):
  cfg(3 bits CaseSensitive StrictRouting UnescapePath)  mode(0 GET / 1 Use / 2 GET of a sub-app
  mounted under /m)  pattern(hex)  path(hex)
  customs(hexlist)  vtf  vts  implObs
path: one hex path, or for a HISTORY (2-4 requests served one after the other by the same app,
same goroutine, reused fasthttp.RequestCtx) the comma-separated hex paths; implObs then holds one
observation per request joined by '|'. Every request of a history is judged by the same history-free
model and spec as a single request (`history_stateless` names that hypothesis).
vtf / vts: `hex(key)=hexlist(values with verdict true)` joined by `;` (`-` = none): verdicts of the
abstractly modelled constraints over the '/'-free substrings of the user-visible path, vtf from the
real code (feeds the model), vts from the standard library (feeds the spec oracle).
-/
open B DriverUtil C02

namespace C02Driver

abbrev Table := List (Bytes × List Bytes)

def parseTable (s : String) : Option Table :=
  if s == "-" then some []
  else (s.splitOn ";").mapM fun e =>
    match e.splitOn "=" with
    | [k, v] => do
      let k ← fromHex k
      let v ← hexList v
      pure (k, v)
    | _ => none

def Constraint.key (c : Constraint) : Bytes := c.name ++ [LPAR] ++ join c.data [COMMA] ++ [RPAR]

def absOf (t : Table) (c : Constraint) (v : Bytes) : Bool :=
  match t.find? (·.1 == Constraint.key c) with
  | some e => e.2.contains v
  | none => false

/-- abstract constraints of a segment list whose key is missing from the table; `std` = the table
    is the standard-library one of the spec oracle, which also decides float and guid (the model
    decides those two itself) -/
def missingKeys (std : Bool) (custom : List Bytes) (t : Table) (segs : List Seg) : Bool :=
  segs.any fun s => s.constraints.any fun c =>
    (custom.contains c.name || (std && (c.id == .float || c.id == .guid)) || c.id == .datetime || c.id == .regex) &&
    !(c.data.isEmpty && (c.id == .datetime || c.id == .regex) && !custom.contains c.name) &&
    (t.find? (·.1 == Constraint.key c)).isNone

/-- the spec oracle's constraint evaluator: float and guid by the standard library's verdicts
    (independent of the model's transcription), the rest as documented -/
def specCheck (custom : List Bytes) (std : Constraint → Bytes → Bool) (c : Constraint) (v : Bytes) : Bool :=
  if !custom.contains c.name && (c.id == .float || c.id == .guid) then std c v
  else checkConstraint custom std c v

def renderObs (o : Obs) : String :=
  if o.panic then "panic"
  else if o.ran == 0 then s!"ran=0;st={o.status}"
  else s!"ran={o.ran};st={o.status};path={toHexField o.path};rpath={toHexField o.rpath};" ++
       s!"names={hexListField o.names};vals={hexListField o.vals};xk={hexListField o.extra}"

def parseObs (s : String) : Option Obs :=
  if s == "panic" then some { panic := true }
  else do
    let kv := (s.splitOn ";").filterMap fun p => match p.splitOn "=" with
      | [k, v] => some (k, v) | _ => none
    let get (k : String) : Option String := (kv.find? (·.1 == k)).map (·.2)
    let ran ← (← get "ran").toNat?
    let st ← (← get "st").toNat?
    if ran == 0 then pure { ran := 0, status := st }
    else pure { ran := ran, status := st, path := ← (get "path").bind fromHex, rpath := ← (get "rpath").bind fromHex,
                names := ← (get "names").bind hexList, vals := ← (get "vals").bind hexList,
                extra := ← (get "xk").bind hexList }

/-- mode 2: the route lives in a sub-app mounted under `/m`; mount.go / router.go `addPrefixToRoute`
    prefix the path as it was registered (`getGroupPath`: an empty path is the prefix itself) and
    parse the prefixed path exactly as `register` does -/
def mountPrefix : Bytes := b "/m"

def effectivePattern (mode : Nat) (pattern : Bytes) : Bytes :=
  if mode == 2 then
    (if pattern.isEmpty then mountPrefix
     else mountPrefix ++ (if pattern.headD 0 != SLASH then SLASH :: pattern else pattern))
  else pattern

/-- the model of one request against a single-route app -/
def serve (custom : List Bytes) (abs : Constraint → Bytes → Bool) (cfg : Config) (mode : Nat)
    (pattern reqPath : Bytes) : Obs :=
  let use := mode == 1
  -- a mounted route is first registered on the sub-app under its own pattern
  if mode == 2 && (register cfg false pattern).isNone then { panic := true }
  else
  modelObs (checkConstraint custom abs) cfg use (effectivePattern mode pattern) reqPath

def parseCfg (s : String) : Option Config :=
  match s.toList with
  | [a, b, c] =>
    if [a, b, c].all (fun x => x == '0' || x == '1') then
      some { caseSensitive := a == '1', strictRouting := b == '1', unescapePath := c == '1' }
    else none
  | _ => none

/-- one request, judged on its own (history-free): model observation, failing spec clause, tags,
    whether the handler ran -/
def judgeOne (cfg : Config) (mode : Nat) (pat0 : Bytes) (customs : List Bytes) (vtf vts : Table)
    (declared written routed : List Seg) (path : Bytes) (impl : String) :
    Except String (String × Option String × List String × Bool) := do
  let use := mode == 1
  unless path.headD 0 == SLASH && !(path.take 2 == [SLASH, SLASH]) && !path.contains 63 && !path.contains 35 do
    throw "outside-domain: request path must start with one '/', no query/fragment"
  let some io := parseObs impl | throw "outside-domain: observation"
  let mo := serve customs (absOf vtf) cfg mode pat0 path
  let outside := missingKeys false customs vtf routed || missingKeys true customs vts written
  let chkDecl := specCheck customs (absOf vts)
  -- duplicate parameter names (case-insensitively unless CaseSensitive): Params(name) cannot
  -- report the positional values, the substitution clause is not evaluable (documented assumption)
  let declNames := (paramSegs declared).map (fun s => if cfg.caseSensitive then s.paramName else toLower s.paramName)
  let dup := declNames.eraseDups.length != declNames.length
  let spec := if outside || dup then none else specViolation cfg use declared written routed chkDecl io
  let kind := if (paramSegs routed).isEmpty then "literal"
              else if (paramSegs routed).any (·.isGreedy) then "greedy" else "named"
  let hasC := (paramSegs routed).any (!·.constraints.isEmpty)
  let nt := if io.ran == 1 && !(paramSegs routed).isEmpty then ["nt-match"]
            else if io.ran == 0 && hasC then ["nt-reject-constrained"] else []
  let tags := [if use then "use" else if mode == 2 then "mount" else "get", kind, if io.ran == 1 then "ran" else "notran"] ++
              (if hasC then ["constrained"] else []) ++ nt ++ (if outside then ["outside-model"] else []) ++
              (if dup then ["dup-names"] else []) ++
              (if Known.wasK1 cfg customs written then [if io.ran == 1 then "nt-foldsens-ran" else "nt-foldsens-notran"] else [])
  pure (if outside then impl else renderObs mo, spec, tags, io.ran == 1)

/-- does the pattern carry a constraint of one of the kinds fiber may want to memoise -/
def hasCostly (segs : List Seg) : Bool :=
  segs.any fun s => s.constraints.any fun c => c.id == .regex || c.id == .datetime || c.id == .guid

def handleCase (f : List String) : Except String Verdict := do
  match f with
  | [id, cfg, use, pat, path, customs, vtf, vts, impl] =>
    let some cfg := parseCfg cfg | throw "outside-domain: cfg"
    unless use == "0" || use == "1" || use == "2" do throw "outside-domain: mode"
    let mode : Nat := if use == "1" then 1 else if use == "2" then 2 else 0
    let some pat0 := fromHex pat | throw "outside-domain: pattern"
    let pat := effectivePattern mode pat0
    -- a single request (plain hex) or a history (comma-separated hex paths) on one app
    let history := path.contains ','
    let some paths := (if history then hexList path else (fromHex path).map ([·])) | throw "outside-domain: path"
    if paths.isEmpty then throw "outside-domain: empty history"
    let some customs := hexList customs | throw "outside-domain: customs"
    let some vtf := parseTable vtf | throw "outside-domain: vtf"
    let some vts := parseTable vts | throw "outside-domain: vts"
    let declared := (parseRoute (rawPattern pat)).map (·.segs)
    let written := (parseRoute (writtenPattern cfg pat)).map (·.segs)
    let routed := (register cfg (mode == 1) pat).map (·.parser.segs)
    match declared, written, routed with
    | some declared, some written, some routed =>
      let impls := impl.splitOn "|"
      if impls.length != paths.length then
        -- e.g. the implementation panicked at registration: one observation for the whole history
        let mos := paths.map fun p => renderObs (serve customs (absOf vtf) cfg mode pat0 p)
        let outside := missingKeys false customs vtf routed || missingKeys true customs vts written
        pure { id := id, modelObs := if outside then impl else "|".intercalate mos, implObs := impl, spec := none,
               tags := ["obs-count"] ++ (if outside then ["outside-model"] else []) }
      else
        -- every request is judged on its own: the model and the spec are history-free
        let rs ← (paths.zip impls).mapM fun (p, io) => judgeOne cfg mode pat0 customs vtf vts declared written routed p io
        let spec := rs.findSome? (·.2.1)
        let rans := rs.map (·.2.2.2)
        let flips := (rans.zip rans.tail).any fun (a, b) => a != b
        let htags := if history then
            ["history"] ++ (if flips then ["nt-history-flip"] else []) ++
            (if flips && hasCostly routed then ["nt-history-flip-costly"] else [])
          else []
        pure { id := id, modelObs := "|".intercalate (rs.map (·.1)), implObs := impl, spec := spec,
               known := none, tags := (rs.map (·.2.2.1)).flatten.eraseDups ++ htags }
    | _, _, _ =>
      -- the model says registration panics: nothing is served, the property is silent
      pure { id := id, modelObs := "panic", implObs := impl, spec := none, tags := ["reg-panic"] }
  | _ => throw s!"outside-domain: expected 9 fields, got {f.length}"

end C02Driver

def main : IO Unit := run C02Driver.handleCase
