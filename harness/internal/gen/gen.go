// Package gen: one splitmix64 PRNG per run (every random choice derives from it, so a case
// replays from (seed, index)), hex/field helpers for the line protocol, and the case writer.
package gen

import (
	"bufio"
	"encoding/hex"
	"encoding/json"
	"flag"
	"fmt"
	"os"
	"sort"
	"strconv"
	"strings"
)

type Rand struct{ s uint64 }

func New(seed uint64) *Rand { return &Rand{s: seed} }

func (r *Rand) U64() uint64 {
	r.s += 0x9E3779B97F4A7C15
	z := r.s
	z = (z ^ (z >> 30)) * 0xBF58476D1CE4E5B9
	z = (z ^ (z >> 27)) * 0x94D049BB133111EB
	return z ^ (z >> 31)
}

// Fork derives an independent stream for case i (so case i does not depend on how many draws
// earlier cases made; a single case can be regenerated alone).
func (r *Rand) Fork(i uint64) *Rand {
	x := New(r.s ^ (i+1)*0xD6E8FEB86659FD93)
	x.U64()
	return x
}

func (r *Rand) Intn(n int) int {
	if n <= 0 {
		return 0
	}
	return int(r.U64() % uint64(n))
}
func (r *Rand) Bool() bool               { return r.U64()&1 == 1 }
func (r *Rand) Chance(num, den int) bool { return r.Intn(den) < num }
func Pick[T any](r *Rand, xs []T) T      { return xs[r.Intn(len(xs))] }

// Hex encodes a byte string as a protocol field ("-" = empty).
func Hex(s string) string {
	if s == "" {
		return "-"
	}
	return hex.EncodeToString([]byte(s))
}

// HexList encodes a list of byte strings ("-" = empty list, "_" = empty element).
func HexList(xs []string) string {
	if len(xs) == 0 {
		return "-"
	}
	out := make([]string, len(xs))
	for i, x := range xs {
		if x == "" {
			out[i] = "_"
		} else {
			out[i] = hex.EncodeToString([]byte(x))
		}
	}
	return strings.Join(out, ",")
}

func B(b bool) string {
	if b {
		return "1"
	}
	return "0"
}

func I(i int) string { return strconv.Itoa(i) }

// Opts are the flags every harness command accepts.
type Opts struct {
	Seed   uint64
	N      int
	Tier   string
	Out    string
	Replay string // file with `case` lines to re-run instead of generating
}

func ParseFlags() Opts {
	var o Opts
	flag.Uint64Var(&o.Seed, "seed", 1, "PRNG seed")
	flag.IntVar(&o.N, "n", 1000, "number of generated cases")
	flag.StringVar(&o.Tier, "tier", "quick", "quick|thorough")
	flag.StringVar(&o.Out, "out", "cases.txt", "output file")
	flag.StringVar(&o.Replay, "replay", "", "re-run the inputs of the `case` lines in this file")
	flag.Parse()
	return o
}

// Writer writes `case` lines and the closing `dist` line.
type Writer struct {
	f    *os.File
	w    *bufio.Writer
	dist map[string]int
	n    int
}

func NewWriter(path string) *Writer {
	f, err := os.Create(path)
	if err != nil {
		fmt.Fprintln(os.Stderr, "harness:", err)
		os.Exit(2)
	}
	return &Writer{f: f, w: bufio.NewWriterSize(f, 1<<20), dist: map[string]int{}}
}

// Case writes one case line: id, then input fields, then the implementation's observation fields.
func (w *Writer) Case(id string, fields ...string) {
	w.n++
	w.w.WriteString("case\t")
	w.w.WriteString(id)
	for _, f := range fields {
		w.w.WriteByte('\t')
		w.w.WriteString(f)
	}
	w.w.WriteByte('\n')
}

// Count bumps a generator-distribution counter (reported in evidence).
func (w *Writer) Count(key string) { w.dist[key]++ }

func (w *Writer) Close() {
	keys := make([]string, 0, len(w.dist))
	for k := range w.dist {
		keys = append(keys, k)
	}
	sort.Strings(keys)
	m := map[string]int{}
	for _, k := range keys {
		m[k] = w.dist[k]
	}
	j, _ := json.Marshal(m)
	fmt.Fprintf(w.w, "dist\t%s\n", j)
	w.w.Flush()
	w.f.Close()
}

// ReplayInputs returns, for each `case` line of a replay file, its id and the raw fields.
func ReplayInputs(path string) [][]string {
	data, err := os.ReadFile(path)
	if err != nil {
		fmt.Fprintln(os.Stderr, "harness:", err)
		os.Exit(2)
	}
	var out [][]string
	for _, l := range strings.Split(string(data), "\n") {
		f := strings.Split(l, "\t")
		if len(f) >= 2 && f[0] == "case" {
			out = append(out, f[1:])
		}
	}
	return out
}

func UnHex(s string) string {
	if s == "-" || s == "_" {
		return ""
	}
	b, err := hex.DecodeString(s)
	if err != nil {
		panic("bad hex field " + s)
	}
	return string(b)
}

func UnHexList(s string) []string {
	if s == "-" {
		return nil
	}
	parts := strings.Split(s, ",")
	out := make([]string, len(parts))
	for i, p := range parts {
		out[i] = UnHex(p)
	}
	return out
}
