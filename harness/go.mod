module verifharness

go 1.23.0

require (
	github.com/fxamacker/cbor/v2 v2.8.0
	github.com/gofiber/fiber/v3 v3.0.0
	github.com/gofiber/utils/v2 v2.0.0-beta.8
	github.com/google/uuid v1.6.0
	github.com/valyala/fasthttp v1.60.0
)

require (
	github.com/andybalholm/brotli v1.1.1 // indirect
	github.com/gofiber/schema v1.3.0 // indirect
	github.com/klauspost/compress v1.18.0 // indirect
	github.com/mattn/go-colorable v0.1.14 // indirect
	github.com/mattn/go-isatty v0.0.20 // indirect
	github.com/philhofer/fwd v1.1.3-0.20240916144458-20a13a1f6b7c // indirect
	github.com/tinylib/msgp v1.2.5 // indirect
	github.com/valyala/bytebufferpool v1.0.0 // indirect
	github.com/x448/float16 v0.8.4 // indirect
	golang.org/x/crypto v0.37.0 // indirect
	golang.org/x/net v0.38.0 // indirect
	golang.org/x/sys v0.32.0 // indirect
	golang.org/x/text v0.24.0 // indirect
)

replace github.com/gofiber/fiber/v3 => /repo
