package main

import (
	"fmt"
	"net"
	"strings"

	"verifharness/internal/gen"
)

var peerTexts = []string{
	// public
	"8.8.8.8", "203.0.113.7", "1.2.3.4", "172.32.0.1", "172.15.255.255", "11.0.0.1", "192.169.0.1", "169.253.1.1", "128.0.0.1",
	// loopback
	"127.0.0.1", "127.8.9.1", "::1",
	// private
	"10.1.2.3", "172.16.5.5", "172.31.255.254", "192.168.1.1", "fc00::1", "fd12:3456::5", "fdff::1",
	// link-local
	"169.254.1.1", "169.254.255.255", "fe80::1", "febf::1", "fe80::abcd:1",
	// other v6
	"fec0::1", "fe00::1", "2001:db8::1", "2001:db8:0:1::9", "2001:db8:a:b:c:d:e:f", "::2", "::", "ff02::1", "fbff::1", "fe7f::1",
	"0.0.0.0", "255.255.255.255",
}

var proxyHeaders = []string{"", "", "X-Forwarded-For", "X-Forwarded-For", "X-Real-Ip", "x-real-ip", "Cf-Connecting-Ip", "X-FORWARDED-FOR"}

var hosts = []string{"example.com", "a.b.example.com:8080", "EXAMPLE.com", "localhost", "[::1]:3000", "x.y.z.w.v", "app.example.co.uk", "example.com:443", "",
	"[2001:db8::1]", "[2001:db8::1]:443", "example.com:", "1.2.3.4", "1.2.3.4:80", "sub.example.com.", "a.b.c.d.e.f.g:1"}

var xffVals = []string{"1.2.3.4", "1.2.3.4, 5.6.7.8", " 9.9.9.9 ", "bogus", "bogus, 1.1.1.1", "::1", "2001:db8::5",
	"0:0:0:0:0:0:0:00001", "1.2.3.4.5", "01.2.3.4", ",1.2.3.4", "::ffff:1.2.3.4", "256.1.1.1", "1.2.3.4,", ", ,5.5.5.5",
	"unknown, 10.0.0.1", "1.2.3.4:8080", "[2001:db8::1]", "fe80::1%eth0, 7.7.7.7", "1.2.3", "1..2.3", ":", ".", "1.2.3.4 , 2001:db8::7",
	"a:b:c:d:e:f:0:1", "1:2:3:4:5:6:7:8:9", "::1.2.3.4", "1:2:3:4:5:6:1.2.3.4", "12345::", "g::1", "7.7.7.7,8.8.8.8,9.9.9.9", "x"}
var xfhVals = []string{"evil.com", "evil.com, other.com", "a.b.evil.com:8080", "EVIL.com", "e.v.i.l", ",x.com", "evil.com,",
	"[2001:db8::1]:8080", "[::1]", "::1", "evil.com:", ":8080", "evil.com:8080, other.com:9090", "evil.com , other.com", "a.b.c.d.e.f", "",
	"[2001:db8::1]:8080, [::2]:9", "1.2.3.4:80", "evil.com:80:90"}
var protoVals = []string{"https", "http", "https,http", "http,https", "HTTPS", "wss", "https, http", ",", "", "https ,http", ",https", "https,", "on", "http, https"}
var sslVals = []string{"on", "off", "ON", "on ", "", "On", "1", "on,off", "true"}
var schemeVals = []string{"https", "http", "ftp", "HTTPS", "", "https,http", "wss", "on"}

var commonHeaders = [][2]string{{"User-Agent", "ua/1.0"}, {"Accept", "*/*"}, {"X-Custom", "1"}, {"X-Forwarded-Port", "8443"},
	{"X-Forwarded-Server", "edge1"}, {"Forwarded", "for=1.2.3.4;proto=https"}, {"X-Url-Schemes", "https"}, {"X-Forwarded-Prot", "https"},
	{"Via", "1.1 proxy"}, {"X-Forwarded-Protoc", "https"}}

func variant(r *gen.Rand, name string) string {
	switch r.Intn(8) {
	case 0:
		return strings.ToLower(name)
	case 1:
		return strings.ToUpper(name)
	}
	return name
}

func parseIPBytes(r *gen.Rand, s string) []byte {
	ip := net.ParseIP(s)
	if v4 := ip.To4(); v4 != nil {
		if r.Bool() {
			return []byte(v4) // 4-byte form
		}
		return []byte(ip.To16()) // 16-byte v4-mapped form
	}
	return []byte(ip)
}

func genPeer(r *gen.Rand) connIn {
	var cn connIn
	cn.tcp = !r.Chance(1, 40)
	if r.Chance(1, 10) {
		n := 16
		if r.Bool() {
			n = 4
		}
		cn.ip = make([]byte, n)
		for i := range cn.ip {
			cn.ip[i] = byte(r.Intn(256))
		}
		if n == 16 {
			switch r.Intn(6) {
			case 0, 1:
				copy(cn.ip, []byte{0, 0, 0, 0, 0, 0, 0, 0, 0, 0, 0xff, 0xff})
			case 2: // NOT v4-mapped, but bytes 10-11 read ff ff (e.g. 2001:db8:1:2:0:ffff:a00:1)
				cn.ip[10], cn.ip[11] = 0xff, 0xff
				if r.Bool() {
					copy(cn.ip[12:], net.ParseIP(gen.Pick(r, peerTexts[:24])).To16()[12:])
				}
			case 3: // v4-compatible ::a.b.c.d / NAT64 64:ff9b::a.b.c.d
				copy(cn.ip, make([]byte, 12))
				if r.Bool() {
					copy(cn.ip, []byte{0, 0x64, 0xff, 0x9b})
				}
			}
		}
	} else {
		cn.ip = parseIPBytes(r, gen.Pick(r, peerTexts))
	}
	cn.tls = r.Chance(1, 4)
	cn.host = gen.Pick(r, hosts)
	cn.off = gen.Pick(r, []int{0, 1, 2, 2, 3, 5})
	return cn
}

// nonCanonical returns a different spelling of the same address when there is one.
func nonCanonical(r *gen.Rand, ip net.IP) string {
	if v4 := ip.To4(); v4 != nil {
		return "::ffff:" + v4.String()
	}
	b := ip.To16()
	switch r.Intn(3) {
	case 0: // fully expanded
		return fmt.Sprintf("%x:%x:%x:%x:%x:%x:%x:%x", uint16(b[0])<<8|uint16(b[1]), uint16(b[2])<<8|uint16(b[3]), uint16(b[4])<<8|uint16(b[5]),
			uint16(b[6])<<8|uint16(b[7]), uint16(b[8])<<8|uint16(b[9]), uint16(b[10])<<8|uint16(b[11]), uint16(b[12])<<8|uint16(b[13]), uint16(b[14])<<8|uint16(b[15]))
	case 1:
		return strings.ToUpper(ip.String())
	default: // leading zeros
		return fmt.Sprintf("%04x:%04x:%04x:%04x:%04x:%04x:%04x:%04x", uint16(b[0])<<8|uint16(b[1]), uint16(b[2])<<8|uint16(b[3]), uint16(b[4])<<8|uint16(b[5]),
			uint16(b[6])<<8|uint16(b[7]), uint16(b[8])<<8|uint16(b[9]), uint16(b[10])<<8|uint16(b[11]), uint16(b[12])<<8|uint16(b[13]), uint16(b[14])<<8|uint16(b[15]))
	}
}

func neighbour(r *gen.Rand, ip net.IP) net.IP {
	out := make(net.IP, len(ip))
	copy(out, ip)
	i := len(out) - 1 - r.Intn(2)
	out[i] ^= byte(1 << uint(r.Intn(8)))
	return out
}

// lookalike returns a DIFFERENT address whose bytes embed (part of) the peer's: the low or high four
// bytes of a v6 peer read as IPv4, a v4 peer embedded in a v6 address that is not v4-mapped.
func lookalike(r *gen.Rand, peer net.IP) string {
	if v4 := peer.To4(); v4 != nil {
		switch r.Intn(6) {
		case 0:
			return "::" + v4.String() // v4-compatible, not mapped
		case 1:
			return "64:ff9b::" + v4.String()
		case 2:
			return fmt.Sprintf("2002:%02x%02x:%02x%02x::", v4[0], v4[1], v4[2], v4[3])
		case 3:
			return "2001:db8:1:2:0:ffff:" + v4.String()
		case 4:
			return "::ffff:0:" + v4.String()
		default:
			return net.IPv4(v4[3], v4[2], v4[1], v4[0]).String()
		}
	}
	b := peer.To16()
	if b == nil {
		return "0.0.0.0"
	}
	switch r.Intn(4) {
	case 0, 1:
		return net.IPv4(b[12], b[13], b[14], b[15]).String()
	case 2:
		return net.IPv4(b[0], b[1], b[2], b[3]).String()
	default:
		return "::ffff:" + net.IPv4(b[12], b[13], b[14], b[15]).String()
	}
}

// relatedPeer returns another peer whose bytes embed (part of) p's: the 16-byte mapped form of a 4-byte
// address and back, the IPv6 address with the same leading four bytes and a zero tail, the one with the
// same trailing four bytes, the leading/trailing four bytes of an IPv6 address as IPv4, a neighbour.
func relatedPeer(r *gen.Rand, p []byte) []byte {
	out16 := func() []byte { return make([]byte, 16) }
	if len(p) == 4 {
		switch r.Intn(5) {
		case 0:
			return []byte(net.IP(p).To16())
		case 1, 2: // a.b.c.d -> aabb:ccdd::
			o := out16()
			copy(o, p)
			return o
		case 3: // ::a.b.c.d
			o := out16()
			copy(o[12:], p)
			return o
		default:
			return []byte(neighbour(r, net.IP(p)))
		}
	}
	switch r.Intn(6) {
	case 0, 1:
		return append([]byte{}, p[:4]...)
	case 2:
		return append([]byte{}, p[12:]...)
	case 3: // same leading four bytes, zero tail
		o := out16()
		copy(o, p[:4])
		return o
	case 4:
		if v4 := net.IP(p).To4(); v4 != nil {
			return []byte(v4)
		}
		o := out16()
		copy(o[12:], p[12:])
		return o
	default:
		return []byte(neighbour(r, net.IP(p)))
	}
}

func genProxyEntry(r *gen.Rand, peer net.IP) string {
	is4 := peer.To4() != nil
	switch r.Intn(16) {
	case 14, 15:
		return lookalike(r, peer)
	case 0, 1: // the peer itself
		return peer.String()
	case 2: // other spelling of the peer
		return nonCanonical(r, peer)
	case 3: // a neighbour
		return neighbour(r, peer).String()
	case 4, 5, 6: // CIDR around the peer or a neighbour
		base := peer
		if r.Chance(1, 3) {
			base = neighbour(r, peer)
		}
		if is4 {
			return fmt.Sprintf("%s/%d", base.To4().String(), gen.Pick(r, []int{0, 7, 8, 12, 16, 23, 24, 30, 31, 32}))
		}
		return fmt.Sprintf("%s/%d", base.String(), gen.Pick(r, []int{0, 7, 10, 16, 32, 64, 96, 112, 127, 128}))
	case 7: // v4-mapped prefix
		if is4 {
			return fmt.Sprintf("::ffff:%s/%d", peer.To4().String(), gen.Pick(r, []int{96, 104, 112, 120, 128}))
		}
		return "::/0"
	case 8: // malformed
		return gen.Pick(r, []string{"", "abc", "1.2.3", "10.0.0.0/33", "1.2.3.4/", "/8", "fe80::1%eth0", "10.0.0.1/8/9", "300.1.1.1", "::1/129"})
	case 9:
		return gen.Pick(r, []string{"10.0.0.0/8", "172.16.0.0/12", "192.168.0.0/16", "127.0.0.0/8", "fc00::/7", "fe80::/10", "0.0.0.0/0", "::/0", "169.254.0.0/16"})
	default:
		return gen.Pick(r, peerTexts)
	}
}

func genCfg(r *gen.Rand, cn connIn) cfgIn {
	var c cfgIn
	c.trust = !r.Chance(1, 6)
	c.loopback = r.Chance(1, 4)
	c.private = r.Chance(1, 4)
	c.linkLocal = r.Chance(1, 4)
	c.validate = r.Bool()
	c.phdr = gen.Pick(r, proxyHeaders)
	peer := net.IP(cn.ip)
	if !cn.tcp {
		peer = net.IPv4zero
	}
	n := gen.Pick(r, []int{0, 0, 1, 1, 2, 3})
	for i := 0; i < n; i++ {
		c.proxies = append(c.proxies, genProxyEntry(r, peer))
	}
	return c
}

// v6Text prints eight random groups in one of the RFC 4291 text forms (full, compressed anywhere, with
// a dotted-quad tail, upper case, zero padded) and then, half of the time, damages it in one place: the
// inputs on which fiber's validators (isIPv6 scan + utils.IsIPv6) and the grammar could part.
func v6Text(r *gen.Rand) string {
	g := make([]uint16, 8)
	for i := range g {
		switch r.Intn(4) {
		case 0:
			g[i] = 0
		case 1:
			g[i] = uint16(r.Intn(16))
		default:
			g[i] = uint16(r.Intn(65536))
		}
	}
	hexf := gen.Pick(r, []string{"%x", "%x", "%X", "%04x", "%03x"})
	grp := func(x uint16) string { return fmt.Sprintf(hexf, x) }
	n := 8
	tail := ""
	if r.Chance(1, 4) { // dotted quad for the last two groups
		n = 6
		tail = fmt.Sprintf("%d.%d.%d.%d", g[6]>>8, g[6]&0xff, g[7]>>8, g[7]&0xff)
	}
	parts := make([]string, 0, 9)
	for i := 0; i < n; i++ {
		parts = append(parts, grp(g[i]))
	}
	if tail != "" {
		parts = append(parts, tail)
	}
	var s string
	switch r.Intn(4) {
	case 0: // full form
		s = strings.Join(parts, ":")
	default: // "::" in place of parts[a:b] (possibly of no part at all, or of non-zero ones: the text is what counts)
		a := r.Intn(len(parts) + 1)
		b := a + r.Intn(len(parts)-a+1)
		if tail != "" && b == len(parts) && a < b {
			b--
		}
		s = strings.Join(parts[:a], ":") + "::" + strings.Join(parts[b:], ":")
	}
	if r.Bool() {
		return s
	}
	i := 0
	if len(s) > 0 {
		i = r.Intn(len(s))
	}
	switch r.Intn(10) {
	case 0: // one more digit in a group
		return s[:i] + gen.Pick(r, []string{"0", "1", "f", "F"}) + s[i:]
	case 1: // one more group
		return s + ":" + grp(uint16(r.Intn(65536)))
	case 2:
		return gen.Pick(r, []string{"1:", ":", "0:0:"}) + s
	case 3:
		return s + gen.Pick(r, []string{":", "::", ".1", ":1.2.3.4", "%eth0", "/64"})
	case 4: // a byte replaced
		if len(s) == 0 {
			return ":"
		}
		return s[:i] + gen.Pick(r, []string{"g", ":", ".", " ", "-", "::"}) + s[i+1:]
	case 5: // a byte dropped
		if len(s) == 0 {
			return s
		}
		return s[:i] + s[i+1:]
	case 6:
		return "[" + s + "]"
	case 7:
		return strings.Replace(s, ":", "::", 1)
	case 8:
		return strings.Replace(s, "::", ":", 1)
	default:
		return strings.Replace(s, ".", ".0", 1)
	}
}

func xffVal(r *gen.Rand) string {
	switch r.Intn(6) {
	case 0:
		return v6Text(r)
	case 1:
		return gen.Pick(r, []string{"", " ", "bogus, ", "1.2.3.4, ", ",", "unknown,"}) + v6Text(r) + gen.Pick(r, []string{"", " ", ", 9.9.9.9", ",", " , " + v6Text(r)})
	default:
		return gen.Pick(r, xffVals)
	}
}

func genFwd(r *gen.Rand, phdr string) [][2]string {
	var out [][2]string
	add := func(k, v string) { out = append(out, [2]string{variant(r, k), v}) }
	if r.Chance(2, 3) {
		add("X-Forwarded-For", xffVal(r))
	}
	if r.Chance(1, 2) {
		add("X-Forwarded-Host", gen.Pick(r, xfhVals))
	}
	if r.Chance(1, 2) {
		add("X-Forwarded-Proto", gen.Pick(r, protoVals))
	}
	if r.Chance(1, 4) {
		add("X-Forwarded-Protocol", gen.Pick(r, protoVals))
	}
	if r.Chance(1, 4) {
		add("X-Forwarded-Ssl", gen.Pick(r, sslVals))
	}
	if r.Chance(1, 4) {
		add("X-Url-Scheme", gen.Pick(r, schemeVals))
	}
	if phdr != "" && !strings.EqualFold(phdr, "X-Forwarded-For") && r.Chance(2, 3) {
		add(phdr, xffVal(r))
	}
	if r.Chance(1, 8) { // duplicates
		add("X-Forwarded-For", gen.Pick(r, xffVals))
		add("X-Forwarded-Host", gen.Pick(r, xfhVals))
	}
	if r.Chance(1, 6) { // the same scheme header twice, or all four at once: only the order decides
		switch r.Intn(5) {
		case 0:
			add("X-Forwarded-Proto", gen.Pick(r, protoVals))
		case 1:
			add("X-Forwarded-Protocol", gen.Pick(r, protoVals))
		case 2:
			add("X-Forwarded-Ssl", gen.Pick(r, sslVals))
		case 3:
			add("X-Url-Scheme", gen.Pick(r, schemeVals))
		default:
			add("X-Forwarded-Proto", gen.Pick(r, protoVals))
			add("X-Forwarded-Protocol", gen.Pick(r, protoVals))
			add("X-Forwarded-Ssl", gen.Pick(r, sslVals))
			add("X-Url-Scheme", gen.Pick(r, schemeVals))
		}
	}
	// shuffle
	for i := len(out) - 1; i > 0; i-- {
		j := r.Intn(i + 1)
		out[i], out[j] = out[j], out[i]
	}
	return out
}

// interleave keeps the relative order of both lists.
func interleave(r *gen.Rand, common, fwd [][2]string) []string {
	var out []string
	i, j := 0, 0
	for i < len(common) || j < len(fwd) {
		if j >= len(fwd) || (i < len(common) && r.Bool()) {
			out = append(out, common[i][0], common[i][1])
			i++
		} else {
			out = append(out, fwd[j][0], fwd[j][1])
			j++
		}
	}
	return out
}

func genCase(w *gen.Writer, r *gen.Rand) (cfgIn, connIn, []string, []string) {
	cn := genPeer(r)
	c := genCfg(r, cn)
	if cn.tcp && r.Chance(1, 3) { // a short history on one app: 1-3 earlier requests from related peers
		last := cn.ip
		for n := 1 + r.Intn(3); n > 0; n-- {
			p := relatedPeer(r, last)
			if r.Chance(1, 3) {
				p = relatedPeer(r, cn.ip)
			}
			cn.pre = append(cn.pre, p)
			last = p
		}
		w.Count("history")
	}
	var common [][2]string
	for i := r.Intn(4); i > 0; i-- {
		common = append(common, gen.Pick(r, commonHeaders))
	}
	fa := genFwd(r, c.phdr)
	var fb [][2]string
	if !r.Chance(1, 5) {
		fb = genFwd(r, c.phdr)
	}
	if c.trust {
		w.Count("trustproxy-on")
	}
	return c, cn, interleave(r, common, fa), interleave(r, common, fb)
}
