// Harness for C10: runs the real accessors (IsProxyTrusted, IP, IPs, Host, Hostname, Scheme,
// BaseURL, Secure, Subdomains, Protocol) on generated proxy configurations × peers × pairs of
// requests that differ only in forwarding headers. One case = one configuration, one connection,
// two requests A and B; the observation is "obsA|obsB".
//
// Case line (after `case`, id):
//
//	cfg      trustProxy,loopback,private,linkLocal,validate  (five 0/1)
//	proxies  hexlist (TrustProxyConfig.Proxies as configured)
//	phdr     hex ProxyHeader
//	peer     "t:<hex ip bytes>" (TCP peer, 4 or 16 bytes) or "u" (non-TCP address), optionally followed by
//	         "/<hex>" per EARLIER request of the history: the same app first serves request A from each of
//	         these peers (4 or 16 bytes, oldest first), then A and B from the peer in front
//	tls      0/1
//	host     hex Host header
//	off      Subdomains offset
//	rawA     hexlist k,v,k,v… headers of request A as sent (after Host)
//	rawB     … of request B
//	--- parameters obtained from Go / fasthttp (recomputed on replay) ---
//	peerinfo rip=<hex RemoteIP bytes>;str=<hex RemoteIP().String()>;lb=0/1;pr=0/1;ll=0/1
//	pinfo    per Proxies entry, '|'-separated: p:<hex ParseIP(e).To16() or ->:<hex its String() or ->:<hex ParseCIDR(e) net ip or ->:<hex mask or ->
//	nphdr    hex ProxyHeader as fasthttp normalises it
//	viewA    hexlist k,v… RequestHeader.VisitAll of request A;  uhA hex URI().Host()
//	viewB, uhB
//	obs      obsA|obsB
package main

import (
	"bufio"
	"bytes"
	"crypto/tls"
	"fmt"
	"io"
	"net"
	"strconv"
	"strings"
	"time"

	"github.com/gofiber/fiber/v3"
	"github.com/gofiber/fiber/v3/log"
	"github.com/valyala/fasthttp"

	"verifharness/internal/gen"
)

type cfgIn struct {
	trust, loopback, private, linkLocal, validate bool
	proxies                                       []string
	phdr                                          string
}

type connIn struct {
	tcp  bool
	pre  [][]byte // peers of earlier requests served by the same app (history), oldest first
	ip   []byte
	tls  bool
	host string
	off  int
}

// ---- fake connections -------------------------------------------------------------------------

type unixAddr struct{}

func (unixAddr) Network() string { return "unix" }
func (unixAddr) String() string  { return "/tmp/sock" }

type fakeConn struct{ remote net.Addr }

func (*fakeConn) Read([]byte) (int, error)         { return 0, io.EOF }
func (*fakeConn) Write(b []byte) (int, error)      { return len(b), nil }
func (*fakeConn) Close() error                     { return nil }
func (*fakeConn) LocalAddr() net.Addr              { return &net.TCPAddr{IP: net.IPv4(127, 0, 0, 1), Port: 3000} }
func (c *fakeConn) RemoteAddr() net.Addr           { return c.remote }
func (*fakeConn) SetDeadline(time.Time) error      { return nil }
func (*fakeConn) SetReadDeadline(time.Time) error  { return nil }
func (*fakeConn) SetWriteDeadline(time.Time) error { return nil }

// fakeTLSConn additionally has the two methods fasthttp's RequestCtx.IsTLS looks for.
type fakeTLSConn struct{ fakeConn }

func (*fakeTLSConn) Handshake() error                     { return nil }
func (*fakeTLSConn) ConnectionState() tls.ConnectionState { return tls.ConnectionState{} }

// ---- running the real code --------------------------------------------------------------------

type obsT struct {
	s string
}

func buildRequest(host string, raw []string) (*fasthttp.Request, bool) {
	var sb strings.Builder
	sb.WriteString("GET /p?x=1 HTTP/1.1\r\n")
	if host != "" {
		sb.WriteString("Host: " + host + "\r\n")
	}
	for i := 0; i+1 < len(raw); i += 2 {
		sb.WriteString(raw[i] + ": " + raw[i+1] + "\r\n")
	}
	sb.WriteString("\r\n")
	req := &fasthttp.Request{}
	if err := req.Read(bufio.NewReader(strings.NewReader(sb.String()))); err != nil {
		return nil, false
	}
	return req, true
}

// newApp builds the application of one case. Both requests of the pair go through the SAME app, one
// after the other, so that the second one is served by the pooled Ctx the first one used: whatever a
// gated accessor caches (BaseURL) or leaves behind must not reach the next request.
func newApp(c cfgIn, off int) func(*fasthttp.RequestCtx) string {
	app := fiber.New(fiber.Config{
		TrustProxy:         c.trust,
		TrustProxyConfig:   fiber.TrustProxyConfig{Proxies: c.proxies, Loopback: c.loopback, Private: c.private, LinkLocal: c.linkLocal},
		ProxyHeader:        c.phdr,
		EnableIPValidation: c.validate,
	})
	var out string
	h := func(x fiber.Ctx) error {
		// BaseURL first on the pooled Ctx: a value cached by the previous request would show here
		base := x.BaseURL()
		sub := x.Subdomains()
		subo := x.Subdomains(off)
		out = fmt.Sprintf("t=%s;ip=%s;ips=%s;host=%s;hn=%s;sch=%s;base=%s;sec=%s;sub=%s;subo=%s;proto=%s",
			gen.B(x.IsProxyTrusted()), gen.Hex(x.IP()), gen.HexList(x.IPs()), gen.Hex(x.Host()), gen.Hex(x.Hostname()),
			gen.Hex(x.Scheme()), gen.Hex(base), gen.B(x.Secure()), gen.HexList(sub), gen.HexList(subo), gen.Hex(x.Protocol()))
		if again := x.BaseURL(); again != base {
			out += ";base2=" + gen.Hex(again)
		}
		return nil
	}
	app.Get("/p", h)
	handler := app.Handler()
	return func(fctx *fasthttp.RequestCtx) string {
		out = ""
		handler(fctx)
		if out == "" {
			return "nohandler"
		}
		return out
	}
}

func observe(run func(*fasthttp.RequestCtx) string, cn connIn, raw []string) (view []string, uriHost string, obs string, ok bool) {
	defer func() {
		if r := recover(); r != nil {
			obs = "panic"
			ok = true
		}
	}()
	req, good := buildRequest(cn.host, raw)
	if !good {
		return nil, "", "", false
	}
	var remote net.Addr = unixAddr{}
	if cn.tcp {
		remote = &net.TCPAddr{IP: net.IP(cn.ip), Port: 40000}
	}
	var conn net.Conn
	if cn.tls {
		conn = &fakeTLSConn{fakeConn{remote}}
	} else {
		conn = &fakeConn{remote}
	}
	var fctx fasthttp.RequestCtx
	fctx.Init2(conn, nil, false)
	req.CopyTo(&fctx.Request)
	req.Header.VisitAll(func(k, v []byte) { view = append(view, string(k), string(v)) })
	uriHost = string(req.URI().Host())
	return view, uriHost, run(&fctx), true
}

func peerInfo(cn connIn) string {
	var remote net.Addr = unixAddr{}
	if cn.tcp {
		remote = &net.TCPAddr{IP: net.IP(cn.ip), Port: 40000}
	}
	var fctx fasthttp.RequestCtx
	fctx.Init2(&fakeConn{remote}, nil, false)
	ip := fctx.RemoteIP()
	return fmt.Sprintf("rip=%s;str=%s;lb=%s;pr=%s;ll=%s", gen.Hex(string(ip)), gen.Hex(ip.String()),
		gen.B(ip.IsLoopback()), gen.B(ip.IsPrivate()), gen.B(ip.IsLinkLocalUnicast()))
}

func proxyInfo(proxies []string) string {
	if len(proxies) == 0 {
		return "-"
	}
	// both parsers are run on every entry; which result counts is decided by the model (fileProxy),
	// as handleTrustedProxy decides it in fiber
	out := make([]string, len(proxies))
	for i, p := range proxies {
		ip16, canon, nip, mask := "-", "-", "-", "-"
		if ip := net.ParseIP(p); ip != nil {
			ip16, canon = gen.Hex(string(ip.To16())), gen.Hex(ip.String())
		}
		if _, n, err := net.ParseCIDR(p); err == nil {
			nip, mask = gen.Hex(string(n.IP)), gen.Hex(string(n.Mask))
		}
		out[i] = "p:" + ip16 + ":" + canon + ":" + nip + ":" + mask
	}
	return strings.Join(out, "|")
}

func emit(w *gen.Writer, id string, c cfgIn, cn connIn, rawA, rawB []string) bool {
	run := newApp(c, cn.off)
	// the history: earlier requests on the same app from other peers. Every request is judged on its
	// own (the trust decision is a function of configuration and peer), so nothing they leave behind
	// in the app may reach A and B.
	for _, p := range cn.pre {
		earlier := cn
		earlier.tcp, earlier.ip, earlier.pre = true, p, nil
		if _, _, _, ok := observe(run, earlier, rawA); !ok {
			w.Count("unparsable-request")
			return false
		}
	}
	viewA, uhA, obsA, okA := observe(run, cn, rawA)
	viewB, uhB, obsB, okB := observe(run, cn, rawB)
	if !okA || !okB {
		w.Count("unparsable-request")
		return false
	}
	peer := "u"
	if cn.tcp {
		peer = "t:" + gen.Hex(string(cn.ip))
	}
	for _, p := range cn.pre {
		peer += "/" + gen.Hex(string(p))
	}
	nphdr := string(fasthttp.AppendNormalizedHeaderKey(nil, c.phdr))
	w.Case(id,
		strings.Join([]string{gen.B(c.trust), gen.B(c.loopback), gen.B(c.private), gen.B(c.linkLocal), gen.B(c.validate)}, ","),
		gen.HexList(c.proxies), gen.Hex(c.phdr), peer, gen.B(cn.tls), gen.Hex(cn.host), strconv.Itoa(cn.off),
		gen.HexList(rawA), gen.HexList(rawB),
		peerInfo(cn), proxyInfo(c.proxies), gen.Hex(nphdr),
		gen.HexList(viewA), gen.Hex(uhA), gen.HexList(viewB), gen.Hex(uhB),
		obsA+"|"+obsB)
	return true
}

func main() {
	log.SetOutput(io.Discard)
	o := gen.ParseFlags()
	w := gen.NewWriter(o.Out)
	defer w.Close()
	if o.Replay != "" {
		for _, f := range gen.ReplayInputs(o.Replay) {
			replayOne(w, f)
		}
		return
	}
	root := gen.New(o.Seed)
	for i := 0; i < o.N; i++ {
		r := root.Fork(uint64(i))
		id := fmt.Sprintf("s%d.%d", o.Seed, i)
		c, cn, a, b := genCase(w, r)
		emit(w, id, c, cn, a, b)
		// the same history in the other order: the last earlier peer becomes the judged one
		if n := len(cn.pre); n > 0 && cn.tcp {
			m := cn
			m.ip = cn.pre[n-1]
			m.pre = append(append([][]byte{}, cn.pre[:n-1]...), cn.ip)
			w.Count("history-mirrored")
			emit(w, id+".m", c, m, a, b)
		}
	}
}

func replayOne(w *gen.Writer, f []string) {
	defer func() { _ = recover() }()
	if len(f) < 10 {
		return
	}
	fl := strings.Split(f[1], ",")
	if len(fl) != 5 {
		return
	}
	c := cfgIn{trust: fl[0] == "1", loopback: fl[1] == "1", private: fl[2] == "1", linkLocal: fl[3] == "1", validate: fl[4] == "1",
		proxies: gen.UnHexList(f[2]), phdr: gen.UnHex(f[3])}
	var cn connIn
	peerParts := strings.Split(f[4], "/")
	if len(peerParts) > 4 {
		return
	}
	for _, h := range peerParts[1:] {
		p := []byte(gen.UnHex(h))
		if len(p) != 4 && len(p) != 16 {
			return
		}
		cn.pre = append(cn.pre, p)
	}
	f[4] = peerParts[0]
	switch {
	case f[4] == "u":
	case strings.HasPrefix(f[4], "t:"):
		cn.tcp = true
		cn.ip = []byte(gen.UnHex(f[4][2:]))
		if len(cn.ip) != 4 && len(cn.ip) != 16 {
			return
		}
	default:
		return
	}
	cn.tls = f[5] == "1"
	cn.host = gen.UnHex(f[6])
	off, err := strconv.Atoi(f[7])
	if err != nil || off < 0 || off > 64 {
		return
	}
	cn.off = off
	a, b := gen.UnHexList(f[8]), gen.UnHexList(f[9])
	if len(a)%2 != 0 || len(b)%2 != 0 || bytes.ContainsAny([]byte(cn.host+strings.Join(a, "")+strings.Join(b, "")+c.phdr), "\r\n\x00") {
		return
	}
	emit(w, f[0], c, cn, a, b)
}
