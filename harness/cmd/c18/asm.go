package main

import (
	"bytes"
	"context"
	"errors"
	"fmt"
	"io"
	"sort"
	"strconv"
	"strings"
	"time"

	"github.com/gofiber/fiber/v3"
	"github.com/gofiber/fiber/v3/client"
	"github.com/valyala/fasthttp"

	"verifharness/internal/gen"
)

// ---- protocol helpers: entries `a:b:c` of hex parts, lists joined by ',' ("-" = empty list) ----

type entry []string

func encEntries(es []entry) string {
	if len(es) == 0 {
		return "-"
	}
	out := make([]string, len(es))
	for i, e := range es {
		parts := make([]string, len(e))
		for j, p := range e {
			parts[j] = gen.Hex(p)
			if p == "" {
				parts[j] = "_"
			}
		}
		out[i] = strings.Join(parts, ":")
	}
	return strings.Join(out, ",")
}

func decEntries(s string, arity int) ([]entry, bool) {
	if s == "-" {
		return nil, true
	}
	var out []entry
	for _, it := range strings.Split(s, ",") {
		ps := strings.Split(it, ":")
		if len(ps) != arity {
			return nil, false
		}
		e := make(entry, arity)
		for i, p := range ps {
			e[i] = gen.UnHex(p)
		}
		out = append(out, e)
	}
	return out, true
}

// asmCase is one client+request configuration.
type asmCase struct {
	base, url, method string
	cH, rH            []entry // op(a|s) key value
	cQ, rQ            []entry // op(a|s) key value
	cC, rC            []entry // key value
	cP, rP            []entry // key value
	jarC              []entry // key value (stored for the request host)
	cUA, rUA          string
	cRef, rRef        string
	cTO, rTO          int // ms
	bodyKind          string
	body              string
	form              []entry // op key value
	files             []entry // fieldName fileName content
	delay             int     // ms the handler waits (timeout cases)
}

func (a *asmCase) fields() []string {
	return []string{"asm", gen.Hex(a.base), gen.Hex(a.url), gen.Hex(a.method),
		encEntries(a.cH), encEntries(a.rH), encEntries(a.cQ), encEntries(a.rQ), encEntries(a.cC), encEntries(a.rC),
		encEntries(a.cP), encEntries(a.rP), encEntries(a.jarC), gen.Hex(a.cUA), gen.Hex(a.rUA), gen.Hex(a.cRef), gen.Hex(a.rRef),
		gen.I(a.cTO), gen.I(a.rTO), a.bodyKind, gen.Hex(a.body), encEntries(a.form), encEntries(a.files), gen.I(a.delay)}
}

func parseAsm(f []string) (a *asmCase, ok bool) {
	defer func() {
		if recover() != nil {
			a, ok = nil, false
		}
	}()
	// f[0] = "asm"
	if len(f) < 25 {
		return nil, false
	}
	a = &asmCase{base: gen.UnHex(f[1]), url: gen.UnHex(f[2]), method: gen.UnHex(f[3]), cUA: gen.UnHex(f[13]), rUA: gen.UnHex(f[14]),
		cRef: gen.UnHex(f[15]), rRef: gen.UnHex(f[16]), bodyKind: f[19], body: gen.UnHex(f[20])}
	var o [11]bool
	a.cH, o[0] = decEntries(f[4], 3)
	a.rH, o[1] = decEntries(f[5], 3)
	a.cQ, o[2] = decEntries(f[6], 3)
	a.rQ, o[3] = decEntries(f[7], 3)
	a.cC, o[4] = decEntries(f[8], 2)
	a.rC, o[5] = decEntries(f[9], 2)
	a.cP, o[6] = decEntries(f[10], 2)
	a.rP, o[7] = decEntries(f[11], 2)
	a.jarC, o[8] = decEntries(f[12], 2)
	a.form, o[9] = decEntries(f[21], 3)
	a.files, o[10] = decEntries(f[22], 3)
	for _, x := range o {
		if !x {
			return nil, false
		}
	}
	var e1, e2, e3 error
	a.cTO, e1 = strconv.Atoi(f[17])
	a.rTO, e2 = strconv.Atoi(f[18])
	a.delay, e3 = strconv.Atoi(f[23])
	if e1 != nil || e2 != nil || e3 != nil || a.cTO < 0 || a.rTO < 0 || a.delay < 0 || a.delay > 2000 {
		return nil, false
	}
	switch a.bodyKind {
	case "none", "raw", "form", "files":
	default:
		return nil, false
	}
	return a, true
}

// ---- server side -------------------------------------------------------------------------------

// seen is what the handler observed for the request in flight (assembly cases are sequential).
var seen struct {
	ran  bool
	text string
}

// ctExpected: the configuration in flight has a form or multipart body (the client sets Content-Type).
var ctExpected bool

func sortedPairs(kv []string) []string { sort.Strings(kv); return kv }

func observeRequest(c fiber.Ctx) string {
	req := c.Request()
	var q, h, ck, ff, files []string
	req.URI().QueryArgs().VisitAll(func(k, v []byte) { q = append(q, gen.Hex(string(k))+":"+gen.Hex(string(v))) })
	req.Header.VisitAll(func(k, v []byte) {
		if len(k) > 2 && k[0] == 'X' && k[1] == '-' {
			h = append(h, gen.Hex(string(k))+":"+gen.Hex(string(v)))
		}
	})
	req.Header.VisitAllCookie(func(k, v []byte) { ck = append(ck, gen.Hex(string(k))+":"+gen.Hex(string(v))) })
	ct := string(req.Header.ContentType())
	body := gen.Hex(string(req.Body()))
	if !ctExpected {
		ct = "" // fasthttp's own default content type is not the client's doing
	}
	if strings.HasPrefix(ct, "multipart/form-data") {
		ct = "multipart/form-data"
		body = "mp"
		if mf, err := c.MultipartForm(); err == nil {
			// the client writes fields in Args order and files in slice order; Go's map loses the order
			// between different names, so the canonical form sorts by name (values keep their order)
			names := make([]string, 0, len(mf.Value))
			for k := range mf.Value {
				names = append(names, k)
			}
			sort.Strings(names)
			for _, k := range names {
				for _, v := range mf.Value[k] {
					ff = append(ff, gen.Hex(k)+":"+gen.Hex(v))
				}
			}
			fnames := make([]string, 0, len(mf.File))
			for k := range mf.File {
				fnames = append(fnames, k)
			}
			sort.Strings(fnames)
			for _, k := range fnames {
				for _, fh := range mf.File[k] {
					fl, err := fh.Open()
					content := ""
					if err == nil {
						b, _ := io.ReadAll(fl)
						content = string(b)
						_ = fl.Close()
					}
					files = append(files, gen.Hex(k)+":"+gen.Hex(fh.Filename)+":"+gen.Hex(content))
				}
			}
		} else {
			body = "mperr"
		}
	}
	j := func(xs []string) string {
		if len(xs) == 0 {
			return "-"
		}
		return strings.Join(xs, ",")
	}
	return fmt.Sprintf("m=%s;host=%s;path=%s;rq=%s;q=%s;h=%s;ua=%s;ref=%s;ck=%s;ct=%s;body=%s;ff=%s;files=%s",
		gen.Hex(c.Method()), gen.Hex(string(req.Header.Host())), gen.Hex(string(req.URI().Path())),
		gen.Hex(string(req.URI().QueryString())), j(q), j(h), gen.Hex(string(req.Header.UserAgent())),
		gen.Hex(string(req.Header.Referer())), j(sortedPairs(ck)), gen.Hex(ct), body, j(ff), j(files))
}

// ---- pooled objects ------------------------------------------------------------------------------

// pollute plays an earlier, unrelated user of the pooled Request / Response objects: a request bound to
// another client, with every component configured, sent (so that RawRequest, Response.cookie and
// RawResponse are dirty too) and released. It returns whether the object the NEXT user gets from the
// pool is observably blank (a recycled object has been through Reset: method GET; one that sync.Pool had to
// make anew has the zero method, which fasthttp sends as GET as well).
var polluteRound int

func pollute() (clean bool, same bool) {
	polluteRound++
	leakCl := client.New().SetDial(dialer).SetHeader("X-Leak-Client", "1").SetCookie("leakcc", "1").
		SetUserAgent("leak-client-agent").SetReferer("http://leak-client/")
	r := client.AcquireRequest().SetClient(leakCl)
	r.AddHeader("X-Leak", "h").SetHeader("X-Leak2", "h2").AddParam("leak", "p").SetParam("x", "leak").
		SetCookie("leakc", "v").SetCookie("c1", "leak").SetPathParam("id", "LEAK").SetPathParam("missing", "LEAK").
		SetPathParam("a", "LEAK").SetUserAgent("leak-agent").SetReferer("http://leak/").
		SetTimeout(7 * time.Second).SetMaxRedirects(3).SetContext(context.WithValue(context.Background(), leakKey{}, 1))
	switch polluteRound % 3 {
	case 0:
		r.SetRawBody([]byte("leak-body"))
	case 1:
		r.AddFormData("leakf", "v").SetFormData("a", "leak")
	default:
		r.AddFormData("leakf", "v")
		r.AddFiles(client.AcquireFile(client.SetFileFieldName("leakfile"), client.SetFileName("leak.txt"),
			client.SetFileReader(io.NopCloser(bytes.NewReader([]byte("leak"))))))
	}
	saveCT := ctExpected
	respMal = respMal[:0]
	respCookies = append(respCookies[:0], mkCookie("leakset", "1", "/", "n", time.Now()))
	resp, err := r.Post("http://leak.test/leak/:missing?lq=1")
	for _, c := range respCookies {
		fasthttp.ReleaseCookie(c)
	}
	respCookies = respCookies[:0]
	ctExpected = saveCT
	if err != nil {
		client.ReleaseRequest(r)
	} else {
		resp.Close()
	}
	n := client.AcquireRequest()
	same = n == r
	clean = n.Client() == nil && n.URL() == "" && (n.Method() == "GET" || (n != r && n.Method() == "")) && n.UserAgent() == "" && n.Referer() == "" &&
		n.Timeout() == 0 && n.MaxRedirects() == 0 && len(n.Files()) == 0 && n.Context().Value(leakKey{}) == nil &&
		n.Boundary() == "--FiberFormBoundary" && n.RawRequest.Header.Len() == 0 && len(n.RawRequest.Body()) == 0 &&
		len(n.RawRequest.Header.RequestURI()) <= 1
	for range n.Headers() {
		clean = false
	}
	for range n.Params() {
		clean = false
	}
	for range n.Cookies() {
		clean = false
	}
	for range n.PathParams() {
		clean = false
	}
	for range n.AllFormData() {
		clean = false
	}
	client.ReleaseRequest(n)
	return clean, same
}

type leakKey struct{}

// ---- client side -------------------------------------------------------------------------------

func applyOps(es []entry, add, set func(k, v string)) {
	for _, e := range es {
		if e[0] == "s" {
			set(e[1], e[2])
		} else {
			add(e[1], e[2])
		}
	}
}

// newAsmClient builds the client of a configuration (one per case: every request of the case's history goes through it).
func newAsmClient(a *asmCase) (cl *client.Client, cleanup func()) {
	cleanup = func() {}
	cl = client.New().SetDial(dialer)
	cl.SetBaseURL(a.base)
	applyOps(a.cH, func(k, v string) { cl.AddHeader(k, v) }, func(k, v string) { cl.SetHeader(k, v) })
	applyOps(a.cQ, func(k, v string) { cl.AddParam(k, v) }, func(k, v string) { cl.SetParam(k, v) })
	for _, e := range a.cC {
		cl.SetCookie(e[0], e[1])
	}
	for _, e := range a.cP {
		cl.SetPathParam(e[0], e[1])
	}
	if a.cUA != "" {
		cl.SetUserAgent(a.cUA)
	}
	if a.cRef != "" {
		cl.SetReferer(a.cRef)
	}
	if a.cTO > 0 {
		cl.SetTimeout(time.Duration(a.cTO) * time.Millisecond)
	}
	if len(a.jarC) > 0 {
		jar := client.AcquireCookieJar()
		cleanup = func() { client.ReleaseCookieJar(jar) }
		host := hostOfURL(a.base, a.url)
		for _, e := range a.jarC {
			jar.SetKeyValue(host, e[0], e[1])
		}
		cl.SetCookieJar(jar)
	}
	return cl, cleanup
}

// placeholderNames: every `:name` of the template (name = maximal run of letters, digits, '_').
func placeholderNames(t string) []string {
	var out []string
	for i := 0; i < len(t); i++ {
		if t[i] != ':' {
			continue
		}
		j := i + 1
		for j < len(t) && (t[j] == '_' || t[j] >= '0' && t[j] <= '9' || t[j] >= 'a' && t[j] <= 'z' || t[j] >= 'A' && t[j] <= 'Z') {
			j++
		}
		if j > i+1 {
			out = append(out, t[i+1:j])
			// every non-empty prefix is a possible key as well (":id" inside ":idx")
			for k := i + 2; k < j; k++ {
				out = append(out, t[i+1:k])
			}
		}
	}
	return out
}

// historyKeys: the keys the requests of a case's history use on each component (the case's own, the
// template's placeholders, the precursor's fixed ones).
type historyKeys struct{ path, header, param, cookie []string }

func keysOf(a *asmCase) historyKeys {
	var k historyKeys
	k.path = append(placeholderNames(a.base+a.url), "id", "missing", "pre")
	for _, e := range a.cP {
		k.path = append(k.path, e[0])
	}
	for _, e := range a.rP {
		k.path = append(k.path, e[0])
	}
	k.header = []string{"X-Pre"}
	for _, e := range a.cH {
		k.header = append(k.header, e[1])
	}
	for _, e := range a.rH {
		k.header = append(k.header, e[1])
	}
	k.param = []string{"pre"}
	for _, e := range a.cQ {
		k.param = append(k.param, e[1])
	}
	for _, e := range a.rQ {
		k.param = append(k.param, e[1])
	}
	k.cookie = []string{"prec"}
	for _, es := range [][]entry{a.cC, a.rC, a.jarC} {
		for _, e := range es {
			k.cookie = append(k.cookie, e[0])
		}
	}
	return k
}

// clientConfig: what the client-level configuration holds under every key of the history (the client has getters per
// key only) plus the base URL. Taken before the first and after the last request of a case: no request may change it.
func clientConfig(cl *client.Client, k historyKeys) string {
	var b strings.Builder
	for _, x := range k.path {
		fmt.Fprintf(&b, "P %q=%q\n", x, cl.PathParam(x))
	}
	for _, x := range k.header {
		fmt.Fprintf(&b, "H %q=%q\n", x, cl.Header(x))
	}
	for _, x := range k.param {
		fmt.Fprintf(&b, "Q %q=%q\n", x, cl.Param(x))
	}
	for _, x := range k.cookie {
		fmt.Fprintf(&b, "C %q=%q\n", x, cl.Cookie(x))
	}
	fmt.Fprintf(&b, "B %q\n", cl.BaseURL())
	return b.String()
}

// precursor: an EARLIER request of the same client (a pooled Request object), which sets every component at request
// level - among them every path parameter the template names and every key the case uses on either level - and is
// sent to the case's own URL. The requests after it must be assembled from the client's configuration and their own
// only: what an earlier request set at request level belongs to that request.
func precursor(cl *client.Client, a *asmCase, k historyKeys, round int) {
	r := client.AcquireRequest().SetClient(cl)
	tag := "pre" + strconv.Itoa(round)
	for _, x := range k.path {
		r.SetPathParam(x, "PRE"+x)
	}
	for _, x := range k.header {
		r.AddHeader(x, tag)
	}
	for _, x := range k.param {
		r.AddParam(x, tag)
	}
	for _, x := range k.cookie {
		r.SetCookie(x, tag)
	}
	r.SetUserAgent("pre-agent").SetReferer("http://pre/").SetTimeout(5 * time.Second)
	saveCT := ctExpected
	resp, err := r.Get(a.url)
	ctExpected = saveCT
	if err != nil {
		client.ReleaseRequest(r)
	} else {
		resp.Close()
	}
}

// sendAsm sends the case's request once through the case's client: first a pollution round on the pooled objects
// (another client), then `pre` earlier requests on THIS client, then the request itself.
func sendAsm(a *asmCase, cl *client.Client, k historyKeys, pre int) (obs string, timedOut bool, pool bool) {
	pool, sameObj := pollute()
	if sameObj {
		poolSame++
	}
	poolRounds++
	for i := 0; i < pre; i++ {
		precursor(cl, a, k, i)
		preRounds++
	}
	req := client.AcquireRequest().SetClient(cl)
	applyOps(a.rH, func(k, v string) { req.AddHeader(k, v) }, func(k, v string) { req.SetHeader(k, v) })
	applyOps(a.rQ, func(k, v string) { req.AddParam(k, v) }, func(k, v string) { req.SetParam(k, v) })
	for _, e := range a.rC {
		req.SetCookie(e[0], e[1])
	}
	for _, e := range a.rP {
		req.SetPathParam(e[0], e[1])
	}
	if a.rUA != "" {
		req.SetUserAgent(a.rUA)
	}
	if a.rRef != "" {
		req.SetReferer(a.rRef)
	}
	if a.rTO > 0 {
		req.SetTimeout(time.Duration(a.rTO) * time.Millisecond)
	}
	switch a.bodyKind {
	case "raw":
		req.SetRawBody([]byte(a.body))
	case "form":
		applyOps(a.form, func(k, v string) { req.AddFormData(k, v) }, func(k, v string) { req.SetFormData(k, v) })
	case "files":
		applyOps(a.form, func(k, v string) { req.AddFormData(k, v) }, func(k, v string) { req.SetFormData(k, v) })
		for _, f := range a.files {
			fl := client.AcquireFile(client.SetFileFieldName(f[0]), client.SetFileName(f[1]),
				client.SetFileReader(io.NopCloser(bytes.NewReader([]byte(f[2])))))
			req.AddFiles(fl)
		}
	}
	seen.ran, seen.text = false, ""
	ctExpected = (a.bodyKind == "form" && len(a.form) > 0) || (a.bodyKind == "files" && (len(a.files) > 0 || len(a.form) > 0))
	handlerDelay = time.Duration(a.delay) * time.Millisecond
	defer func() { handlerDelay = 0 }()
	// safety net: a request that neither completes nor times out must not hang the harness
	ctx, cancel := context.WithTimeout(context.Background(), 10*time.Second)
	defer cancel()
	req.SetContext(ctx)
	resp, err := req.Custom(a.url, a.method)
	if err != nil {
		client.ReleaseRequest(req)
		if errors.Is(err, client.ErrTimeoutOrCancel) {
			return "timeout", true, pool
		}
		return "err=" + gen.Hex(err.Error()), false, pool
	}
	st := resp.StatusCode()
	// the path the client put into the request URI, before fasthttp normalises it ("//" collapses on the way to
	// the server, so the server's view cannot tell an empty path-parameter value from a missing segment)
	sentPath := gen.Hex(string(req.RawRequest.URI().PathOriginal()))
	// the Response object is pooled too: it must carry this exchange only
	if len(resp.Cookies()) != 0 || string(resp.Body()) != "ok" || resp.Header("Set-Cookie") != "" {
		pool = false
	}
	resp.Close()
	if !seen.ran {
		return fmt.Sprintf("notrun=%d", st), false, pool
	}
	return seen.text + ";po=" + sentPath, false, pool
}

var poolSame, poolRounds, preRounds int

func hostOfURL(base, url string) string {
	u := url
	if !strings.HasPrefix(u, "http://") && !strings.HasPrefix(u, "https://") {
		u = base + u
	}
	u = strings.TrimPrefix(strings.TrimPrefix(u, "https://"), "http://")
	if i := strings.IndexAny(u, "/?#"); i >= 0 {
		u = u[:i]
	}
	return u
}

// runAsm sends the configuration several times (Go map order is re-randomised on every range) and
// reports the first observation plus whether all sends produced the same request.
func runAsm(a *asmCase) string {
	n := 4
	if a.delay > 0 {
		n = 1
	}
	cl, cleanup := newAsmClient(a)
	defer cleanup()
	k := keysOf(a)
	before := clientConfig(cl, k)
	// the history: 1-3 earlier requests, the request, then (3 times) one earlier request and the request again
	first, to, pool := sendAsm(a, cl, k, 1+(len(a.url)+len(a.rP))%3)
	det := true
	for i := 1; i < n; i++ {
		o, t, p := sendAsm(a, cl, k, 1)
		if o != first || t != to {
			det = false
		}
		pool = pool && p
	}
	ccfg := clientConfig(cl, k) == before
	return first + ";ccfg=" + gen.B(ccfg) + ";pool=" + gen.B(pool) + ";det=" + gen.B(det)
}
