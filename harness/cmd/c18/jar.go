package main

import (
	"fmt"
	"strconv"
	"strings"
	"time"

	"github.com/gofiber/fiber/v3/client"
	"github.com/valyala/fasthttp"

	"verifharness/internal/gen"
)

// A jar case is ONE field: ops joined by ';', each op = letter + hex parts joined by ':'.
//   S:host:name:value:path:exp        jar.SetByHost(host, cookie)            exp = n | p | f
//   K:host:name:value                 jar.SetKeyValue(host, name, value)
//   R:host:reqpath:c1+c2+…            real request to http://host+reqpath through a client using the jar; the
//                                     server answers with Set-Cookie c_i = name~value~path~exp[~mal]; mal = e0 e1 e2
//                                     l0 l1 l2 makes the line one fasthttp Cookie.ParseBytes fails on: an attribute
//                                     it cannot parse (digit: Max-Age=abc, Max-Age=-1, Expires=notadate) directly
//                                     behind name=value (e: path and expires stand behind it) or at the end (l)
//   G:host:path                       jar.Get(uri)
//   X:host:path                       jar.Get(uri), then release every returned cookie (the documentation allows it)
//   L                                 jar.Release()
//   W                                 wait (real time) until every `s` cookie has expired
//   T:k                               wait (real time) until the middle of tick k of the case (k decimal, increasing);
//                                     a tick is tickLen long, counted from the start of the case
// Expiry is injected directly: p = one hour ago, f = in one hour, n = none (session cookie),
// s = shortLife after the start of the case (S ops only; Set-Cookie has a granularity of seconds),
// t1 … t9 = at the boundary between tick k-1 and tick k (S ops only). The jar reads time.Now(): a ticked case never
// runs an operation within tickMargin of a boundary (else it is run again), so which cookies have expired at each
// operation is fixed by the op list alone, without a settable clock and with waits of a few milliseconds.

type jarOp struct {
	kind  byte
	parts []string
}

func un(s string) string {
	if s == "_" || s == "-" {
		return ""
	}
	return gen.UnHex(s)
}

func hx(s string) string {
	if s == "" {
		return "_"
	}
	return gen.Hex(s)
}

func (o jarOp) String() string {
	if len(o.parts) == 0 {
		return string(o.kind)
	}
	return string(o.kind) + ":" + strings.Join(o.parts, ":")
}

func parseJarOps(s string) (ops []jarOp, ok bool) {
	defer func() {
		if recover() != nil {
			ops, ok = nil, false
		}
	}()
	if s == "-" || s == "" {
		return nil, true
	}
	for _, it := range strings.Split(s, ";") {
		ps := strings.Split(it, ":")
		if len(ps[0]) != 1 {
			return nil, false
		}
		op := jarOp{kind: ps[0][0], parts: ps[1:]}
		want := map[byte]int{'S': 5, 'K': 3, 'R': 3, 'G': 2, 'X': 2, 'L': 0, 'W': 0, 'T': 1}
		n, known := want[op.kind]
		if !known || len(op.parts) != n {
			return nil, false
		}
		// validate hex / enums eagerly so that a mangled op is rejected, not half-executed
		for i, p := range op.parts {
			switch {
			case op.kind == 'S' && i == 4:
				if p != "n" && p != "p" && p != "f" && p != "s" && tickOf(p) == 0 {
					return nil, false
				}
			case op.kind == 'T':
				if k, err := strconv.Atoi(p); err != nil || k < 1 || k > maxTick || strconv.Itoa(k) != p {
					return nil, false
				}
			case op.kind == 'R' && i == 2:
				if p != "-" {
					for _, c := range strings.Split(p, "+") {
						at := strings.Split(c, "~")
						if (len(at) != 4 && len(at) != 5) || (at[3] != "n" && at[3] != "p" && at[3] != "f") {
							return nil, false
						}
						if len(at) == 5 && !isMal(at[4]) {
							return nil, false
						}
						for _, a := range at[:3] {
							_ = un(a)
						}
					}
				}
			default:
				_ = un(p)
			}
		}
		ops = append(ops, op)
	}
	return ops, true
}

func mkCookie(name, value, path, exp string, now time.Time) *fasthttp.Cookie {
	c := fasthttp.AcquireCookie()
	c.SetKey(name)
	c.SetValue(value)
	if path != "" {
		c.SetPath(path)
	}
	switch exp {
	case "p":
		c.SetExpire(now.Add(-time.Hour))
	case "f":
		c.SetExpire(now.Add(time.Hour))
	case "s":
		c.SetExpire(now.Add(shortLife))
	default:
		if k := tickOf(exp); k > 0 {
			c.SetExpire(now.Add(time.Duration(k) * tickLen))
		}
	}
	return c
}

func showCookies(cs []*fasthttp.Cookie) string {
	if len(cs) == 0 {
		return "-"
	}
	out := make([]string, len(cs))
	for i, c := range cs {
		out[i] = hx(string(c.Key())) + "~" + hx(string(c.Value())) + "~" + hx(string(c.Path()))
	}
	return strings.Join(out, "+")
}

// respCookies is what the server adds to the next response (jar cases are sequential).
var respCookies []*fasthttp.Cookie

// respMal[i] != "" makes the Set-Cookie line of respCookies[i] a malformed one (see malformLine).
var respMal []string

var badAttrs = []string{"Max-Age=abc", "Max-Age=-1", "Expires=notadate"}

func isMal(m string) bool {
	return len(m) == 2 && (m[0] == 'e' || m[0] == 'l') && m[1] >= '0' && m[1] <= '2'
}

// malformLine puts an attribute fasthttp cannot parse into a Set-Cookie line (`k=v; expires=…; path=/a`):
// e = directly behind name=value, l = at the end.
func malformLine(line, m string) string {
	bad := badAttrs[m[1]-'0']
	if m[0] == 'e' {
		if i := strings.Index(line, "; "); i >= 0 {
			return line[:i] + "; " + bad + line[i:]
		}
	}
	return line + "; " + bad
}

// setCookieLines is what the server handler writes (raw lines: fasthttp's SetCookie would keep one per name).
func setCookieLines() []string {
	out := make([]string, len(respCookies))
	for i, ck := range respCookies {
		out[i] = string(ck.Cookie())
		if i < len(respMal) && respMal[i] != "" {
			out[i] = malformLine(out[i], respMal[i])
		}
	}
	return out
}

// cookieHeaderSeen is the Cookie header of the last request the server handled.
var cookieHeaderSeen string

// tickOf: "t3" -> 3; 0 = not a tick expiry
func tickOf(exp string) int {
	if len(exp) == 2 && exp[0] == 't' && exp[1] >= '1' && exp[1] <= '9' {
		return int(exp[1] - '0')
	}
	return 0
}

const (
	tickLen    = 4 * time.Millisecond // ticked cases: length of a tick
	tickMargin = 1 * time.Millisecond // no operation of a ticked case within this distance of a tick boundary
	maxTick    = 12
	shortLife  = 300 * time.Millisecond // life of an `s` cookie, counted from the start of the case
	shortSafe  = 200 * time.Millisecond // everything before the first W must be over by then
)

// runJar runs a case; a case with a W that was too slow to reach it in time (machine under load) is run again.
func runJar(ops []jarOp) string {
	for try := 0; try < 8; try++ {
		if obs, ok := runJarOnce(ops); ok {
			return obs
		}
	}
	return "slow"
}

func runJarOnce(ops []jarOp) (string, bool) {
	now := time.Now()
	waited := false
	ticked, tick := false, 0
	for _, op := range ops {
		if op.kind == 'T' {
			ticked = true
		}
	}
	jar := &client.CookieJar{}
	cl := client.New().SetDial(dialer).SetCookieJar(jar)
	var obs []string
	uriOf := func(host, path string) *fasthttp.URI {
		u := fasthttp.AcquireURI()
		_ = u.Parse(nil, []byte("http://"+host+path))
		return u
	}
	for _, op := range ops {
		p := make([]string, len(op.parts))
		for i, x := range op.parts {
			if (op.kind == 'S' && i == 4) || (op.kind == 'R' && i == 2) || op.kind == 'T' {
				p[i] = x
			} else {
				p[i] = un(x)
			}
		}
		switch op.kind {
		case 'S':
			c := mkCookie(p[1], p[2], p[3], p[4], now)
			jar.SetByHost([]byte(p[0]), c)
			fasthttp.ReleaseCookie(c) // "CookieJar stores copies of the provided cookies, so they may be safely released"
			obs = append(obs, "s")
		case 'K':
			jar.SetKeyValue(p[0], p[1], p[2])
			obs = append(obs, "k")
		case 'G', 'X':
			u := uriOf(p[0], p[1])
			cs := jar.Get(u)
			obs = append(obs, "g="+showCookies(cs))
			if op.kind == 'X' {
				for _, c := range cs {
					fasthttp.ReleaseCookie(c)
				}
			}
			fasthttp.ReleaseURI(u)
		case 'L':
			jar.Release()
			obs = append(obs, "l")
		case 'T':
			k, _ := strconv.Atoi(p[0])
			if k > tick {
				if time.Since(now) > time.Duration(k)*tickLen+tickLen/2 {
					return "", false // already past the middle of that tick
				}
				time.Sleep(time.Until(now.Add(time.Duration(k)*tickLen + tickLen/2)))
				tick = k
			}
			obs = append(obs, "t")
		case 'W':
			if !waited {
				if time.Since(now) > shortSafe {
					return "", false
				}
				time.Sleep(time.Until(now.Add(shortLife + 50*time.Millisecond)))
				waited = true
			}
			obs = append(obs, "w")
		case 'R':
			respCookies, respMal = respCookies[:0], respMal[:0]
			if p[2] != "-" {
				for _, c := range strings.Split(p[2], "+") {
					at := strings.Split(c, "~")
					respCookies = append(respCookies, mkCookie(un(at[0]), un(at[1]), un(at[2]), at[3], now))
					if len(at) == 5 {
						respMal = append(respMal, at[4])
					} else {
						respMal = append(respMal, "")
					}
				}
			}
			cookieHeaderSeen = ""
			seen.ran = false
			req := client.AcquireRequest().SetClient(cl).SetTimeout(5 * time.Second)
			resp, err := req.Get("http://" + p[0] + p[1])
			if err != nil && seen.ran {
				// the server answered and a response hook failed (an unparsable last Set-Cookie): core.execute has
				// closed the response, which released the request with it
				obs = append(obs, "re="+hx(cookieHeaderSeen))
			} else if err != nil {
				client.ReleaseRequest(req)
				obs = append(obs, "r=err:"+hx(err.Error()))
			} else {
				resp.Close()
				if !seen.ran {
					obs = append(obs, "r=notrun")
				} else {
					obs = append(obs, "r="+hx(cookieHeaderSeen))
				}
			}
			for _, c := range respCookies {
				fasthttp.ReleaseCookie(c)
			}
			respCookies, respMal = respCookies[:0], respMal[:0]
		}
		if ticked {
			// the operation must lie inside its tick, away from both boundaries
			if el := time.Since(now); el > time.Duration(tick+1)*tickLen-tickMargin || (tick > 0 && el < time.Duration(tick)*tickLen+tickMargin) {
				return "", false
			}
		}
	}
	if len(obs) == 0 {
		return "-", true
	}
	return strings.Join(obs, "|"), true
}

func jarOpsString(ops []jarOp) string {
	if len(ops) == 0 {
		return "-"
	}
	s := make([]string, len(ops))
	for i, o := range ops {
		s[i] = o.String()
	}
	return strings.Join(s, ";")
}

var _ = fmt.Sprint
