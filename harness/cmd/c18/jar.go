package main

import (
	"fmt"
	"strings"
	"time"

	"github.com/gofiber/fiber/v3/client"
	"github.com/valyala/fasthttp"

	"verifharness/internal/gen"
)

// A jar case is ONE field: ops joined by ';', each op = letter + hex parts joined by ':'.
//   S:host:name:value:path:exp        jar.SetByHost(host, cookie)            exp = n | p | f
//   K:host:name:value                 jar.SetKeyValue(host, name, value)
//   R:host:reqpath:c1+c2+…            real request to http://host+reqpath through a client using the jar; the
//                                     server answers with Set-Cookie c_i = name~value~path~exp
//   G:host:path                       jar.Get(uri)
//   X:host:path                       jar.Get(uri), then release every returned cookie (the documentation allows it)
//   L                                 jar.Release()
//   W                                 wait (real time) until every `s` cookie has expired
// Expiry is injected directly: p = one hour ago, f = in one hour, n = none (session cookie),
// s = shortLife after the start of the case (S ops only; Set-Cookie has a granularity of seconds).

type jarOp struct {
	kind  byte
	parts []string
}

func un(s string) string {
	if s == "_" || s == "-" {
		return ""
	}
	return gen.UnHex(s)
}

func hx(s string) string {
	if s == "" {
		return "_"
	}
	return gen.Hex(s)
}

func (o jarOp) String() string {
	if len(o.parts) == 0 {
		return string(o.kind)
	}
	return string(o.kind) + ":" + strings.Join(o.parts, ":")
}

func parseJarOps(s string) (ops []jarOp, ok bool) {
	defer func() {
		if recover() != nil {
			ops, ok = nil, false
		}
	}()
	if s == "-" || s == "" {
		return nil, true
	}
	for _, it := range strings.Split(s, ";") {
		ps := strings.Split(it, ":")
		if len(ps[0]) != 1 {
			return nil, false
		}
		op := jarOp{kind: ps[0][0], parts: ps[1:]}
		want := map[byte]int{'S': 5, 'K': 3, 'R': 3, 'G': 2, 'X': 2, 'L': 0, 'W': 0}
		n, known := want[op.kind]
		if !known || len(op.parts) != n {
			return nil, false
		}
		// validate hex / enums eagerly so that a mangled op is rejected, not half-executed
		for i, p := range op.parts {
			switch {
			case op.kind == 'S' && i == 4:
				if p != "n" && p != "p" && p != "f" && p != "s" {
					return nil, false
				}
			case op.kind == 'R' && i == 2:
				if p != "-" {
					for _, c := range strings.Split(p, "+") {
						at := strings.Split(c, "~")
						if len(at) != 4 || (at[3] != "n" && at[3] != "p" && at[3] != "f") {
							return nil, false
						}
						for _, a := range at[:3] {
							_ = un(a)
						}
					}
				}
			default:
				_ = un(p)
			}
		}
		ops = append(ops, op)
	}
	return ops, true
}

func mkCookie(name, value, path, exp string, now time.Time) *fasthttp.Cookie {
	c := fasthttp.AcquireCookie()
	c.SetKey(name)
	c.SetValue(value)
	if path != "" {
		c.SetPath(path)
	}
	switch exp {
	case "p":
		c.SetExpire(now.Add(-time.Hour))
	case "f":
		c.SetExpire(now.Add(time.Hour))
	case "s":
		c.SetExpire(now.Add(shortLife))
	}
	return c
}

func showCookies(cs []*fasthttp.Cookie) string {
	if len(cs) == 0 {
		return "-"
	}
	out := make([]string, len(cs))
	for i, c := range cs {
		out[i] = hx(string(c.Key())) + "~" + hx(string(c.Value())) + "~" + hx(string(c.Path()))
	}
	return strings.Join(out, "+")
}

// respCookies is what the server adds to the next response (jar cases are sequential).
var respCookies []*fasthttp.Cookie

// cookieHeaderSeen is the Cookie header of the last request the server handled.
var cookieHeaderSeen string

const (
	shortLife = 300 * time.Millisecond // life of an `s` cookie, counted from the start of the case
	shortSafe = 200 * time.Millisecond // everything before the first W must be over by then
)

// runJar runs a case; a case with a W that was too slow to reach it in time (machine under load) is run again.
func runJar(ops []jarOp) string {
	for try := 0; try < 5; try++ {
		if obs, ok := runJarOnce(ops); ok {
			return obs
		}
	}
	return "slow"
}

func runJarOnce(ops []jarOp) (string, bool) {
	now := time.Now()
	waited := false
	jar := &client.CookieJar{}
	cl := client.New().SetDial(dialer).SetCookieJar(jar)
	var obs []string
	uriOf := func(host, path string) *fasthttp.URI {
		u := fasthttp.AcquireURI()
		_ = u.Parse(nil, []byte("http://"+host+path))
		return u
	}
	for _, op := range ops {
		p := make([]string, len(op.parts))
		for i, x := range op.parts {
			if (op.kind == 'S' && i == 4) || (op.kind == 'R' && i == 2) {
				p[i] = x
			} else {
				p[i] = un(x)
			}
		}
		switch op.kind {
		case 'S':
			c := mkCookie(p[1], p[2], p[3], p[4], now)
			jar.SetByHost([]byte(p[0]), c)
			fasthttp.ReleaseCookie(c) // "CookieJar stores copies of the provided cookies, so they may be safely released"
			obs = append(obs, "s")
		case 'K':
			jar.SetKeyValue(p[0], p[1], p[2])
			obs = append(obs, "k")
		case 'G', 'X':
			u := uriOf(p[0], p[1])
			cs := jar.Get(u)
			obs = append(obs, "g="+showCookies(cs))
			if op.kind == 'X' {
				for _, c := range cs {
					fasthttp.ReleaseCookie(c)
				}
			}
			fasthttp.ReleaseURI(u)
		case 'L':
			jar.Release()
			obs = append(obs, "l")
		case 'W':
			if !waited {
				if time.Since(now) > shortSafe {
					return "", false
				}
				time.Sleep(time.Until(now.Add(shortLife + 50*time.Millisecond)))
				waited = true
			}
			obs = append(obs, "w")
		case 'R':
			respCookies = respCookies[:0]
			if p[2] != "-" {
				for _, c := range strings.Split(p[2], "+") {
					at := strings.Split(c, "~")
					respCookies = append(respCookies, mkCookie(un(at[0]), un(at[1]), un(at[2]), at[3], now))
				}
			}
			cookieHeaderSeen = ""
			seen.ran = false
			req := client.AcquireRequest().SetClient(cl).SetTimeout(5 * time.Second)
			resp, err := req.Get("http://" + p[0] + p[1])
			if err != nil {
				client.ReleaseRequest(req)
				obs = append(obs, "r=err:"+hx(err.Error()))
			} else {
				resp.Close()
				if !seen.ran {
					obs = append(obs, "r=notrun")
				} else {
					obs = append(obs, "r="+hx(cookieHeaderSeen))
				}
			}
			for _, c := range respCookies {
				fasthttp.ReleaseCookie(c)
			}
			respCookies = respCookies[:0]
		}
	}
	if len(obs) == 0 {
		return "-", true
	}
	return strings.Join(obs, "|"), true
}

func jarOpsString(ops []jarOp) string {
	if len(ops) == 0 {
		return "-"
	}
	s := make([]string, len(ops))
	for i, o := range ops {
		s[i] = o.String()
	}
	return strings.Join(s, ";")
}

var _ = fmt.Sprint
