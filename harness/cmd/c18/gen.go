package main

import (
	"strings"

	"verifharness/internal/gen"
)

var (
	bases     = []string{"http://example.com", "http://example.com", "http://example.com/api", "http://a.com:8080", ""}
	templates = []string{"/users/:id", "/users/:id/posts/:pid", "/x/:idx/:id", "/x/:id/:idx", "/:a/:ab", "/plain", "/", "",
		"/q?x=1&y=2", "/q?flag", "/q?x=1#frag", "/q?a=1&a=2&b=", "/multi?a=1?b=2", "/users/:id?x=:id", "/f/:id#:pid",
		"/:id/:id", "/v/:missing/z", "/e/:id.json", "/p/:pid-:id", "/api/v1/items:ext", "/d/:id/end", "/r/:pid"}
	pathKeys  = []string{"id", "pid", "a", "ab", "idx", "missing", "other", "ext"}
	safeVals  = []string{"42", "abc", "A-b_c.d~", "0", "x1", "user-7", "v2.1", "Z"}
	riskyVals = []string{"a/b", "a?b", "a#b", "a%2Fb", "", "..", "a b", ":id", ":pid", "x:idx", "é", "a&b=c", "/", "."}
	hdrNames  = []string{"X-A", "X-B", "X-Trace", "X-Api-Key"}
	hdrVals   = []string{"1", "v", "two words", "a,b", "ünï", "x=y; z", "\"q\"", "0", "tok-123"}
	qKeys     = []string{"a", "b", "k k", "ü", "x", "a[]", "k&k", "e="}
	qVals     = []string{"1", "", "two words", "a&b=c", "100%", "+", "ü€", "/path?x#y", "v"}
	ckNames   = []string{"c1", "c2", "sid", "tok"}
	ckVals    = []string{"1", "v", "abc=def", "a b", "x,y", "ünï", "", "0"}
	uas       = []string{"", "", "ua/1.0", "Mozilla/5.0 (X11; Linux)", "fiber", "ü-agent"}
	refs      = []string{"", "", "http://ref.example/p?q=1", "r", "https://x/ y"}
	methods   = []string{"GET", "GET", "POST", "PUT", "DELETE", "PATCH", "OPTIONS"}
)

// genOps draws add/set operations. A `set` on a key that already holds two or more values is not
// generated (which of them fasthttp's stores overwrite is their business, not the property's).
func genOps(r *gen.Rand, keys, vals []string, max int) []entry {
	var es []entry
	count := map[string]int{}
	for i := r.Intn(max + 1); i > 0; i-- {
		op, k := "a", gen.Pick(r, keys)
		if r.Chance(1, 3) && count[k] <= 1 {
			op = "s"
		}
		if op == "a" {
			count[k]++
		} else {
			count[k] = 1
		}
		es = append(es, entry{op, k, gen.Pick(r, vals)})
	}
	return es
}

func genKV(r *gen.Rand, keys, vals []string, max int) []entry {
	var es []entry
	for i := r.Intn(max + 1); i > 0; i-- {
		es = append(es, entry{gen.Pick(r, keys), gen.Pick(r, vals)})
	}
	return es
}

func genAsm(r *gen.Rand, i int, thorough bool) *asmCase {
	a := &asmCase{bodyKind: "none"}
	a.base = gen.Pick(r, bases)
	a.url = gen.Pick(r, templates)
	if a.base == "" || r.Chance(1, 10) {
		a.url = "http://other.com" + a.url
		if r.Chance(1, 3) {
			a.url = "http://other.com:81" + strings.TrimPrefix(a.url, "http://other.com")
		}
	}
	if r.Chance(1, 40) {
		// not an http(s) URL and no base URL to complete it: ErrURLFormat
		a.base = ""
		a.url = gen.Pick(r, []string{"ftp://x/y", "//nohost", "example.com/x", "http:/bad", "/relative"})
	}
	a.method = gen.Pick(r, methods)
	pv := func() string {
		if r.Chance(1, 8) {
			return gen.Pick(r, riskyVals)
		}
		return gen.Pick(r, safeVals)
	}
	for k := r.Intn(4); k > 0; k-- {
		a.cP = append(a.cP, entry{gen.Pick(r, pathKeys), pv()})
	}
	for k := r.Intn(4); k > 0; k-- {
		a.rP = append(a.rP, entry{gen.Pick(r, pathKeys), pv()})
	}
	// request level over client level also when the request's value is the EMPTY string: the same key on both
	// levels, client value non-empty, request value "" (placeholder followed by a literal, inside and at the end
	// of the path)
	if r.Chance(1, 7) {
		k := gen.Pick(r, []string{"id", "pid", "ext", "id", "idx"})
		a.cP = append(a.cP, entry{k, gen.Pick(r, []string{".json", "c7", "Z", "v2.1"})})
		a.rP = append(a.rP, entry{k, ""})
	}
	a.cH = genOps(r, hdrNames, hdrVals, 3)
	a.rH = genOps(r, hdrNames, hdrVals, 3)
	a.cQ = genOps(r, qKeys, qVals, 3)
	a.rQ = genOps(r, qKeys, qVals, 3)
	a.cC = genKV(r, ckNames, ckVals, 3)
	a.rC = genKV(r, ckNames, ckVals, 3)
	if r.Chance(1, 3) {
		a.jarC = genKV(r, ckNames, ckVals, 3)
	}
	a.cUA, a.rUA = gen.Pick(r, uas), gen.Pick(r, uas)
	a.cRef, a.rRef = gen.Pick(r, refs), gen.Pick(r, refs)
	switch r.Intn(6) {
	case 0:
		a.bodyKind = "raw"
		a.body = gen.Pick(r, []string{"", "hello", "{\"a\":1}", "\x00\x01\xff", "a=b&c=d", strings.Repeat("x", 3000)})
	case 1:
		a.bodyKind = "form"
		a.form = genOps(r, qKeys, qVals, 4)
	case 2:
		a.bodyKind = "files"
		a.form = genOps(r, []string{"f1", "f2", "note"}, qVals, 2)
		for k := 1 + r.Intn(2); k > 0; k-- {
			a.files = append(a.files, entry{gen.Pick(r, []string{"", "up", "doc"}), gen.Pick(r, []string{"a.txt", "b.bin", "c d.txt"}),
				gen.Pick(r, []string{"", "content", "\x00\xff\r\n--x", strings.Repeat("z", 2000)})})
		}
	}
	if (a.bodyKind != "none") && a.method == "GET" {
		a.method = "POST"
	}
	// timeout precedence: a few real-time cases with wide margins (30 ms vs 250 ms vs 5 s)
	if (!thorough && i%45 == 7) || (thorough && i%220 == 7) {
		a.delay = 250
		t := gen.Pick(r, [][2]int{{0, 30}, {30, 0}, {30, 5000}, {5000, 30}, {5000, 0}, {0, 5000}, {30, 30}})
		a.cTO, a.rTO = t[0], t[1]
	} else if r.Chance(1, 6) {
		a.cTO, a.rTO = gen.Pick(r, []int{0, 5000}), gen.Pick(r, []int{0, 4000})
	}
	return a
}

var (
	jarHosts = []string{"a.com", "a.com", "b.com", "sub.a.com", "a.com:8080"}
	jarPaths = []string{"", "/", "/a", "/a/b", "/a/b/c", "/ab", "/b", "/a/"}
	reqPaths = []string{"/", "/a", "/a/b", "/a/b/c", "/ab", "/b", "/a/", "/a/x"}
	jarNames = []string{"k", "k2", "sid"}
)

func genExp(r *gen.Rand) string {
	switch r.Intn(6) {
	case 0, 1:
		return "p"
	case 2:
		return "f"
	default:
		return "n"
	}
}

// genJar draws a history. Path vocabulary by mode: 0 = cookies without a path or with "/" (the path test
// cannot matter), 1 = cookie and request paths from a set in which none is a proper prefix of another
// (both path tests agree), 2 = the full mix (K1 region likely). timed: one `s` cookie phase, a W, lookups.
//
// mal: the history starts with a MALFORMED-Set-Cookie episode (see malEpisode); in untimed histories one response step
// in six is such an episode as well.
func genJar(r *gen.Rand, timed, ticked, mal bool) []jarOp {
	var ops []jarOp
	n := 3 + r.Intn(10)
	val := func() string { return gen.Pick(r, []string{"v1", "v2", "v3", "x", ""}) + gen.I(r.Intn(10)) }
	cPaths, rPaths := jarPaths, reqPaths
	switch mode := r.Intn(20); {
	case mode < 7:
		cPaths = []string{"", "/", "", "/"}
	case mode < 12:
		cPaths = []string{"/a", "/b", "/ab", "/c/d", "", "/"}
		rPaths = []string{"/a", "/b", "/ab", "/c/d", "/x"}
	}
	// concentrate on few hosts so that histories interact
	hosts := []string{gen.Pick(r, jarHosts), gen.Pick(r, jarHosts)}
	if r.Chance(1, 3) {
		hosts = append(hosts, gen.Pick(r, jarHosts))
	}
	tick, nT := 0, 0 // ticked: the tick the history has reached, number of waits so far
	exp := func(direct bool) string {
		if timed && direct && r.Chance(1, 2) {
			return "s"
		}
		if ticked && r.Chance(3, 5) && tick <= 6 {
			return "t" + gen.I(tick+1+r.Intn(3)) // expires 1-3 ticks from now (at most t9)
		}
		return genExp(r)
	}
	wAt := -1
	if timed {
		wAt = n/2 + r.Intn(2)
	}
	if mal {
		ops = append(ops, malEpisode(r, gen.Pick(r, hosts), val, cPaths, rPaths)...)
	}
	if timed {
		// a short-lived cookie that is certainly seen alive before and gone after the wait
		ops = append(ops, jarOp{'S', []string{hx(hosts[0]), hx("tmp"), hx(val()), hx(gen.Pick(r, []string{"", "/"})), "s"}},
			jarOp{'G', []string{hx(hosts[0]), hx("/")}})
	}
	if ticked {
		// a cookie that is certainly seen alive in tick 0 and gone later
		ops = append(ops, jarOp{'S', []string{hx(hosts[0]), hx("tmp"), hx(val()), hx(gen.Pick(r, []string{"", "/"})), "t" + gen.I(1+r.Intn(2))}},
			jarOp{'G', []string{hx(hosts[0]), hx("/")}})
	}
	for i := 0; i < n; i++ {
		if ticked && i > 0 && nT < 4 && r.Chance(1, 3) {
			// let 1-2 ticks pass (cookies expire in between), then look
			tick += 1 + r.Intn(2)
			nT++
			ops = append(ops, jarOp{'T', []string{gen.I(tick)}}, jarOp{'G', []string{hx(gen.Pick(r, hosts)), hx("/")}})
		}
		if i == wAt {
			ops = append(ops, jarOp{'W', nil}, jarOp{'G', []string{hx(hosts[0]), hx("/")}})
		}
		h := gen.Pick(r, hosts)
		switch r.Intn(12) {
		case 0, 1, 2:
			ops = append(ops, jarOp{'S', []string{hx(h), hx(gen.Pick(r, jarNames)), hx(val()), hx(gen.Pick(r, cPaths)), exp(i < wAt)}})
		case 3:
			ops = append(ops, jarOp{'K', []string{hx(h), hx(gen.Pick(r, jarNames)), hx(val())}})
		case 4, 5, 6:
			if !timed && !ticked && r.Chance(1, 6) {
				ops = append(ops, malEpisode(r, h, val, cPaths, rPaths)...)
				break
			}
			var cs []string
			for k := r.Intn(3); k > 0; k-- {
				cs = append(cs, hx(gen.Pick(r, jarNames))+"~"+hx(val())+"~"+hx(gen.Pick(r, cPaths))+"~"+genExp(r))
			}
			c := "-"
			if len(cs) > 0 {
				c = strings.Join(cs, "+")
			}
			ops = append(ops, jarOp{'R', []string{hx(h), hx(gen.Pick(r, rPaths)), c}})
		case 7, 8, 9:
			ops = append(ops, jarOp{'G', []string{hx(h), hx(gen.Pick(r, rPaths))}})
		case 10:
			ops = append(ops, jarOp{'X', []string{hx(h), hx(gen.Pick(r, rPaths))}})
		default:
			if r.Chance(1, 3) {
				ops = append(ops, jarOp{'L', nil})
			} else {
				ops = append(ops, jarOp{'G', []string{hx(h), hx(gen.Pick(r, rPaths))}})
			}
		}
	}
	if ticked {
		tick += 1 + r.Intn(2)
		ops = append(ops, jarOp{'T', []string{gen.I(tick)}})
	}
	// always end by looking at every host
	for _, h := range hosts {
		ops = append(ops, jarOp{'G', []string{hx(h), hx(gen.Pick(r, rPaths))}})
	}
	return ops
}

// hostKeyOf: the key the jar files a host under (host without port)
func hostKeyOf(h string) string {
	if i := strings.IndexByte(h, ':'); i >= 0 {
		return h[:i]
	}
	return h
}

// malEpisode: host A answers a request with Set-Cookie lines of which at least one is MALFORMED (fasthttp
// Cookie.ParseBytes fails on it) — [malformed, well-formed] (the jar step runs and handles the object ParseBytes
// failed on), [well-formed, malformed] / [malformed] (the response hook returns the error, nothing is stored), longer
// mixes — then cookies are acquired for ANOTHER host B with a recognisable secret value (SetByHost / SetKeyValue / a
// response from B; one or two of them, so that pooled cookie objects are reused), then every host is read: Get and a
// real request (the Cookie header on the wire) for A, B and a third host C. All on the case's one jar, one goroutine.
func malEpisode(r *gen.Rand, hA string, val func() string, cPaths, rPaths []string) []jarOp {
	var ops []jarOp
	item := func(bad bool, name string) string {
		s := hx(name) + "~" + hx(val()) + "~" + hx(gen.Pick(r, cPaths)) + "~" + genExp(r)
		if bad {
			s += "~" + gen.Pick(r, []string{"e0", "e1", "e2", "l0", "l1", "l2"})
		}
		return s
	}
	var shape []bool // true = malformed
	switch r.Intn(8) {
	case 0, 1, 2:
		shape = []bool{true, false}
	case 3:
		shape = []bool{false, true}
	case 4:
		shape = []bool{true}
	case 5:
		shape = []bool{true, false, false}
	case 6:
		shape = []bool{false, true, false}
	default:
		shape = []bool{true, true, false}
	}
	var cs []string
	for _, bad := range shape {
		name := gen.Pick(r, jarNames)
		if bad && r.Chance(1, 2) {
			name = "bad" // a name nothing else stores: whoever shows it got it from the malformed line
		}
		cs = append(cs, item(bad, name))
	}
	ops = append(ops, jarOp{'R', []string{hx(hA), hx(gen.Pick(r, rPaths)), strings.Join(cs, "+")}})
	other := func(not ...string) string {
		for _, h := range []string{"b.com", "a.com", "sub.a.com", "c.org"} {
			ok := true
			for _, n := range not {
				ok = ok && hostKeyOf(h) != hostKeyOf(n)
			}
			if ok {
				return h
			}
		}
		return "d.net"
	}
	hB := other(hA)
	hC := other(hA, hB)
	secret := func() string { return "secretB" + gen.I(r.Intn(10)) }
	for k := 1 + r.Intn(2); k > 0; k-- {
		switch r.Intn(4) {
		case 0, 1:
			ops = append(ops, jarOp{'S', []string{hx(hB), hx(gen.Pick(r, []string{"s", "k"})), hx(secret()), hx(gen.Pick(r, []string{"", "/"})), gen.Pick(r, []string{"n", "f"})}})
		case 2:
			ops = append(ops, jarOp{'K', []string{hx(hB), hx(gen.Pick(r, []string{"s", "k"})), hx(secret())}})
		default:
			ops = append(ops, jarOp{'R', []string{hx(hB), hx("/"), hx(gen.Pick(r, []string{"s", "k"})) + "~" + hx(secret()) + "~" + hx(gen.Pick(r, []string{"", "/"})) + "~n"}})
		}
	}
	for _, h := range []string{hA, hB, hC} {
		p := gen.Pick(r, rPaths)
		ops = append(ops, jarOp{'G', []string{hx(h), hx(p)}}, jarOp{'R', []string{hx(h), hx(p), "-"}})
	}
	return ops
}

// malformedCounters: generator distribution of the malformed-Set-Cookie histories
func malformedCounters(ops []jarOp) []string {
	var out []string
	anyMal, malThenWf, malLast, after := false, false, false, false
	for i, o := range ops {
		if o.kind != 'R' || o.parts[2] == "-" {
			continue
		}
		items := strings.Split(o.parts[2], "+")
		bad := func(it string) bool { return len(strings.Split(it, "~")) == 5 }
		has := false
		for _, it := range items {
			has = has || bad(it)
		}
		if !has {
			continue
		}
		anyMal = true
		if bad(items[len(items)-1]) {
			malLast = true
		} else {
			malThenWf = true
		}
		// a later store for another host key, then a later lookup
		for j := i + 1; j < len(ops); j++ {
			s := ops[j]
			stores := s.kind == 'S' || s.kind == 'K' || (s.kind == 'R' && s.parts[2] != "-")
			if stores && hostKeyOf(un(s.parts[0])) != hostKeyOf(un(o.parts[0])) {
				for _, l := range ops[j+1:] {
					if l.kind == 'G' || l.kind == 'X' || l.kind == 'R' {
						after = true
					}
				}
			}
		}
	}
	if anyMal {
		out = append(out, "setcookie-malformed")
	}
	if malThenWf {
		out = append(out, "malformed-then-wellformed")
	}
	if malLast {
		out = append(out, "malformed-last-request-fails")
	}
	if after {
		out = append(out, "after-malformed-other-host")
	}
	return out
}

func genSched(r *gen.Rand) []string {
	n := 2 + r.Intn(5)
	acts := make([]string, n)
	for i := range acts {
		acts[i] = gen.Pick(r, []string{"ok", "ok", "cb", "ca", "ca"})
	}
	return acts
}
