package main

import (
	"context"
	"errors"
	"fmt"
	"strconv"
	"strings"
	"sync"
	"sync/atomic"
	"time"

	"github.com/gofiber/fiber/v3/client"
)

// ---- deterministic schedules through the execFunc yield hook -----------------------------------------
//
// A schedule case is a list of requests sent one after the other on ONE client, each with an action:
//   ok  no cancellation: the exchange completes
//   cb  the context is cancelled while the server still holds the request (cancel before completion)
//   ca  the request goroutine is parked at the yield point right after it claimed completion
//       (done 0→1), then the context is cancelled. If the caller returns while that goroutine is still
//       parked, the goroutine stays parked and is resumed in the middle of the NEXT request (while the
//       server holds that one) — the window in which a recycled Response / error channel would be
//       written; otherwise it is resumed after a grace period so that the caller can return.
// Observation per request: T (ErrTimeoutOrCancel) | R<id the response carries> | E<error>.

var (
	hookArmed   atomic.Bool
	hookParked  = make(chan struct{}, 1)
	hookResume  = make(chan struct{})
	gateMu      sync.Mutex
	gates       = map[string]chan struct{}{} // request id → release channel (handler waits)
	gateArrived = make(chan string, 64)
)

func yieldHook(point string) {
	if point != "execFunc:completed" {
		return
	}
	if hookArmed.CompareAndSwap(true, false) {
		hookParked <- struct{}{}
		<-hookResume
	}
}

func setGate(id string) chan struct{} {
	ch := make(chan struct{})
	gateMu.Lock()
	gates[id] = ch
	gateMu.Unlock()
	return ch
}

func takeGate(id string) chan struct{} {
	gateMu.Lock()
	ch := gates[id]
	delete(gates, id)
	gateMu.Unlock()
	return ch
}

type result struct {
	text string
}

func sendExec(cl *client.Client, ctx context.Context, id string, delayMs int) string {
	req := client.AcquireRequest().SetClient(cl).SetContext(ctx).SetHeader("X-Id", id)
	if delayMs > 0 {
		req.SetHeader("X-Delay", strconv.Itoa(delayMs))
	}
	resp, err := req.Get("http://exec.test/exec")
	if err != nil {
		client.ReleaseRequest(req)
		if errors.Is(err, client.ErrTimeoutOrCancel) {
			return "T"
		}
		return "E" + hx(err.Error())
	}
	body := string(resp.Body())
	resp.Close()
	return "R" + body
}

func validSched(s string) ([]string, bool) {
	if s == "-" || s == "" {
		return nil, true
	}
	acts := strings.Split(s, ";")
	if len(acts) > 12 {
		return nil, false
	}
	for _, a := range acts {
		if a != "ok" && a != "cb" && a != "ca" {
			return nil, false
		}
	}
	return acts, true
}

func waitArrived(id string) bool {
	deadline := time.After(2 * time.Second)
	for {
		select {
		case got := <-gateArrived:
			if got == id {
				return true
			}
		case <-deadline:
			return false
		}
	}
}

func runSched(acts []string) string {
	cl := client.New().SetDial(dialer)
	var obs []string
	pendingResume := false // a worker is still parked after its caller returned
	const grace = 20 * time.Millisecond
	for i, act := range acts {
		id := fmt.Sprintf("q%d", i)
		// drain stale arrivals
		for len(gateArrived) > 0 {
			<-gateArrived
		}
		ctx, cancel := context.WithCancel(context.Background())
		done := make(chan string, 1)
		var gate chan struct{}
		if act == "cb" || pendingResume {
			gate = setGate(id)
		}
		if act == "ca" {
			hookArmed.Store(true)
		}
		go func() { done <- sendExec(cl, ctx, id, 0) }()
		res := ""
		if pendingResume {
			// the server holds this request; let the previous request's goroutine run now
			if !waitArrived(id) {
				res = "Estuck"
			}
			hookResume <- struct{}{}
			pendingResume = false
			// give a stale completion the chance to be (wrongly) delivered to this request
			select {
			case res = <-done:
			case <-time.After(grace):
			}
			if act != "cb" {
				close(gate)
				gate = nil
			}
		}
		switch {
		case res != "":
			// already answered (by a stale completion)
			if gate != nil {
				close(gate)
			}
			if act == "ca" {
				// its own worker may still reach the hook later; let it pass
				go func() {
					select {
					case <-hookParked:
						hookResume <- struct{}{}
					case <-time.After(2 * time.Second):
						hookArmed.Store(false)
					}
				}()
			}
		case act == "ok":
			res = <-done
		case act == "cb":
			if gate != nil && !waitArrived(id) {
				res = "Estuck"
			}
			cancel()
			select {
			case res = <-done:
			case <-time.After(2 * time.Second):
				res = "Ehang"
			}
			if gate != nil {
				close(gate)
			}
		case act == "ca":
			select {
			case <-hookParked:
			case r := <-done:
				res = r // completed without reaching the hook (should not happen)
			case <-time.After(2 * time.Second):
				res = "Enohook"
			}
			if res == "" {
				cancel()
				select {
				case res = <-done:
					pendingResume = true // caller left while the goroutine is still parked
				case <-time.After(grace):
					hookResume <- struct{}{}
					res = <-done
				}
			}
		}
		cancel()
		obs = append(obs, res)
	}
	if pendingResume {
		hookResume <- struct{}{}
		time.Sleep(5 * time.Millisecond)
	}
	if len(obs) == 0 {
		return "-"
	}
	return strings.Join(obs, "|")
}

// ---- stress: concurrent use of one client with timeouts around the server's delay ---------------------

func runStress(workers, perWorker, delayMs, timeoutMs int, w counter) string {
	cl := client.New().SetDial(dialer)
	var bad, timeouts, oks atomic.Int64
	var wg sync.WaitGroup
	for g := 0; g < workers; g++ {
		wg.Add(1)
		go func(g int) {
			defer wg.Done()
			defer func() {
				if recover() != nil {
					bad.Add(1)
				}
			}()
			for i := 0; i < perWorker; i++ {
				id := fmt.Sprintf("w%d.%d", g, i)
				to := timeoutMs
				if i%3 == 1 {
					to = timeoutMs * 4
				}
				ctx, cancel := context.WithTimeout(context.Background(), time.Duration(to)*time.Millisecond)
				r := sendExec(cl, ctx, id, delayMs)
				cancel()
				switch {
				case r == "T":
					timeouts.Add(1)
				case r == "R"+id:
					oks.Add(1)
				default:
					bad.Add(1)
				}
			}
		}(g)
	}
	wg.Wait()
	w.add("stress-timeouts", int(timeouts.Load()))
	w.add("stress-ok", int(oks.Load()))
	return fmt.Sprintf("bad=%d", bad.Load())
}

type counter interface{ add(key string, n int) }
