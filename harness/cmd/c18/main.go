// Harness for C18: (asm) the real client assembles requests from client- and request-level
// configuration and a real fiber server (in-memory listener, no sockets) reports what arrived;
// (jar) operation sequences on the real cookie jar, including real response parsing through the
// client; (sched / stress) the execFunc completion/timeout hand-off under the verif yield hook and
// under concurrent use of one client.
package main

import (
	"bufio"
	"encoding/json"
	"fmt"
	"io"
	"net"
	"os"
	"os/exec"
	"strconv"
	"strings"
	"time"

	"github.com/gofiber/fiber/v3"
	"github.com/gofiber/fiber/v3/client"
	"github.com/gofiber/fiber/v3/log"
	"github.com/valyala/fasthttp/fasthttputil"

	"verifharness/internal/gen"
)

var (
	ln           *fasthttputil.InmemoryListener
	handlerDelay time.Duration
)

func dialer(string) (net.Conn, error) { return ln.Dial() }

func startServer() {
	app := fiber.New(fiber.Config{ReadBufferSize: 1 << 20})
	app.All("/exec", func(c fiber.Ctx) error {
		id := string(c.Request().Header.Peek("X-Id"))
		if g := takeGate(id); g != nil {
			gateArrived <- id
			<-g
		}
		if d := c.Get("X-Delay"); d != "" {
			ms, _ := strconv.Atoi(d)
			time.Sleep(time.Duration(ms) * time.Millisecond)
		}
		return c.SendString(id)
	})
	app.All("/*", func(c fiber.Ctx) error {
		seen.text = observeRequest(c)
		seen.ran = true
		cookieHeaderSeen = string(c.Request().Header.Peek("Cookie"))
		for _, line := range setCookieLines() {
			// Add, not SetCookie: fasthttp's SetCookie keeps one cookie per name
			c.Response().Header.Add("Set-Cookie", line)
		}
		if handlerDelay > 0 {
			time.Sleep(handlerDelay)
		}
		return c.SendString("ok")
	})
	ln = fasthttputil.NewInmemoryListener()
	go func() { _ = app.Listener(ln, fiber.ListenConfig{DisableStartupMessage: true}) }()
}

// out is where cases go: the worker's line file (flushed per case, so that a crash of the process loses
// nothing but the case in flight).
type out struct {
	f    *os.File
	w    *bufio.Writer
	pend string // file holding the inputs of the case in flight
	dist map[string]int
	idx  int // index of the case in flight (generated: case number, replay: line number)
}

func newOut(path string) *out {
	f, err := os.Create(path)
	if err != nil {
		fmt.Fprintln(os.Stderr, "harness:", err)
		os.Exit(2)
	}
	return &out{f: f, w: bufio.NewWriter(f), pend: path + ".pending", dist: map[string]int{}}
}

// Pending records the inputs of the case about to run.
func (o *out) Pending(id string, fields ...string) {
	_ = os.WriteFile(o.pend, []byte(strconv.Itoa(o.idx)+"\t"+id+"\t"+strings.Join(fields, "\t")+"\n"), 0o644)
}

func (o *out) Case(id string, fields ...string) {
	o.w.WriteString("case\t" + id + "\t" + strings.Join(fields, "\t") + "\n")
	o.w.Flush()
}

func (o *out) Count(key string) { o.dist[key]++ }

func (o *out) Close() {
	b, _ := json.Marshal(o.dist)
	o.w.WriteString("dist\t" + string(b) + "\n")
	o.w.Flush()
	o.f.Close()
	_ = os.Remove(o.pend)
}

type distCounter struct{ w *out }

func (d distCounter) add(key string, n int) { d.w.dist[key] += n }

// guard turns a panic inside the code under test into an observation (the case stays replayable).
func guard(f func() string) (obs string) {
	defer func() {
		if r := recover(); r != nil {
			obs = "panic=" + gen.Hex(fmt.Sprint(r))
		}
	}()
	return f()
}

func emitAsm(w *out, id string, a *asmCase) {
	w.Pending(id, a.fields()...)
	obs := guard(func() string { return runAsm(a) })
	w.Case(id, append(a.fields(), obs)...)
	w.Count("asm")
	if strings.HasPrefix(obs, "timeout") {
		w.Count("asm-timeout")
	}
}

func emitJar(w *out, id string, ops []jarOp) {
	w.Pending(id, "jar", jarOpsString(ops))
	obs := guard(func() string { return runJar(ops) })
	w.Case(id, "jar", jarOpsString(ops), obs)
	w.Count("jar")
	for _, o := range ops {
		if o.kind == 'W' {
			w.Count("jar-timed")
			break
		}
	}
	for _, o := range ops {
		if o.kind == 'T' {
			w.Count("jar-ticked")
			break
		}
	}
	if obs == "slow" {
		w.Count("jar-slow")
	}
	for _, k := range malformedCounters(ops) {
		w.Count(k)
	}
}

// schedAnomaly: a schedule case ended with something else than T / R<own id>. Schedule cases after an
// anomaly would spend seconds each in their safety timeouts (stale completions keep circulating through the
// pools), so the generator stops drawing them: the anomaly is in the output already.
var schedAnomaly bool

func emitSched(w *out, id string, acts []string) {
	s := "-"
	if len(acts) > 0 {
		s = strings.Join(acts, ";")
	}
	w.Pending(id, "sched", s)
	obs := guard(func() string { return runSched(acts) })
	w.Case(id, "sched", s, obs)
	w.Count("sched")
	if obs != "-" {
		for i, o := range strings.Split(obs, "|") {
			if o != "T" && o != fmt.Sprintf("Rq%d", i) {
				schedAnomaly = true
			}
		}
	}
}

func emitStress(w *out, id string, workers, per, delay, to int) {
	w.Pending(id, "stress", gen.I(workers), gen.I(per), gen.I(delay), gen.I(to))
	obs := guard(func() string { return runStress(workers, per, delay, to, distCounter{w}) })
	w.Case(id, "stress", gen.I(workers), gen.I(per), gen.I(delay), gen.I(to), obs)
	w.Count("stress")
}

func replay(w *out, f []string) {
	defer func() {
		if r := recover(); r != nil {
			w.Count("replay-skipped")
		}
	}()
	if len(f) < 2 {
		return
	}
	id := f[0]
	switch f[1] {
	case "asm":
		a, ok := parseAsm(f[1:])
		if !ok {
			w.Count("replay-skipped")
			return
		}
		emitAsm(w, id, a)
	case "jar":
		if len(f) < 3 {
			w.Count("replay-skipped")
			return
		}
		ops, ok := parseJarOps(f[2])
		if !ok {
			w.Count("replay-skipped")
			return
		}
		emitJar(w, id, ops)
	case "sched":
		if len(f) < 3 {
			w.Count("replay-skipped")
			return
		}
		acts, ok := validSched(f[2])
		if !ok {
			w.Count("replay-skipped")
			return
		}
		emitSched(w, id, acts)
	case "stress":
		if len(f) < 6 {
			w.Count("replay-skipped")
			return
		}
		var n [4]int
		for i := 0; i < 4; i++ {
			v, err := strconv.Atoi(f[2+i])
			if err != nil || v < 0 || v > 5000 {
				w.Count("replay-skipped")
				return
			}
			n[i] = v
		}
		if n[0] > 64 || n[1] > 200 {
			w.Count("replay-skipped")
			return
		}
		emitStress(w, id, n[0], n[1], n[2], n[3])
	default:
		w.Count("replay-skipped")
	}
}

// ---- worker: runs the cases with index in [from, to) in this process ------------------------------------

func nStress(o gen.Opts) int {
	if o.Tier == "thorough" {
		return 12
	}
	return 2
}

// total number of work items: replay lines, or generated cases followed by the stress cases
func total(o gen.Opts) int {
	if o.Replay != "" {
		return len(gen.ReplayInputs(o.Replay))
	}
	return o.N + nStress(o)
}

func worker(o gen.Opts, from, to int) {
	w := newOut(o.Out)
	defer w.Close()
	startServer()
	client.VerifYield = yieldHook
	if o.Replay != "" {
		for i, f := range gen.ReplayInputs(o.Replay) {
			if i >= from && i < to {
				w.idx = i
				replay(w, f)
			}
		}
		return
	}
	root := gen.New(o.Seed)
	// the schedule and timeout cases run in real time (tens of milliseconds each): a tenth of the quick
	// tier, a fiftieth of the thorough one (which is 20 times larger)
	thorough := o.Tier == "thorough"
	for i := from; i < to && i < o.N; i++ {
		w.idx = i
		r := root.Fork(uint64(i))
		id := fmt.Sprintf("s%d.%d", o.Seed, i)
		switch k := i % 20; {
		case k >= 18 && (!thorough || i%100 >= 98) && !schedAnomaly:
			emitSched(w, id, genSched(r))
		case k < 9 || (k >= 18 && (i%40 >= 20 || schedAnomaly)):
			emitAsm(w, id, genAsm(r, i, thorough))
		default:
			// a few histories per run in which cookies expire between two operations (real time: ~0.35 s each)
			// … and every ninth history on a tick clock of a few milliseconds (cookies with different lives, up to
			// five waits of 1-2 ticks, lookups and real requests in between)
			// … and two of nine start with a response carrying a MALFORMED Set-Cookie (malEpisode)
			emitJar(w, id, genJar(r, i%1000 == 13, i%20 == 10, i%20 == 12 || i%20 == 16))
		}
	}
	distCounter{w}.add("pool-rounds", poolRounds)
	distCounter{w}.add("pool-same-object", poolSame)
	distCounter{w}.add("asm-earlier-requests-on-the-client", preRounds)
	for j := 0; j < nStress(o); j++ {
		if i := o.N + j; i >= from && i < to {
			w.idx = i
			r := root.Fork(uint64(1<<40 + j))
			emitStress(w, fmt.Sprintf("s%d.stress%d", o.Seed, j), 4+r.Intn(5), 20+r.Intn(20), 2+r.Intn(3), 2+r.Intn(4))
		}
	}
}

// ---- parent: runs the work in child processes; a child that dies (the code under test corrupted memory,
// panicked in a goroutine of its own, dead-locked the runtime …) costs one case, which is reported with the
// observation `panic=…`, and the run goes on behind it ------------------------------------------------

const chunk = 500

func parent(o gen.Opts) {
	w := gen.NewWriter(o.Out)
	defer w.Close()
	n := total(o)
	tmp := o.Out + ".part"
	for from := 0; from < n; {
		to := from + chunk
		if to > n {
			to = n
		}
		args := []string{"-seed", strconv.FormatUint(o.Seed, 10), "-n", strconv.Itoa(o.N), "-tier", o.Tier, "-out", tmp}
		if o.Replay != "" {
			args = append(args, "-replay", o.Replay)
		}
		cmd := exec.Command(os.Args[0], args...)
		cmd.Env = append(os.Environ(), fmt.Sprintf("C18_WORKER=%d:%d", from, to))
		var stderr strings.Builder
		cmd.Stderr = &stderr
		err := cmd.Run()
		if b, e := os.ReadFile(tmp); e == nil {
			for _, l := range strings.Split(string(b), "\n") {
				f := strings.Split(l, "\t")
				switch {
				case len(f) >= 3 && f[0] == "case":
					w.Case(f[1], f[2:]...)
				case len(f) == 2 && f[0] == "dist":
					var d map[string]int
					if json.Unmarshal([]byte(f[1]), &d) == nil {
						for k, v := range d {
							for ; v > 0; v-- {
								w.Count(k)
							}
						}
					}
				}
			}
		}
		if err == nil {
			from = to
			continue
		}
		// the child died: the case in flight is the failing one
		next := to
		if b, e := os.ReadFile(tmp + ".pending"); e == nil {
			f := strings.Split(strings.TrimRight(string(b), "\n"), "\t")
			if idx, e2 := strconv.Atoi(f[0]); e2 == nil && len(f) >= 3 && idx >= from && idx < to {
				msg := "process died: " + lastLine(stderr.String())
				w.Case(f[1], append(f[2:], "panic="+gen.Hex(msg))...)
				w.Count("worker-died")
				next = idx + 1
			}
		}
		_ = os.Remove(tmp + ".pending")
		from = next
	}
	_ = os.Remove(tmp)
}

func lastLine(s string) string {
	for _, l := range strings.Split(s, "\n") {
		if strings.HasPrefix(l, "panic:") || strings.HasPrefix(l, "fatal error:") {
			if len(l) > 200 {
				l = l[:200]
			}
			return l
		}
	}
	return "no message"
}

func main() {
	log.SetOutput(io.Discard)
	o := gen.ParseFlags()
	if r := os.Getenv("C18_WORKER"); r != "" {
		var from, to int
		if _, err := fmt.Sscanf(r, "%d:%d", &from, &to); err != nil {
			os.Exit(2)
		}
		worker(o, from, to)
		return
	}
	parent(o)
}
