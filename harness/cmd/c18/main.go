// Harness for C18: (asm) the real client assembles requests from client- and request-level
// configuration and a real fiber server (in-memory listener, no sockets) reports what arrived;
// (jar) operation sequences on the real cookie jar, including real response parsing through the
// client; (sched / stress) the execFunc completion/timeout hand-off under the verif yield hook and
// under concurrent use of one client.
package main

import (
	"fmt"
	"io"
	"net"
	"strconv"
	"strings"
	"time"

	"github.com/gofiber/fiber/v3"
	"github.com/gofiber/fiber/v3/client"
	"github.com/gofiber/fiber/v3/log"
	"github.com/valyala/fasthttp/fasthttputil"

	"verifharness/internal/gen"
)

var (
	ln           *fasthttputil.InmemoryListener
	handlerDelay time.Duration
)

func dialer(string) (net.Conn, error) { return ln.Dial() }

func startServer() {
	app := fiber.New(fiber.Config{ReadBufferSize: 1 << 20})
	app.All("/exec", func(c fiber.Ctx) error {
		id := string(c.Request().Header.Peek("X-Id"))
		if g := takeGate(id); g != nil {
			gateArrived <- id
			<-g
		}
		if d := c.Get("X-Delay"); d != "" {
			ms, _ := strconv.Atoi(d)
			time.Sleep(time.Duration(ms) * time.Millisecond)
		}
		return c.SendString(id)
	})
	app.All("/*", func(c fiber.Ctx) error {
		seen.text = observeRequest(c)
		seen.ran = true
		cookieHeaderSeen = string(c.Request().Header.Peek("Cookie"))
		for _, ck := range respCookies {
			// Add, not SetCookie: fasthttp's SetCookie keeps one cookie per name
			c.Response().Header.Add("Set-Cookie", string(ck.Cookie()))
		}
		if handlerDelay > 0 {
			time.Sleep(handlerDelay)
		}
		return c.SendString("ok")
	})
	ln = fasthttputil.NewInmemoryListener()
	go func() { _ = app.Listener(ln, fiber.ListenConfig{DisableStartupMessage: true}) }()
}

type distCounter struct{ w *gen.Writer }

func (d distCounter) add(key string, n int) {
	for i := 0; i < n; i++ {
		d.w.Count(key)
	}
}

func emitAsm(w *gen.Writer, id string, a *asmCase) {
	obs := runAsm(a)
	w.Case(id, append(a.fields(), obs)...)
	w.Count("asm")
	if strings.HasPrefix(obs, "timeout") {
		w.Count("asm-timeout")
	}
}

func emitJar(w *gen.Writer, id string, ops []jarOp) {
	obs := runJar(ops)
	w.Case(id, "jar", jarOpsString(ops), obs)
	w.Count("jar")
}

func emitSched(w *gen.Writer, id string, acts []string) {
	obs := runSched(acts)
	s := "-"
	if len(acts) > 0 {
		s = strings.Join(acts, ";")
	}
	w.Case(id, "sched", s, obs)
	w.Count("sched")
}

func emitStress(w *gen.Writer, id string, workers, per, delay, to int) {
	obs := runStress(workers, per, delay, to, distCounter{w})
	w.Case(id, "stress", gen.I(workers), gen.I(per), gen.I(delay), gen.I(to), obs)
	w.Count("stress")
}

func replay(w *gen.Writer, f []string) {
	defer func() {
		if r := recover(); r != nil {
			w.Count("replay-skipped")
		}
	}()
	if len(f) < 2 {
		return
	}
	id := f[0]
	switch f[1] {
	case "asm":
		a, ok := parseAsm(f[1:])
		if !ok {
			w.Count("replay-skipped")
			return
		}
		emitAsm(w, id, a)
	case "jar":
		if len(f) < 3 {
			w.Count("replay-skipped")
			return
		}
		ops, ok := parseJarOps(f[2])
		if !ok {
			w.Count("replay-skipped")
			return
		}
		emitJar(w, id, ops)
	case "sched":
		if len(f) < 3 {
			w.Count("replay-skipped")
			return
		}
		acts, ok := validSched(f[2])
		if !ok {
			w.Count("replay-skipped")
			return
		}
		emitSched(w, id, acts)
	case "stress":
		if len(f) < 6 {
			w.Count("replay-skipped")
			return
		}
		var n [4]int
		for i := 0; i < 4; i++ {
			v, err := strconv.Atoi(f[2+i])
			if err != nil || v < 0 || v > 5000 {
				w.Count("replay-skipped")
				return
			}
			n[i] = v
		}
		if n[0] > 64 || n[1] > 200 {
			w.Count("replay-skipped")
			return
		}
		emitStress(w, id, n[0], n[1], n[2], n[3])
	default:
		w.Count("replay-skipped")
	}
}

func main() {
	log.SetOutput(io.Discard)
	o := gen.ParseFlags()
	w := gen.NewWriter(o.Out)
	defer w.Close()
	startServer()
	client.VerifYield = yieldHook
	if o.Replay != "" {
		for _, f := range gen.ReplayInputs(o.Replay) {
			replay(w, f)
		}
		return
	}
	root := gen.New(o.Seed)
	nStress := 2
	if o.Tier == "thorough" {
		nStress = 12
	}
	for i := 0; i < o.N; i++ {
		r := root.Fork(uint64(i))
		id := fmt.Sprintf("s%d.%d", o.Seed, i)
		switch k := i % 20; {
		case k < 9:
			emitAsm(w, id, genAsm(r, i))
		case k < 18:
			emitJar(w, id, genJar(r))
		default:
			emitSched(w, id, genSched(r))
		}
	}
	for i := 0; i < nStress; i++ {
		r := root.Fork(uint64(1<<40 + i))
		emitStress(w, fmt.Sprintf("s%d.stress%d", o.Seed, i), 4+r.Intn(5), 20+r.Intn(20), 2+r.Intn(3), 2+r.Intn(4))
	}
}
