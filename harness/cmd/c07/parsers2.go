// Second family of parser cases (deepening): binder key parser, media-range parameters through
// c.Accepts, the route matcher through RoutePatternMatch and through a real app, forwarded
// host / scheme, the body-decoding dispatch with really encoded bodies, the default-value helpers.
//
//	bindq cfg rawQuery | args m1 m2                              c.Bind().Query(&map[string][]string / &map[string]string)
//	ff    content | result                                       binder.FilterFlags
//	accp  cfg accept probes(hexlist) | seen qtable bits          c.Accepts(probe) for each probe (forEachParameter, paramsMatch)
//	match cfgbits pattern path | rpm route                       fiber.RoutePatternMatch + a fresh app with that route
//	fwd   cfg xfh xfp extra | headers uriHost host hostname scheme port local
//	enc2  cfg contentEncoding layers(csv) | seen result rawAfter c.Body() on a body encoded layer by layer
//	pdef  path key dflt(hexlist) intDflt qkey | orig qseen P PI Q QI   c.Params / fiber.Params[int] / c.Query / fiber.Query[int]
package main

import (
	"bytes"
	"encoding/hex"
	"fmt"
	"sort"
	"strconv"
	"strings"

	"github.com/gofiber/fiber/v3"
	"github.com/gofiber/fiber/v3/binder"
	"github.com/valyala/fasthttp"

	"verifharness/internal/gen"
)

func recovered(f func() string) (out string) {
	defer func() {
		if r := recover(); r != nil {
			out = "panic:" + hex.EncodeToString([]byte(strings.ReplaceAll(strings.ReplaceAll(fmt.Sprint(r), "\t", " "), "\n", " ")))
		}
	}()
	return f()
}

// ---- bindq / ff --------------------------------------------------------------------------------------------

func kvList(pairs [][2]string) string {
	if len(pairs) == 0 {
		return "-"
	}
	out := make([]string, len(pairs))
	for i, p := range pairs {
		out[i] = hx(p[0]) + ":" + hx(p[1])
	}
	return strings.Join(out, ",")
}

func runBindQ(cfg, rawQuery string) string {
	op = func(c fiber.Ctx) error {
		var args [][2]string
		c.RequestCtx().QueryArgs().VisitAll(func(k, v []byte) { args = append(args, [2]string{string(k), string(v)}) })
		m1 := map[string][]string{}
		err1 := c.Bind().Query(&m1)
		m2 := map[string]string{}
		err2 := c.Bind().Query(&m2)
		r1 := "ok:"
		if err1 != nil {
			r1 = "err:" + gen.Hex(err1.Error())
		} else {
			var ks []string
			for k := range m1 {
				ks = append(ks, k)
			}
			sort.Strings(ks)
			var parts []string
			for _, k := range ks {
				vs := make([]string, len(m1[k]))
				for i, v := range m1[k] {
					vs[i] = hx(v)
				}
				parts = append(parts, hx(k)+"="+strings.Join(vs, ";"))
			}
			r1 += strings.Join(parts, ",")
		}
		r2 := "ok:"
		if err2 != nil {
			r2 = "err:" + gen.Hex(err2.Error())
		} else {
			var ks []string
			for k := range m2 {
				ks = append(ks, k)
			}
			sort.Strings(ks)
			var parts []string
			for _, k := range ks {
				parts = append(parts, hx(k)+"="+hx(m2[k]))
			}
			r2 += strings.Join(parts, ",")
		}
		return c.SendString(kvList(args) + "|" + r1 + "|" + r2)
	}
	return bodyOf(cfg, []byte("GET /?"+rawQuery+" HTTP/1.1\r\nHost: example.com\r\n\r\n"))
}

func runFF(content string) string {
	return recovered(func() string { return gen.Hex(binder.FilterFlags(content)) })
}

// ---- accp --------------------------------------------------------------------------------------------------

func isTok(c byte) bool { return isTokenByte(c) }

// qCandidates over-approximates the strings getOffer may hand to fasthttp.ParseUfloat for this header.
func qCandidates(h string) []string {
	seen := map[string]bool{}
	var out []string
	add := func(s string) {
		if !seen[s] {
			seen[s] = true
			out = append(out, s)
		}
	}
	for p := 0; p+1 < len(h); p++ {
		if (h[p] != 'q' && h[p] != 'Q') || h[p+1] != '=' {
			continue
		}
		v := p + 2
		// token value
		e := v
		for e < len(h) && isTok(h[e]) {
			e++
		}
		add(h[v:e])
		// quoted value: up to every later double quote
		if v < len(h) && h[v] == '"' {
			for e := v + 1; e < len(h); e++ {
				if h[e] == '"' {
					add(h[v+1 : e])
				}
			}
		}
		// fast path: up to every later comma / the end, right-trimmed of SP / HTAB
		for e := v; e <= len(h); e++ {
			if e == len(h) || h[e] == ',' {
				add(strings.TrimRight(h[v:e], " \t"))
			}
		}
	}
	sort.Strings(out)
	return out
}

func qTable(h string) string {
	cs := qCandidates(h)
	if len(cs) == 0 {
		return "-"
	}
	out := make([]string, len(cs))
	for i, s := range cs {
		v := 0
		if q, err := fasthttp.ParseUfloat([]byte(s)); err == nil {
			if q == 0.0 {
				v = 1
			} else {
				v = 2
			}
		}
		out[i] = hx(s) + ":" + strconv.Itoa(v)
	}
	return strings.Join(out, ",")
}

func runAccP(cfg, hdr string, probes []string) string {
	op = func(c fiber.Ctx) error {
		seen := c.Get("Accept")
		var bits strings.Builder
		for _, p := range probes {
			bits.WriteString(gen.B(c.Accepts(p) != ""))
		}
		return c.SendString(gen.Hex(seen) + "|" + qTable(seen) + "|" + bits.String())
	}
	return bodyOf(cfg, get(cfg, "Accept", hdr))
}

// ---- match -------------------------------------------------------------------------------------------------

func cfgOfBits(bits string) fiber.Config {
	b := func(i int) bool { return i < len(bits) && bits[i] == '1' }
	return fiber.Config{CaseSensitive: b(0), StrictRouting: b(1), UnescapePath: b(2)}
}

// wireSafe: can this path be put into a request line as it is?
func wireSafe(p string) bool {
	if len(p) == 0 || p[0] != '/' || len(p) > 200 {
		return false
	}
	for i := 0; i < len(p); i++ {
		if p[i] <= 0x20 || p[i] == 0x7f || p[i] == '?' || p[i] == '#' {
			return false
		}
	}
	return true
}

func runMatch(bits, pattern, path string) string {
	cfg := cfgOfBits(bits)
	rpm := recovered(func() string { return gen.B(fiber.RoutePatternMatch(path, pattern, cfg)) })
	route := "skip"
	if wireSafe(path) {
		var a *fiber.App
		reg := recovered(func() string {
			a = fiber.New(cfg)
			a.Get(pattern, func(c fiber.Ctx) error {
				var vals []string
				for _, n := range c.Route().Params {
					vals = append(vals, c.Params(n))
				}
				return c.SendString("m:" + gen.HexList(vals) + ":" + gen.Hex(string(c.Request().URI().PathOriginal())))
			})
			a.Use(func(c fiber.Ctx) error {
				return c.SendString("n:" + gen.Hex(string(c.Request().URI().PathOriginal())))
			})
			_ = a.Handler()
			return ""
		})
		if reg != "" {
			route = "reg-panic"
		} else {
			conn := newConn([]byte("GET " + path + " HTTP/1.1\r\nHost: example.com\r\n\r\n"))
			p := serveWatched(a, conn)
			switch {
			case p != "":
				route = "panic"
			default:
				r, err := parseResp(conn.w.Bytes())
				switch {
				case err != nil:
					route = "unparsable"
				case r.status != 200:
					route = "status:" + strconv.Itoa(r.status)
				default:
					route = string(r.body)
				}
			}
		}
	}
	return rpm + "|" + route
}

// ---- fwd ---------------------------------------------------------------------------------------------------

var extraFwdHeaders = [][2]string{{"", ""}, {"X-Forwarded-Ssl", "on"}, {"X-Forwarded-Ssl", "off"}, {"X-Url-Scheme", "wss"},
	{"X-Forwarded-Protocol", "https,http"}, {"X-Forwarded-Port", "443"}, {"X-Forwarded-Proto", "ftp"}}

func runFwd(cfg, xfh, xfp string, extra int) string {
	op = func(c fiber.Ctx) error {
		var hs [][2]string
		c.Request().Header.VisitAll(func(k, v []byte) { hs = append(hs, [2]string{string(k), string(v)}) })
		return c.SendString(kvList(hs) + "|" + gen.Hex(string(c.Request().URI().Host())) + "|" + gen.Hex(c.Host()) + "|" +
			gen.Hex(c.Hostname()) + "|" + gen.Hex(c.Scheme()) + "|" + c.Port() + "|" + gen.B(c.IsFromLocal()))
	}
	var hs []string
	if xfh != "" {
		hs = append(hs, "X-Forwarded-Host", xfh)
	}
	if extra > 0 && extra < len(extraFwdHeaders) && extra%2 == 1 {
		hs = append(hs, extraFwdHeaders[extra][0], extraFwdHeaders[extra][1])
	}
	if xfp != "" {
		hs = append(hs, "X-Forwarded-Proto", xfp)
	}
	if extra > 0 && extra < len(extraFwdHeaders) && extra%2 == 0 {
		hs = append(hs, extraFwdHeaders[extra][0], extraFwdHeaders[extra][1])
	}
	return bodyOf(cfg, get(cfg, hs...))
}

// ---- enc2 --------------------------------------------------------------------------------------------------

// encodeLayer: the encoders fasthttp itself ships (the decoders c.Body() runs are their inverses)
func encodeLayer(coding string, data []byte) []byte {
	switch coding {
	case "gzip":
		return fasthttp.AppendGzipBytes(nil, data)
	case "deflate":
		return fasthttp.AppendDeflateBytes(nil, data)
	case "br":
		return fasthttp.AppendBrotliBytes(nil, data)
	case "zstd":
		return fasthttp.AppendZstdBytes(nil, data)
	}
	return data
}

const enc2Payload = "plain-body-0123456789"

// levels[j] = the body after j outer layers were removed (levels[0] is what is sent)
func enc2Levels(layers []string) [][]byte {
	levels := make([][]byte, len(layers)+1)
	levels[len(layers)] = []byte(enc2Payload)
	for j := len(layers) - 1; j >= 0; j-- {
		levels[j] = encodeLayer(layers[j], levels[j+1])
	}
	return levels
}

func runEnc2(cfg, ce string, layers []string) string {
	levels := enc2Levels(layers)
	class := func(b []byte) string {
		if len(b) == 0 {
			return "nil"
		}
		for j, l := range levels {
			if bytes.Equal(b, l) {
				return "L" + strconv.Itoa(j)
			}
		}
		return "err"
	}
	op = func(c fiber.Ctx) error {
		res := class(c.Body())
		after := class(c.BodyRaw())
		return c.SendString(gen.Hex(string(c.Request().Header.ContentEncoding())) + "|" + res + "|" + after)
	}
	var b bytes.Buffer
	b.WriteString("POST / HTTP/1.1\r\nHost: example.com\r\n")
	if ce != "" {
		b.WriteString("Content-Encoding: " + ce + "\r\n")
	}
	b.WriteString("Content-Length: " + strconv.Itoa(len(levels[0])) + "\r\n\r\n")
	b.Write(levels[0])
	return bodyOf(cfg, b.Bytes())
}

// ---- pdef --------------------------------------------------------------------------------------------------

const pdefPattern = "/p/:id/:name?/*"

var pdefApp *fiber.App

func setupPdef() {
	pdefApp = fiber.New()
	h := func(c fiber.Ctx) error { return op(c) }
	pdefApp.Get(pdefPattern, h)
	pdefApp.Use(h)
	_ = pdefApp.Handler()
	apps["r"] = pdefApp
}

func runPdef(path, key string, dflt []string, intDflt string, qkey string) string {
	if len(path) == 0 || path[0] != '/' || len(path) > 300 {
		return "bad"
	}
	for i := 0; i < len(path); i++ {
		if path[i] <= 0x20 || path[i] == 0x7f || path[i] == '#' {
			return "bad"
		}
	}
	var idf []int
	if intDflt != "-" && intDflt != "" {
		n, err := strconv.Atoi(intDflt)
		if err != nil {
			return "bad"
		}
		idf = []int{n}
	}
	op = func(c fiber.Ctx) error {
		matched := "n"
		if len(c.Route().Params) > 0 {
			matched = "m"
		}
		return c.SendString(matched + "|" + gen.Hex(string(c.Request().URI().PathOriginal())) + "|" +
			gen.Hex(string(c.RequestCtx().QueryArgs().Peek(qkey))) + "|" +
			gen.Hex(c.Params(key, dflt...)) + "|" + strconv.Itoa(fiber.Params[int](c, key, idf...)) + "|" +
			gen.Hex(c.Query(qkey, dflt...)) + "|" + strconv.Itoa(fiber.Query[int](c, qkey, idf...)))
	}
	return bodyOf("r", []byte("GET "+path+" HTTP/1.1\r\nHost: example.com\r\n\r\n"))
}

// ---- dispatch ----------------------------------------------------------------------------------------------

func runCase2(w *gen.Writer, id, kind string, in []string) bool {
	need := func(n int) bool { return len(in) >= n }
	switch kind {
	case "bindq":
		if need(2) {
			w.Case(id, kind, in[0], in[1], runBindQ(in[0], gen.UnHex(in[1])))
		}
	case "ff":
		if need(1) {
			w.Case(id, kind, in[0], runFF(gen.UnHex(in[0])))
		}
	case "accp":
		if need(3) {
			w.Case(id, kind, in[0], in[1], in[2], runAccP(in[0], gen.UnHex(in[1]), gen.UnHexList(in[2])))
		}
	case "match":
		if need(3) {
			w.Case(id, kind, in[0], in[1], in[2], runMatch(in[0], gen.UnHex(in[1]), gen.UnHex(in[2])))
		}
	case "fwd":
		if need(4) {
			extra, err := strconv.Atoi(in[3])
			if err != nil {
				return true
			}
			w.Case(id, kind, in[0], in[1], in[2], in[3], runFwd(in[0], gen.UnHex(in[1]), gen.UnHex(in[2]), extra))
		}
	case "enc2":
		if need(3) {
			var layers []string
			if in[2] != "-" && in[2] != "" {
				layers = strings.Split(in[2], ",")
			}
			if len(layers) > 300 {
				return true
			}
			w.Case(id, kind, in[0], in[1], in[2], runEnc2(in[0], gen.UnHex(in[1]), layers))
		}
	case "pdef":
		if need(5) {
			w.Case(id, kind, in[0], in[1], in[2], in[3], in[4],
				runPdef(gen.UnHex(in[0]), gen.UnHex(in[1]), gen.UnHexList(in[2]), in[3], gen.UnHex(in[4])))
		}
	default:
		return false
	}
	return true
}
