package main

import (
	"bytes"
	"errors"
	"io"
	"net"
	"time"
)

// memConn is an in-memory net.Conn: the server reads the request bytes we put in and the bytes it
// writes are collected. A read after the request is exhausted returns EOF (client closed).
type memConn struct {
	r bytes.Reader
	w bytes.Buffer
}

func newConn(req []byte) *memConn {
	c := &memConn{}
	c.r.Reset(req)
	return c
}

func (c *memConn) Read(b []byte) (int, error) {
	n, err := c.r.Read(b)
	if err != nil {
		return n, io.EOF
	}
	return n, nil
}
func (c *memConn) Write(b []byte) (int, error)      { return c.w.Write(b) }
func (*memConn) Close() error                       { return nil }
func (*memConn) LocalAddr() net.Addr                { return &net.TCPAddr{IP: net.IPv4(127, 0, 0, 1), Port: 80} }
func (*memConn) RemoteAddr() net.Addr               { return &net.TCPAddr{IP: net.IPv4(127, 0, 0, 1), Port: 4242} }
func (*memConn) SetDeadline(time.Time) error        { return nil }
func (*memConn) SetReadDeadline(time.Time) error    { return nil }
func (*memConn) SetWriteDeadline(time.Time) error   { return nil }

var errParse = errors.New("malformed response")

// resp is a strictly parsed HTTP/1.1 response.
type resp struct {
	status  int
	headers [][2]string // in wire order
	body    []byte
}

func isTokenByte(c byte) bool {
	if c >= '0' && c <= '9' || c >= 'a' && c <= 'z' || c >= 'A' && c <= 'Z' {
		return true
	}
	return bytes.IndexByte([]byte("!#$%&'*+-.^_`|~"), c) >= 0
}

// parseRespPrefix strictly parses ONE HTTP/1.1 response at the start of raw and returns the number of
// bytes it occupies. No leniency: CRLF line ends only, "HTTP/1.1 ddd reason", token names, "name: value",
// no bare CR/LF anywhere in the head, one consistent Content-Length framing the body.
func parseRespPrefix2(raw []byte, head bool) (*resp, int, error) {
	r := &resp{}
	i := bytes.Index(raw, []byte("\r\n"))
	if i < 0 {
		return nil, 0, errParse
	}
	sl := raw[:i]
	if len(sl) < 13 || string(sl[:9]) != "HTTP/1.1 " || sl[12] != ' ' {
		return nil, 0, errParse
	}
	for _, c := range sl[9:12] {
		if c < '0' || c > '9' {
			return nil, 0, errParse
		}
		r.status = r.status*10 + int(c-'0')
	}
	if bytes.IndexByte(sl, '\n') >= 0 || bytes.IndexByte(sl, '\r') >= 0 {
		return nil, 0, errParse
	}
	p := i + 2
	cl := -1
	for {
		j := bytes.Index(raw[p:], []byte("\r\n"))
		if j < 0 {
			return nil, 0, errParse
		}
		line := raw[p : p+j]
		p += j + 2
		if len(line) == 0 {
			break
		}
		if bytes.IndexByte(line, '\n') >= 0 || bytes.IndexByte(line, '\r') >= 0 {
			return nil, 0, errParse
		}
		k := bytes.IndexByte(line, ':')
		if k <= 0 {
			return nil, 0, errParse
		}
		for _, c := range line[:k] {
			if !isTokenByte(c) {
				return nil, 0, errParse
			}
		}
		v := bytes.Trim(line[k+1:], " \t")
		r.headers = append(r.headers, [2]string{string(line[:k]), string(v)})
		if string(bytes.ToLower(line[:k])) == "content-length" {
			n := 0
			if len(v) == 0 {
				return nil, 0, errParse
			}
			for _, c := range v {
				if c < '0' || c > '9' {
					return nil, 0, errParse
				}
				n = n*10 + int(c-'0')
			}
			if cl >= 0 && cl != n {
				return nil, 0, errParse
			}
			cl = n
		}
	}
	if cl < 0 || head || r.status == 304 || r.status == 204 || r.status/100 == 1 {
		cl = 0
	}
	if len(raw)-p < cl {
		return nil, 0, errParse
	}
	r.body = raw[p : p+cl]
	return r, p + cl, nil
}

func parseRespPrefix(raw []byte) (*resp, int, error) { return parseRespPrefix2(raw, false) }

// parseResp: exactly one response, nothing after the body
func parseResp(raw []byte) (*resp, error) {
	r, n, err := parseRespPrefix2(raw, false)
	if err != nil || n != len(raw) {
		return nil, errParse
	}
	return r, nil
}

// parseRespHead: reply to a HEAD request (Content-Length without body)
func parseRespHead(raw []byte, head bool) (*resp, error) {
	r, n, err := parseRespPrefix2(raw, head)
	if err != nil || n != len(raw) {
		return nil, errParse
	}
	return r, nil
}

func (r *resp) get(name string) []string {
	var out []string
	for _, h := range r.headers {
		if equalFold(h[0], name) {
			out = append(out, h[1])
		}
	}
	return out
}

func equalFold(a, b string) bool {
	return string(bytes.ToLower([]byte(a))) == string(bytes.ToLower([]byte(b)))
}
