package main

import (
	"strconv"
	"strings"

	"verifharness/internal/gen"
)

// ---- bindq: query keys around the bracket parser ------------------------------------------------------------

func qEsc(s string) string {
	var b strings.Builder
	for i := 0; i < len(s); i++ {
		c := s[i]
		switch {
		case c <= 0x20 || c >= 0x7f || c == '%' || c == '&' || c == '=' || c == '+' || c == '#':
			b.WriteString("%" + strings.ToUpper(strconv.FormatInt(int64(c)+256, 16)[1:]))
		default:
			b.WriteByte(c)
		}
	}
	return b.String()
}

func genBindQ(r *gen.Rand) []string {
	keyAlpha := []string{"a", "b", "[", "]", "[", "]", "[]", "x", ".", "[0]", "name", "é", " ", "]["}
	var parts []string
	for i := r.Intn(4); i >= 0; i-- {
		k := gen.Pick(r, []string{"a", "a[b]", "a[b][c]", "a[]", "a[", "a]", "[a]", "[", "]", "[]", "a[]b", "a[[b]]", "a[b", "x[y]z[", "", "a.b", "a[b].c"})
		if r.Chance(1, 2) {
			k = compose(r, keyAlpha, 6)
		}
		v := gen.Pick(r, []string{"1", "", "x,y", "a,b,c", ",", "v", "1,", "é"})
		if r.Chance(1, 6) {
			parts = append(parts, qEsc(k)) // no '='
		} else {
			parts = append(parts, qEsc(k)+"="+qEsc(v))
		}
	}
	return []string{gen.Pick(r, []string{"d", "d", "p", "i", "c"}), gen.Hex(strings.Join(parts, "&"))}
}

func genFF(r *gen.Rand) []string {
	s := gen.Pick(r, []string{"application/json", "application/json; charset=utf-8", "text/html;q=1", " x", ";", "", "a b;c", "multipart/form-data; boundary=x",
		"é; x", "text/plain ", "a"}) + compose(r, []string{" ", ";", "a", "é", "/", "\xff"}, 3)
	return []string{gen.Hex(s)}
}

// ---- accp: media ranges with parameters ------------------------------------------------------------------------

func genAccP(r *gen.Rand) []string {
	types := []string{"text/html", "text/*", "*/*", "application/json", "text/plain", "image/png", "*", "text", "a/b"}
	pname := []string{"a", "b", "charset", "A", "q", "Q", "level", "q", "", "é", "a b"}
	pval := []string{"1", "2", "utf-8", "\"1\"", "\"x y\"", "\"a\\\"b\"", "\"", "\"open", "\"a\\", "", "0", "0.0", "0.5", "1.0", "x", "0.", "1e-400", "-0", "\"0\"", "\"q\\\\\"", "é"}
	sep := []string{";", ";", "; ", " ;", ";\t", ";;", " ; ", ";"}
	var ranges []string
	for i := r.Intn(3); i >= 0; i-- {
		s := gen.Pick(r, []string{"", "", " ", "\t"}) + gen.Pick(r, types)
		for j := r.Intn(4); j > 0; j-- {
			s += gen.Pick(r, sep)
			switch r.Intn(10) {
			case 0:
				s += gen.Pick(r, pname) // no '='
			case 1:
				s += gen.Pick(r, pname) + "=" // '=' at the very end of the parameter
			case 2:
				s += "=" + gen.Pick(r, pval)
			default:
				s += gen.Pick(r, pname) + gen.Pick(r, []string{"=", "=", "=", " =", "= "}) + gen.Pick(r, pval)
			}
		}
		s += gen.Pick(r, []string{"", "", " ", "\t", ";", "; "})
		ranges = append(ranges, s)
	}
	h := strings.Join(ranges, ",")
	if r.Chance(1, 10) {
		h = gen.Pick(r, []string{";", ";;", ";q", ";q=", ";q=;", "a;", "a;b", "a;b=", "a;b=\"", "a;b=\"\\", ";q=0", "*/*;q=0", ";a=1", "text/html;a=1;q", "text/html;a=\"1\";", "text/html;q=0 ", "text/html;q=0\t,text/plain"})
	}
	probes := []string{"text/html", "html", "text/html;a=1", "text/html;a=2", "text/html;charset=utf-8", "json", "text/plain;a=1;b=2",
		"text/html;A=\"1\"", "text/html; a=1", "png;level=1", "text/html;a=\"x y\"", "text/html;a=\"a\\\"b\"", "text/html;a=;b=1", "text/html;a"}
	n := 4 + r.Intn(4)
	var ps []string
	for i := 0; i < n; i++ {
		ps = append(ps, gen.Pick(r, probes))
	}
	cfg := gen.Pick(r, cfgsPlain)
	if r.Chance(1, 3) {
		// fasthttp strips trailing optional whitespace from a header value: pad what it will store
		cfg, h = "f", padToSizeClass(strings.TrimRight(h, " \t"))
	}
	return []string{cfg, gen.Hex(h), gen.HexList(ps)}
}

// ---- match: patterns × paths -----------------------------------------------------------------------------------

var matchPatterns = []string{
	"/", "/*", "/api/*", "/:id", "/user/:id", "/user/:id?", "/:a/:b", "/:a-:b", "/:a.:b", "/files/*/end", "/+", "/a/+/b", "/:a:b", "/:a?/:b?",
	"/api/:v/users/:id/", "/x/:p<int>", "/x/:p<minLen(2)>", "/x/:p<range(1,9)>/y", "/x/:p<len(3)>?", "/a/*/b/*", "/a/:x/*", "/shop/product/::filter/color::color/size::size",
	"/static\\:x", "/v1/:name/", "/:lang<maxLen(2)>/docs/*", "/a//:b", "/:a/", "/abc/", "/abc", "/ABC/:Id", "/*v", "/:a+", "/::", "/a/:b-:c-:d", "/api/v1/:param/fixedEnd",
	"/config/+.json", "/test/:p1-:p2?", "/*/*", "/:p<min(5)>", "/:p<max(5)>", "/:p<betweenLen(1,3)>", "/:p<bool>", "/:p<int;maxLen(3)>",
}

func genMatch(r *gen.Rand) []string {
	pat := gen.Pick(r, matchPatterns)
	if r.Chance(1, 5) {
		pat = "/" + compose(r, []string{":a", ":b?", "*", "+", "/", "/", "x", "-", ".", "abc", ":c", "\\"}, 6)
	}
	if r.Chance(1, 40) { // many parameters: the value array holds 30
		n := 28 + r.Intn(5)
		var sb strings.Builder
		for i := 0; i < n; i++ {
			sb.WriteString("/:p" + strconv.Itoa(i))
		}
		pat = sb.String()
	}
	// a path that has a chance to match: instantiate the pattern, then perturb
	var sb strings.Builder
	for i := 0; i < len(pat); i++ {
		switch c := pat[i]; {
		case c == ':':
			j := i + 1
			for j < len(pat) && (pat[j] >= 'a' && pat[j] <= 'z' || pat[j] >= 'A' && pat[j] <= 'Z' || pat[j] >= '0' && pat[j] <= '9') {
				j++
			}
			if j < len(pat) && pat[j] == '<' {
				for j < len(pat) && pat[j] != '>' {
					j++
				}
				j++
			}
			if j < len(pat) && pat[j] == '?' {
				j++
			}
			i = j - 1
			sb.WriteString(gen.Pick(r, []string{"v", "42", "7", "abc", "", "a/b", "x-y", "a.b", "V", "%41", "true", "123456"}))
		case c == '*' || c == '+':
			sb.WriteString(gen.Pick(r, []string{"w", "a/b/c", "", "x.json", "a-b", "/", "end", "b/x/b"}))
		case c == '\\':
		default:
			sb.WriteByte(c)
		}
	}
	path := sb.String()
	switch r.Intn(8) {
	case 0:
		path += "/"
	case 1:
		path = strings.ToUpper(path)
	case 2:
		path = gen.Pick(r, []string{"/", "", "//", "/a", "/abc", "/ab", "/abcd", "/api", "/api/", "/x/", "/user", "/user/", "/a/b/c/d/e/f", "/%2F", "/a%2Fb/c", "/%", "/%4", "/a+b"})
	case 3:
		if len(path) > 0 {
			p := r.Intn(len(path))
			path = path[:p] + gen.Pick(r, []string{"/", "-", ".", "x", "%2f", ""}) + path[p:]
		}
	case 4:
		if len(path) > 1 {
			path = path[:len(path)-1-r.Intn(len(path)-1)]
		}
	}
	bits := gen.B(r.Chance(1, 3)) + gen.B(r.Chance(1, 3)) + gen.B(r.Chance(1, 3))
	return []string{bits, gen.Hex(pat), gen.Hex(path)}
}

// ---- fwd -------------------------------------------------------------------------------------------------------

func genFwd(r *gen.Rand) []string {
	xfh := gen.Pick(r, []string{"", "example.org", "a.b:8080, c.d", ",", ",x", "x,", "a:1:2", "[::1]:80", ":", "h:", ":9", "a,b,c", " a , b"})
	if r.Chance(1, 3) {
		xfh = compose(r, []string{"a", ".", ",", ":", "80", "b", " ", "[", "]"}, 6)
	}
	xfp := gen.Pick(r, []string{"", "https", "http", "https,http", ",", ",https", "wss, x", "HTTPS", "a,"})
	return []string{gen.Pick(r, cfgsPlain), gen.Hex(xfh), gen.Hex(xfp), strconv.Itoa(r.Intn(len(extraFwdHeaders)))}
}

// ---- enc2: really encoded bodies -------------------------------------------------------------------------------

func genEnc2(r *gen.Rand, w *gen.Writer) []string {
	codings := []string{"gzip", "deflate", "zstd", "br"}
	var layers []string
	for i := r.Intn(4); i > 0; i-- {
		layers = append(layers, gen.Pick(r, codings))
	}
	if r.Chance(1, 150) { // the uint8 counter of tryDecodeBodyInOrder
		n := 254 + r.Intn(5)
		layers = layers[:0]
		for i := 0; i < n; i++ {
			layers = append(layers, "gzip")
		}
		w.Count("enc2-deep")
	}
	names := map[string][]string{"gzip": {"gzip"}, "deflate": {"deflate"}, "zstd": {"zstd"}, "br": {"br", "brotli"}}
	var hs []string
	for _, l := range layers {
		hs = append(hs, gen.Pick(r, names[l]))
	}
	// perturb the header: drop / add / replace an element, unknown codings, blanks
	if len(layers) < 10 {
		switch r.Intn(7) {
		case 0:
			if len(hs) > 0 {
				p := r.Intn(len(hs))
				hs = append(hs[:p:p], hs[p+1:]...)
			}
		case 1:
			p := r.Intn(len(hs) + 1)
			// never a br decoder on data that is not brotli (no magic number: the outcome is not an error for sure)
			hs = append(hs[:p:p], append([]string{gen.Pick(r, []string{"gzip", "deflate", "zstd", "identity", "x", ""})}, hs[p:]...)...)
		case 2:
			if len(hs) > 0 {
				hs[r.Intn(len(hs))] = gen.Pick(r, []string{"gzip", "deflate", "zstd", "x", "GZIP"})
			}
		}
	}
	ce := strings.Join(hs, gen.Pick(r, []string{",", ", ", ",", " ,", ",  "}))
	ls := "-"
	if len(layers) > 0 {
		ls = strings.Join(layers, ",")
	}
	return []string{gen.Pick(r, cfgsPlain), gen.Hex(ce), ls}
}

// ---- pdef ------------------------------------------------------------------------------------------------------

func genPdef(r *gen.Rand) []string {
	path := gen.Pick(r, []string{"/p/7/bob/x/y", "/p/7", "/p/7/", "/p/abc/n", "/p/99999999999999999999/n/z", "/p/-5/n/", "/q", "/", "/p//n/w", "/P/12/N/W", "/p/+3/a/b", "/p/0x10/a/b", "/p/1_0/a"})
	qk := gen.Pick(r, []string{"a", "n", "missing", "b"})
	q := gen.Pick(r, []string{"", "?a=1", "?a=&n=5", "?n=x", "?a=1&a=2", "?n=-3", "?n=9223372036854775808", "?b", "?a=%31%32", "?n=+7"})
	key := gen.Pick(r, []string{"id", "name", "*", "+", "ID", "nope", "*1", "", "Name", "+1", "*2"})
	var dflt []string
	for i := r.Intn(3); i > 0; i-- {
		dflt = append(dflt, gen.Pick(r, []string{"d", "", "dd"}))
	}
	idf := gen.Pick(r, []string{"-", "-", "0", "7", "-1"})
	return []string{gen.Hex(path + q), gen.Hex(key), gen.HexList(dflt), idf, gen.Hex(qk)}
}

func genCase2(r *gen.Rand, w *gen.Writer) (string, []string) {
	switch x := r.Intn(100); {
	case x < 14:
		return "bindq", genBindQ(r)
	case x < 18:
		return "ff", genFF(r)
	case x < 48:
		return "accp", genAccP(r)
	case x < 76:
		return "match", genMatch(r)
	case x < 84:
		return "fwd", genFwd(r)
	case x < 93:
		return "enc2", genEnc2(r, w)
	default:
		return "pdef", genPdef(r)
	}
}
