package main

import (
	"strconv"
	"strings"

	"verifharness/internal/gen"
)

var injections = []string{"\r\n", "\r", "\n", "\r\nSet-Cookie: evil=1", "\r\n\r\n<html>", "\n\nbody", "\r\nX-Injected: 1\r\n",
	"\n X: y", "\r\r\n", "\n\r"}

var plain = []string{"value", "https://example.com/a?b=c", "/next", "a b", "x;y", "\"q\"", "é✓", "a,b", "utf-8", "", "1", "\t", "\xff\x80"}

// hostile: a value a handler may pass on from user input. Bytes: anything but control characters,
// plus CR / LF / TAB (the bytes that matter for header framing).
func hostile(r *gen.Rand) string {
	s := gen.Pick(r, plain)
	if r.Chance(1, 4) {
		n := 1 + r.Intn(8)
		b := make([]byte, n)
		for i := range b {
			b[i] = byte(32 + r.Intn(224))
			if b[i] == 127 {
				b[i] = 'x'
			}
		}
		s = string(b)
	}
	k := r.Intn(4) // 0: no injection
	for ; k > 2; k-- {
	}
	for i := 0; i < k; i++ {
		inj := gen.Pick(r, injections)
		p := 0
		if len(s) > 0 {
			p = r.Intn(len(s) + 1)
		}
		s = s[:p] + inj + s[p:]
	}
	return s
}

func hostileNonEmpty(r *gen.Rand) string {
	for {
		if s := hostile(r); s != "" {
			return s
		}
	}
}

func strip(s, chars string) string {
	return strings.Map(func(c rune) rune {
		if strings.ContainsRune(chars, c) {
			return -1
		}
		return c
	}, s)
}

var cfgsPlain = []string{"d", "d", "d", "i", "c"}

func genEmit(r *gen.Rand, w *gen.Writer) []string {
	cfg := gen.Pick(r, cfgsPlain)
	helper := gen.Pick(r, []string{"set", "append", "vary", "location", "redirect", "redirect", "cookie", "cookie", "clearcookie",
		"links", "attachment", "type", "format", "json", "jsonp"})
	var a []string
	ints := "-"
	switch helper {
	case "set":
		a = []string{gen.Pick(r, []string{"X-Custom", "X-Frame-Options", "Cache-Control", "X-Request-Id"}), hostile(r)}
	case "append":
		a = []string{gen.Pick(r, []string{"X-Custom", "Link", "X-Request-Id"})}
		for i := r.Intn(4); i > 0; i-- {
			a = append(a, gen.Pick(r, []string{"a", "b", "a", "a, b", " b", "b,", "", hostile(r)}))
		}
	case "vary":
		for i := r.Intn(4); i > 0; i-- {
			a = append(a, gen.Pick(r, []string{"Accept", "Origin", "Accept-Encoding", "Accept", hostile(r)}))
		}
	case "location":
		a = []string{hostile(r)}
	case "redirect":
		a = []string{hostile(r)}
		var ls []string
		for i := r.Intn(3); i > 0; i-- {
			a = append(a, gen.Pick(r, []string{"success", "error", hostile(r)}), hostile(r))
			ls = append(ls, strconv.Itoa(gen.Pick(r, []int{0, 1, 10, 13, 65, 200, r.Intn(256)})))
		}
		if len(ls) > 0 {
			ints = strings.Join(ls, ",")
			w.Count("emit-redirect-flash")
		}
	case "cookie":
		path := gen.Pick(r, []string{"", "/", "/app", "/app/x", "/p" + strip(hostile(r), "%.\\/")})
		a = []string{gen.Pick(r, []string{"sid", "a", "", hostile(r)}), hostile(r), path,
			gen.Pick(r, []string{"", "example.com", hostile(r)}), gen.Pick(r, []string{"", "lax", "Strict", "NONE", "disabled", "bogus"})}
		ints = strings.Join([]string{strconv.Itoa(gen.Pick(r, []int{0, 0, 3600, -1})), gen.B(r.Bool()), gen.B(r.Bool()), gen.B(r.Chance(1, 4)), gen.B(r.Chance(1, 3))}, ",")
	case "clearcookie":
		a = []string{gen.Pick(r, []string{"sid", "token"})}
		if r.Bool() {
			a = append(a, "x"+hostile(r))
		}
	case "links":
		for i := r.Intn(5); i > 0; i-- {
			a = append(a, gen.Pick(r, []string{"http://api.example.com/users?page=2", "next", "last", hostile(r)}))
		}
	case "attachment":
		a = []string{gen.Pick(r, []string{"report.txt", "a b.png", "x", "f" + strip(hostile(r), "/\\")})}
	case "type":
		a = []string{gen.Pick(r, []string{"html", "json", "txt", "png", "xml", "unknownext"}), gen.Pick(r, []string{"utf-8", hostile(r)})}
	case "format":
		a = []string{gen.Pick(r, []string{"text/html", "application/json", hostileNonEmpty(r)})}
	case "json":
		a = []string{gen.Pick(r, []string{"application/problem+json", hostileNonEmpty(r)})}
	case "jsonp":
		a = []string{gen.Pick(r, []string{"cb", "callback", hostile(r)})}
	}
	inj := false
	for _, x := range a {
		if strings.ContainsAny(x, "\r\n") {
			inj = true
		}
	}
	if inj {
		w.Count("emit-with-crlf")
	}
	w.Count("emit-" + helper)
	return []string{cfg, helper, gen.HexList(a), ints}
}

func genRange(r *gen.Rand) []string {
	num := func() string {
		return gen.Pick(r, []string{"0", "1", "5", "99", "100", "499", "1000", "", "x", "1x", "-1", " 5", "00012",
			"9223372036854775807", "9223372036854775808", "18446744073709551616", "99999999999999999999", "922337203685477580", strconv.Itoa(r.Intn(1200))})
	}
	var parts []string
	for i := r.Intn(4); i >= 0; i-- {
		switch r.Intn(8) {
		case 0:
			parts = append(parts, "-"+num())
		case 1:
			parts = append(parts, num()+"-")
		case 2:
			parts = append(parts, gen.Pick(r, []string{"", "-", "5", "a-b", "1-2-3", " 1-2"}))
		default:
			parts = append(parts, num()+"-"+num())
		}
	}
	h := gen.Pick(r, []string{"bytes", "bytes", "items", "", "b=ytes"}) + gen.Pick(r, []string{"=", "=", "=", "", "==", " = "}) +
		strings.Join(parts, gen.Pick(r, []string{",", ", ", ",", " ,"}))
	if r.Chance(1, 12) {
		h = gen.Pick(r, []string{"", "=", "bytes", "=,", "bytes=,", "bytes=-", "a=b=c", ",", "=-"})
	}
	size := gen.Pick(r, []int{0, 1, 100, 1000, 1000, 2147483648})
	return []string{gen.Pick(r, cfgsPlain), gen.Hex(h), strconv.Itoa(size)}
}

func genIPs(r *gen.Rand) []string {
	tok := []string{"1.2.3.4", "10.0.0.1", "256.1.1.1", "1.2.3", "01.2.3.4", "::1", "2001:db8::1", "1::2::3", "::ffff:1.2.3.4", "unknown", "",
		" ", "a.b", ":", ".", "1.2.3.4.5", "fe80::1%eth0", "1.2.3.4:80"}
	var parts []string
	for i := r.Intn(5); i >= 0; i-- {
		parts = append(parts, gen.Pick(r, []string{"", " ", "  "})+gen.Pick(r, tok)+gen.Pick(r, []string{"", " ", ""}))
	}
	h := strings.Join(parts, ",")
	if r.Chance(1, 8) {
		h = gen.Pick(r, []string{",", ",,", ",1.2.3.4", ", 1.2.3.4", "1.2.3.4,", " ", "", ",::1,", ".,:"})
	}
	return []string{gen.Pick(r, []string{"d", "v", "v", "i"}), gen.Hex(h)}
}

// compose concatenates 0..max pieces of the alphabet: every adjacency of separators, blanks and
// tokens occurs (fixed example lists never contained e.g. a blank list member ", ,").
func compose(r *gen.Rand, alphabet []string, max int) string {
	var sb strings.Builder
	for i := r.Intn(max + 1); i > 0; i-- {
		sb.WriteString(gen.Pick(r, alphabet))
	}
	return sb.String()
}

func genSubd(r *gen.Rand) []string {
	h := gen.Pick(r, []string{"a.b.example.com", "example.com", "localhost", "a..b", ".", "a.b.c.d.e:8080", "www.example.co.uk",
		"x.y", "a.", ".a", "1.2.3.4", "a.b.c"})
	if r.Chance(1, 3) {
		h = "a" + compose(r, []string{"a", ".", ".", "b", ":", "80", "example", "com"}, 7)
	}
	return []string{gen.Pick(r, cfgsPlain), gen.Hex(h), strconv.Itoa(r.Intn(7))}
}

func genFresh(r *gen.Rand) []string {
	cc := gen.Pick(r, []string{"", "no-cache", "max-age=0, no-cache", "xno-cache", "no-cachex", "no-cache,", "private,no-cache",
		"no-cache=", "no-cach", "max-age=0", "a no-cache", "no-cache no-cache", "NO-CACHE", "no-cache, no-store", "xno-cache, no-cache"})
	nm := gen.Pick(r, []string{"", "*", "\"abc\"", "W/\"abc\"", "\"x\", \"abc\"", "\"x\" , W/\"abc\"", ",,", ", ", "\"abc\",", "abc", "a bc", " ,\"abc\"",
		"\"x\",\"y\",\"abc\" ", "W/", "\"ab\"", "\"abcd\""})
	if r.Bool() {
		nm = "x" + compose(r, []string{"\"abc\"", "W/\"abc\"", "\"x\"", " ", " ", ",", ",", "*", "W/", "abc", "  ", "\t"}, 7)
		if r.Bool() {
			nm = nm[1:]
		}
	}
	if r.Chance(1, 3) {
		cc = compose(r, []string{"no-cache", "no-cache", " ", ",", "x", "=", "max-age=0", "no-", "cache", "NO-CACHE"}, 5)
	}
	etag := gen.Pick(r, []string{"", "\"abc\"", "W/\"abc\"", "abc", "\"abc\""})
	cfg := gen.Pick(r, cfgsPlain)
	if nm != "" && r.Chance(1, 4) {
		// isEtagStale slices the []byte header value: exact-capacity buffer on a fresh server
		cfg, nm = "f", padToSizeClass(strings.TrimRight(nm, " \t"))
	}
	return []string{cfg, gen.Hex(cc), gen.Hex(nm), gen.Hex(etag)}
}

func genEnc(r *gen.Rand) []string {
	ce := gen.Pick(r, []string{"gzip", "x", "x, y", "x,y", ",", ", x", "x ,y", "gzip, x", "identity", "br", ",,", "a,b,c,d", "x,", " ,x", "x,  y",
		"é", "x y", "deflate", "zstd", "brotli", "GZIP", "x, gzip"})
	if r.Chance(1, 3) {
		ce = "x" + compose(r, []string{"x", "gzip", " ", ",", ",", "  ", "y", "identity"}, 6)
		if r.Bool() {
			ce = ce[1:]
		}
	}
	return []string{gen.Pick(r, cfgsPlain), gen.Hex(ce)}
}

// sizeClasses: capacities Go's append gives a fresh []byte. fasthttp stores a header value with
// append(kv.value[:0], v...), so on a FRESH server (cfg "f") a value of exactly such a length has
// len == cap: only then does a slice expression one past the end panic instead of reading slack.
var sizeClasses = []int{8, 16, 24, 32, 48, 64, 80, 96, 112, 128}

// padToSizeClass prefixes list elements ("x,") so that the header's length is a size class.
func padToSizeClass(h string) string {
	for _, c := range sizeClasses {
		if len(h) == c {
			return h
		}
		if len(h) < c {
			return strings.Repeat("x", c-len(h)-1) + "," + h
		}
	}
	return h
}

func genAcc(r *gen.Rand) []string {
	tok := []string{"utf-8", "*", "iso-8859-1", "utf", "\"a,b\"", "a\\\"b", "x/y", "*/*", "text/*", "", " ", "\"", "\"utf-8", "a\\", "\\\"", "x\"y\"z",
		"\"a\\", "x;a=\"b\\", "\"\\\\", "\"a,b\\"}
	var parts []string
	for i := r.Intn(4); i >= 0; i-- {
		parts = append(parts, gen.Pick(r, []string{"", " ", "", " ", "\t", " \t"})+gen.Pick(r, tok)+gen.Pick(r, []string{"", "", "", " ", "\t"}))
	}
	h := strings.Join(parts, ",")
	var offers []string
	for i := r.Intn(3); i >= 0; i-- {
		offers = append(offers, gen.Pick(r, []string{"utf-8", "iso-8859-1", "utf", "x", "a", "\"a,b\""}))
	}
	cfg := gen.Pick(r, cfgsPlain)
	if r.Chance(1, 3) {
		cfg, h = "f", padToSizeClass(h)
	}
	return []string{cfg, gen.Hex(h), gen.HexList(offers)}
}

func genOffer(r *gen.Rand) []string {
	spec := gen.Pick(r, []string{"text/html", "text/*", "*/*", "application/json", "image/*", "text/htm", "te", "text", "/", "text/", "*", "application/*", "image/png",
		"text/html;a=\"x\\", "text/html;a=\"x,y\";q=0.5", "text/*;a=\"\\\"\"", "a/b;c=\"d\\\\", "text/html;a=\""})
	offer := gen.Pick(r, []string{"html", "json", "png", "text/html", "text/*", "application/xml", "txt", "xml", "text/plain", "image/png", "unknownext"})
	cfg := gen.Pick(r, cfgsPlain)
	if r.Chance(1, 3) {
		cfg, spec = "f", padToSizeClass(spec)
	}
	return []string{cfg, gen.Hex(spec), gen.Hex(offer)}
}

func genMethod(r *gen.Rand) []string {
	m := gen.Pick(r, []string{"GET", "HEAD", "POST", "PUT", "DELETE", "CONNECT", "OPTIONS", "TRACE", "PATCH", "BREW", "PROPFIND", "FOO", "get", "G-ET",
		"M_1", "PURGE", "LINK", "Get", "GETT", "GE", "QUERY"})
	return []string{gen.Pick(r, []string{"d", "d", "m", "m", "c", "i"}), gen.Hex(m)}
}

func genSrvErr(r *gen.Rand) []string {
	switch r.Intn(5) {
	case 0: // header block larger than the read buffer
		return []string{"s", "ErrSmallBuffer", gen.Hex("GET / HTTP/1.1\r\nHost: example.com\r\nX-Big: " + strings.Repeat("a", 600+r.Intn(400)) + "\r\n\r\n")}
	case 1: // body larger than BodyLimit
		n := 65 + r.Intn(200)
		return []string{"s", "ErrBodyTooLarge", gen.Hex("POST / HTTP/1.1\r\nHost: example.com\r\nContent-Length: " + strconv.Itoa(n) + "\r\n\r\n" + strings.Repeat("b", n))}
	case 2: // non-GET on a GET-only server
		return []string{"g", "ErrGetOnly", gen.Hex(gen.Pick(r, []string{"POST", "PUT", "DELETE"}) + " / HTTP/1.1\r\nHost: example.com\r\nContent-Length: 0\r\n\r\n")}
	default: // malformed requests
		bad := gen.Pick(r, []string{
			"GET / HTTP/1.1\r\nHost: example.com\r\nX: a\x00b\r\n\r\n",
			"GET / HTTP/1.1\r\nHost: example.com\r\nNoColon\r\n\r\n",
			"GET  HTTP/1.1\r\nHost: example.com\r\n\r\n",
			"GET / HTTP/1.1\r\nHost: example.com\r\nContent-Length: abc\r\n\r\n",
			"GET / HTTP/1.1\r\nHost: example.com\r\nX: \x7f\r\n\r\n",
			"G\x01T / HTTP/1.1\r\nHost: example.com\r\n\r\n",
			"GET / HTTP/1.1\r\n: novalue\r\n\r\n",
		})
		return []string{gen.Pick(r, []string{"d", "i", "c", "s"}), "default", gen.Hex(bad)}
	}
}

// wireShape: request shapes beyond "headers + Content-Length body": chunked bodies (well and badly
// formed), Expect: 100-continue, very many header lines, multipart bodies with boundary variants,
// pipelined requests.
func wireShape(r *gen.Rand, host string) string {
	post := func(extra []string, body string) string {
		return "POST /?a=1 HTTP/1.1\r\n" + host + "\r\n" + strings.Join(extra, "\r\n") + "\r\n\r\n" + body
	}
	switch r.Intn(6) {
	case 0: // chunked
		chunks := gen.Pick(r, []string{
			"5\r\nhello\r\n0\r\n\r\n", "5\r\na=1&b\r\n0\r\n\r\n", "a\r\n0123456789\r\nA\r\n0123456789\r\n0\r\n\r\n", "1\r\nx\r\n1\r\ny\r\n1\r\nz\r\n0\r\n\r\n",
			"5\r\nhello\r\n0\r\n\r\n", "2\r\n{}\r\n0\r\n\r\n", "1\r\na\r\n2\r\nbc\r\n0\r\n\r\n", "0\r\n\r\n", "5;ext=1\r\nhello\r\n0\r\n\r\n",
			"5\r\nhello\r\n0\r\nX-Trailer: v\r\n\r\n", "ffffffffffffffff\r\nx", "zz\r\nhello\r\n0\r\n\r\n", "5\r\nhel", "5\nhello\n0\n\n",
			"-1\r\nx\r\n0\r\n\r\n", "5\r\nhelloXX0\r\n\r\n", "7fffffff\r\nab\r\n", "\r\n", "5\r\nhello\r\n", "00000000000000005\r\nhello\r\n0\r\n\r\n",
			"3\r\na=1\r\n4\r\n&b=2\r\n0\r\n\r\n"})
		te := gen.Pick(r, []string{"chunked", "chunked", "chunked", "chunked", "Chunked", "gzip, chunked", "chunked, chunked", "identity", "chunked\r\nContent-Length: 5", "x"})
		return post([]string{"Transfer-Encoding: " + te, "Content-Type: application/x-www-form-urlencoded"}, chunks)
	case 1: // Expect: 100-continue
		body := gen.Pick(r, []string{"a=1&b=2", "", "x"})
		cl := gen.Pick(r, []string{strconv.Itoa(len(body)), strconv.Itoa(len(body)), "0", "5", "99999999999"})
		return post([]string{"Expect: " + gen.Pick(r, []string{"100-continue", "100-Continue", "100-continue, x", "200-ok", ""}), "Content-Length: " + cl}, body)
	case 2: // very many header lines (ReadBufferSize is 4096 by default, 512 for cfg s)
		n := 60 + r.Intn(340)
		var hs []string
		for i := 0; i < n; i++ {
			switch r.Intn(6) {
			case 0:
				hs = append(hs, "Cookie: c"+strconv.Itoa(i)+"=v")
			case 1:
				hs = append(hs, "Accept: text/html;q=0."+strconv.Itoa(i%10))
			case 2:
				hs = append(hs, "X-Forwarded-For: 1.2.3."+strconv.Itoa(i%256))
			default:
				hs = append(hs, "X-H"+strconv.Itoa(i)+": v")
			}
		}
		return "GET / HTTP/1.1\r\n" + host + "\r\n" + strings.Join(hs, "\r\n") + "\r\n\r\n"
	case 3, 4: // multipart
		bnd := gen.Pick(r, []string{"xx", "----WebKitFormBoundary7MA4YWxkTrZu0gW", "\"q b\"", "", "a", strings.Repeat("b", 71), "x y", "--", "xx; charset=utf-8", "\"xx"})
		use := strings.Trim(bnd, "\"")
		if i := strings.IndexByte(use, ';'); i >= 0 {
			use = use[:i]
		}
		part := func(disp, ctype, content string) string {
			h := "--" + use + "\r\nContent-Disposition: " + disp + "\r\n"
			if ctype != "" {
				h += "Content-Type: " + ctype + "\r\n"
			}
			return h + "\r\n" + content + "\r\n"
		}
		var body strings.Builder
		for i := r.Intn(4); i >= 0; i-- {
			body.WriteString(part(gen.Pick(r, []string{"form-data; name=\"f\"; filename=\"a.txt\"", "form-data; name=\"a\"", "form-data", "form-data; name=\"f\"; filename=\"../../x\"",
				"form-data; name=\"\"", "attachment", "form-data; name=\"f\"; filename=\"a\rb\"", "form-data; name=a; name=b", "form-data; filename*=utf-8''x"}),
				gen.Pick(r, []string{"", "text/plain", "application/octet-stream", "multipart/mixed; boundary=yy"}),
				gen.Pick(r, []string{"hi", "", "--" + use, "line1\r\n--" + use + "x", strings.Repeat("z", 300)})))
		}
		switch r.Intn(5) {
		case 0: // no closing delimiter
		case 1:
			body.WriteString("--" + use + "--")
		case 2:
			body.WriteString("--" + use + "--\r\nepilogue")
		default:
			body.WriteString("--" + use + "--\r\n")
		}
		bs := body.String()
		cl := gen.Pick(r, []string{strconv.Itoa(len(bs)), strconv.Itoa(len(bs)), strconv.Itoa(len(bs)), strconv.Itoa(len(bs)), strconv.Itoa(len(bs)), strconv.Itoa(len(bs)),
			strconv.Itoa(len(bs) / 2), strconv.Itoa(len(bs) + 7)})
		ct := "multipart/form-data; boundary=" + bnd
		if r.Chance(1, 8) {
			ct = gen.Pick(r, []string{"multipart/form-data", "multipart/form-data;", "multipart/form-data; boundary", "multipart/form-data; BOUNDARY=xx", "multipart/mixed; boundary=xx", "multipart/form-data; boundary=xx; boundary=yy"})
		}
		return post([]string{"Content-Type: " + ct, "Content-Length: " + cl}, bs)
	default: // pipelined requests on one connection
		var sb strings.Builder
		for i := 1 + r.Intn(4); i > 0; i-- {
			switch r.Intn(4) {
			case 0:
				sb.WriteString("POST /p?to=/n HTTP/1.1\r\n" + host + "\r\nContent-Length: 3\r\nContent-Type: application/x-www-form-urlencoded\r\n\r\na=1")
			case 1:
				sb.WriteString("GET /a/b?x=1 HTTP/1.1\r\n" + host + "\r\nAccept: text/html;level=1, */*;q=0.1\r\nRange: bytes=0-1,5-\r\n\r\n")
			case 2:
				sb.WriteString("BREW / HTTP/1.1\r\n" + host + "\r\n\r\n")
			default:
				sb.WriteString("GET / HTTP/1.1\r\n" + host + "\r\nConnection: " + gen.Pick(r, []string{"keep-alive", "close", "upgrade"}) + "\r\n\r\n")
			}
		}
		if r.Chance(1, 4) {
			sb.WriteString("GET /tail HTTP/1.1\r\nHost")
		}
		return sb.String()
	}
}

// wire: grammar + mutation of raw request bytes
func genWire(r *gen.Rand) []string {
	method := gen.Pick(r, []string{"GET", "POST", "PUT", "HEAD", "OPTIONS", "BREW", "get"})
	path := gen.Pick(r, []string{"/", "/a/b?to=%0d%0aX:1&a=1&a=2", "/%zz", "/a%00b", "//", "/?to=/x%0aSet-Cookie:a=b", "/a?x[y]=1&x[=2", "*", "/ï"})
	hs := []string{"Host: " + gen.Pick(r, []string{"example.com", "a..b", "", "[::1]:80", "x:y:z"})}
	pool := []string{
		"Range: " + gen.Pick(r, []string{"bytes=0-1", "bytes=-", "=", "bytes=1-,,-5", "bytes=99999999999999999999-"}),
		"Accept: " + gen.Pick(r, []string{"text/html;q=0.5, */*", "\"", "a/b;q=\"", ";;;,,,", "text/*;level=\"1\\\"", "*/*;q=x"}),
		"Accept-Encoding: " + gen.Pick(r, []string{"gzip", ",", "br;q=1.0, *;q=0"}),
		"Accept-Language: " + gen.Pick(r, []string{"en-US,en;q=0.9", "*-*", ""}),
		"Cookie: " + gen.Pick(r, []string{"a=b", "fiber_flash=\x91\x80", "fiber_flash=\xdc\xff\xff", "a", "=;=;;", "fiber_flash=\x92\x84\xa3key"}),
		"Content-Encoding: " + gen.Pick(r, []string{"gzip", "x, y", ",", "br, gzip, deflate, zstd"}),
		"X-Forwarded-For: " + gen.Pick(r, []string{"1.2.3.4, ::1", ",,,", ":", "1.2.3.4"}),
		"X-Forwarded-Host: " + gen.Pick(r, []string{"a.b,c", ",", "x:99999"}),
		"X-Forwarded-Proto: " + gen.Pick(r, []string{"https", "", "a,b"}),
		"If-None-Match: " + gen.Pick(r, []string{"*", "\"a\", \"b\"", ",,"}),
		"Cache-Control: " + gen.Pick(r, []string{"no-cache", "xno-cache"}),
		"Referer: " + gen.Pick(r, []string{"http://x/", "/a b", "é"}),
		"X-Echo: " + gen.Pick(r, []string{"v", "a\tb", "\xff"}),
		"X-Cookie: " + gen.Pick(r, []string{"v", "a;b", "a b"}),
		"X-Link: " + gen.Pick(r, []string{"<x>", "\"", "a,b"}),
		"X-Vary: " + gen.Pick(r, []string{"Origin", "a, b", ""}),
		"Content-Type: " + gen.Pick(r, []string{"application/x-www-form-urlencoded", "multipart/form-data; boundary=xx", "multipart/form-data", "application/json", ";"}),
		"X-Requested-With: XMLHttpRequest",
	}
	for i := r.Intn(7); i > 0; i-- {
		hs = append(hs, gen.Pick(r, pool))
	}
	body := ""
	if method == "POST" || method == "PUT" {
		body = gen.Pick(r, []string{"a=1&b=2", "--xx\r\nContent-Disposition: form-data; name=\"f\"; filename=\"a\"\r\n\r\nhi\r\n--xx--\r\n", "{", "\x1f\x8b\x08", ""})
		hs = append(hs, "Content-Length: "+gen.Pick(r, []string{strconv.Itoa(len(body)), strconv.Itoa(len(body)), "0", "x", "99"}))
	}
	raw := method + " " + path + " HTTP/1.1\r\n" + strings.Join(hs, "\r\n") + "\r\n\r\n" + body
	muts := r.Intn(3)
	if r.Chance(2, 5) {
		raw = wireShape(r, gen.Pick(r, []string{hs[0], "Host: example.com"}))
		if r.Bool() { // half of the shaped requests go out as built (framing intact)
			muts = 0
		}
	}
	b := []byte(raw)
	for k := muts; k > 0 && len(b) > 0; k-- { // byte-level mutations
		p := r.Intn(len(b))
		switch r.Intn(4) {
		case 0:
			b[p] = byte(r.Intn(256))
		case 1:
			b = append(b[:p], b[p+1:]...)
		case 2:
			b = append(b[:p], append([]byte{gen.Pick(r, []byte{0, '\r', '\n', ' ', ':', ',', '"', 0xff})}, b[p:]...)...)
		case 3:
			b = b[:p]
		}
	}
	return []string{gen.Pick(r, []string{"d", "d", "v", "i", "c", "s", "m"}), gen.Hex(string(b))}
}

func genCase(r *gen.Rand, w *gen.Writer) (string, []string) {
	// one case in four goes to the second family of parser cases (gen2.go)
	if r.Chance(1, 4) {
		return genCase2(r, w)
	}
	switch x := r.Intn(100); {
	case x < 38:
		return "emit", genEmit(r, w)
	case x < 47:
		return "range", genRange(r)
	case x < 55:
		return "ips", genIPs(r)
	case x < 59:
		return "subd", genSubd(r)
	case x < 66:
		return "fresh", genFresh(r)
	case x < 70:
		return "enc", genEnc(r)
	case x < 76:
		return "acc", genAcc(r)
	case x < 80:
		return "offer", genOffer(r)
	case x < 85:
		return "method", genMethod(r)
	case x < 88:
		return "srverr", genSrvErr(r)
	default:
		return "wire", genWire(r)
	}
}
